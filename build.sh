#!/bin/sh
# Builds the checker offline with the 1.26.8 toolchain (see DESIGN.md section 1).
set -e
cd "$(dirname "$0")/checker"
export GOFLAGS=-mod=mod GOPROXY=off GOSUMDB=off GOTOOLCHAIN=local GOWORK=off
export PATH=/opt/veriftools/go1.26.8/bin:$PATH
mkdir -p ../bin ../evidence
go build -o ../bin/mtxcheck .
