#!/usr/bin/env python3
# usage: markfixed.py <property> <rule-prefix> <commit>
import json,sys
p='/verif/known_findings.json'
d=json.load(open(p))
n=0
for f in d['findings']:
    if f['property']==sys.argv[1] and f['rule'].startswith(sys.argv[2]) and f['status']=='known':
        f['status']='fixed'; f['commit']=sys.argv[3]
        if not f['what'].startswith('fixed:'):
            f['what']='fixed: property=%s %s %s'%(sys.argv[1],sys.argv[3],f['what'])
        n+=1
json.dump(d,open(p,'w'),indent=1,ensure_ascii=False); open(p,'a').write("\n")
print(n,'entries marked fixed')
