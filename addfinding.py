#!/usr/bin/env python3
# usage: addfinding.py property status rule construct what [commit]
import json,sys
p='/verif/known_findings.json'
d=json.load(open(p))
e={"property":sys.argv[1],"status":sys.argv[2],"rule":sys.argv[3],"construct":sys.argv[4],"what":sys.argv[5]}
if len(sys.argv)>6: e["commit"]=sys.argv[6]
d["findings"].append(e)
json.dump(d,open(p,'w'),indent=1,ensure_ascii=False); open(p,'a').write("\n")
