package main

import (
	"fmt"
	"go/token"
	"go/types"
	"regexp"
	"sort"
	"strconv"
	"strings"

	"golang.org/x/tools/go/ssa"
)

// C35 - no unauthenticated network input crashes the server.
//
// Explicitly NOT a crash-freedom proof. What is decided is a set of crash-site
// rules (DESIGN.md E6) on the code of the module:
//   P1  every explicit panic(...) of the module is classified (table);
//   P3  every single-value type assertion in the listener packages is
//       discharged (UserData/SetUserData agreement) or classified (table);
//   P4c every constant index / constant-bound slice of a slice or string in
//       the listener packages is behind a length fact for that value;
//   P5  every integer division by a non-constant in the listener packages has
//       a non-zero fact for the divisor (locally or at every call site);
//   HF  the HTTP handler chain rejects empty / non-rooted request paths
//       before any gin handler runs (the fact `URL.Path[1:]` sites rely on).

var c35Scope = []string{"internal/servers", "internal/api", "internal/metrics", "internal/pprof", "internal/protocols/httpp", "internal/protocols/httpp3", "internal/protocols/whip"}

// packages that are not part of the server binary's request handling
var c35NotServer = []string{"internal/test", "internal/core/test_on_demand", "internal/apidocsgen", "internal/teste2e"}

func c35InScope(fn *ssa.Function) bool {
	pp := strings.TrimPrefix(funcPkgPath(fn), modPath+"/")
	for _, pre := range c35Scope {
		if pp == pre || strings.HasPrefix(pp, pre+"/") {
			return true
		}
	}
	return false
}

// ---- P1 table: function | panic argument -> (count, reason)
type c35Row struct {
	n      int
	reason string
}

const (
	c35State  = "internal state-machine invariant (flags written only by the owning goroutine); not a function of request bytes"
	c35Config = "value comes from the validated configuration (conf.Validate rejects everything else); not a function of request bytes"
	c35NTP    = "library invariant: once the source reported an absolute time it keeps reporting one (trusted, third party)"
	c35Unimpl = "net.Conn method of an internal adapter whose only consumers (MPEG-TS / RTP readers) call Read/Close/SetReadDeadline; never called"
)

var c35Panics = map[string]c35Row{
	"conf.mustParseCIDR|net.ParseCIDR($0)#2":                                                                             {1, "called with string constants only (default configuration)"},
	"core.New|github.com/alecthomas/kong.New(*":                                                                          {1, "command-line parser construction at start-up; constant grammar"},
	"(*core.path).executeRemovePublisher|\"should not happen\"":                                                          {1, "StartOfflineSubStream fails only when the offline description cannot be built; it was built successfully by setAvailable for the same configuration"},
	"(*core.path).doSourceStaticSetNotReady|\"should not happen\"":                                                       {1, "same as executeRemovePublisher (always-available path, offline sub stream restart)"},
	"(*core.path).run|(*core.path).setAvailable($0, nil, \"\", nil, true)":                                               {1, "always-available path start-up: fails only on an invalid alwaysAvailableFile/tracks configuration; " + c35Config},
	"(*core.path).doOnDemandStaticSourceCloseTimer|\"should not happen\"":                                                {1, c35State},
	"forward.destProtocol|\"should not happen\"":                                                                         {1, c35Config},
	"(*forward.DestHandler).runOnce|\"should not happen\"":                                                               {1, c35Config},
	"protocols/hls.ToStream|\"should not happen\"":                                                                       {1, "track codec switch over the closed set produced by gohlslib (HLS *source*, outbound connection, not a listener)"},
	"protocols/hls.ToStream$1|\"should not happen\"":                                                                     {1, c35NTP + "; HLS source (outbound)"},
	"protocols/rtsp.ToStream$1|\"should not happen\"":                                                                    {1, c35NTP},
	"protocols/webrtc.ToStream$4|\"should not happen\"":                                                                  {1, c35NTP},
	"(*protocols/udp.Listener).Write|\"unimplemented\"":                                                                  {1, c35Unimpl},
	"(*protocols/udp.Listener).LocalAddr|\"unimplemented\"":                                                              {1, c35Unimpl},
	"(*protocols/udp.Listener).RemoteAddr|\"unimplemented\"":                                                             {1, c35Unimpl},
	"(*protocols/udp.Listener).SetDeadline|\"unimplemented\"":                                                            {1, c35Unimpl},
	"(*protocols/udp.Listener).SetWriteDeadline|\"unimplemented\"":                                                       {1, c35Unimpl},
	"(*protocols/unix.Listener).Write|\"unimplemented\"":                                                                 {1, c35Unimpl},
	"(*protocols/unix.Listener).LocalAddr|\"unimplemented\"":                                                             {1, c35Unimpl},
	"(*protocols/unix.Listener).RemoteAddr|\"unimplemented\"":                                                            {1, c35Unimpl},
	"(*protocols/unix.Listener).SetDeadline|\"unimplemented\"":                                                           {1, c35Unimpl},
	"(*protocols/unix.Listener).SetWriteDeadline|\"unimplemented\"":                                                      {1, c35Unimpl},
	"(*protocols/webrtc.InboundTrack).stripTWCCExtension|(*github.com/pion/rtp.Header).DelExtension(*":                   {1, "DelExtension fails only when the extension is absent; guarded by GetExtension(id) != nil two lines above"},
	"(*protocols/webrtc.InboundTrack).start|(*github.com/bluenviron/gortsplib/v5/pkg/rtpreceiver.Receiver).Initialize(*": {1, "Initialize fails only for Period == 0; Period is the constant 1s"},
	"(*protocols/webrtc.InboundTrack).start$3|github.com/pion/rtcp.Unmarshal(*":                                          {1, "TRUSTED, NOT VERIFIED: malformed RTCP is dropped by the pion interceptor chain before Read returns it (comment in the source); peer is a WebRTC client past ICE/DTLS"},
	"(*protocols/webrtc.OutboundTrack).setup$2|github.com/pion/rtcp.Unmarshal(*":                                         {1, "TRUSTED, NOT VERIFIED: same as InboundTrack.start$3"},
	"(*protocols/webrtc.InboundTrack).start|protocols/webrtc.randUint16()#1":                                             {1, "crypto/rand failure only"},
	"recorder.jpegExtractSize|(*github.com/bluenviron/mediacommon/v2/pkg/codecs/jpeg.StartOfFrame1).Unmarshal(*":         {1, "TRUSTED, NOT VERIFIED: the image is assembled by gortsplib's RTP/JPEG decoder (markers generated by the decoder, not copied from the wire); recording must be enabled"},
	"(*recorder.formatMPEGTS).initialize|(*github.com/bluenviron/mediacommon/v2/pkg/formats/mpegts.Writer).Initialize(*": {1, "tracks are produced by the recorder's own codec mapping (closed set accepted by the writer)"},
	"(*staticsources.Handler).Initialize|\"should not happen\"":                                                          {1, c35Config},
	"(*staticsources.Handler).Start|\"should not happen\"":                                                               {1, c35State},
	"(*staticsources.Handler).Stop|\"should not happen\"":                                                                {1, c35State},
	"(*stream.offlineSubStreamTrack).run|\"should not happen\"":                                                          {1, "format switch over the closed set produced by buildOfflineDesc"},
	"(*stream.offlineSubStreamTrack).run|(*stream.offlineSubStreamTrack).runFile(*":                                      {2, "offline (always-available) media: embedded file or the configured alwaysAvailableFile; file content, not network input"},
	"(*stream.offlineSubStreamTrack).run|os.Open($0.file)#1":                                                             {1, "configured alwaysAvailableFile disappeared; file system, not network input"},
	"(*stream.Stream).Initialize|\"should not happen\"":                                                                  {2, c35State},
	"(*stream.Stream).StartOfflineSubStream|\"should not happen\"":                                                       {1, c35State},
	"(*stream.SubStream).Initialize|\"should not happen\"":                                                               {3, c35State},
}

// ---- P3 table (listener packages)
var c35Asserts = map[string]string{
	"(*servers/rtmp.conn).ip|(net.Conn).RemoteAddr($0.nconn) -> *net.TCPAddr":                                                           "the RTMP listener is a TCP (or TLS over TCP) listener; Accept returns TCP connections",
	"(*servers/rtsp.conn).ip|(net.Conn).RemoteAddr((*github.com/bluenviron/gortsplib/v5.ServerConn).NetConn($0.rconn)) -> *net.TCPAddr": "gortsplib serves RTSP over TCP connections only",
	"(*servers/srt.conn).ip|(github.com/datarhei/gosrt.ConnRequest).RemoteAddr($0.connReq) -> *net.UDPAddr":                             "SRT runs over UDP; gosrt fills RemoteAddr from ReadFrom of a UDP socket",
	"(*servers/moq.httpServer).onRequestHTTPS3|$1.Writer -> servers/moq.ginUnwrapper":                                                   "gin's responseWriter implements Unwrap(); served by http3.Server whose handler panics are recovered by quic-go",
	"(*servers/moq.nativeListener).initialize|$0.ln -> *net.UDPConn":                                                                    "start-up: result of net.ListenPacket(\"udp\", …)",
	"(*servers/webrtc.Server).Initialize|$0.udpMuxLn -> *net.UDPConn":                                                                   "start-up: result of net.ListenPacket(\"udp\", …)",
	"(*protocols/httpp3.Server).Initialize|$0.ln -> *net.UDPConn":                                                                       "start-up: result of net.ListenPacket(\"udp\", …)",
	"protocols/whip.LinkHeaderMarshal|$0[_].Credential -> string":                                                                       "ICE server list generated by the server (credential is always a string); outbound header",
}

// ---- P4c table (listener packages)
var c35Index = map[string]string{
	"(*servers/rtsp.session).onRecord|(*github.com/bluenviron/gortsplib/v5.ServerSession).Path($0.rsession)[1:]": "RECORD follows ANNOUNCE on the same session (gortsplib state machine); onAnnounce rejected paths that are empty or do not start with '/'",
	"(*servers/moq.session).onDataCatalog|$2.Objects[0]":                                                         "subgroup.SubGroup.Read succeeded (caller returns on error) and sets Objects = []Object{first}",
	"(*servers/moq.httpServer).onRequestHTTPS3|$1.Request.URL.Path[1:]":                                          "served by http3.Server: quic-go recovers handler panics per request (no process exit); path comes from url.ParseRequestURI",
	"protocols/whip.LinkHeaderMarshal|$0[_].URLs[0]":                                                             "ICE server list generated by the server from configuration (one URL per entry); outbound header",
}

func init() {
	register(Property{ID: "C35", Level: "other", Run: runC35,
		Technique: "static analysis: crash-site rules over go/ssa (explicit panics, unchecked type assertions, constant-bound index/slice without a length fact, integer division without a non-zero fact) with path-condition discharge, plus a handler-chain invariant for HTTP request paths",
		Text:      "NOT a crash-freedom proof. Decides: (P1) every explicit panic(...) in the server's packages is one of the classified sites (table with a reason per site; a new or moved panic is reported); (P3) every single-value type assertion in the listener packages (internal/servers/*, api, metrics, pprof, protocols/httpp, protocols/httpp3, protocols/whip) has its dynamic type fixed by construction - UserData() is asserted to the type every SetUserData() call in the module stores - or is a classified site; (P4c) in the same packages every x[k], x[k:], x[:k] with constant k on a slice or string is reached only through branch literals that imply len(x) > k (len comparisons, x == \"\", strings.HasPrefix(x, const)), or x has a length fixed by construction (array backing, strings.Split(...)[0], FindStringSubmatch under a non-nil test with k <= number of groups of the constant pattern, bufio Peek(n) under err == nil), or x is Request.URL.Path[1:] in a handler served through the httpp chain; (HF) that chain contains handlerFilterRequests, which forwards a request only if URL.Path is non-empty and rooted, and every net/http.Server of the module is built there; (P5) integer / and % by a non-constant in those packages has a non-zero fact for the divisor locally or at every call site; (CO) every close(x.f) of a channel kept in a field, in those packages, runs at most once by structure: an atomic test-and-set (non-blocking receive from the same channel that found it open, or a state field compared with a constant and then set to a falsifying constant) made in ONE critical section of a mutex of the object on every path to the close, or a deferred close in the single goroutine started per make(chan) of that field, or a classified lifecycle site; and the field is closed at one site only (double close panics; a client drives several goroutines of one session concurrently). Panics are process-fatal: the only recover() in the module re-exits (handlerExitOnPanic). Not decided: third-party parsers and protocol stacks (gortsplib, pion, gosrt, quic-go, gin, gohlslib), non-constant index arithmetic, nil dereferences, memory exhaustion, the media pipeline behind the listeners (stream, recorder, codecs: C23/C27/C28), playback file parsing (C28).",
		Note:      "trusted: the reasons in the classification tables (each names the invariant relied on; entries marked TRUSTED, NOT VERIFIED depend on third-party behaviour); go/ssa construction; regexp/syntax for group counts"})
	addMutants(
		Mutant{"C35", "http-filter-removed-from-chain", "internal/protocols/httpp/server.go",
			"\th = &handlerFilterRequests{h}\n", "", "C35.http_filter.chain"},
		Mutant{"C35", "http-filter-forwards-empty-path", "internal/protocols/httpp/handler_filter_requests.go",
			"if r.URL.Path == \"\" || r.URL.Path[0] != '/' {", "if r.URL.Path != \"\" && r.URL.Path[0] != '/' {", "C35.http_filter.guard"},
		Mutant{"C35", "srt-streamid-min-parts-unchecked", "internal/servers/srt/streamid.go",
			"if len(parts) < 2 || len(parts) > 5 {", "if len(parts) > 5 {", "C35.index"},
		Mutant{"C35", "rtsp-describe-empty-path", "internal/servers/rtsp/conn.go",
			"if len(ctx.Path) == 0 || ctx.Path[0] != '/' {", "if len(ctx.Path) != 0 && ctx.Path[0] != '/' {", "C35.index"},
		Mutant{"C35", "moq-peek-error-ignored", "internal/servers/moq/session.go",
			"firstByte, err := br.Peek(1)\n\tif err != nil {\n\t\treturn err\n\t}\n", "firstByte, _ := br.Peek(1)\n", "C35.index"},
		Mutant{"C35", "whip-regexp-group-out-of-range", "internal/servers/webrtc/http_server.go",
			"s.onWHIPPatch(ctx, m[3])", "s.onWHIPPatch(ctx, m[4])", "C35.index"},
		Mutant{"C35", "bearer-without-colon-check", "internal/protocols/httpp/credentials.go",
			"len(parts) == 2 {", "len(parts) >= 1 {", "C35.index"},
		Mutant{"C35", "srt-streamid-panics-on-bad-value", "internal/servers/srt/streamid.go",
			"return fmt.Errorf(\"invalid value\")", "panic(\"invalid value\")", "C35.panic"},
		Mutant{"C35", "hls-unchecked-flusher-assertion", "internal/servers/hls/http_server.go",
			"\t\tctx.Writer.Write(hlsMinJS)\n", "\t\tctx.Writer.Write(hlsMinJS)\n\t\tctx.Writer.(http.Flusher).Flush()\n", "C35.assert"},
		Mutant{"C35", "rtsp-userdata-of-other-type", "internal/servers/rtsp/server.go",
			"c := ctx.Conn.UserData().(*conn)\n\treturn c.onDescribe(ctx)", "c := ctx.Conn.UserData().(*conn)\n\tctx.Conn.SetUserData(s)\n\treturn c.onDescribe(ctx)", "C35.assert"},
		Mutant{"C35", "moq-setup-check-then-close-without-lock", "internal/servers/moq/session.go",
			"func (s *session) processSetupMessage(m *controlmessage.Setup) error {\n\ts.mutex.Lock()\n\tdefer s.mutex.Unlock()\n", "func (s *session) processSetupMessage(m *controlmessage.Setup) error {\n", "C35.close_once"},
		Mutant{"C35", "moq-publish-state-set-after-unlock", "internal/servers/moq/session.go",
			"\ts.state = defs.APIMoQSessionStatePublish\n\ts.mutex.Unlock()\n", "\ts.mutex.Unlock()\n\ts.state = defs.APIMoQSessionStatePublish\n", "C35.close_once"},
		Mutant{"C35", "moq-session-run-started-twice", "internal/servers/moq/session.go",
			"\tgo s.run()\n", "\tgo s.run()\n\tgo s.run()\n", "C35.close_once"},
		Mutant{"C35", "api-items-per-page-zero", "internal/api/paginate.go",
			"if itemsPerPage == 0 {", "if itemsPerPage < 0 {", "C35.div"},
	)
}

func runC35(c *Ctx) {
	p := c.Main()
	if p == nil {
		return
	}
	// MoQ control and data streams are decoded before any authentication: the
	// decoder safety obligations of C32 (allocation bounds incl. capacities, slice
	// and index guards, loop progress, explicit crash sites) are obligations of C35
	// too. The table-agreement rules of C32 (varint/wire/msgtype) are not.
	subObligations(c, runC32, "C32.", "C35.moq_decode.", func(rule string) bool {
		for _, k := range []string{"C32.alloc_bound", "C32.slice_guard", "C32.index_guard", "C32.loop_progress", "C32.no_crash_site"} {
			if strings.HasPrefix(rule, k) {
				return true
			}
		}
		return false
	})
	c.Explain = "P1 C35.panic: every ssa.Panic with a source position in the module (outside " + strings.Join(c35NotServer, ", ") + ") matches a row (function | argument) of the classification table with the tabled multiplicity; stale rows are reported. " +
		"P3 C35.assert / P4c C35.index / P5 C35.div: functions of " + strings.Join(c35Scope, ", ") + ". HF C35.http_filter.{guard,chain,servers}. " +
		"CO C35.close_once: forward data flow (lock held / tests passed in the current critical section / gated) from the function entry to each close of a field channel, entering extracted helpers; deferred closes are discharged by the one-goroutine-per-make pattern; C35.close_once.single_site: one close site per channel field. " +
		"Length facts are recognised on the canonical description of the indexed value (loads of the same field path), provided no store to that path can reach the access. " +
		"NOT decided: third-party stacks, non-constant indices, nil dereference, the media pipeline (stream/recorder/codecs), playback file parsing; absence of a report is not crash freedom."
	c.Assume = []string{
		"the reasons given in the classification tables hold (state-machine invariants, validated configuration, third-party library invariants)",
		"gin/net/http deliver Request.URL as parsed by url.ParseRequestURI; quic-go's http3 server recovers handler panics",
		"gortsplib, pion, gosrt, gohlslib, quic-go do not panic on malformed input (not analysed)",
	}

	c35P1(c, p)
	c35CloseOnce(c, p)
	c35HTTPFilter(c, p)
	setUD := c35UserDataTypes(p)
	nA, nI, nD := 0, 0, 0
	for _, fn := range p.ModFuncs() {
		if !c35InScope(fn) {
			continue
		}
		a, i, d := c35Func(c, p, fn, setUD)
		nA, nI, nD = nA+a, nI+i, nD+d
		if a+i+d > 0 {
			c.Analysed(fnName(fn))
		}
	}
	c.Floor("C35.assert", nA, 20)
	c.Floor("C35.index", nI, 40)
	c.Floor("C35.div", nD, 3)

	// recover(): informational - establishes that reported sites are process-fatal
	var recs []string
	for _, fn := range p.ModFuncs() {
		eachInstr(fn, func(i ssa.Instruction) {
			if cc := callCommon(i); cc != nil {
				if b, ok := cc.Value.(*ssa.Builtin); ok && b.Name() == "recover" {
					recs = append(recs, shortFn(fn))
				}
			}
		})
	}
	sort.Strings(recs)
	c.Count("recover() sites in the module", len(recs))
	c.Trusted = append(c.Trusted, "recover() sites: "+strings.Join(recs, ", ")+" (handlerExitOnPanic prints the stack and calls os.Exit(1))")
}

// ---------------------------------------------------------------- P1

func c35PanicKey(fn *ssa.Function, pn *ssa.Panic) string {
	return shortFn(fn) + "|" + desc(pn.X)
}

func c35P1(c *Ctx, p *Prog) {
	found := map[string]int{}
	pos := map[string]string{}
	match := func(key string) (string, bool) {
		if _, ok := c35Panics[key]; ok {
			return key, true
		}
		for k := range c35Panics {
			if strings.HasSuffix(k, "*") && strings.HasPrefix(key, strings.TrimSuffix(k, "*")) {
				return k, true
			}
		}
		return "", false
	}
	n := 0
	for _, fn := range p.ModFuncs() {
		pp := strings.TrimPrefix(funcPkgPath(fn), modPath+"/")
		skip := false
		for _, pre := range c35NotServer {
			if strings.HasPrefix(pp, pre) {
				skip = true
			}
		}
		if skip {
			continue
		}
		eachInstr(fn, func(i ssa.Instruction) {
			pn, ok := i.(*ssa.Panic)
			if !ok || !pn.Pos().IsValid() {
				return // compiler generated (select without matching case)
			}
			n++
			key := c35PanicKey(fn, pn)
			row, ok := match(key)
			if !ok {
				c.Check("C35.panic", "unclassified panic in "+shortFn(fn)+": panic("+trunc(desc(pn.X), 80)+")", false, p.Pos(pn.Pos()),
					"an explicit panic is process-fatal (no recover in the module); classify it in the C35 table with the invariant that makes it unreachable from network input, or return an error")
				return
			}
			found[row]++
			pos[row] = p.Pos(pn.Pos())
		})
	}
	var rows []string
	for k := range c35Panics {
		rows = append(rows, k)
	}
	sort.Strings(rows)
	for _, k := range rows {
		r := c35Panics[k]
		c.Check("C35.panic", "classified panic site "+k, found[k] == r.n, pos[k], fmt.Sprintf("found %d, tabled %d: %s", found[k], r.n, r.reason))
	}
	c.Floor("C35.panic", n, 30)
}

// ---------------------------------------------------------------- HF

func c35HTTPFilter(c *Ctx, p *Prog) {
	// (guard) the filter forwards only non-empty, rooted paths
	sh := c.fn(p, "internal/protocols/httpp", "handlerFilterRequests", "ServeHTTP")
	if sh != nil {
		fwd := callTo("(net/http.Handler).ServeHTTP")
		c.passE(p, sh, "C35.http_filter.guard", "(*httpp.handlerFilterRequests).ServeHTTP: forwards only when URL.Path != \"\"", fwd, F(`($2.URL.Path == "")`))
		c.passE(p, sh, "C35.http_filter.guard", "(*httpp.handlerFilterRequests).ServeHTTP: forwards only when URL.Path[0] == '/'", fwd, T(`($2.URL.Path[0] == 47)`))
		for _, i := range callsIn(sh, "(net/http.Handler).ServeHTTP") {
			cc := callCommon(i)
			c.Check("C35.http_filter.guard", "(*httpp.handlerFilterRequests).ServeHTTP: forwards the same request", strings.HasPrefix(desc(cc.Value), "$0.") && strings.Count(desc(cc.Value), ".") == 1 && len(cc.Args) == 2 && desc(cc.Args[1]) == "$2",
				p.Pos(posOf(i, sh)), "")
		}
	}
	// (chain) Server.Initialize wraps s.Handler in the filter and serves the wrapped handler
	in := c.fn(p, "internal/protocols/httpp", "Server", "Initialize")
	if in != nil {
		inner := map[ssa.Value]ssa.Value{} // wrapper alloc -> wrapped value (field h)
		eachInstr(in, func(i ssa.Instruction) {
			st, ok := i.(*ssa.Store)
			if !ok {
				return
			}
			fa, ok := st.Addr.(*ssa.FieldAddr)
			// the wrapped handler: the wrapper's field of type http.Handler (whatever its name)
			if !ok || typeStr(fa.Type().Underlying().(*types.Pointer).Elem()) != "net/http.Handler" {
				return
			}
			if a, ok := fa.X.(*ssa.Alloc); ok && strings.HasPrefix(typeStr(a.Type()), "*protocols/httpp.handler") {
				inner[a] = st.Val
			}
		})
		var served ssa.Value
		eachInstr(in, func(i ssa.Instruction) {
			st, ok := i.(*ssa.Store)
			if !ok {
				return
			}
			if fa, ok := st.Addr.(*ssa.FieldAddr); ok && fieldAddrName(fa) == "Handler" && typeStr(fa.X.Type()) == "*net/http.Server" {
				served = st.Val
			}
		})
		var chain []string
		hasFilter, reachesUser := false, false
		v := served
		for n := 0; v != nil && n < 20; n++ {
			v = through(v)
			if la := loadAddr(v); la != nil {
				// a load of s.tracker etc.: follow the single store of that field in this function
				if fa, ok := la.(*ssa.FieldAddr); ok {
					if desc(fa) == "$0.Handler" {
						reachesUser = true
						break
					}
					var sv ssa.Value
					for _, st := range fieldStores(in, "", fieldAddrName(fa)) {
						if desc(st.Addr) == desc(fa) {
							sv = st.Val
						}
					}
					v = sv
					continue
				}
			}
			a, ok := v.(*ssa.Alloc)
			if !ok {
				break
			}
			t := strings.TrimPrefix(typeStr(a.Type()), "*protocols/httpp.")
			chain = append(chain, t)
			if t == "handlerFilterRequests" {
				hasFilter = true
			}
			v = inner[a]
		}
		c.Check("C35.http_filter.chain", "(*httpp.Server).Initialize: http.Server.Handler = … handlerFilterRequests{ … s.Handler }", served != nil && hasFilter && reachesUser,
			p.Pos(in.Pos()), "chain: "+strings.Join(chain, " > ")+fmt.Sprintf(" (reaches s.Handler: %v)", reachesUser))
	}
	// (servers) every net/http.Server of the module is the one built there
	n := 0
	for _, fn := range p.ModFuncs() {
		eachInstr(fn, func(i ssa.Instruction) {
			a, ok := i.(*ssa.Alloc)
			if !ok || typeStr(a.Type()) != "*net/http.Server" {
				return
			}
			n++
			c.Check("C35.http_filter.servers", "net/http.Server constructed in "+shortFn(fn), shortFn(fn) == "(*protocols/httpp.Server).Initialize", p.Pos(a.Pos()),
				"an HTTP listener outside httpp.Server bypasses handlerFilterRequests (URL.Path[1:] sites) and handlerExitOnPanic")
		})
	}
	c.Floor("C35.http_filter.servers", n, 1)
}

// ---------------------------------------------------------------- P3 helper

// c35UserDataTypes: receiver type of SetUserData -> set of stored dynamic types.
func c35UserDataTypes(p *Prog) map[string]map[string]bool {
	out := map[string]map[string]bool{}
	for _, fn := range p.ModFuncs() {
		eachInstr(fn, func(i ssa.Instruction) {
			cc := callCommon(i)
			if cc == nil || cc.IsInvoke() {
				return
			}
			f := cc.StaticCallee()
			if f == nil || f.Name() != "SetUserData" || f.Signature.Recv() == nil || len(cc.Args) != 2 {
				return
			}
			recv := typeStr(f.Signature.Recv().Type())
			if out[recv] == nil {
				out[recv] = map[string]bool{}
			}
			t := "?" + desc(cc.Args[1])
			if mi, ok := cc.Args[1].(*ssa.MakeInterface); ok {
				t = typeStr(mi.X.Type())
			}
			out[recv][t] = true
		})
	}
	return out
}

// ---------------------------------------------------------------- per function

func c35Func(c *Ctx, p *Prog, fn *ssa.Function, setUD map[string]map[string]bool) (nA, nI, nD int) {
	f := shortFn(fn)
	eachInstr(fn, func(i ssa.Instruction) {
		switch x := i.(type) {
		case *ssa.TypeAssert:
			if x.CommaOk {
				return
			}
			nA++
			what := desc(x.X) + " -> " + typeStr(x.AssertedType)
			key := f + "|" + what
			// (a) UserData agreement
			if cl, ok := x.X.(*ssa.Call); ok && !cl.Call.IsInvoke() {
				if cal := cl.Call.StaticCallee(); cal != nil && cal.Name() == "UserData" && cal.Signature.Recv() != nil {
					set := setUD[typeStr(cal.Signature.Recv().Type())]
					var ts []string
					for t := range set {
						ts = append(ts, t)
					}
					sort.Strings(ts)
					ok := len(ts) == 1 && ts[0] == typeStr(x.AssertedType)
					c.Check("C35.assert", f+": "+trunc(what, 120), ok, p.Pos(posOf(i, fn)),
						"UserData() is asserted to "+typeStr(x.AssertedType)+"; SetUserData calls in the module store: "+strings.Join(ts, ", "))
					return
				}
			}
			reason, ok := c35Asserts[key]
			c.Check("C35.assert", f+": "+trunc(what, 120), ok, p.Pos(posOf(i, fn)),
				map[bool]string{true: "classified: " + reason, false: "single-value type assertion on a value whose dynamic type is not fixed by construction: use the two-value form or classify the site"}[ok])

		case *ssa.IndexAddr:
			if k, isK := constIntE(x.Index); isK {
				if _, isSl := x.X.Type().Underlying().(*types.Slice); isSl {
					nI++
					c35Access(c, p, fn, i, x.X, int(k)+1, "["+itoa(int(k))+"]")
				}
			}
		case *ssa.Lookup:
			if k, isK := constIntE(x.Index); isK {
				if b, ok := x.X.Type().Underlying().(*types.Basic); ok && b.Info()&types.IsString != 0 {
					nI++
					c35Access(c, p, fn, i, x.X, int(k)+1, "["+itoa(int(k))+"]")
				}
			}
		case *ssa.Slice:
			if _, isPtr := x.X.Type().Underlying().(*types.Pointer); isPtr {
				return // array backing: bounds are compile-time
			}
			need, what := 0, ""
			if x.Low != nil {
				if k, isK := constIntE(x.Low); isK && k > 0 {
					need, what = int(k), "["+itoa(int(k))+":"
				}
			}
			if x.High != nil {
				if k, isK := constIntE(x.High); isK && int(k) > need {
					need = int(k)
					if what == "" {
						what = "[:"
					}
					what += itoa(int(k))
				}
			}
			if need == 0 {
				return
			}
			if !strings.HasSuffix(what, "]") {
				what += "]"
			}
			nI++
			c35Access(c, p, fn, i, x.X, need, what)

		case *ssa.BinOp:
			if x.Op != token.QUO && x.Op != token.REM {
				return
			}
			b, ok := x.X.Type().Underlying().(*types.Basic)
			if !ok || b.Info()&types.IsInteger == 0 {
				return
			}
			if _, isC := x.Y.(*ssa.Const); isC {
				return
			}
			nD++
			ok2, why := c35NonZero(p, fn, i, x.Y, 1)
			c.Check("C35.div", f+": divisor of "+trunc(desc(x), 100)+" is non-zero", ok2, p.Pos(posOf(i, fn)), why)
		}
	})
	return
}

// ---------------------------------------------------------------- P4c

var c35Regexps = map[*ssa.Global]int{}

// c35Groups: number of capture groups of a package-level regexp initialised
// by regexp.MustCompile(constant).
func c35Groups(p *Prog, g *ssa.Global) int {
	if n, ok := c35Regexps[g]; ok {
		return n
	}
	n := -1
	if ini := g.Pkg.Func("init"); ini != nil {
		eachInstr(ini, func(i ssa.Instruction) {
			st, ok := i.(*ssa.Store)
			if !ok || st.Addr != ssa.Value(g) {
				return
			}
			if cl, ok := st.Val.(*ssa.Call); ok && (calleeName(&cl.Call) == "regexp.MustCompile") {
				if s, isS := constStringE(cl.Call.Args[0]); isS {
					if re, err := regexp.Compile(s); err == nil {
						n = re.NumSubexp()
					}
				}
			}
		})
	}
	c35Regexps[g] = n
	return n
}

// lenLowerBound: the lower bound on len(x) implied by a branch literal, where
// xd is the canonical description of x (0 = nothing implied).
func lenLowerBound(l Lit, xd string) int {
	L := "len(" + xd + ")"
	a := l.Atom
	num := func(s string) (int, bool) { n, err := strconv.Atoi(s); return n, err == nil }
	switch {
	case strings.HasPrefix(a, "("+L+" == ") && strings.HasSuffix(a, ")"):
		if n, ok := num(a[len(L)+5 : len(a)-1]); ok {
			if l.Pos {
				return n
			}
			if n == 0 {
				return 1
			}
		}
	case strings.HasPrefix(a, "("+L+" < ") && strings.HasSuffix(a, ")"):
		if n, ok := num(a[len(L)+4 : len(a)-1]); ok && !l.Pos {
			return n
		}
	case strings.HasSuffix(a, " < "+L+")") && strings.HasPrefix(a, "("):
		if n, ok := num(a[1 : len(a)-len(L)-4]); ok && l.Pos {
			return n + 1
		}
	case strings.HasPrefix(a, "("+xd+" == \"") && strings.HasSuffix(a, "\")"):
		s, err := strconv.Unquote(a[len(xd)+5 : len(a)-1])
		if err == nil {
			if l.Pos {
				return len(s)
			}
			if s == "" {
				return 1
			}
		}
	case (strings.HasPrefix(a, "strings.HasPrefix("+xd+", \"") || strings.HasPrefix(a, "strings.HasSuffix("+xd+", \"")) && strings.HasSuffix(a, "\")"):
		s, err := strconv.Unquote(a[len("strings.HasPrefix(")+len(xd)+2 : len(a)-1])
		if err == nil && l.Pos {
			return len(s)
		}
	}
	return 0
}

func c35Access(c *Ctx, p *Prog, fn *ssa.Function, at ssa.Instruction, x ssa.Value, need int, what string) {
	f := shortFn(fn)
	xd := desc(x)
	label := f + ": " + trunc(xd, 110) + what
	ok := func(detail string) { c.Check("C35.index", label, true, p.Pos(posOf(at, fn)), detail) }
	isAt := func(i ssa.Instruction) bool { return i == at }

	// fixed by construction
	switch v := x.(type) {
	case *ssa.Slice:
		if pt, isPtr := v.X.Type().Underlying().(*types.Pointer); isPtr {
			if arr, isArr := pt.Elem().Underlying().(*types.Array); isArr {
				n := int(arr.Len())
				if v.High != nil {
					if k, isK := constIntE(v.High); isK {
						n = int(k)
					} else {
						n = 0
					}
				}
				if v.Low != nil {
					if k, isK := constIntE(v.Low); isK {
						n -= int(k)
					} else {
						n = 0
					}
				}
				if n >= need {
					ok("array-backed slice of fixed length " + itoa(n))
					return
				}
			}
		}
	case *ssa.MakeSlice:
		if k, isK := constIntE(v.Len); isK && int(k) >= need {
			ok("make with constant length")
			return
		}
	case *ssa.Const:
		if s, isS := constStringE(v); isS && len(s) >= need {
			ok("constant string")
			return
		}
	case *ssa.Call:
		switch calleeName(&v.Call) {
		case "strings.Split", "strings.SplitN":
			sep, isS := constStringE(v.Call.Args[1])
			nOK := true
			if len(v.Call.Args) == 3 {
				k, isK := constIntE(v.Call.Args[2])
				nOK = isK && k != 0
			}
			if isS && sep != "" && nOK && need <= 1 {
				ok("strings.Split with a non-empty separator returns at least one element")
				return
			}
		case "(*regexp.Regexp).FindStringSubmatch":
			if g, isG := loadAddr(v.Call.Args[0]).(*ssa.Global); isG {
				if n := c35Groups(p, g); n >= 0 && need <= n+1 {
					if w := reachWithout(entry(fn), isAt, []LitPat{F("(" + xd + " == nil)")}); w == nil {
						ok(fmt.Sprintf("FindStringSubmatch of a constant pattern with %d groups, under a non-nil test", n))
						return
					}
				}
			}
		}
	case *ssa.Extract:
		if cl, isCall := v.Tuple.(*ssa.Call); isCall && v.Index == 0 && calleeName(&cl.Call) == "(*bufio.Reader).Peek" {
			if k, isK := constIntE(cl.Call.Args[1]); isK && int(k) >= need {
				if w := reachWithout(entry(fn), isAt, []LitPat{T("(" + desc(cl) + "#1 == nil)")}); w == nil {
					ok("bufio.Reader.Peek(n) returns n bytes when err == nil")
					return
				}
			}
		}
	}

	// Request.URL.Path[1:] in a handler served through the httpp chain
	if need <= 1 && strings.HasSuffix(xd, ".Request.URL.Path") && strings.HasPrefix(xd, "$") {
		if _, tabled := c35Index[f+"|"+xd+what]; !tabled {
			isGin := false
			for _, par := range fn.Params {
				if typeStr(par.Type()) == "*github.com/gin-gonic/gin.Context" && strings.HasPrefix(xd, fmt.Sprintf("$%d.", paramIndex(par))) {
					isGin = true
				}
			}
			if isGin {
				ok("gin handler behind httpp.Server: handlerFilterRequests admits only non-empty rooted paths (C35.http_filter)")
				return
			}
		}
	}

	// length fact on every path, recognised on the description of x; not
	// applicable when a store to the same location can reach the access
	storeReaches := false
	if la := loadAddr(x); la != nil {
		ad := desc(la)
		eachInstr(fn, func(i ssa.Instruction) {
			st, isSt := i.(*ssa.Store)
			if !isSt || desc(st.Addr) != ad || storeReaches {
				return
			}
			if _, isAlloc := st.Addr.(*ssa.Alloc); isAlloc {
				return
			}
			if walkTo(after(st), isAt, nil, nil) != nil {
				storeReaches = true
			}
		})
	}
	if !storeReaches {
		w := (&Walker{
			Visit: func(i ssa.Instruction) int {
				if i == at {
					return wHit
				}
				return wContinue
			},
			Edge: func(l Lit) bool { return lenLowerBound(l, xd) < need },
		}).Run(entry(fn))
		if w == nil {
			ok("every path carries a literal implying len >= " + itoa(need))
			return
		}
		if reason, tabled := c35Index[f+"|"+xd+what]; tabled && reason != "" {
			ok("classified: " + reason)
			return
		}
		c.Check("C35.index", label, false, p.Pos(posOf(at, fn)), "no length fact for the indexed value on: "+w.String(p))
		return
	}
	if reason, tabled := c35Index[f+"|"+xd+what]; tabled && reason != "" {
		ok("classified: " + reason)
		return
	}
	c.Check("C35.index", label, false, p.Pos(posOf(at, fn)), "the indexed location is reassigned before the access; no length fact applies")
}

// ---------------------------------------------------------------- P5

// c35NonZero: v != 0 at instruction `at` of fn: constant, a dominating test,
// or (for parameters / phis) established at every source.
func c35NonZero(p *Prog, fn *ssa.Function, at ssa.Instruction, v ssa.Value, depth int) (bool, string) {
	v = through(v)
	if k, isK := constIntE(v); isK {
		return k != 0, "constant"
	}
	d := desc(v)
	alts := []LitPat{F("(" + d + " == 0)"), T("(0 < " + d + ")"), F("(" + d + " < 1)")}
	if w := reachWithout(entry(fn), func(i ssa.Instruction) bool { return i == at }, alts); w == nil {
		return true, "dominating non-zero test on " + d
	}
	switch x := v.(type) {
	case *ssa.Phi:
		for k, e := range x.Edges {
			pred := x.Block().Preds[k]
			last := pred.Instrs[len(pred.Instrs)-1]
			// the fact may sit on the very edge pred -> phi block
			if ifi := ifOf(pred); ifi != nil {
				ed := desc(through(e))
				onEdge := false
				for si, sb := range pred.Succs {
					if sb != x.Block() {
						continue
					}
					l := litOf(ifi.Cond, si == 0)
					for _, a := range []LitPat{F("(" + ed + " == 0)"), T("(0 < " + ed + ")"), F("(" + ed + " < 1)")} {
						if a.match(l) {
							onEdge = true
						}
					}
				}
				if onEdge {
					continue
				}
			}
			if ok, why := c35NonZero(p, fn, last, e, depth); !ok {
				return false, "phi edge " + desc(e) + ": " + why
			}
		}
		return true, "every incoming value is non-zero"
	case *ssa.Parameter:
		if depth == 0 {
			return false, "parameter " + d + " (call-site depth exhausted)"
		}
		idx := paramIndex(x)
		n := 0
		for _, g := range p.ModFuncs() {
			var bad string
			eachInstr(g, func(i ssa.Instruction) {
				cc := callCommon(i)
				if cc == nil || cc.StaticCallee() != fn || bad != "" {
					return
				}
				n++
				if ok, why := c35NonZero(p, g, i, cc.Args[idx], depth-1); !ok {
					bad = "call from " + shortFn(g) + " passes " + trunc(desc(cc.Args[idx]), 60) + ": " + why
				}
			})
			if bad != "" {
				return false, bad
			}
		}
		if n == 0 {
			return false, "no static call site found for " + shortFn(fn)
		}
		return true, fmt.Sprintf("non-zero at all %d call sites", n)
	}
	return false, "no non-zero fact for " + trunc(d, 80)
}
