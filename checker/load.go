package main

// Loading of /repo's current working tree: the trusted base of every check.
// See DESIGN.md section 1.

import (
	"fmt"
	"go/ast"
	"go/token"
	"go/types"
	"os"
	"path/filepath"
	"sort"
	"strings"

	"golang.org/x/tools/go/callgraph"
	"golang.org/x/tools/go/callgraph/cha"
	"golang.org/x/tools/go/callgraph/vta"
	"golang.org/x/tools/go/packages"
	"golang.org/x/tools/go/ssa"
	"golang.org/x/tools/go/ssa/ssautil"
)

const modPath = "github.com/bluenviron/mediamtx"

var repoDir = "/repo"

const goBinDir = "/opt/veriftools/go1.26.8/bin"

// LoadCfg selects a build configuration and an optional in-memory overlay
// (used by the mutant self-tests; nothing is ever written under /repo).
type LoadCfg struct {
	GOOS, GOARCH string
	Patterns     []string          // default ./...
	Overlay      map[string][]byte // absolute path -> content
	NoSSA        bool
}

// Prog is a loaded, type-checked program.
type Prog struct {
	Cfg     LoadCfg
	Fset    *token.FileSet
	Pkgs    []*packages.Package          // module packages, sorted by path
	ByPath  map[string]*packages.Package // all packages (including deps)
	SSA     *ssa.Program
	SSAPkgs map[string]*ssa.Package
	Sizes   types.Sizes

	allFuncs map[*ssa.Function]bool
	cg       *callgraph.Graph
	fileOf   map[string]*ast.File // absolute filename -> syntax
}

// generated, git-ignored embed targets: supplied through the overlay when
// absent from the working tree. Closed table (DESIGN.md section 1).
var embedOverlay = map[string]string{
	"internal/core/VERSION":                                     "v0.0.0\n",
	"internal/servers/hls/hls.min.js":                           "// placeholder\n",
	"internal/staticsources/rpicamera/mtxrpicam_32/placeholder": "x",
	"internal/staticsources/rpicamera/mtxrpicam_64/placeholder": "x",
}

func mkOverlay(extra map[string][]byte) map[string][]byte {
	ov := map[string][]byte{}
	for rel, content := range embedOverlay {
		abs := filepath.Join(repoDir, rel)
		if strings.HasSuffix(rel, "/placeholder") {
			dir := filepath.Dir(abs)
			if ents, err := os.ReadDir(dir); err == nil && len(ents) > 0 {
				continue
			}
			ov[abs] = []byte(content)
			continue
		}
		if _, err := os.Stat(abs); err == nil {
			continue
		}
		ov[abs] = []byte(content)
	}
	for k, v := range extra {
		ov[k] = v
	}
	return ov
}

func Load(cfg LoadCfg) (*Prog, error) {
	if cfg.GOOS == "" {
		cfg.GOOS = "linux"
	}
	if cfg.GOARCH == "" {
		cfg.GOARCH = "amd64"
	}
	if len(cfg.Patterns) == 0 {
		cfg.Patterns = []string{"./..."}
	}
	env := []string{}
	for _, e := range os.Environ() {
		k := e[:strings.IndexByte(e, '=')]
		switch k {
		case "PATH", "GOFLAGS", "GOPROXY", "GOWORK", "GOTOOLCHAIN", "GOOS", "GOARCH", "CGO_ENABLED", "GOSUMDB":
			continue
		}
		env = append(env, e)
	}
	env = append(env,
		"PATH="+goBinDir+":"+os.Getenv("PATH"),
		"GOFLAGS=-mod=mod", "GOPROXY=off", "GOWORK=off", "GOTOOLCHAIN=local", "GOSUMDB=off",
		"GOOS="+cfg.GOOS, "GOARCH="+cfg.GOARCH, "CGO_ENABLED=0",
	)
	// go/packages resolves "go" through this process's PATH
	os.Setenv("PATH", goBinDir+":"+strings.TrimPrefix(os.Getenv("PATH"), goBinDir+":"))
	if len(cfg.Overlay) > 0 {
		// mutant loads replace each other: drop descriptions of dead programs
		descCache = map[ssa.Value]string{}
		resetCachesG4()
		helperIdx = map[*ssa.Function]*helperInfo{}
		aliasOld = map[*ssa.Function]string{}
	}
	fset := token.NewFileSet()
	pcfg := &packages.Config{
		Mode: packages.NeedName | packages.NeedFiles | packages.NeedCompiledGoFiles | packages.NeedImports |
			packages.NeedDeps | packages.NeedTypes | packages.NeedSyntax | packages.NeedTypesInfo |
			packages.NeedTypesSizes | packages.NeedModule,
		Dir:     repoDir,
		Env:     env,
		Fset:    fset,
		Overlay: mkOverlay(cfg.Overlay),
		Tests:   false,
	}
	initial, err := packages.Load(pcfg, cfg.Patterns...)
	if err != nil {
		return nil, fmt.Errorf("packages.Load: %w", err)
	}
	p := &Prog{Cfg: cfg, Fset: fset, ByPath: map[string]*packages.Package{}, fileOf: map[string]*ast.File{}}
	var errs []string
	packages.Visit(initial, nil, func(pkg *packages.Package) {
		p.ByPath[pkg.PkgPath] = pkg
		for _, e := range pkg.Errors {
			errs = append(errs, pkg.PkgPath+": "+e.Error())
		}
		if strings.HasPrefix(pkg.PkgPath, modPath) {
			p.Pkgs = append(p.Pkgs, pkg)
			for i, f := range pkg.Syntax {
				if i < len(pkg.CompiledGoFiles) {
					p.fileOf[pkg.CompiledGoFiles[i]] = f
				}
			}
			if p.Sizes == nil {
				p.Sizes = pkg.TypesSizes
			}
		}
	})
	if len(errs) > 0 {
		sort.Strings(errs)
		if len(errs) > 10 {
			errs = errs[:10]
		}
		return nil, fmt.Errorf("load errors (%s/%s):\n  %s", cfg.GOOS, cfg.GOARCH, strings.Join(errs, "\n  "))
	}
	sort.Slice(p.Pkgs, func(i, j int) bool { return p.Pkgs[i].PkgPath < p.Pkgs[j].PkgPath })
	if len(p.Pkgs) == 0 {
		return nil, fmt.Errorf("no module packages loaded")
	}
	if !cfg.NoSSA {
		prog, _ := ssautil.AllPackages(initial, ssa.InstantiateGenerics)
		prog.Build()
		p.SSA = prog
		p.SSAPkgs = map[string]*ssa.Package{}
		for _, sp := range prog.AllPackages() {
			p.SSAPkgs[sp.Pkg.Path()] = sp
		}
		p.indexHelpers()
	}
	return p, nil
}

// ---- lookups (anchors) ----

func pkgPath(short string) string {
	if short == "" || short == "." {
		return modPath
	}
	if strings.HasPrefix(short, modPath) || !strings.HasPrefix(short, "internal/") {
		return short
	}
	return modPath + "/" + short
}

// Pkg returns a module package by short path ("internal/auth").
func (p *Prog) Pkg(short string) *packages.Package {
	return p.ByPath[pkgPath(short)]
}

// Func resolves an SSA function by (package, receiver type name or "", name).
// Closures are addressed as name$1 etc.
func (p *Prog) Func(pkg, recv, name string) *ssa.Function {
	sp := p.SSAPkgs[pkgPath(pkg)]
	if sp == nil {
		return nil
	}
	base := name
	anon := ""
	if i := strings.IndexByte(name, '$'); i >= 0 {
		base, anon = name[:i], name[i:]
	}
	var fn *ssa.Function
	if recv == "" {
		fn = sp.Func(base)
	} else {
		obj := sp.Pkg.Scope().Lookup(recv)
		if obj == nil {
			return nil
		}
		tn, ok := obj.(*types.TypeName)
		if !ok {
			return nil
		}
		for _, t := range []types.Type{tn.Type(), types.NewPointer(tn.Type())} {
			ms := p.SSA.MethodSets.MethodSet(t)
			for i := 0; i < ms.Len(); i++ {
				sel := ms.At(i)
				if sel.Obj().Name() == base && sel.Obj().Pkg() == sp.Pkg {
					f := p.SSA.MethodValue(sel)
					// prefer the declared (non-wrapper) method
					if f != nil && f.Synthetic == "" {
						fn = f
					}
				}
			}
			if fn != nil {
				break
			}
		}
	}
	if fn == nil {
		fn = aliasLookup(pkgPath(pkg), recv, base) // the anchor was renamed (inline.go)
	}
	if fn == nil || anon == "" {
		return fn
	}
	for _, a := range fn.AnonFuncs {
		if strings.HasSuffix(a.Name(), anon) {
			return a
		}
	}
	return nil
}

// AllFuncs returns every function of the program (including closures).
func (p *Prog) AllFuncs() map[*ssa.Function]bool {
	if p.allFuncs == nil {
		p.allFuncs = ssautil.AllFunctions(p.SSA)
	}
	return p.allFuncs
}

// ModFuncs returns all functions (incl. closures, instantiations) whose
// package is inside the module, sorted by position for determinism.
func (p *Prog) ModFuncs() []*ssa.Function {
	var out []*ssa.Function
	for f := range p.AllFuncs() {
		if inModule(f) && f.Blocks != nil {
			out = append(out, f)
		}
	}
	sort.Slice(out, func(i, j int) bool {
		if out[i].Pos() != out[j].Pos() {
			return out[i].Pos() < out[j].Pos()
		}
		return out[i].String() < out[j].String()
	})
	return out
}

func funcPkgPath(f *ssa.Function) string {
	for f.Parent() != nil {
		f = f.Parent()
	}
	if f.Pkg != nil {
		return f.Pkg.Pkg.Path()
	}
	if o := f.Origin(); o != nil && o.Pkg != nil {
		return o.Pkg.Pkg.Path()
	}
	if f.Object() != nil && f.Object().Pkg() != nil {
		return f.Object().Pkg().Path()
	}
	// wrappers / bound methods
	if f.Signature != nil && f.Signature.Recv() != nil {
		t := f.Signature.Recv().Type()
		if pt, ok := t.(*types.Pointer); ok {
			t = pt.Elem()
		}
		if n, ok := t.(*types.Named); ok && n.Obj().Pkg() != nil {
			return n.Obj().Pkg().Path()
		}
	}
	return ""
}

func inModule(f *ssa.Function) bool {
	return strings.HasPrefix(funcPkgPath(f), modPath)
}

// CallGraph builds (once) the VTA call graph seeded by CHA.
func (p *Prog) CallGraph() *callgraph.Graph {
	if p.cg == nil {
		p.cg = vta.CallGraph(p.AllFuncs(), cha.CallGraph(p.SSA))
	}
	return p.cg
}

// Pos renders a position relative to the repository root.
func (p *Prog) Pos(pos token.Pos) string {
	if !pos.IsValid() {
		return "-"
	}
	ps := p.Fset.Position(pos)
	rel, err := filepath.Rel(repoDir, ps.Filename)
	if err != nil {
		rel = ps.Filename
	}
	return fmt.Sprintf("%s:%d", rel, ps.Line)
}

// FuncDecl finds the syntax of a function declaration.
func (p *Prog) FuncDecl(pkg, recv, name string) (*ast.FuncDecl, *packages.Package) {
	pk := p.Pkg(pkg)
	if pk == nil {
		return nil, nil
	}
	for _, f := range pk.Syntax {
		for _, d := range f.Decls {
			fd, ok := d.(*ast.FuncDecl)
			if !ok || fd.Name.Name != name {
				continue
			}
			r := ""
			if fd.Recv != nil && len(fd.Recv.List) == 1 {
				t := fd.Recv.List[0].Type
				if s, ok := t.(*ast.StarExpr); ok {
					t = s.X
				}
				if ix, ok := t.(*ast.IndexExpr); ok {
					t = ix.X
				}
				if id, ok := t.(*ast.Ident); ok {
					r = id.Name
				}
			}
			if r == recv {
				return fd, pk
			}
		}
	}
	if f := aliasLookup(pkgPath(pkg), recv, name); f != nil && f.Name() != name {
		return p.FuncDecl(pkg, recv, f.Name()) // the anchor was renamed (inline.go)
	}
	return nil, nil
}

// NamedType looks up a named type.
func (p *Prog) NamedType(pkg, name string) *types.Named {
	pk := p.Pkg(pkg)
	if pk == nil || pk.Types == nil {
		return nil
	}
	obj := pk.Types.Scope().Lookup(name)
	if obj == nil {
		return nil
	}
	n, _ := obj.Type().(*types.Named)
	return n
}

func fnName(f *ssa.Function) string {
	if f == nil {
		return "<nil>"
	}
	s := f.String()
	return aliasString(f, strings.ReplaceAll(s, modPath+"/", ""))
}
