package main

// C25, generalisation of the "reference unset" test.
//
// The rules C25.bound.reference_set and C25.rebase.only_when_needed need the
// branch literal that says "refNTP still has its zero value". The code may
// spell that test in several equivalent ways; the rule now recognises the
// MEANING (a boolean value that is true exactly when $0.refNTP is the zero
// instant) and uses whatever atoms the function actually contains:
//
//	refNTP.IsZero()
//	refNTP.Equal(Z)  /  Z.Equal(refNTP)        Z a zero time.Time
//	refNTP == Z      /  Z == refNTP  (and !=)   Z a zero time.Time
//
// where a "zero time.Time" is: the zero constant of the type (time.Time{} in
// an expression, `var z time.Time` local that is never assigned), or a load of a
// package-level variable of the module that is never stored a non-zero value
// and whose address is never used for anything but loads (the premise is
// checked over all module functions, including the package initialisers).
//
// Equivalence argument. (time.Time).Equal(t, Z) compares seconds and nanoseconds
// of the instants, which for the zero Z is the definition of t.IsZero(). `==`
// additionally compares the location pointer and the monotonic reading: the only
// values ever stored to refNTP are `now` = timeNow().Round(0) (C25.rebase.values,
// C25.writers), so an unset refNTP is literally the zero struct (== holds), and a
// set one differs from it in the instant unless the clock read year 1 - in which
// case IsZero/Equal would re-base once more and == would not, both of which return
// values allowed by C25.returns and C25.bound.

import (
	"go/token"
	"go/types"

	"golang.org/x/tools/go/ssa"
)

func isTimeTime(t types.Type) bool {
	n, ok := t.(*types.Named)
	return ok && n.Obj().Pkg() != nil && n.Obj().Pkg().Path() == "time" && n.Obj().Name() == "Time"
}

// zeroConstGlobal: g is a module variable that holds its zero value for the
// whole run: every store to it stores a zero value (isZero decides), and it is
// used as an operand only by loads and by those stores. Cached per program.
var zeroGlobalCache = map[*ssa.Global]bool{}

func zeroConstGlobal(p *Prog, g *ssa.Global, isZero func(ssa.Value) bool) bool {
	if v, ok := zeroGlobalCache[g]; ok {
		return v
	}
	zeroGlobalCache[g] = false // cycles: not zero
	if g.Pkg == nil || !hasPrefixStr(g.Pkg.Pkg.Path(), modPath) {
		return false
	}
	ok := true
	for f := range p.AllFuncs() {
		if !inModule(f) || f.Blocks == nil {
			continue
		}
		for _, b := range f.Blocks {
			for _, ins := range b.Instrs {
				uses := false
				for _, op := range ins.Operands(nil) {
					if op != nil && *op == ssa.Value(g) {
						uses = true
					}
				}
				if !uses {
					continue
				}
				switch x := ins.(type) {
				case *ssa.UnOp:
					if x.Op != token.MUL {
						ok = false
					}
				case *ssa.Store:
					if x.Addr != ssa.Value(g) || !isZero(x.Val) {
						ok = false
					}
				default:
					ok = false // address escapes, field address taken, ...
				}
			}
		}
	}
	zeroGlobalCache[g] = ok
	return ok
}

func hasPrefixStr(s, pre string) bool { return len(s) >= len(pre) && s[:len(pre)] == pre }

// c25ZeroTime: v is a time.Time that is the zero value on every execution.
func c25ZeroTime(p *Prog, v ssa.Value, depth int) bool {
	if v == nil || depth > 6 || !isTimeTime(v.Type()) {
		return false
	}
	switch x := v.(type) {
	case *ssa.Const:
		return x.Value == nil // the zero constant of a struct type
	case *ssa.ChangeType:
		return c25ZeroTime(p, x.X, depth+1)
	case *ssa.UnOp:
		if x.Op != token.MUL {
			return false
		}
		switch a := x.X.(type) {
		case *ssa.Global:
			return zeroConstGlobal(p, a, func(s ssa.Value) bool { return c25ZeroTime(p, s, depth+1) })
		case *ssa.Alloc:
			// a local (or composite literal temporary) that is only loaded, or stored zero values
			for _, r := range *a.Referrers() {
				switch y := r.(type) {
				case *ssa.UnOp:
					if y.Op != token.MUL {
						return false
					}
				case *ssa.Store:
					if y.Addr != ssa.Value(a) || !c25ZeroTime(p, y.Val, depth+1) {
						return false
					}
				case *ssa.DebugRef:
				default:
					return false
				}
			}
			return true
		}
	}
	return false
}

// c25UnsetAtoms returns the atoms (positive polarity = "the reference is unset")
// of the boolean values of fn that decide whether $0.refNTP is the zero instant.
func c25UnsetAtoms(p *Prog, fn *ssa.Function) []string {
	const ref = "$0.refNTP"
	isRef := func(v ssa.Value) bool { return v != nil && isTimeTime(v.Type()) && desc(v) == ref }
	var out []string
	add := func(a string) {
		if !contains(out, a) {
			out = append(out, a)
		}
	}
	eachInstr(fn, func(i ssa.Instruction) {
		switch x := i.(type) {
		case *ssa.Call:
			switch {
			case isCallTo(x, "(time.Time).IsZero") && len(x.Call.Args) == 1 && isRef(x.Call.Args[0]):
				add(desc(x))
			case isCallTo(x, "(time.Time).Equal") && len(x.Call.Args) == 2:
				a, b := x.Call.Args[0], x.Call.Args[1]
				if (isRef(a) && c25ZeroTime(p, b, 0)) || (isRef(b) && c25ZeroTime(p, a, 0)) {
					add(desc(x))
				}
			}
		case *ssa.BinOp:
			if x.Op != token.EQL && x.Op != token.NEQ {
				return
			}
			if (isRef(x.X) && c25ZeroTime(p, x.Y, 0)) || (isRef(x.Y) && c25ZeroTime(p, x.X, 0)) {
				add(litOf(x, x.Op == token.EQL).Atom) // the atom is the == form for both operators
			}
		}
	})
	return out
}
