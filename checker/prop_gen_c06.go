package main

// Generalisation of C06.valid_name.dot_segments (DESIGN.md section 11, second
// round). The rule was tied to ONE spelling of "every '/'-separated segment
// of the name is neither . nor ..": a range-over-func loop over
// strings.SplitSeq, whose body go/ssa compiles into the closure
// IsValidPathName$1. The obligation is now stated over the meaning and
// decided for the three ways the repo's Go version can spell it:
//
//	(a) for seg := range strings.SplitSeq(name, "/")       - yield closure (as before)
//	(b) for _, seg := range strings.Split(name, "/")  /  for i := range segs { segs[i] }
//	    - a compiler-generated counter loop over the whole slice
//	(c) slices.Contains(strings.Split(name, "/"), ".") tests
//
// in IsValidPathName itself or in a new helper it calls. For (b):
//
//	A. from the first instruction of the loop body, the loop head is reached
//	   again only over edges on which `segs[k] == "."` and `segs[k] == ".."`
//	   are false (k = the loop counter; every index of segs in the body is k);
//	B. `return nil` is reached from the function entry only over the loop's
//	   exit edge (no `return nil` before the loop, no break / early success out
//	   of the body) - so a rejected segment cannot end in success, and the
//	   counter loop covers every element by construction.
//
// A hand-written scan (for i := 0; i < len(name); i++ ...) is NOT accepted: it
// is where seeded defect C06 (last segment not examined) lives.

import (
	"go/token"

	"golang.org/x/tools/go/ssa"
)

const (
	c06Split    = `strings.Split($0, "/")`
	c06SplitSeq = `strings.SplitSeq($0, "/")`
)

// c06Funcs: fn and the new helpers it (transitively) calls.
func c06Funcs(fn *ssa.Function) []*ssa.Function {
	out := []*ssa.Function{fn}
	seen := map[*ssa.Function]bool{fn: true}
	eachInstr(fn, func(i ssa.Instruction) {
		if h := newHelperCallee(i); h != nil && !seen[h] {
			seen[h] = true
			out = append(out, h)
		}
	})
	return out
}

type c06Loop struct {
	fn         *ssa.Function
	x, k       ssa.Value // slice and counter
	head, body *ssa.BasicBlock
}

// c06IndexLoops: compiler-generated counter loops over strings.Split(name, "/").
func c06IndexLoops(fn *ssa.Function) []c06Loop {
	var out []c06Loop
	for _, g := range c06Funcs(fn) {
		for _, b := range g.Blocks {
			ifi := ifOf(b)
			if ifi == nil {
				continue
			}
			cond, ok := ifi.Cond.(*ssa.BinOp)
			if !ok || cond.Op != token.LSS {
				continue
			}
			x, head, body, ok := rangeCounter(cond.X)
			if !ok || head != b || desc(x) != c06Split {
				continue
			}
			out = append(out, c06Loop{g, x, cond.X, head, body})
		}
	}
	return out
}

// c06YieldClosures: bodies of range-over-func loops over strings.SplitSeq(name, "/").
func c06YieldClosures(fn *ssa.Function) []*ssa.Function {
	var out []*ssa.Function
	eachInstr(fn, func(i ssa.Instruction) {
		cc := callCommon(i)
		if cc == nil || cc.IsInvoke() || len(cc.Args) != 1 {
			return
		}
		mc, ok := cc.Args[0].(*ssa.MakeClosure)
		if !ok || desc(cc.Value) != c06SplitSeq {
			return
		}
		if y, ok := mc.Fn.(*ssa.Function); ok && y.Blocks != nil {
			out = append(out, y)
		}
	})
	return out
}

// c06DotSegmentsIndexed decides form (b) for one loop.
func c06DotSegmentsIndexed(c *Ctx, p *Prog, fn *ssa.Function, l c06Loop) {
	const rule = "C06.valid_name.dot_segments"
	name := "conf.IsValidPathName"
	// every index of the slice inside the loop is the loop counter
	inLoop := map[*ssa.BasicBlock]bool{}
	var walk func(b *ssa.BasicBlock)
	walk = func(b *ssa.BasicBlock) {
		if b == l.head || inLoop[b] {
			return
		}
		inLoop[b] = true
		for _, s := range b.Succs {
			walk(s)
		}
	}
	walk(l.body)
	idxOK, nIdx := true, 0
	for b := range inLoop {
		for _, ins := range b.Instrs {
			var x, idx ssa.Value
			switch v := ins.(type) {
			case *ssa.IndexAddr:
				x, idx = v.X, v.Index
			case *ssa.Index:
				x, idx = v.X, v.Index
			}
			if x != nil && desc(x) == c06Split {
				nIdx++
				if idx != l.k {
					idxOK = false
				}
			}
		}
	}
	c.Check(rule, name+": the segment tested in the loop over strings.Split(name, \"/\") is the element of the loop counter", idxOK && nIdx > 0, p.Pos(posOf(ifOf(l.head), l.fn)), "")
	headIf := ssa.Instruction(ifOf(l.head))
	for _, seg := range []string{".", ".."} {
		atom := "(" + c06Split + `[_] == "` + seg + `")`
		w := reachWithout(Point{l.body, 0}, func(i ssa.Instruction) bool { return i == headIf }, []LitPat{F(atom)})
		detail := ""
		if w != nil {
			detail = "the next segment is reached without the test: " + w.String(p)
		}
		c.Check(rule, name+": the loop over strings.Split(name, \"/\") continues only past a segment that is not \""+seg+"\"", w == nil, p.Pos(posOf(headIf, l.fn)), detail)
	}
	exit := litOf(ifOf(l.head).Cond, false)
	w := reachWithout(entry(fn), retNil(0), []LitPat{{exit.Atom, exit.Pos}})
	detail := ""
	if w != nil {
		detail = "success without completing the segment loop: " + w.String(p)
	}
	c.Check(rule, name+": return nil only after the loop over strings.Split(name, \"/\") has examined every segment", w == nil, p.Pos(fn.Pos()), detail)
}

// c06DotSegmentsContains decides form (c); ok=false when the form is absent.
func c06DotSegmentsContains(c *Ctx, p *Prog, fn *ssa.Function) bool {
	found := false
	eachInstr(fn, func(i ssa.Instruction) {
		if cl, ok := i.(*ssa.Call); ok && len(cl.Call.Args) == 2 && atomMatch("slices.Contains[*", calleeName(&cl.Call)) && desc(cl.Call.Args[0]) == c06Split {
			found = true
		}
	})
	if !found {
		return false
	}
	for _, seg := range []string{".", ".."} {
		c.MustPass(p, fn, "C06.valid_name.dot_segments", "return nil (segments of strings.Split(name, \"/\") searched for \""+seg+"\")", retNil(0),
			F(`slices.Contains[*](`+c06Split+`, "`+seg+`")`))
	}
	return true
}
