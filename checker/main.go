package main

import (
	"flag"
	"fmt"
	"os"
	"path/filepath"
	"runtime/debug"
	"sort"
	"strconv"
	"strings"

	"golang.org/x/tools/go/ssa"
)

// Property is the registration of one property's rule set.
type Property struct {
	ID        string
	Level     string // "proof" or "other"
	Text      string // level_claimed.text
	Note      string // level_note (trusted base / assumptions)
	Technique string
	Run       func(c *Ctx)
}

var registry = map[string]*Property{}

func register(p Property) {
	if p.Technique == "" {
		p.Technique = "static analysis"
	}
	registry[p.ID] = &p
}

func runProp(p *Property, c *Ctx) {
	defer func() {
		if r := recover(); r != nil {
			c.Undecided(fmt.Sprintf("checker panic: %v\n%s", r, debug.Stack()))
		}
	}()
	c.Level = p.Level
	p.Run(c)
}

func main() {
	prop := flag.String("p", "", "property id (or 'all')")
	tier := flag.String("tier", "", "quick|thorough")
	dump := flag.String("dump", "", "debug: pkg:recv:name - print SSA with canonical descriptions")
	list := flag.Bool("list", false, "list registered properties")
	mut := flag.String("mutant", "", "run a single mutant by name (debug)")
	manifest := flag.Bool("manifest", false, "write MANIFEST.json from the registered properties")
	baseline := flag.Bool("baseline", false, "write checker/baseline_funcs.txt: the functions of the current tree (the reference for new-helper detection)")
	flag.BoolVar(&inlineDisabled, "noinline", false, "debug: do not analyse new helpers as part of their callers")
	anchors := flag.Bool("anchors", false, "debug: check that every self-test mutant's anchor text occurs exactly once")
	flag.StringVar(&repoDir, "repo", "/repo", "repository root")
	flag.StringVar(&verifDir, "verif", "/verif", "verification root")
	goos := flag.String("goos", "linux", "")
	goarch := flag.String("goarch", "amd64", "")
	flag.Parse()
	debug.SetGCPercent(200)

	if *tier == "" {
		*tier = os.Getenv("VERIF_TIER")
	}
	if *tier == "" {
		*tier = "quick"
	}
	seed, _ := strconv.Atoi(os.Getenv("VERIF_SEED"))
	if abs, err := filepath.Abs(repoDir); err == nil {
		repoDir = abs
	}

	if *manifest {
		if err := writeManifest(); err != nil {
			fmt.Println(err)
			os.Exit(2)
		}
		return
	}
	if *list {
		var ids []string
		for id := range registry {
			ids = append(ids, id)
		}
		sort.Strings(ids)
		fmt.Println(strings.Join(ids, " "))
		return
	}
	if *dump != "" {
		dumpFunc(*dump, *goos, *goarch)
		return
	}
	if *mut != "" {
		os.Exit(runOneMutant(*mut))
	}
	if *baseline {
		if err := writeBaseline(); err != nil {
			fmt.Println(err)
			os.Exit(2)
		}
		return
	}
	if *anchors {
		bad := 0
		for _, m := range mutants {
			if _, err := applyMutant(m); err != nil {
				fmt.Println(m.Prop, err)
				bad++
			}
		}
		fmt.Printf("%d mutants, %d stale anchors\n", len(mutants), bad)
		if bad > 0 {
			os.Exit(1)
		}
		return
	}
	var ids []string
	if *prop == "all" {
		for id := range registry {
			ids = append(ids, id)
		}
		sort.Strings(ids)
	} else {
		for _, id := range strings.Split(*prop, ",") {
			if registry[id] == nil {
				fmt.Fprintf(os.Stderr, "unknown property %q\n", id)
				os.Exit(2)
			}
			ids = append(ids, id)
		}
	}
	if len(ids) == 0 {
		flag.Usage()
		os.Exit(2)
	}
	exit := 0
	for _, id := range ids {
		c := newCtx(id, *tier, seed)
		runProp(registry[id], c)
		fixturesFor(c)
		if *tier == "thorough" {
			runMutantsFor(c)
		}
		if code := c.Finish(); code > exit {
			exit = code
		}
	}
	os.Exit(exit)
}

func dumpFunc(spec, goos, goarch string) {
	p, err := Load(LoadCfg{GOOS: goos, GOARCH: goarch})
	if err != nil {
		fmt.Println(err)
		os.Exit(2)
	}
	for _, sp := range strings.Split(spec, ",") {
		parts := strings.Split(sp, ":")
		if len(parts) != 3 {
			fmt.Println("want pkg:recv:name")
			os.Exit(2)
		}
		fn := p.Func(parts[0], parts[1], parts[2])
		if fn == nil {
			fmt.Println("not found:", sp)
			continue
		}
		dumpSSA(p, fn)
		var rec func(f *ssa.Function)
		rec = func(f *ssa.Function) {
			for _, a := range f.AnonFuncs {
				dumpSSA(p, a)
				rec(a)
			}
		}
		rec(fn)
	}
}
