package main

import (
	"go/token"
	"strings"

	"golang.org/x/tools/go/ssa"
)

// C17 - readers get the publisher's units in order; drops are counted.
//
// Decides the structural necessary conditions of the clauses: the fan-out shape
// of writeUnitInner, the drop accounting of Reader.push, the
// registration/removal symmetry of Stream.AddReader/RemoveReader, the
// termination protocol of Reader.stop/run/runInner, the position-wise pairing
// of publisher formats with stream formats, and the guarded-by discipline on
// the callback maps. FIFO order inside the ring buffer and the interleaving
// semantics of the lock are library behaviour (trusted).

const (
	c17PushAtom  = "(*github.com/bluenviron/gortsplib/v5/pkg/ringbuffer.RingBuffer).Push($0.buffer, $1)"
	c17RBPush    = "(*github.com/bluenviron/gortsplib/v5/pkg/ringbuffer.RingBuffer).Push"
	c17RBPull    = "(*github.com/bluenviron/gortsplib/v5/pkg/ringbuffer.RingBuffer).Pull"
	c17RBClose   = "(*github.com/bluenviron/gortsplib/v5/pkg/ringbuffer.RingBuffer).Close"
	c17Increase  = "(*counterdumper.Dumper).Increase"
	c17OnDatasOf = "$0.medias[next(range($1.onDatas))#1].formats[next(range(next(range($1.onDatas))#2))#1].onDatas"
	c17OnDataVal = "next(range(next(range($1.onDatas))#2))#2"
)

func init() {
	register(Property{ID: "C17", Level: "other", Run: runC17,
		Technique: "static analysis: SSA path conditions (must-pass / must-precede / must-follow), whole-module who-calls tables, sibling agreement of AddReader/RemoveReader, lock-state dataflow with caller summaries (guarded-by)",
		Text:      "Decides on all paths: (1) Reader.push pushes the callback exactly once, tests the ring buffer's result and counts a discard exactly on the false branch; no other module code pushes to a ring buffer or increments the discard counter; (2) writeUnitInner's fan-out is a single synchronous push per entry of streamFormat.onDatas, on the reader that is the map key, of a closure that invokes exactly the callback that is the map value with the unit being written, and every successful return passes the fan-out; (3) AddReader registers under (media, format) exactly the callback r.onDatas holds for that pair and RemoveReader deletes the same map entries, deletes the reader and then calls stop on every path; stop closes the buffer and waits for the run goroutine, which is the only invoker of pulled callbacks (synchronously, in pull order); start/run/runInner/stop/push have the frozen caller sets; (4) WriteUnit forwards only while the sub stream is the stream's current one and publisher formats are paired with stream formats by position; (5) streamFormat.onDatas and Stream.readers are accessed only with Stream.mutex held (write lock for mutation), Stream.subStream is written only under the write lock. (6) 'unmodified after remuxing': the one *unit.Unit that writeUnitInner hands to every reader is not written through by any reader callback - every module function outside internal/stream with a *unit.Unit parameter performs no store / copy / clear / in-place library call / module-callee write on memory reachable from it (unit fields, payload bytes, RTP packets; value-flow closure through locals, captured variables, type assertions, slicing, module helpers to depth 4) - and internal/stream itself does not write through the unit after the fan-out. Not decided: FIFO behaviour of the ring buffer library, at-most-once under interleavings beyond the lock discipline, mutation of a payload by third-party encoders/muxers it is passed to or through aliases stored in freshly built containers.",
		Note:      "trusted: gortsplib ringbuffer (FIFO, Push reports false only when full or closed, Pull reports false after Close), sync.RWMutex; no alias analysis: one Stream per streamFormat tree is assumed"})
	addMutants(
		Mutant{"C17", "drop-not-counted", "internal/stream/reader.go",
			"	ok := r.buffer.Push(cb)\n	if !ok {\n		r.outboundFramesDiscarded.Increase()\n	}", "	r.buffer.Push(cb)", "C17.push"},
		Mutant{"C17", "count-every-push", "internal/stream/reader.go",
			"	if !ok {\n		r.outboundFramesDiscarded.Increase()\n	}", "	_ = ok\n	r.outboundFramesDiscarded.Increase()", "C17.push"},
		Mutant{"C17", "async-fanout", "internal/stream/sub_stream_format.go",
			"		sr.push(func() error {", "		go sr.push(func() error {", "C17.fanout"},
		Mutant{"C17", "fanout-wrong-callback", "internal/stream/sub_stream_format.go",
			"	for sr, onData := range ssf.streamFormat.onDatas {\n		csr := sr\n		cOnData := onData",
			"	var prev OnDataFunc\n	for sr, onData := range ssf.streamFormat.onDatas {\n		csr := sr\n		cOnData := onData\n		if prev != nil {\n			cOnData = prev\n		}\n		prev = onData", "C17.fanout"},
		Mutant{"C17", "remove-skips-stop", "internal/stream/stream.go",
			"	s.mutex.Unlock()\n\n	r.stop()\n", "	s.mutex.Unlock()\n\n	if len(s.readers) == 0 {\n		r.stop()\n	}\n", "C17.remove"},
		Mutant{"C17", "stop-does-not-wait", "internal/stream/reader.go",
			"	r.outboundFramesDiscarded.Stop()\n	<-r.err\n", "	r.outboundFramesDiscarded.Stop()\n", "C17.reader.stop"},
		Mutant{"C17", "remove-leaves-callback", "internal/stream/stream.go",
			"			sf := sm.formats[forma]\n			delete(sf.onDatas, r)", "			sf := sm.formats[forma]\n			delete(sf.onDatas, nil)", "C17.remove"},
		Mutant{"C17", "register-without-lock", "internal/stream/stream.go",
			"	r.start()\n\n	s.mutex.Lock()\n	defer s.mutex.Unlock()\n\n	s.readers[r] = struct{}{}", "	r.start()\n\n	s.readers[r] = struct{}{}", "C17.guarded_by"},
		Mutant{"C17", "write-unit-ignores-current", "internal/stream/sub_stream.go",
			"	if ss.Stream.subStream != ss {\n		return\n	}\n\n	ssm := ss.medias[inMedia]", "	ssm := ss.medias[inMedia]", "C17.current_publisher"},
		Mutant{"C17", "format-pairing-off", "internal/stream/sub_stream_media.go",
			"		origFormat := ssm.streamMedia.origMedia.Formats[i]", "		origFormat := ssm.streamMedia.origMedia.Formats[len(ssm.inMedia.Formats)-1-i]", "C17.pairing"},
		Mutant{"C17", "early-success-return", "internal/stream/sub_stream_format.go",
			"	size := unitSize(u)\n	ssf.streamFormat.inboundBytes.Add(size)", "	size := unitSize(u)\n	if size == 0 {\n		return nil\n	}\n	ssf.streamFormat.inboundBytes.Add(size)", "C17.fanout"},
		Mutant{"C17", "lpcm-swapped-in-place", "internal/protocols/moq/from_stream.go",
			"swapped := make([]byte, len(src))", "swapped := src", "C17.unmodified.readers"},
		Mutant{"C17", "webrtc-opus-edits-shared-packet", "internal/protocols/webrtc/from_stream.go",
			"					pkt := &rtp.Packet{\n						Header:  orig.Header,\n						Payload: orig.Payload,\n					}\n\n					pkt.Timestamp = pts\n\n					ntp := u.NTP.Add(timestampToDuration(int64(pkt.Timestamp-baseTimestamp), 48000))",
			"					pkt := orig\n\n					pkt.Timestamp = pts\n\n					ntp := u.NTP.Add(timestampToDuration(int64(pkt.Timestamp-baseTimestamp), 48000))", "C17.unmodified.readers"},
		Mutant{"C17", "unit-cleared-after-fanout", "internal/stream/sub_stream_format.go",
			"			return cOnData(u)\n		})\n	}\n\n	return nil\n}", "			return cOnData(u)\n		})\n	}\n\n	u.RTPPackets = nil\n\n	return nil\n}", "C17.unmodified.after_fanout"},
		Mutant{"C17", "async-callback", "internal/stream/reader.go",
			"		err := cb.(func() error)()\n		if err != nil {\n			return err\n		}", "		go cb.(func() error)() //nolint", "C17.reader.run"},
	)
}

func runC17(c *Ctx) {
	p := c.Main()
	if p == nil {
		return
	}
	c.Explain = "C17.push.*: E1 on Reader.push + E2 over every ring-buffer Push / discard-counter Increase in the module. " +
		"C17.fanout.*: shape of the range loop over streamFormat.onDatas in writeUnitInner (receiver = key, closure calls value with the written unit, plain call, on every nil-error path). " +
		"C17.add/remove.*: AddReader/RemoveReader sibling agreement on the registered map entries, stop on every path after the deletes. " +
		"C17.reader.*: run/runInner/stop termination protocol; C17.callers: frozen who-calls tables. " +
		"C17.current_publisher, C17.pairing.*: WriteUnit guard and position-wise pairing of in/orig formats and medias. " +
		"C17.guarded_by: lock-state dataflow (Stream.mutex) at every access of streamFormat.onDatas, Stream.readers and every write of Stream.subStream, entry states summarised from static callers (depth 5). " +
		"C17.unmodified.readers: value-flow (alias) closure from the *unit.Unit parameter of every reader-side function, no write through it; C17.unmodified.after_fanout: no write through the unit after push/writeUnitInner/writeUnit in internal/stream. NOT decided: ring buffer FIFO/at-most-once, interleavings beyond the lock discipline, third-party code mutating a payload it is handed."
	c.Assume = []string{
		"ringbuffer.RingBuffer is FIFO; Push returns false only when the buffer is full or closed; Pull returns false after Close",
		"each streamFormat belongs to exactly one Stream (the mutex of the owning Stream is the one held by callers)",
	}

	push := c.fn(p, "internal/stream", "Reader", "push")
	runI := c.fn(p, "internal/stream", "Reader", "runInner")
	run := c.fn(p, "internal/stream", "Reader", "run")
	start := c.fn(p, "internal/stream", "Reader", "start")
	stop := c.fn(p, "internal/stream", "Reader", "stop")
	add := c.fn(p, "internal/stream", "Stream", "AddReader")
	rem := c.fn(p, "internal/stream", "Stream", "RemoveReader")
	wui := c.fn(p, "internal/stream", "subStreamFormat", "writeUnitInner")
	wu := c.fn(p, "internal/stream", "subStreamFormat", "writeUnit")
	wunit := c.fn(p, "internal/stream", "SubStream", "WriteUnit")
	ssmInit := c.fn(p, "internal/stream", "subStreamMedia", "initialize")
	ssInit := c.fn(p, "internal/stream", "SubStream", "Initialize")

	// ---- (1) Reader.push
	if push != nil {
		pcalls := callsIn(push, c17RBPush)
		c.Check("C17.push.once", fnName(push)+": exactly one ring-buffer Push of the callback", len(pcalls) == 1 && isPlainCall(pcalls[0]) &&
			desc(pcalls[0].(ssa.Value)) == c17PushAtom, p.Pos(push.Pos()), sprintf("%d Push call(s)", len(pcalls)))
		c.MustPrecede(p, push, "C17.push.once", "return", "ringbuffer Push($0.buffer, $1)", anyReturn, callTo(c17RBPush))
		incr := func(i ssa.Instruction) bool {
			cc := callCommon(i)
			return isCallTo(i, c17Increase) && len(cc.Args) > 0 && desc(cc.Args[0]) == "$0.outboundFramesDiscarded"
		}
		if len(pcalls) == 1 {
			// a failed push is counted ...
			c.MustFollow(p, push, "C17.push.drop_counted", "Push reported false ⇒ outboundFramesDiscarded.Increase before return",
				after(pcalls[0]), anyReturn, incr, func(l Lit) bool { return !(l.Atom == c17PushAtom && l.Pos) })
		}
		// ... and only a failed push is counted
		if countTargets(push, incr) > 0 {
			c.MustPass(p, push, "C17.push.count_only_drops", "outboundFramesDiscarded.Increase", incr, F(c17PushAtom))
		} else {
			c.Check("C17.push.drop_counted", fnName(push)+": discard counter is incremented", false, p.Pos(push.Pos()), "no Increase call on $0.outboundFramesDiscarded")
		}
	}
	// E2: every ring-buffer Push in the module uses its result in a branch; only push increments the counter
	n := 0
	for _, i := range moduleCallsTo(p, c17RBPush) {
		n++
		used := false
		if v, ok := i.(*ssa.Call); ok {
			for _, r := range *v.Referrers() {
				if _, ok := r.(*ssa.If); ok {
					used = true
				}
				if u, ok := r.(*ssa.UnOp); ok && u.Op == token.NOT {
					for _, rr := range *u.Referrers() {
						if _, ok := rr.(*ssa.If); ok {
							used = true
						}
					}
				}
			}
		}
		c.Check("C17.push.result_used", fnName(i.Parent())+": result of ringbuffer Push decides a branch", used && i.Parent() == push, p.Pos(posOf(i, i.Parent())),
			"a Push whose result is ignored drops units uncounted; Push outside Reader.push bypasses the accounting")
	}
	c.Floor("C17.push.result_used", n, 1)
	n = 0
	for _, i := range moduleCallsTo(p, c17Increase) {
		cc := callCommon(i)
		if len(cc.Args) == 0 || !strings.HasSuffix(desc(cc.Args[0]), ".outboundFramesDiscarded") {
			continue
		}
		n++
		c.Check("C17.push.counter_writers", fnName(i.Parent())+": increments Reader.outboundFramesDiscarded", i.Parent() == push, p.Pos(posOf(i, i.Parent())), "only Reader.push may count discards")
	}
	c.Floor("C17.push.counter_writers", n, 1)

	// ---- (2) fan-out in writeUnitInner
	if wui != nil {
		pushes := callsIn(wui, "(*stream.Reader).push")
		ok := len(pushes) == 1
		c.Check("C17.fanout.single_push", fnName(wui)+": exactly one Reader.push site", ok, p.Pos(wui.Pos()), sprintf("%d site(s)", len(pushes)))
		var rng *ssa.Range
		eachInstr(wui, func(i ssa.Instruction) {
			if r, ok := i.(*ssa.Range); ok && desc(r.X) == "$0.streamFormat.onDatas" {
				rng = r
			}
		})
		c.Check("C17.fanout.range", fnName(wui)+": range over $0.streamFormat.onDatas", rng != nil, p.Pos(wui.Pos()), "")
		if ok && rng != nil {
			pc := pushes[0]
			c.Check("C17.fanout.synchronous", fnName(wui)+": Reader.push is a plain (in-order) call", isPlainCall(pc), p.Pos(posOf(pc, wui)),
				"a go/defer push reorders units")
			cc := callCommon(pc)
			// receiver = key of the same Next; closure's cOnData = value of the same Next
			var next *ssa.Next
			for _, r := range *rng.Referrers() {
				if nx, ok := r.(*ssa.Next); ok {
					next = nx
				}
			}
			recvOK, cbOK, unitOK := false, false, false
			var cl *ssa.Function
			if next != nil && len(cc.Args) == 2 {
				if ex, ok := resolveAlloc(cc.Args[0]).(*ssa.Extract); ok && ex.Tuple == ssa.Value(next) && ex.Index == 1 {
					recvOK = true
				}
				if mc, ok := cc.Args[1].(*ssa.MakeClosure); ok {
					cl = mc.Fn.(*ssa.Function)
					// the closure's only dynamic call
					var dyn []*ssa.Call
					eachInstr(cl, func(i ssa.Instruction) {
						if cx, ok := i.(*ssa.Call); ok && !cx.Call.IsInvoke() && cx.Call.StaticCallee() == nil {
							if _, b := cx.Call.Value.(*ssa.Builtin); !b {
								dyn = append(dyn, cx)
							}
						}
					})
					if len(dyn) == 1 && len(dyn[0].Call.Args) == 1 {
						fv, _ := loadOf(dyn[0].Call.Value).(*ssa.FreeVar)
						if fv == nil {
							fv, _ = dyn[0].Call.Value.(*ssa.FreeVar)
						}
						av, _ := loadOf(dyn[0].Call.Args[0]).(*ssa.FreeVar)
						if av == nil {
							av, _ = dyn[0].Call.Args[0].(*ssa.FreeVar)
						}
						if fv != nil {
							if ex, ok := resolveAlloc(closureBinding(mc, fv.Name())).(*ssa.Extract); ok && ex.Tuple == ssa.Value(next) && ex.Index == 2 {
								cbOK = true
							}
						}
						if av != nil {
							b := resolveAlloc(closureBinding(mc, av.Name()))
							if pr, ok := b.(*ssa.Parameter); ok && paramIndex(pr) == 1 {
								unitOK = true
							}
						}
						// the closure returns the callback's result on every path
						for _, r := range returnsOf(cl) {
							if len(r.Results) != 1 || r.Results[0] != ssa.Value(dyn[0]) {
								cbOK = false
							}
						}
					}
				}
			}
			c.Check("C17.fanout.receiver_is_key", fnName(wui)+": push receiver is the key of the onDatas entry", recvOK, p.Pos(posOf(pc, wui)), "got "+desc(cc.Args[0]))
			c.Check("C17.fanout.callback_is_value", fnName(wui)+": pushed closure invokes exactly the entry's callback and returns its result", cbOK, p.Pos(posOf(pc, wui)),
				"the closure's single dynamic call must be the map value of the same iteration")
			c.Check("C17.fanout.unit_is_written_unit", fnName(wui)+": pushed closure passes the unit being written ($1)", unitOK, p.Pos(posOf(pc, wui)), "")
			// the push is unconditional inside the loop body
			hdr := next.Block()
			body := pc.Block()
			uncond := false
			if ifi, ok := hdr.Instrs[len(hdr.Instrs)-1].(*ssa.If); ok && hdr.Succs[0] == body {
				if ex, ok := ifi.Cond.(*ssa.Extract); ok && ex.Tuple == ssa.Value(next) && ex.Index == 0 {
					uncond = true
				}
			}
			c.Check("C17.fanout.unconditional", fnName(wui)+": every onDatas entry is pushed (no filter inside the loop)", uncond, p.Pos(posOf(pc, wui)), "")
			// every nil-error return passed the fan-out loop and comes from its exit
			c.MustPrecede(p, wui, "C17.fanout.on_every_success", "return nil", "the fan-out range over onDatas", retNil(0),
				func(i ssa.Instruction) bool { return i == ssa.Instruction(rng) })
			for _, r := range returnsOf(wui) {
				if !retNil(0)(r) {
					continue
				}
				b := r.Block()
				fromExit := len(b.Preds) == 1 && b.Preds[0] == hdr && hdr.Succs[1] == b
				c.Check("C17.fanout.on_every_success", fnName(wui)+": nil-error return is the exit of the fan-out loop", fromExit, p.Pos(posOf(r, wui)), "")
			}
		}
	}
	// writeUnit: an error of writeUnitInner is counted
	if wu != nil {
		c.MustFollow(p, wu, "C17.error_counted", "writeUnitInner failed ⇒ inboundFramesInError.Add before return", entry(wu), anyReturn,
			callTo("(*errordumper.Dumper).Add"), func(l Lit) bool {
				return !(l.Atom == "((*stream.subStreamFormat).writeUnitInner($0, $1) == nil)" && l.Pos)
			})
	}

	// ---- (3) AddReader / RemoveReader
	if add != nil && rem != nil {
		var regs []*ssa.MapUpdate
		eachInstr(add, func(i ssa.Instruction) {
			if mu, ok := i.(*ssa.MapUpdate); ok && strings.HasSuffix(desc(mu.Map), ".onDatas") {
				regs = append(regs, mu)
			}
		})
		c.Floor("C17.add.registers", len(regs), 1)
		for _, mu := range regs {
			c.Check("C17.add.registers", fnName(add)+": onDatas registration map "+desc(mu.Map), desc(mu.Map) == c17OnDatasOf && desc(mu.Key) == "$1" && desc(mu.Value) == c17OnDataVal,
				p.Pos(posOf(mu, add)), "map="+desc(mu.Map)+" key="+desc(mu.Key)+" value="+desc(mu.Value)+"; wanted the callback r.onDatas holds for the same (media, format)")
			b := mu.Block()
			unc := len(b.Preds) == 1 && len(b.Preds[0].Instrs) > 0
			if unc {
				ifi, ok := b.Preds[0].Instrs[len(b.Preds[0].Instrs)-1].(*ssa.If)
				unc = ok && b.Preds[0].Succs[0] == b && strings.HasPrefix(desc(ifi.Cond), "next(range(next(range($1.onDatas))#2))#0")
			}
			c.Check("C17.add.registers", fnName(add)+": the registration is unconditional in the (media, format) walk", unc, p.Pos(posOf(mu, add)), "")
		}
		startCall := callTo("(*stream.Reader).start")
		c.MustPrecede(p, add, "C17.add.starts_reader", "return", "(*Reader).start($1)", func(i ssa.Instruction) bool {
			r, ok := i.(*ssa.Return)
			return ok && r.Block().Comment != "recover"
		}, func(i ssa.Instruction) bool {
			return startCall(i) && isPlainCall(i) && desc(callCommon(i).Args[0]) == "$1"
		})
		qs := false
		for _, st := range fieldStores(add, "stream.Reader", "queueSize") {
			if desc(st.Addr) == "$1.queueSize" && desc(st.Val) == "$0.WriteQueueSize" {
				qs = true
				for _, sc := range callsIn(add, "(*stream.Reader).start") {
					if !dominatesInstr(st, sc) {
						qs = false
					}
				}
			}
		}
		c.Check("C17.add.queue_size", fnName(add)+": $1.queueSize = $0.WriteQueueSize before start", qs, p.Pos(add.Pos()), "the ring buffer is sized in start()")
		rd := false
		eachInstr(add, func(i ssa.Instruction) {
			if mu, ok := i.(*ssa.MapUpdate); ok && desc(mu.Map) == "$0.readers" && desc(mu.Key) == "$1" {
				rd = true
			}
		})
		c.Check("C17.add.registers", fnName(add)+": $0.readers[$1] inserted", rd, p.Pos(add.Pos()), "")

		// RemoveReader deletes the same entries
		var dels, delReaders []ssa.Instruction
		for _, i := range callsIn(rem, "delete") {
			cc := callCommon(i)
			switch {
			case desc(cc.Args[0]) == c17OnDatasOf && desc(cc.Args[1]) == "$1":
				dels = append(dels, i)
			case desc(cc.Args[0]) == "$0.readers" && desc(cc.Args[1]) == "$1":
				delReaders = append(delReaders, i)
			}
		}
		c.Check("C17.remove.deletes_registrations", fnName(rem)+": delete("+c17OnDatasOf+", $1)", len(dels) >= 1, p.Pos(rem.Pos()),
			"RemoveReader must delete exactly the entries AddReader registered (same media/format walk over $1.onDatas, key $1)")
		c.Check("C17.remove.deletes_registrations", fnName(rem)+": delete($0.readers, $1)", len(delReaders) >= 1, p.Pos(rem.Pos()), "")
		stopCall := func(i ssa.Instruction) bool {
			return isCallTo(i, "(*stream.Reader).stop") && isPlainCall(i) && desc(callCommon(i).Args[0]) == "$1"
		}
		c.MustPrecede(p, rem, "C17.remove.stops_reader", "return", "(*Reader).stop($1)", anyReturn, stopCall)
		// on every path to the return the de-registration loop was entered and the reader deleted
		// (the relative order of deletes and stop is not demanded: the property does not depend on it)
		c.MustPrecede(p, rem, "C17.remove.deletes_registrations", "return", "the range over $1.onDatas", anyReturn,
			func(i ssa.Instruction) bool {
				r, ok := i.(*ssa.Range)
				return ok && desc(r.X) == "$1.onDatas"
			})
		if len(delReaders) > 0 {
			c.MustPrecede(p, rem, "C17.remove.deletes_registrations", "return", "delete($0.readers, $1)", anyReturn,
				func(i ssa.Instruction) bool {
					for _, d := range delReaders {
						if d == i {
							return true
						}
					}
					return false
				})
		}
		// the delete is unconditional inside the inner loop body
		for _, d := range dels {
			b := d.Block()
			unc := len(b.Preds) == 1 && len(b.Preds[0].Instrs) > 0
			if unc {
				ifi, ok := b.Preds[0].Instrs[len(b.Preds[0].Instrs)-1].(*ssa.If)
				unc = ok && b.Preds[0].Succs[0] == b && strings.HasPrefix(desc(ifi.Cond), "next(range(next(range($1.onDatas))#2))#0")
			}
			c.Check("C17.remove.deletes_registrations", fnName(rem)+": the onDatas delete is unconditional in the (media, format) walk", unc, p.Pos(posOf(d, rem)), "")
		}
	}

	// ---- reader goroutine protocol
	if stop != nil {
		closeB := func(i ssa.Instruction) bool {
			return isCallTo(i, c17RBClose) && desc(callCommon(i).Args[0]) == "$0.buffer"
		}
		recv := func(i ssa.Instruction) bool {
			u, ok := i.(*ssa.UnOp)
			return ok && u.Op == token.ARROW && desc(u.X) == "$0.err"
		}
		c.MustPrecede(p, stop, "C17.reader.stop", "return", "receive from $0.err (run goroutine finished)", anyReturn, recv)
		c.MustPrecede(p, stop, "C17.reader.stop", "return", "ringbuffer Close($0.buffer)", anyReturn, closeB)
		if countTargets(stop, recv) > 0 {
			c.MustPrecede(p, stop, "C17.reader.stop", "receive from $0.err", "ringbuffer Close($0.buffer)", recv, closeB)
		}
	}
	if run != nil {
		okSend := false
		eachInstr(run, func(i ssa.Instruction) {
			if s, ok := i.(*ssa.Send); ok && desc(s.Chan) == "$0.err" && desc(s.X) == "(*stream.Reader).runInner($0)" {
				okSend = true
			}
		})
		c.Check("C17.reader.run", fnName(run)+": sends runInner's result on $0.err", okSend, p.Pos(run.Pos()), "stop() waits on this channel")
		c.MustPrecede(p, run, "C17.reader.run", "send on $0.err", "(*Reader).runInner($0) returned", func(i ssa.Instruction) bool {
			_, ok := i.(*ssa.Send)
			return ok
		}, callTo("(*stream.Reader).runInner"))
	}
	if runI != nil {
		// the only dynamic call is the pulled callback, synchronously, under ok
		var dyn []ssa.Instruction
		eachInstr(runI, func(i ssa.Instruction) {
			cc := callCommon(i)
			if cc == nil || cc.IsInvoke() || cc.StaticCallee() != nil {
				return
			}
			if _, b := cc.Value.(*ssa.Builtin); b {
				return
			}
			dyn = append(dyn, i)
		})
		pulled := c17RBPull + "($0.buffer)#0.(func() error)"
		okDyn := len(dyn) == 1 && isPlainCall(dyn[0]) && desc(callCommon(dyn[0]).Value) == pulled
		c.Check("C17.reader.run", fnName(runI)+": single synchronous invocation of the pulled callback", okDyn, p.Pos(runI.Pos()),
			sprintf("%d dynamic call(s); want one plain call of %s", len(dyn), pulled))
		if okDyn {
			d0 := dyn[0]
			c.MustPass(p, runI, "C17.reader.run", "callback invocation", func(i ssa.Instruction) bool { return i == d0 }, T(c17RBPull+"($0.buffer)#1"))
		}
		// a closed/terminated buffer ends the loop: every path on which Pull reported !ok returns
		pulls := callsIn(runI, c17RBPull)
		if len(pulls) == 1 {
			c.MustFollow(p, runI, "C17.reader.run", "Pull reported false ⇒ return without another Pull/callback", after(pulls[0]),
				func(i ssa.Instruction) bool {
					if len(dyn) == 1 && i == dyn[0] {
						return true
					}
					return isCallTo(i, c17RBPull)
				}, anyReturn, func(l Lit) bool { return !(l.Atom == c17RBPull+"($0.buffer)#1" && l.Pos) })
		} else {
			c.Check("C17.reader.run", fnName(runI)+": exactly one Pull site", false, p.Pos(runI.Pos()), sprintf("%d", len(pulls)))
		}
	}
	if start != nil {
		gos := 0
		eachInstr(start, func(i ssa.Instruction) {
			if g, ok := i.(*ssa.Go); ok && g.Call.StaticCallee() == run {
				gos++
			}
		})
		c.Check("C17.reader.run", fnName(start)+": starts exactly one run goroutine", gos == 1, p.Pos(start.Pos()), sprintf("%d go statements", gos))
		bs := false
		for _, st := range fieldStores(start, "stream.Reader", "buffer") {
			if strings.HasPrefix(desc(st.Val), "github.com/bluenviron/gortsplib/v5/pkg/ringbuffer.New($0.queueSize)") {
				bs = true
			}
		}
		c.Check("C17.reader.run", fnName(start)+": buffer = ringbuffer.New($0.queueSize)", bs, p.Pos(start.Pos()), "")
	}

	// ---- frozen who-calls tables
	type who struct {
		fn   *ssa.Function
		want []string
		why  string
	}
	for _, w := range []who{
		{runI, []string{"(*internal/stream.Reader).run: call"}, "a second consumer breaks order and at-most-once"},
		{run, []string{"(*internal/stream.Reader).start: go"}, "one consumer goroutine per reader"},
		{start, []string{"(*internal/stream.Stream).AddReader: call"}, "started once, when added"},
		{stop, []string{"(*internal/stream.Stream).RemoveReader: call"}, "stopped when removed"},
		{push, []string{"(*internal/stream.subStreamFormat).writeUnitInner: call"}, "units reach a reader only through the fan-out"},
		{wui, []string{"(*internal/stream.subStreamFormat).writeUnit: call"}, "fan-out runs under the caller's lock"},
	} {
		if w.fn == nil {
			continue
		}
		got := p.staticCallers(w.fn)
		c.Check("C17.callers", fnName(w.fn)+": callers = "+joinS(w.want), sameStrings(got, w.want), p.Pos(w.fn.Pos()), "got "+joinS(got)+" ("+w.why+")")
	}

	// ---- (4) current publisher, pairing
	if wunit != nil {
		c.MustPass(p, wunit, "C17.current_publisher", "call writeUnit", callTo("(*stream.subStreamFormat).writeUnit"), T("($0 == $0.Stream.subStream)"))
		for _, i := range callsIn(wunit, "(*stream.subStreamFormat).writeUnit") {
			cc := callCommon(i)
			c.Check("C17.current_publisher", fnName(wunit)+": writeUnit receiver/unit", desc(cc.Args[0]) == "$0.medias[$1].formats[$2]" && desc(cc.Args[1]) == "$3",
				p.Pos(posOf(i, wunit)), "got "+desc(cc.Args[0])+", "+desc(cc.Args[1]))
		}
	}
	pairing := func(fn *ssa.Function, typ, inField, inSlice, parentField, mapDesc, origSlice, regMap string) {
		if fn == nil {
			return
		}
		n := 0
		eachInstr(fn, func(i ssa.Instruction) {
			a, ok := i.(*ssa.Alloc)
			if !ok || typeStr(a.Type()) != "*"+typ {
				return
			}
			n++
			fs := allocFieldStores(a)
			ok1 := false
			detail := ""
			inV, parV := fs[inField], fs[parentField]
			if inV != nil && parV != nil {
				ia, _ := loadOf(inV).(*ssa.IndexAddr)
				lk, _ := stripConv(parV).(*ssa.Lookup)
				if ia != nil && lk != nil {
					ka, _ := loadOf(lk.Index).(*ssa.IndexAddr)
					if ka != nil {
						ok1 = ia.Index == ka.Index && desc(ia.X) == inSlice && desc(ka.X) == origSlice && desc(lk.X) == mapDesc
						detail = sprintf("%s=%s (index %s), %s=%s[%s (index %s)]", inField, desc(ia.X), ia.Index.Name(), parentField, desc(lk.X), desc(ka.X), ka.Index.Name())
					}
				}
			}
			c.Check("C17.pairing.by_position", fnName(fn)+": "+typ+"{"+inField+", "+parentField+"} paired by the same index", ok1, p.Pos(posOf(a, fn)), detail)
			// registered under its own input key
			reg := false
			eachInstr(fn, func(j ssa.Instruction) {
				mu, ok := j.(*ssa.MapUpdate)
				if !ok || desc(mu.Map) != regMap || mu.Value != ssa.Value(a) {
					return
				}
				if ia, _ := loadOf(inV).(*ssa.IndexAddr); ia != nil {
					if ka, _ := loadOf(mu.Key).(*ssa.IndexAddr); ka != nil && ka.Index == ia.Index && desc(ka.X) == inSlice {
						reg = true
					}
				}
			})
			c.Check("C17.pairing.registered_under_input", fnName(fn)+": "+regMap+"["+inField+"] = the new "+typ, reg, p.Pos(posOf(a, fn)), "")
		})
		c.Floor("C17.pairing.by_position:"+typ, n, 1)
	}
	pairing(ssmInit, "stream.subStreamFormat", "inFormat", "$0.inMedia.Formats", "streamFormat", "$0.streamMedia.formats", "$0.streamMedia.origMedia.Formats", "$0.formats")
	pairing(ssInit, "stream.subStreamMedia", "inMedia", "$0.InDesc.Medias", "streamMedia", "$0.Stream.medias", "$0.Stream.OrigDesc.Medias", "$0.medias")

	// ---- (5) guarded-by
	la := newLockAnalysis(p, mutexSpec{"stream.Stream", "mutex"})
	exempt := map[string]string{
		"(*internal/stream.streamFormat).initialize|store of a fresh map": "construction in Stream.Initialize before the stream is shared",
		"(*internal/stream.Stream).Initialize|store of a fresh map":       "construction before the stream is shared",
	}
	g := c.guardedBy(p, "C17.guarded_by", la, "stream.streamFormat", "onDatas", exempt)
	c.Floor("C17.guarded_by:onDatas", g, 4)
	g = c.guardedBy(p, "C17.guarded_by", la, "stream.Stream", "readers", exempt)
	c.Floor("C17.guarded_by:readers", g, 3)
	// Stream.subStream: writes under the write lock; the read in WriteUnit under any lock
	n = 0
	for _, fn := range p.ModFuncs() {
		for _, a := range fieldAccesses(fn, "stream.Stream", "subStream") {
			if !a.Write && fn != wunit {
				continue
			}
			n++
			st := la.stateAt(a.At)
			ok := st != 0 && st&lsU == 0 && (!a.Write || st&lsR == 0)
			kind := map[bool]string{true: "write", false: "read"}[a.Write]
			c.Check("C17.guarded_by", fnName(fn)+": "+kind+" of stream.Stream.subStream under stream.Stream.mutex", ok, p.Pos(posOf(a.At, fn)), "lock state: "+lsStr(st))
		}
	}
	c.Floor("C17.guarded_by:subStream", n, 2)

	// ---- (6) units are not modified by readers / after the fan-out
	c17Unmodified(c, p)
}
