package main

import (
	"fmt"
	"go/constant"
	"go/token"
	"go/types"
	"sort"
	"strings"

	"golang.org/x/tools/go/ssa"
)

// C23 (round 3): timestamps inside the encoder wrappers.
//
// writeUnitInner adds  rtpTimeOffset + PTS  to every packet an encoder wrapper
// returns (C23.timestamp.per_packet), so "the packets of a unit carry the
// unit's timestamp plus the per-format offset" holds only if the wrapper
// itself leaves the library's timestamps alone - or, where one unit is split
// into several timed packets (Opus), shifts packet k by the time that the
// packets BEFORE k of the same unit take:
//
//   C23.timestamp.wrapper_offset, for every  pkt.Timestamp = ...  store of every
//   encode method reachable from newRTPEncoder:
//     (a) the stored value is the packet's own timestamp plus an offset O;
//     (b) O is built from loop-carried state and constants only (it does not
//         depend on the packet being encoded in this iteration);
//     (c) O is 0 for the first packet of the unit (every loop-carried value in
//         it replaced by its value on loop entry);
//     (d) from one iteration to the next O grows by exactly the duration
//         (opus.PacketDuration*) of the element handed to the library encoder in
//         this iteration, whose output is the packet being stamped.
//   O is compared as a linear form over SSA values, so the order of the
//   statements, temporaries, `x += d` vs `x = x + d`, or computing the next
//   value before the store make no difference.
//   Wrappers without such a store are recorded as "do not touch timestamps";
//   a store that replaces the whole RTP header is reported.

func init() {
	addMutants(
		// the seeded defect: the running offset is advanced before it is used
		Mutant{"C23", "opus-offset-includes-current-packet", "internal/stream/rtp_encoder.go",
			"		pkt.Timestamp += uint32(pts)\n		pts += mcopus.PacketDuration2(packet)\n",
			"		pts += mcopus.PacketDuration2(packet)\n		pkt.Timestamp += uint32(pts)\n", "C23.timestamp.wrapper_offset"},
		// same class: the first packet of a unit does not start at the unit's timestamp
		Mutant{"C23", "opus-offset-starts-at-one-frame", "internal/stream/rtp_encoder.go",
			"	pts := int64(0)\n	packets := make([]*rtp.Packet, len(payload.(unit.PayloadOpus)))",
			"	pts := int64(960)\n	packets := make([]*rtp.Packet, len(payload.(unit.PayloadOpus)))", "C23.timestamp.wrapper_offset"},
		// same class: every packet is assumed to last as long as the first one
		Mutant{"C23", "opus-offset-advances-by-first-packet", "internal/stream/rtp_encoder.go",
			"		pts += mcopus.PacketDuration2(packet)\n", "		pts += mcopus.PacketDuration2(payload.(unit.PayloadOpus)[0])\n", "C23.timestamp.wrapper_offset"},
		// same class, sibling wrapper: a wrapper that used to pass timestamps through now shifts them
		Mutant{"C23", "g711-wrapper-shifts-timestamps", "internal/stream/rtp_encoder.go",
			"	return (*rtplpcm.Encoder)(e).Encode(payload.(unit.PayloadG711))\n",
			"	pkts, err := (*rtplpcm.Encoder)(e).Encode(payload.(unit.PayloadG711))\n	for _, pkt := range pkts {\n		pkt.Timestamp += uint32(len(pkt.Payload))\n	}\n	return pkts, err\n", "C23.timestamp.wrapper_offset"},
	)
}

// linR3c23 is a linear form  c + sum(coef * term)  over SSA values.
type linR3c23 struct {
	c      int64
	coef   map[string]int64
	term   map[string]ssa.Value
	opaque bool // contains something that could not be interpreted (e.g. a huge constant)
}

func newLinR3c23() *linR3c23 {
	return &linR3c23{coef: map[string]int64{}, term: map[string]ssa.Value{}}
}

func (l *linR3c23) add(o *linR3c23, k int64) {
	l.c += k * o.c
	l.opaque = l.opaque || o.opaque
	for key, cf := range o.coef {
		l.coef[key] += k * cf
		l.term[key] = o.term[key]
		if l.coef[key] == 0 {
			delete(l.coef, key)
			delete(l.term, key)
		}
	}
}

func (l *linR3c23) String() string {
	var ks []string
	for k := range l.coef {
		ks = append(ks, k)
	}
	sort.Strings(ks)
	s := fmt.Sprint(l.c)
	for _, k := range ks {
		s += fmt.Sprintf(" %+d*%s", l.coef[k], c24Short(l.term[k]))
	}
	return s
}

func termKeyR3c23(v ssa.Value) string {
	if _, isPhi := v.(*ssa.Phi); isPhi {
		return fmt.Sprintf("phi@%p", v)
	}
	if cl, ok := v.(*ssa.Call); ok && cl.Call.StaticCallee() != nil {
		// calls of the same function on the same operands denote the same quantity
		// (durations, lengths): keyed by description
		d := desc(v)
		if !strings.Contains(d, "…") {
			return "call:" + d
		}
	}
	return fmt.Sprintf("%T@%p", v, v)
}

// linOfR3c23 interprets v as a linear form; phis listed in subst are replaced.
func linOfR3c23(v ssa.Value, subst map[*ssa.Phi]ssa.Value, depth int) *linR3c23 {
	l := newLinR3c23()
	v = stripConv(v)
	if depth > 24 {
		l.opaque = true
		return l
	}
	switch x := v.(type) {
	case *ssa.Const:
		if x.Value != nil && x.Value.Kind() == constant.Int {
			if n, exact := constant.Int64Val(x.Value); exact {
				l.c = n
				return l
			}
		}
		l.opaque = true
		return l
	case *ssa.BinOp:
		switch x.Op {
		case token.ADD:
			l.add(linOfR3c23(x.X, subst, depth+1), 1)
			l.add(linOfR3c23(x.Y, subst, depth+1), 1)
			return l
		case token.SUB:
			l.add(linOfR3c23(x.X, subst, depth+1), 1)
			l.add(linOfR3c23(x.Y, subst, depth+1), -1)
			return l
		}
	case *ssa.Phi:
		if s, ok := subst[x]; ok {
			return linOfR3c23(s, nil, depth+1)
		}
	}
	k := termKeyR3c23(v)
	l.coef[k] = 1
	l.term[k] = v
	return l
}

// c23WrapperEncoders lists the encode methods of the wrapper types that
// newRTPEncoder returns.
func c23WrapperEncoders(p *Prog, enc *ssa.Function) []*ssa.Function {
	seen := map[*ssa.Function]bool{}
	var out []*ssa.Function
	for _, r := range returnsOf(enc) {
		v := retVal(r, 0)
		mi, ok := v.(*ssa.MakeInterface)
		if !ok {
			continue
		}
		ms := p.SSA.MethodSets.MethodSet(mi.X.Type())
		for j := 0; j < ms.Len(); j++ {
			if ms.At(j).Obj().Name() != "encode" {
				continue
			}
			if m := p.SSA.MethodValue(ms.At(j)); m != nil && m.Blocks != nil && !seen[m] {
				seen[m] = true
				out = append(out, m)
			}
		}
	}
	sort.Slice(out, func(i, j int) bool { return fnName(out[i]) < fnName(out[j]) })
	return out
}

func isRTPHeaderFieldR3c23(fa *ssa.FieldAddr, field string) bool {
	pt, ok := fa.X.Type().Underlying().(*types.Pointer)
	if !ok {
		return false
	}
	st, ok := pt.Elem().Underlying().(*types.Struct)
	if !ok || st.Field(fa.Field).Name() != field {
		return false
	}
	n, ok := types.Unalias(pt.Elem()).(*types.Named)
	return ok && n.Obj().Pkg() != nil && n.Obj().Pkg().Path() == "github.com/pion/rtp" && (n.Obj().Name() == "Header" || n.Obj().Name() == "Packet")
}

func c23WrapperOffsetsR3(c *Ctx, p *Prog, enc *ssa.Function) {
	rule := "C23.timestamp.wrapper_offset"
	ms := c23WrapperEncoders(p, enc)
	c.Floor(rule, len(ms), 17)
	nStores := 0
	for _, m := range ms {
		m := m
		c.Analysed(fnName(m))
		var tsStores []*ssa.Store
		eachInstr(m, func(i ssa.Instruction) {
			st, ok := i.(*ssa.Store)
			if !ok {
				return
			}
			fa, ok := st.Addr.(*ssa.FieldAddr)
			if !ok {
				return
			}
			if isRTPHeaderFieldR3c23(fa, "Timestamp") {
				tsStores = append(tsStores, st)
			} else if isRTPHeaderFieldR3c23(fa, "Header") {
				c.Check(rule, fnName(m)+": does not replace the header of a generated packet", false, p.Pos(posOf(st, m)), "stored "+c24Short(st.Val))
			}
		})
		if len(tsStores) == 0 {
			c.Check(rule, fnName(m)+": leaves the timestamps of the generated packets as the library set them", true, p.Pos(m.Pos()), "")
			continue
		}
		for k, st := range tsStores {
			nStores++
			key := fnName(m) + ": timestamp store #" + itoa(k+1) + " shifts a generated packet by the duration of the packets before it in the unit (0 for the first)"
			ok, detail := c23CheckOffsetStoreR3(st)
			c.Check(rule, key, ok, p.Pos(posOf(st, m)), detail)
		}
	}
	c.Floor(rule+":stores", nStores, 1)
}

// opusDurationArgR3c23: cl is opus.PacketDuration*(x) - directly, or through new
// helpers that only return such a call on one of their parameters; returns x
// as seen at the outermost call site, nil otherwise.
func opusDurationArgR3c23(cl *ssa.Call, depth int) ssa.Value {
	f := cl.Call.StaticCallee()
	if f == nil || depth > 3 {
		return nil
	}
	if strings.HasSuffix(funcPkgPath(f), "/codecs/opus") && strings.HasPrefix(f.Name(), "PacketDuration") && len(cl.Call.Args) == 1 {
		return cl.Call.Args[0]
	}
	if !isNewHelper(f) {
		return nil
	}
	var arg ssa.Value
	for _, b := range f.Blocks {
		for _, i := range b.Instrs {
			r, ok := i.(*ssa.Return)
			if !ok {
				continue
			}
			if len(r.Results) != 1 {
				return nil
			}
			in, ok := stripConv(r.Results[0]).(*ssa.Call)
			if !ok {
				return nil
			}
			pr, ok := stripConv(opusDurationArgR3c23(in, depth+1)).(*ssa.Parameter)
			if !ok || pr.Parent() != f || paramIndex(pr) >= len(cl.Call.Args) {
				return nil
			}
			a := cl.Call.Args[paramIndex(pr)]
			if arg != nil && arg != a {
				return nil
			}
			arg = a
		}
	}
	return arg
}

func c23CheckOffsetStoreR3(st *ssa.Store) (bool, string) {
	fa := st.Addr.(*ssa.FieldAddr)
	// (a) own timestamp + O
	add, ok := stripConv(st.Val).(*ssa.BinOp)
	if !ok || add.Op != token.ADD {
		return false, "stored value is not <own timestamp> + offset: " + c24Short(st.Val)
	}
	isOwn := func(v ssa.Value) bool {
		a := loadOf(v)
		return a != nil && (a == ssa.Value(fa) || desc(a) == desc(fa))
	}
	var off ssa.Value
	switch {
	case isOwn(add.X):
		off = add.Y
	case isOwn(add.Y):
		off = add.X
	default:
		return false, "stored value is not <own timestamp> + offset: " + c24Short(st.Val)
	}
	o := linOfR3c23(off, nil, 0)
	if o.opaque {
		return false, "offset cannot be interpreted: " + c24Short(off)
	}
	// the packet stamped: result #0 of the library encoder call of this iteration
	var elem ssa.Value
	if hf, ok := fa.X.(*ssa.FieldAddr); ok {
		if ex, ok := stripConv(hf.X).(*ssa.Extract); ok && ex.Index == 0 {
			if cl, ok := ex.Tuple.(*ssa.Call); ok && len(cl.Call.Args) >= 2 && cl.Call.StaticCallee() != nil && cl.Call.StaticCallee().Name() == "Encode" {
				elem = cl.Call.Args[len(cl.Call.Args)-1]
			}
		}
	}
	// (b) loop-carried state and constants only
	entry := map[*ssa.Phi]ssa.Value{}
	var backs []map[*ssa.Phi]ssa.Value
	backs = append(backs, map[*ssa.Phi]ssa.Value{})
	for key, t := range o.term {
		ph, isPhi := t.(*ssa.Phi)
		if !isPhi {
			return false, "offset " + o.String() + " depends on " + c24Short(t) + ", a value of the packet being encoded in this iteration (or not loop-carried): the first packet of a unit would not start at the unit's timestamp [" + key + "]"
		}
		h := ph.Block()
		if !h.Dominates(st.Block()) {
			return false, "offset uses a merged value that is not loop-carried around the store: " + c24Short(ph)
		}
		var ent, bk []ssa.Value
		for k, e := range ph.Edges {
			if k >= len(h.Preds) {
				continue
			}
			if h.Dominates(h.Preds[k]) {
				bk = append(bk, e)
			} else {
				ent = append(ent, e)
			}
		}
		if len(ent) == 0 || len(bk) == 0 {
			return false, "offset uses a merged value that is not a loop-carried variable: " + c24Short(ph)
		}
		for _, e := range ent[1:] {
			a, b := linOfR3c23(e, nil, 0), linOfR3c23(ent[0], nil, 0)
			a.add(b, -1)
			if a.c != 0 || len(a.coef) != 0 || a.opaque {
				return false, "loop-carried value enters the loop with different values: " + c24Short(ph)
			}
		}
		entry[ph] = ent[0]
		// one substitution per back edge (usually one)
		var nb []map[*ssa.Phi]ssa.Value
		for _, prev := range backs {
			for _, e := range bk {
				mm := map[*ssa.Phi]ssa.Value{}
				for k2, v2 := range prev {
					mm[k2] = v2
				}
				mm[ph] = e
				nb = append(nb, mm)
			}
		}
		backs = nb
	}
	// (c) zero for the first packet
	o0 := linOfR3c23(off, entry, 0)
	if o0.opaque || o0.c != 0 || len(o0.coef) != 0 {
		return false, "for the first packet of a unit the offset is " + o0.String() + ", not 0"
	}
	if len(entry) == 0 {
		return true, "constant zero offset"
	}
	// (d) grows by the duration of this iteration's element
	if elem == nil {
		return false, "the packet stamped is not result #0 of a library Encode call of the same iteration"
	}
	for _, sub := range backs {
		o1 := linOfR3c23(off, sub, 0)
		o1.add(o, -1)
		if o1.opaque || o1.c != 0 || len(o1.coef) != 1 {
			return false, "from one packet to the next the offset grows by " + o1.String() + ", not by the duration of the packet just encoded"
		}
		for key, cf := range o1.coef {
			cl, isCall := o1.term[key].(*ssa.Call)
			good := false
			if cf == 1 && isCall {
				if arg := opusDurationArgR3c23(cl, 0); arg != nil {
					good = arg == elem || desc(arg) == desc(elem)
				}
			}
			if !good {
				return false, "from one packet to the next the offset grows by " + o1.String() + ", not by the duration of the element handed to the library encoder (" + c24Short(elem) + ")"
			}
		}
	}
	return true, "offset " + o.String()
}
