package main

import (
	"go/ast"
	"go/constant"
	"go/token"
	"go/types"
	"net/textproto"
	"sort"
	"strconv"
	"strings"

	"golang.org/x/tools/go/ssa"
)

// C07 - secrets are not disclosed by API responses or debug dumps.

func init() {
	register(Property{ID: "C07", Level: "other", Run: runC07,
		Technique: "static analysis: type-graph walk of conf.Conf for password-typed fields against the redaction stores of api.redactCredentials, origin classification of every gin JSON response argument that can carry a credential, phi/branch analysis of the header dump",
		Text:      "Decides: (1) every field of type conf.Credential/*conf.Credential named *Pass that is reachable from conf.Conf through the parts the Control API serialises has a store of the placeholder constant in api.redactCredentials, guarded only by emptiness/nil tests of that same field and loop conditions; (2) redactCredentials writes only into the result of conf.Conf.Clone() of its argument and returns that clone (with C11: the live configuration is not modified); (3) every gin JSON/YAML/XML response argument in the module whose static type can carry a conf.Credential derives from a redactCredentials result; (4) in httpp.dumpRequest every header value reaches the output only through a phi whose raw edge is selected by a failed lookup of the header key in requestHeadersToRedact, the header map is used only through len/range/lookup, the request object is passed to no callee, the table contains Authorization, Cookie, Proxy-Authorization, Set-Cookie in canonical form and is written nowhere; no httputil dump is used. Not decided: deepness of Clone (C11), secrets other than *Pass credentials (TLS keys paths, hlsCDNSecret, SRT passphrases, credentials embedded in source URLs or query strings), response dumps.",
		Note:      "trusted: go/types+go/ssa; gin JSON rendering; conf.Conf.Global() drops the `paths` member (reflect-built); net/http canonicalises header keys of parsed requests"})
	addMutants(
		Mutant{"C07", "redact-live-config", "internal/api/api.go",
			"	c = c.Clone()\n", "", "C07.redact.on_clone"},
		Mutant{"C07", "path-readpass-not-redacted", "internal/api/api.go",
			"		if pathConf.ReadPass != nil && *pathConf.ReadPass != \"\" {\n			*pathConf.ReadPass = conf.Credential(redactedCredential)\n		}\n", "", "C07.redact.field"},
		Mutant{"C07", "user-redacted-instead-of-pass", "internal/api/api.go",
			"c.AuthInternalUsers[i].Pass = conf.Credential(redactedCredential)", "c.AuthInternalUsers[i].User = conf.Credential(redactedCredential)", "C07.redact.field"},
		Mutant{"C07", "redaction-only-for-internal-auth", "internal/api/api.go",
			"		if c.AuthInternalUsers[i].Pass != \"\" {", "		if c.AuthInternalUsers[i].Pass != \"\" && c.AuthMethod == conf.AuthMethodInternal {", "C07.redact.guard"},
		Mutant{"C07", "global-get-skips-redaction", "internal/api/api_config_global.go",
			"c := redactCredentials(a.Parent.APIConfigSnapshot())", "c := a.Parent.APIConfigSnapshot()", "C07.api"},
		Mutant{"C07", "paths-get-serialises-live-entry", "internal/api/api_config_paths.go",
			"	c := redactCredentials(a.Parent.APIConfigSnapshot())\n\n	p, ok := c.Paths[confName]", "	c := a.Parent.APIConfigSnapshot()\n\n	p, ok := c.Paths[confName]", "C07.api"},
		Mutant{"C07", "dump-without-redaction", "internal/protocols/httpp/handler_logger.go",
			"			if _, ok := requestHeadersToRedact[k]; ok {\n				v = \"<redacted>\"\n			}\n", "", "C07.dump.header_value"},
		Mutant{"C07", "dump-redacts-non-listed-only", "internal/protocols/httpp/handler_logger.go",
			"if _, ok := requestHeadersToRedact[k]; ok {", "if _, ok := requestHeadersToRedact[k]; !ok {", "C07.dump.header_value"},
		Mutant{"C07", "cookie-row-removed", "internal/protocols/httpp/handler_logger.go",
			"	\"Cookie\":              {},\n", "", "C07.dump.table"},
		Mutant{"C07", "non-canonical-table-key", "internal/protocols/httpp/handler_logger.go",
			"\"Proxy-Authorization\": {},", "\"Proxy-authorization\": {},", "C07.dump.table"},
		Mutant{"C07", "bulk-header-dump", "internal/protocols/httpp/handler_logger.go",
			"	io.WriteString(&b, \"\\r\\n\") //nolint:errcheck", "	req.Header.Write(&b)           //nolint:errcheck\n	io.WriteString(&b, \"\\r\\n\") //nolint:errcheck", "C07.dump.no_bulk"},
	)
}

func isCredentialType(t types.Type) bool {
	if pt, ok := t.(*types.Pointer); ok {
		t = pt.Elem()
	}
	return isNamed(t, "internal/conf", "Credential") && !isPtrToPtr(t)
}

func isPtrToPtr(t types.Type) bool { _, ok := t.(*types.Pointer); return ok }

// opaque carriers of configuration values (reflect-built or interface-typed).
var c07Carriers = map[string]bool{"Global": true, "OptionalPath": true, "OptionalGlobal": true}

var c07CarryCache = map[types.Type]bool{}

func carriesCredential(t types.Type) bool {
	if v, ok := c07CarryCache[t]; ok {
		return v
	}
	v := carriesCredential0(t)
	c07CarryCache[t] = v
	return v
}

func carriesCredential0(t types.Type) bool {
	return typeReaches(t, func(n *types.Named) bool {
		if n.Obj().Pkg() == nil || n.Obj().Pkg().Path() != pkgPath("internal/conf") {
			return false
		}
		return n.Obj().Name() == "Credential" || c07Carriers[n.Obj().Name()]
	})
}

// secretPaths walks the type graph of conf.Conf and returns the access paths
// of password fields.
func secretPaths(root *types.Named, skip map[string]bool) []string {
	var out []string
	onPath := map[types.Type]bool{}
	var rec func(t types.Type, path string)
	rec = func(t types.Type, path string) {
		t = types.Unalias(t)
		if onPath[t] {
			return
		}
		onPath[t] = true
		defer delete(onPath, t)
		switch x := t.(type) {
		case *types.Named:
			rec(x.Underlying(), path)
		case *types.Pointer:
			rec(x.Elem(), path)
		case *types.Slice:
			rec(x.Elem(), path+"[]")
		case *types.Array:
			rec(x.Elem(), path+"[]")
		case *types.Map:
			rec(x.Elem(), path+"[]")
		case *types.Struct:
			for i := 0; i < x.NumFields(); i++ {
				f := x.Field(i)
				fp := path + "." + f.Name()
				if skip[fp] {
					continue
				}
				if isCredentialType(f.Type()) {
					if strings.HasSuffix(f.Name(), "Pass") {
						out = append(out, fp)
					}
					continue
				}
				rec(f.Type(), fp)
			}
		}
	}
	rec(root, "")
	sort.Strings(out)
	return out
}

func runC07(c *Ctx) {
	p := c.Main()
	if p == nil {
		return
	}
	c.Explain = "E3 type-graph walk of conf.Conf (fields of type Credential/*Credential named *Pass; OptionalPaths excluded: not serialised by the API) against the stores of api.redactCredentials; dominator-chain control conditions of each redaction store; access-path roots of all stores (clone only); a store inside a new helper counts once per call chain, with the access path and the conditions of the call site (prop_gen_c07.go); E5 backward origin of the data argument of every gin response call whose static type can carry a conf.Credential (or an opaque conf carrier); E5 forward use analysis of header values in httpp.dumpRequest with per-phi-edge branch literals; table literal check; module-wide who-writes of the table and absence of httputil dumps."
	cloneObligations(c, "C07.clone_independent.")
	c.Assume = []string{
		"conf.Conf.Clone is a deep copy (C11; its obligations are re-evaluated here as C07.clone_independent.*)",
		"conf.Conf.Global() omits pathDefaults/paths; OptionalPaths is not serialised by the Control API",
		"net/http stores request header keys in canonical form",
	}
	c.c07Redact(p)
	c.c07Sinks(p)
	c.c07Dump(p)
}

func (c *Ctx) c07Redact(p *Prog) {
	fn := c.fn(p, "internal/api", "", "redactCredentials")
	confT := p.NamedType("internal/conf", "Conf")
	if fn == nil || confT == nil {
		if confT == nil {
			c.Undecided("UNRESOLVED ANCHOR type conf.Conf")
		}
		return
	}
	name := "api.redactCredentials"
	placeholder := ""
	if pk := p.Pkg("internal/api"); pk != nil {
		if o, ok := pk.Types.Scope().Lookup("redactedCredential").(*types.Const); ok && o.Val().Kind() == constant.String {
			placeholder = constant.StringVal(o.Val())
		}
	}
	c.Check("C07.redact.placeholder", "api.redactedCredential is a non-empty constant", placeholder != "", p.Pos(fn.Pos()), "")

	cloneI := uniqueCall(fn, "(conf.Conf).Clone")
	var clone *ssa.Call
	if cloneI != nil {
		clone = cloneI.(*ssa.Call)
	}
	cloneOK := clone != nil && len(clone.Call.Args) == 1 && isParam(clone.Call.Args[0], 0)
	c.Check("C07.redact.on_clone", name+": works on conf.Conf.Clone() of its argument", cloneOK, p.Pos(fn.Pos()), "")
	for _, r := range returnsOf(fn) {
		c.Check("C07.redact.on_clone", name+": returns the clone", clone != nil && deref(retVal(r, 0)) == ssa.Value(clone), p.Pos(posOf(r, fn)), desc(retVal(r, 0)))
	}
	// stores: root and path. A store inside a new helper is one redaction per
	// call chain (prop_gen_c07.go): its path continues at the call site's argument.
	type red struct {
		site c07Site
		path string
	}
	byPath := map[string][]red{}
	nSt := 0
	for _, site := range c07Sites(fn) {
		st := site.st
		if _, isAlloc := st.Addr.(*ssa.Alloc); isAlloc {
			continue // local variable
		}
		nSt++
		root, path := c07Path(st.Addr, site.chain)
		onClone := clone != nil && root == ssa.Value(clone)
		c.Check("C07.redact.on_clone", name+": store to "+path+" goes into the clone", onClone, p.Pos(st.Pos()), "root "+desc(root))
		if onClone {
			byPath[path] = append(byPath[path], red{site, path})
		}
	}
	c.Floor("C07.redact.stores", nSt, 5)
	// no call receives the original configuration except Clone
	eachInstr(fn, func(i ssa.Instruction) {
		cc := callCommon(i)
		if cc == nil || i == cloneI {
			return
		}
		for _, a := range cc.Args {
			if isParam(a, 0) && i.Parent() == fn {
				c.Check("C07.redact.on_clone", name+": the live configuration is passed to "+calleeName(cc), false, p.Pos(i.Pos()), "")
			}
		}
	})

	secrets := secretPaths(confT, map[string]bool{".OptionalPaths": true})
	c.Floor("C07.redact.field", len(secrets), 5)
	for _, sp := range secrets {
		// the value written when the field is set: evaluated under the assumption
		// that the field's own emptiness / nil tests fail (a constant, a named
		// local, a helper returning placeholder-or-unchanged all give the placeholder)
		ownOf := func(r red) (string, func(string) bool) {
			d := ""
			r.site.bound(func() { d = desc(r.site.st.Addr) })
			return d, func(atom string) bool { return atom == "("+d+` == "")` || atom == "("+d+" == nil)" }
		}
		var good []red
		for _, r := range byPath[sp] {
			_, own := ownOf(r)
			vals := r.site.storedWhenSet(own)
			if len(vals) == 1 && placeholder != "" && vals[0] == strconv.Quote(placeholder) {
				good = append(good, r)
			}
		}
		if !c.Check("C07.redact.field", name+": conf.Conf"+sp+" ← placeholder", len(good) >= 1, p.Pos(fn.Pos()), "password field reachable from conf.Conf without a redaction store") {
			continue
		}
		for _, r := range good {
			_, own := ownOf(r)
			var bad []string
			for _, l := range r.site.controlLits() {
				// loop conditions: the "more elements" flag of a range over a map, or the
				// counter test of a range over a slice (a condition that merely mentions
				// the range element, such as !elem.Pass.IsHashed(), is not one)
				loop := (strings.HasPrefix(l.Atom, "next(range(") && strings.HasSuffix(l.Atom, "))#0")) || strings.Contains(l.Atom, "phi↺")
				if !loop && !(!l.Pos && own(l.Atom)) {
					bad = append(bad, l.String())
				}
			}
			c.Check("C07.redact.guard", name+": redaction of conf.Conf"+sp+" depends only on that field being set", len(bad) == 0, p.Pos(r.site.st.Pos()), "extra conditions: "+joinS(bad))
		}
	}
	// loops cover every element: the ranges are over the clone's collections
	for _, sp := range secrets {
		if i := strings.Index(sp, "[]"); i > 0 {
			coll := sp[:i]
			found := false
			eachInstr(fn, func(ins ssa.Instruction) {
				switch x := ins.(type) {
				case *ssa.Range:
					if r, pth := accessPath(x.X); clone != nil && r == ssa.Value(clone) && pth == coll {
						found = true
					}
				case *ssa.Call:
					if b, ok := x.Call.Value.(*ssa.Builtin); ok && b.Name() == "len" {
						if r, pth := accessPath(x.Call.Args[0]); clone != nil && r == ssa.Value(clone) && pth == coll {
							found = true
						}
					}
				}
			})
			c.Check("C07.redact.loop", name+": iterates over all of conf.Conf"+coll, found, p.Pos(fn.Pos()), "")
		}
	}
}

// ---- API sinks

var ginRenderers = []string{"JSON", "IndentedJSON", "PureJSON", "SecureJSON", "AsciiJSON", "JSONP", "YAML", "XML", "TOML", "ProtoBuf", "AbortWithStatusJSON", "AbortWithStatusPureJSON"}

type c07flow struct {
	seen map[ssa.Value]bool
	bad  []string
}

func (f *c07flow) storesInto(addr ssa.Value, depth int) []ssa.Value {
	var out []ssa.Value
	if depth > 6 || addr.Referrers() == nil {
		return out
	}
	for _, r := range *addr.Referrers() {
		switch x := r.(type) {
		case *ssa.Store:
			if x.Addr == addr {
				out = append(out, x.Val)
			}
		case *ssa.FieldAddr:
			out = append(out, f.storesInto(x, depth+1)...)
		case *ssa.IndexAddr:
			out = append(out, f.storesInto(x, depth+1)...)
		case *ssa.UnOp:
			if x.Op == token.MUL {
				// a loaded slice/pointer held in the object: stores through it
				switch x.Type().Underlying().(type) {
				case *types.Slice, *types.Pointer, *types.Map:
					out = append(out, f.storesInto(x, depth+1)...)
				}
			}
		case *ssa.MapUpdate:
			if x.Map == addr {
				out = append(out, x.Value)
			}
		}
	}
	return out
}

func (f *c07flow) derive(v ssa.Value) {
	if v == nil || f.seen[v] {
		return
	}
	f.seen[v] = true
	if !carriesCredential(v.Type()) {
		return
	}
	switch x := v.(type) {
	case *ssa.Const, *ssa.MakeSlice, *ssa.MakeMap:
		return
	case *ssa.MakeInterface:
		f.derive(x.X)
	case *ssa.ChangeType:
		f.derive(x.X)
	case *ssa.ChangeInterface:
		f.derive(x.X)
	case *ssa.Convert:
		f.derive(x.X)
	case *ssa.FieldAddr:
		f.derive(x.X)
	case *ssa.Field:
		f.derive(x.X)
	case *ssa.IndexAddr:
		f.derive(x.X)
	case *ssa.Index:
		f.derive(x.X)
	case *ssa.Lookup:
		f.derive(x.X)
	case *ssa.Slice:
		f.derive(x.X)
	case *ssa.Extract:
		f.derive(x.Tuple)
	case *ssa.UnOp:
		f.derive(x.X)
	case *ssa.Phi:
		for _, e := range x.Edges {
			f.derive(e)
		}
	case *ssa.Alloc:
		for _, s := range f.storesInto(x, 0) {
			f.derive(s)
		}
	case *ssa.Call:
		if isCallTo(x, "api.redactCredentials") {
			return
		}
		n := 0
		args := x.Call.Args
		if x.Call.IsInvoke() {
			args = append([]ssa.Value{x.Call.Value}, args...)
		}
		for _, a := range args {
			if carriesCredential(a.Type()) {
				n++
				f.derive(a)
			}
		}
		if n == 0 {
			f.bad = append(f.bad, "result of "+calleeName(&x.Call))
		}
	default:
		f.bad = append(f.bad, desc(v))
	}
}

func (c *Ctx) c07Sinks(p *Prog) {
	pats := []string{}
	for _, r := range ginRenderers {
		pats = append(pats, "(*github.com/gin-gonic/gin.Context)."+r)
	}
	n, nAll := 0, 0
	for _, fn := range p.ModFuncs() {
		for _, ci := range callsIn(fn, pats...) {
			cc := callCommon(ci)
			if len(cc.Args) < 2 {
				continue
			}
			nAll++
			data := cc.Args[len(cc.Args)-1]
			inner := data
			if mi, ok := data.(*ssa.MakeInterface); ok {
				inner = mi.X
			}
			if !carriesCredential(inner.Type()) {
				continue
			}
			n++
			c.Analysed(fnName(fn))
			f := &c07flow{seen: map[ssa.Value]bool{}}
			f.derive(inner)
			sort.Strings(f.bad)
			c.Check("C07.api.response_redacted", fnName(fn)+": "+calleeName(cc)+" of "+typeStr(inner.Type())+" derives from redactCredentials", len(f.bad) == 0, p.Pos(ci.Pos()),
				"unredacted configuration source(s): "+joinS(f.bad))
		}
	}
	c.Count("gin_response_calls", nAll)
	c.Floor("C07.api.response_redacted", n, 4)
	c.Floor("C07.api.responses_scanned", nAll, 40)
}

// ---- dumpRequest

func (c *Ctx) c07Dump(p *Prog) {
	fn := c.fn(p, "internal/protocols/httpp", "", "dumpRequest")
	if fn == nil {
		return
	}
	name := "httpp.dumpRequest"
	if len(fn.Params) != 1 {
		c.Undecided("UNRESOLVED ANCHOR dumpRequest(req) signature")
		return
	}
	req := fn.Params[0]
	// uses of the request object and of its header map
	var hdrLoads []ssa.Value
	for _, r := range *req.Referrers() {
		fa, ok := r.(*ssa.FieldAddr)
		if !ok {
			c.Check("C07.dump.no_bulk", name+": the request object is used only field by field", false, p.Pos(r.Pos()), "used by "+r.String())
			continue
		}
		if !fieldAddrIs(fa, "net/http.Request", "Header") {
			continue
		}
		for _, rr := range *fa.Referrers() {
			if ld, ok := rr.(*ssa.UnOp); ok && ld.Op == token.MUL {
				hdrLoads = append(hdrLoads, ld)
			} else {
				c.Check("C07.dump.no_bulk", name+": req.Header is only read", false, p.Pos(rr.Pos()), rr.String())
			}
		}
	}
	c.Floor("C07.dump.header_loads", len(hdrLoads), 1)
	var lookups []*ssa.Lookup
	for _, h := range hdrLoads {
		for _, r := range *h.Referrers() {
			ok := false
			switch x := r.(type) {
			case *ssa.Lookup:
				if x.X == h {
					ok = true
					lookups = append(lookups, x)
				}
			case *ssa.Range:
				ok = true
			case *ssa.Call:
				if b, isB := x.Call.Value.(*ssa.Builtin); isB && b.Name() == "len" {
					ok = true
				}
				// collecting the keys with a library function discloses no value (prop_gen_c07.go)
				if c07KeysOnly(x) {
					ok = true
				}
			case *ssa.DebugRef:
				ok = true
			}
			c.Check("C07.dump.no_bulk", name+": req.Header is used only through len / range / lookup", ok, p.Pos(posOf(r, fn)), r.String())
		}
	}
	c.Floor("C07.dump.header_lookups", len(lookups), 1)

	// the redaction table global
	var table *ssa.Global
	if sp := p.SSAPkgs[pkgPath("internal/protocols/httpp")]; sp != nil {
		table, _ = sp.Members["requestHeadersToRedact"].(*ssa.Global)
	}
	if table == nil {
		c.Undecided("UNRESOLVED ANCHOR httpp.requestHeadersToRedact")
		return
	}
	// forward: raw header values
	for _, lk := range lookups {
		raw := map[ssa.Value]bool{lk: true}
		var strs []ssa.Value
		work := []ssa.Value{lk}
		for len(work) > 0 {
			v := work[0]
			work = work[1:]
			if v.Referrers() == nil {
				continue
			}
			for _, r := range *v.Referrers() {
				var nv ssa.Value
				switch x := r.(type) {
				case *ssa.Extract:
					if _, isLk := v.(*ssa.Lookup); isLk && x.Index == 1 {
						continue // presence flag
					}
					if _, isNx := v.(*ssa.Next); isNx && x.Index != 2 {
						continue
					}
					nv = x
				case *ssa.IndexAddr:
					nv = x
				case *ssa.Index:
					nv = x
				case *ssa.Slice:
					nv = x
				case *ssa.Range:
					nv = x
				case *ssa.Next:
					nv = x
				case *ssa.UnOp:
					if x.Op == token.MUL {
						nv = x
					}
				case *ssa.Call:
					if b, isB := x.Call.Value.(*ssa.Builtin); isB && (b.Name() == "len" || b.Name() == "cap") {
						continue
					}
				case *ssa.DebugRef:
					continue
				}
				if nv == nil {
					if _, isStr := v.Type().Underlying().(*types.Basic); !isStr {
						c.Check("C07.dump.header_value", name+": header value collection is only indexed / ranged", false, p.Pos(posOf(r, fn)), r.String())
					}
					continue
				}
				if !raw[nv] {
					raw[nv] = true
					work = append(work, nv)
					if b, ok := nv.Type().Underlying().(*types.Basic); ok && b.Kind() == types.String {
						strs = append(strs, nv)
					}
				}
			}
		}
		c.Floor("C07.dump.header_values", len(strs), 1)
		for _, rv := range strs {
			nUse := 0
			for _, r := range *rv.Referrers() {
				if _, isDbg := r.(*ssa.DebugRef); isDbg {
					continue
				}
				nUse++
				ph, ok := r.(*ssa.Phi)
				if !ok {
					c.Check("C07.dump.header_value", name+": a header value reaches the output only through the redaction choice", false, p.Pos(posOf(r, fn)), "raw header value used by "+r.String())
					continue
				}
				for i, e := range ph.Edges {
					if e != rv {
						_, isC := e.(*ssa.Const)
						c.Check("C07.dump.header_value", name+": the alternative of a raw header value is a constant placeholder", isC, p.Pos(posOf(ph, fn)), desc(e))
						continue
					}
					l, okL := phiEdgeLit(ph, i)
					good := false
					if okL && !l.Pos {
						// literal must be the presence flag of table[key] with the key of this header lookup
						eachInstr(fn, func(ins ssa.Instruction) {
							tl, isLk := ins.(*ssa.Lookup)
							if !isLk || !tl.CommaOk || tl.Index != lk.Index {
								return
							}
							if ld, isLd := tl.X.(*ssa.UnOp); isLd && ld.X == ssa.Value(table) && l.Atom == desc(tl)+"#1" {
								good = true
							}
						})
					}
					c.Check("C07.dump.header_value", name+": the raw header value is selected only when its key is not in requestHeadersToRedact", good, p.Pos(posOf(ph, fn)), "edge literal "+l.String())
				}
			}
			c.Floor("C07.dump.header_value.uses", nUse, 1)
		}
	}

	// the table literal
	c.c07Table(p, table)

	// no library dump of requests anywhere in the module
	nLib := 0
	for _, f := range p.ModFuncs() {
		for _, ci := range callsIn(f, "net/http/httputil.DumpRequest", "net/http/httputil.DumpRequestOut", "(*net/http.Request).Write", "(*net/http.Request).WriteProxy") {
			nLib++
			c.Check("C07.dump.no_library_dump", fnName(f)+": "+calleeName(callCommon(ci)), false, p.Pos(ci.Pos()), "library request dumps do not redact credential headers")
		}
	}
	c.Check("C07.dump.no_library_dump", "module does not call httputil.DumpRequest* / (*http.Request).Write*", nLib == 0, "-", "")
}

func (c *Ctx) c07Table(p *Prog, table *ssa.Global) {
	pk := p.Pkg("internal/protocols/httpp")
	var lit *ast.CompositeLit
	for _, f := range pk.Syntax {
		for _, d := range f.Decls {
			gd, ok := d.(*ast.GenDecl)
			if !ok || gd.Tok != token.VAR {
				continue
			}
			for _, s := range gd.Specs {
				vs := s.(*ast.ValueSpec)
				for i, n := range vs.Names {
					if n.Name == "requestHeadersToRedact" && i < len(vs.Values) {
						lit, _ = vs.Values[i].(*ast.CompositeLit)
					}
				}
			}
		}
	}
	if lit == nil {
		c.Undecided("UNRESOLVED ANCHOR composite literal of httpp.requestHeadersToRedact")
		return
	}
	keys := map[string]bool{}
	for _, e := range lit.Elts {
		k, ok := e.(*ast.KeyValueExpr)
		if !ok {
			continue
		}
		tv := pk.TypesInfo.Types[k.Key]
		if tv.Value == nil || tv.Value.Kind() != constant.String {
			c.Check("C07.dump.table", "requestHeadersToRedact key is a constant", false, p.Pos(k.Pos()), exprStr(k.Key))
			continue
		}
		s := constant.StringVal(tv.Value)
		keys[s] = true
		c.Check("C07.dump.table", "requestHeadersToRedact key "+s+" is in canonical header form", textproto.CanonicalMIMEHeaderKey(s) == s, p.Pos(k.Pos()),
			"net/http stores keys as "+textproto.CanonicalMIMEHeaderKey(s)+"; a non-canonical table key never matches")
	}
	for _, need := range []string{"Authorization", "Cookie", "Proxy-Authorization", "Set-Cookie"} {
		c.Check("C07.dump.table", "requestHeadersToRedact contains "+need, keys[need], p.Pos(lit.Pos()), "")
	}
	// who writes the table
	for _, f := range p.ModFuncs() {
		if f.Name() == "init" && f.Synthetic != "" {
			continue
		}
		eachInstr(f, func(i ssa.Instruction) {
			switch x := i.(type) {
			case *ssa.MapUpdate:
				if ld, ok := x.Map.(*ssa.UnOp); ok && ld.X == ssa.Value(table) {
					c.Check("C07.dump.table", "requestHeadersToRedact is modified in "+fnName(f), false, p.Pos(x.Pos()), "")
				}
			case *ssa.Store:
				if x.Addr == ssa.Value(table) {
					c.Check("C07.dump.table", "requestHeadersToRedact is replaced in "+fnName(f), false, p.Pos(x.Pos()), "")
				}
			case *ssa.Call:
				if b, ok := x.Call.Value.(*ssa.Builtin); ok && (b.Name() == "delete" || b.Name() == "clear") {
					if ld, ok := x.Call.Args[0].(*ssa.UnOp); ok && ld.X == ssa.Value(table) {
						c.Check("C07.dump.table", "requestHeadersToRedact is modified in "+fnName(f), false, p.Pos(x.Pos()), "")
					}
				}
			}
		})
	}
}
