package main

import "strings"

// globMatch matches a pattern in which '*' stands for any (possibly empty)
// run of characters; everything else is literal.
func globMatch(pat, s string) bool {
	parts := strings.Split(pat, "*")
	if len(parts) == 1 {
		return pat == s
	}
	if !strings.HasPrefix(s, parts[0]) {
		return false
	}
	s = s[len(parts[0]):]
	last := parts[len(parts)-1]
	for _, mid := range parts[1 : len(parts)-1] {
		i := strings.Index(s, mid)
		if i < 0 {
			return false
		}
		s = s[i+len(mid):]
	}
	return strings.HasSuffix(s, last)
}
