package main

// C20.server_holder.closed_sessions_forgotten - a session that a muxer closes
// (session.close2 runs the runOnUnread hook and detaches the reader) must stop
// being reachable through the muxer in the same critical section: the muxer stays
// in the server's list until closeMuxer() is processed, and whoever finds the
// session there meanwhile (a kick) closes it a second time - runOnUnread twice,
// and in practice a panic on a channel closed twice (found with
// demos/c40_three_actor_deadlock, repaired in /repo 3ebee18).
//
// For every call of (*hls.session).close2 whose receiver was taken from a holder
// of the enclosing method's receiver - the element of a range over a map field,
// or a field holding one session - every path from the call to the release of
// the mutex (or to a return) passes a statement that empties the holder:
// clear(map) / delete(map, k) / a store to the map field; a store to the field.

import (
	"strings"

	"golang.org/x/tools/go/ssa"
)

func init() {
	addMutants(
		Mutant{"C20", "hls-destroyed-muxer-keeps-closed-sessions", "internal/servers/hls/muxer.go",
			"	clear(m.sessionsBySecret)\n", "", "C20.server_holder.closed_sessions_forgotten"},
		Mutant{"C20", "hls-destroyed-muxer-keeps-closed-cdn-session", "internal/servers/hls/muxer.go",
			"		m.cdnSession.close2(fmt.Errorf(\"muxer destroyed\"))\n		m.cdnSession = nil\n", "		m.cdnSession.close2(fmt.Errorf(\"muxer destroyed\"))\n", "C20.server_holder.closed_sessions_forgotten"},
	)
}

func c20r4ClosedSessionsForgotten(c *Ctx, p *Prog) {
	const rule = "C20.server_holder.closed_sessions_forgotten"
	n := 0
	for _, fn := range p.ModFuncs() {
		if !strings.HasSuffix(funcPkgPath(fn), "/internal/servers/hls") {
			continue
		}
		for _, ci := range callsIn(fn, "(*servers/hls.session).close2") {
			cc := callCommon(ci)
			if cc == nil || len(cc.Args) == 0 {
				continue
			}
			recv := desc(cc.Args[0])
			holder, isMap := "", false
			switch {
			case strings.HasPrefix(recv, "next(range($0.") && strings.HasSuffix(recv, "))#2"):
				holder, isMap = strings.TrimSuffix(strings.TrimPrefix(recv, "next(range("), "))#2"), true
			case strings.HasPrefix(recv, "$0.") && strings.Count(recv, ".") == 1:
				holder = recv
			default:
				continue // a session found by a lookup: detached by the kick rules (server_holder.store_guard)
			}
			n++
			empties := func(i ssa.Instruction) bool {
				if st, ok := i.(*ssa.Store); ok && desc(st.Addr) == holder {
					return true
				}
				if isMap {
					if cl, ok := i.(*ssa.Call); ok {
						if bi, ok := cl.Call.Value.(*ssa.Builtin); ok && (bi.Name() == "clear" || bi.Name() == "delete") && len(cl.Call.Args) >= 1 && desc(cl.Call.Args[0]) == holder {
							return true
						}
					}
				}
				return false
			}
			w := (&Walker{Visit: func(i ssa.Instruction) int {
				if empties(i) {
					return wStop
				}
				if _, ok := i.(*ssa.Return); ok {
					return wHit
				}
				if isCallTo(i, "(*sync.RWMutex).Unlock", "(*sync.Mutex).Unlock") {
					if _, isCall := i.(*ssa.Call); isCall {
						return wHit
					}
				}
				return wContinue
			}}).Run(after(ci))
			if w != nil {
				// removed from the holder earlier in the same critical section (delete, then close)?
				before := false
				for _, lk := range callsIn(fn, "(*sync.RWMutex).Lock", "(*sync.Mutex).Lock") {
					if _, isCall := lk.(*ssa.Call); !isCall {
						continue
					}
					before = true
					wb := (&Walker{Visit: func(i ssa.Instruction) int {
						if empties(i) {
							return wStop
						}
						if i == ci {
							return wHit
						}
						if _, isCall := i.(*ssa.Call); isCall && isCallTo(i, "(*sync.RWMutex).Unlock", "(*sync.Mutex).Unlock") {
							return wStop
						}
						return wContinue
					}}).Run(after(lk))
					if wb != nil {
						before = false
						break
					}
				}
				if before {
					w = nil
				}
			}
			c.Check(rule, fnName(fn)+": session closed from holder "+holder+" is removed from it before the mutex is released", w == nil, p.Pos(posOf(ci, fn)),
				"the closed session stays reachable through the muxer: a kick received before closeMuxer() is processed closes it a second time. "+w.String(p))
		}
	}
	c.Floor(rule, n, 2)
}
