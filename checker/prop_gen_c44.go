package main

// Path enumeration with value resolution for small loop-free functions
// (engine candidate; names carry the suffix G4).
//
// The Walker (ssax.go) decides "every path to X carries literal L" on branch
// literals that are TEXT, and correlates the result of an inlined new helper
// with the caller's test of it only for single-result helpers. A validating
// function such as api.paginate is small and loop-free, so it can be decided
// exactly instead: every entry-to-exit path is enumerated with the new helpers
// entered at their calls (one frame per activation), and along one path every
// SSA value has ONE meaning:
//   - a phi is the edge that was taken,
//   - the result (also result #i of a tuple) of a new helper is the value of
//     the return that was taken, a helper parameter is the call's argument,
//   - a load of a local is the value stored last.
// Two tests of the same resolved value with opposite outcomes, and tests of
// two constants, make a path infeasible (an acyclic path computes every SSA
// value once, so equal resolved values are equal at run time). What is left
// are the feasible paths, each with its branch outcomes over resolved values,
// the calls it executed, and its return. Rules are then stated per path:
// "where paginate2 is called, its argument IS ParseUint(..)#0 of a call whose
// error WAS tested nil on this path" - however the statements are spread over
// helpers, locals, early returns or merged conditions.

import (
	"fmt"
	"go/constant"
	"go/token"
	"go/types"
	"math/big"
	"sort"
	"strings"

	"golang.org/x/tools/go/ssa"
)

type pkG4 struct {
	v   ssa.Value
	env *envG4
}

type pcondG4 struct {
	key    string
	pol    bool
	ncalls int // number of calls executed before the test
}

// ptraceG4 is one executed instruction of a path.
type ptraceG4 struct {
	ins   ssa.Instruction
	env   *envG4
	nlits int // number of branch literals of the path before it
}

type pathG4 struct {
	conds  []pcondG4
	lits   []Lit      // the branch literals in the Walker's text form, over resolved values
	trace  []ptraceG4 // executed instructions (phis and the returns of entered helpers excepted)
	calls  []pkG4     // executed calls, in order (value = *ssa.Call, env = frame it ran in)
	phis   map[pkG4]ssa.Value
	rets   map[pkG4]*ssa.Return // call of a new helper -> the return taken
	frames map[pkG4]*envG4      // call of a new helper -> its frame
	loads  map[pkG4]rvalG4      // load of a local -> value it held
	end    *ssa.Return          // return of the walked function; nil: the path panics
}

func (π *pathG4) clone() *pathG4 {
	q := &pathG4{
		conds:  append([]pcondG4(nil), π.conds...),
		lits:   append([]Lit(nil), π.lits...),
		trace:  append([]ptraceG4(nil), π.trace...),
		calls:  append([]pkG4(nil), π.calls...),
		phis:   map[pkG4]ssa.Value{},
		rets:   map[pkG4]*ssa.Return{},
		frames: map[pkG4]*envG4{},
		loads:  map[pkG4]rvalG4{},
	}
	for k, v := range π.phis {
		q.phis[k] = v
	}
	for k, v := range π.rets {
		q.rets[k] = v
	}
	for k, v := range π.frames {
		q.frames[k] = v
	}
	for k, v := range π.loads {
		q.loads[k] = v
	}
	return q
}

// step follows one indirection of a value on this path.
func (π *pathG4) step(x rvalG4) (rvalG4, bool) {
	switch v := x.v.(type) {
	case *ssa.Phi:
		if e, ok := π.phis[pkG4{v, x.env}]; ok {
			return rvalG4{e, x.env}, true
		}
	case *ssa.Parameter:
		if h := v.Parent(); isNewHelper(h) {
			if site, up, bound := x.env.lookup(h); bound {
				if k := paramIndex(v); k >= 0 && k < len(site.Call.Args) {
					return rvalG4{site.Call.Args[k], up}, true
				}
			}
		}
	case *ssa.Call:
		k := pkG4{v, x.env}
		if r, ok := π.rets[k]; ok && len(r.Results) == 1 {
			return rvalG4{retVal(r, 0), π.frames[k]}, true
		}
	case *ssa.Extract:
		if c, ok := v.Tuple.(*ssa.Call); ok {
			k := pkG4{c, x.env}
			if r, ok := π.rets[k]; ok && v.Index < len(r.Results) {
				return rvalG4{retVal(r, v.Index), π.frames[k]}, true
			}
		}
	case *ssa.UnOp:
		if v.Op == token.MUL {
			if l, ok := π.loads[pkG4{v, x.env}]; ok {
				return l, true
			}
		}
	}
	return x, false
}

// resolve: the value an expression stands for on this path, through
// representation-only conversions.
func (π *pathG4) resolve(x rvalG4) rvalG4 {
	for n := 0; n < 256; n++ {
		x.v = stripConv(x.v)
		y, ok := π.step(x)
		if !ok {
			return x
		}
		x = y
	}
	return x
}

// key: a canonical text of the resolved value; equal keys = equal values on
// this path. Instruction results are identified by instruction and frame.
func (π *pathG4) key(x rvalG4) string { return π.keyD(x, 0) }

func (π *pathG4) keyD(x rvalG4, d int) string {
	x = π.resolve(x)
	if d > 12 {
		return fmt.Sprintf("…%p/%p", x.v, x.env)
	}
	switch v := x.v.(type) {
	case *ssa.Const:
		return "c:" + desc(v)
	case *ssa.Parameter:
		return fmt.Sprintf("p:%s$%d", v.Parent().Name(), paramIndex(v))
	case *ssa.Global:
		return "g:" + desc(v)
	case *ssa.BinOp:
		return "(" + π.keyD(rvalG4{v.X, x.env}, d+1) + " " + v.Op.String() + " " + π.keyD(rvalG4{v.Y, x.env}, d+1) + ")"
	case *ssa.UnOp:
		if v.Op != token.MUL && v.Op != token.ARROW {
			return v.Op.String() + π.keyD(rvalG4{v.X, x.env}, d+1)
		}
	case *ssa.Extract:
		return "ext(" + π.keyD(rvalG4{v.Tuple, x.env}, d+1) + ")#" + fmt.Sprint(v.Index)
	case *ssa.Call:
		if bi, ok := v.Call.Value.(*ssa.Builtin); ok {
			switch bi.Name() {
			case "len", "cap", "min", "max":
				var as []string
				for _, a := range v.Call.Args {
					as = append(as, π.keyD(rvalG4{a, x.env}, d+1))
				}
				return bi.Name() + "(" + strings.Join(as, ",") + ")"
			}
		}
	}
	env := x.env
	if f := x.v.Parent(); f == nil || !isNewHelper(f) {
		env = nil // a value of the walked function: one activation
	}
	return fmt.Sprintf("%T@%p/%p", x.v, x.v, env)
}

func isStringG4(v ssa.Value) bool {
	b, ok := v.Type().Underlying().(*types.Basic)
	return ok && b.Info()&types.IsString != 0
}

func constBigG4(v ssa.Value) (*big.Int, bool) {
	return constBig(stripConv(v))
}

// lit: the normal form of a branch condition taken with an outcome.
//   - !x flips; a != b is (a == b) flipped, operands ordered;
//   - a > b, a >= b, a <= b are expressed with <;
//   - len(s) == 0, len(s) < 1, len(s) > 0 ... of a string s are (s == "");
//   - konst: 1/0 when the condition has a known value (two constants), -1 otherwise.
func (π *pathG4) lit(cond rvalG4, outcome bool) (key string, pol bool, konst int) {
	c := π.resolve(cond)
	switch v := c.v.(type) {
	case *ssa.Const:
		if v.Value != nil && v.Value.Kind() == constant.Bool {
			k := 0
			if constant.BoolVal(v.Value) {
				k = 1
			}
			return "c:" + desc(v), outcome, k
		}
	case *ssa.UnOp:
		if v.Op == token.NOT {
			key, pol, konst = π.lit(rvalG4{v.X, c.env}, !outcome)
			if konst >= 0 { // konst is the value of the condition itself
				konst = 1 - konst
			}
			return key, pol, konst
		}
	case *ssa.BinOp:
		X, Y := π.resolve(rvalG4{v.X, c.env}), π.resolve(rvalG4{v.Y, c.env})
		op := v.Op
		// constant on the left: mirror
		if _, isK := X.v.(*ssa.Const); isK {
			if _, isK2 := Y.v.(*ssa.Const); !isK2 {
				X, Y = Y, X
				switch op {
				case token.LSS:
					op = token.GTR
				case token.GTR:
					op = token.LSS
				case token.LEQ:
					op = token.GEQ
				case token.GEQ:
					op = token.LEQ
				}
			}
		}
		kx, ky := π.key(X), π.key(Y)
		// emptiness of a string through its length
		if cl, ok := X.v.(*ssa.Call); ok && len(cl.Call.Args) == 1 {
			if bi, isB := cl.Call.Value.(*ssa.Builtin); isB && bi.Name() == "len" && isStringG4(cl.Call.Args[0]) {
				if n, isN := constBigG4(Y.v); isN {
					s := π.key(rvalG4{cl.Call.Args[0], X.env})
					a, b := s, `c:""`
					if a > b {
						a, b = b, a
					}
					ek := "(" + a + " == " + b + ")"
					switch {
					case op == token.EQL && n.Sign() == 0, op == token.LSS && n.Cmp(big.NewInt(1)) == 0, op == token.LEQ && n.Sign() == 0:
						return ek, outcome, -1
					case op == token.NEQ && n.Sign() == 0, op == token.GTR && n.Sign() == 0, op == token.GEQ && n.Cmp(big.NewInt(1)) == 0:
						return ek, !outcome, -1
					}
				}
			}
		}
		_, xc := X.v.(*ssa.Const)
		_, yc := Y.v.(*ssa.Const)
		switch op {
		case token.EQL, token.NEQ:
			a, b := kx, ky
			if a > b {
				a, b = b, a
			}
			pol = outcome == (op == token.EQL)
			konst = -1
			if xc && yc {
				konst = 0
				if (kx == ky) == (op == token.EQL) {
					konst = 1
				}
			}
			return "(" + a + " == " + b + ")", pol, konst
		case token.LSS, token.GTR, token.LEQ, token.GEQ:
			a, b := kx, ky
			p := outcome
			switch op {
			case token.GTR:
				a, b = b, a
			case token.GEQ:
				p = !p
			case token.LEQ:
				a, b, p = b, a, !p
			}
			konst = -1
			if xc && yc {
				if nx, ok1 := constBigG4(X.v); ok1 {
					if ny, ok2 := constBigG4(Y.v); ok2 {
						var r bool
						switch op {
						case token.LSS:
							r = nx.Cmp(ny) < 0
						case token.GTR:
							r = nx.Cmp(ny) > 0
						case token.LEQ:
							r = nx.Cmp(ny) <= 0
						default:
							r = nx.Cmp(ny) >= 0
						}
						konst = 0
						if r {
							konst = 1
						}
					}
				}
			}
			return "(" + a + " < " + b + ")", p, konst
		}
	}
	return π.key(c), outcome, -1
}

// holds: the path tested key with polarity pol (before executing call number
// beforeCall of the path; -1: anywhere).
func (π *pathG4) holds(key string, pol bool, beforeCall int) bool {
	for _, c := range π.conds {
		if c.key == key && c.pol == pol && (beforeCall < 0 || c.ncalls <= beforeCall) {
			return true
		}
	}
	return false
}

// eqKeyG4: the key lit() gives to (a == b).
func eqKeyG4(a, b string) string {
	if a > b {
		a, b = b, a
	}
	return "(" + a + " == " + b + ")"
}

// nonZero: the path established that the (non-negative or not) value is not 0
// before executing call number beforeCall: x != 0, !(x == 0), x > 0, x >= 1, !(x < 1), !(x <= 0).
func (π *pathG4) nonZero(x rvalG4, beforeCall int) bool {
	k := π.key(x)
	return π.holds(eqKeyG4(k, "c:0"), false, beforeCall) ||
		π.holds("(c:0 < "+k+")", true, beforeCall) ||
		π.holds("("+k+" < c:1)", false, beforeCall)
}

type pcontG4 struct {
	b    *ssa.BasicBlock
	i    int
	env  *envG4
	call *ssa.Call
}

type pstateG4 struct {
	π      *pathG4
	b      *ssa.BasicBlock
	i      int
	pred   *ssa.BasicBlock
	env    *envG4
	stack  []pcontG4
	onPath map[pkbG4]bool
	stores map[pkG4]rvalG4
}

type pkbG4 struct {
	b   *ssa.BasicBlock
	env *envG4
}

func (s *pstateG4) clone() *pstateG4 {
	q := &pstateG4{π: s.π.clone(), b: s.b, i: s.i, pred: s.pred, env: s.env,
		stack: append([]pcontG4(nil), s.stack...), onPath: map[pkbG4]bool{}, stores: map[pkG4]rvalG4{}}
	for k, v := range s.onPath {
		q.onPath[k] = v
	}
	for k, v := range s.stores {
		q.stores[k] = v
	}
	return q
}

// localAllocG4: an Alloc used only by stores to it and loads from it.
func localAllocG4(a *ssa.Alloc) bool {
	if a.Referrers() == nil {
		return false
	}
	for _, r := range *a.Referrers() {
		switch u := r.(type) {
		case *ssa.Store:
			if u.Addr != ssa.Value(a) {
				return false
			}
		case *ssa.UnOp:
			if u.Op != token.MUL {
				return false
			}
		case *ssa.DebugRef:
		default:
			return false
		}
	}
	return true
}

// enumPathsG4 enumerates the feasible paths of fn (new helpers entered). why is
// non-empty when the function cannot be decided this way (a loop, too many
// paths); the caller must then report UNDECIDED, never pass.
func enumPathsG4(fn *ssa.Function) (paths []*pathG4, why string) {
	const maxPaths = 4096
	var run func(s *pstateG4)
	run = func(s *pstateG4) {
		for why == "" {
			if s.i == 0 {
				kb := pkbG4{s.b, s.env}
				if s.onPath[kb] {
					why = "loop through block " + fmt.Sprint(s.b.Index) + " of " + fnName(s.b.Parent())
					return
				}
				s.onPath[kb] = true
				if s.pred != nil {
					pi := -1
					for k, p := range s.b.Preds {
						if p == s.pred {
							pi = k
						}
					}
					for _, ins := range s.b.Instrs {
						ph, ok := ins.(*ssa.Phi)
						if !ok {
							break
						}
						if pi >= 0 && pi < len(ph.Edges) {
							s.π.phis[pkG4{ph, s.env}] = ph.Edges[pi]
						}
					}
				}
			}
			if s.i >= len(s.b.Instrs) {
				return // malformed block
			}
			ins := s.b.Instrs[s.i]
			if _, isPhi := ins.(*ssa.Phi); !isPhi {
				if _, isRet := ins.(*ssa.Return); !isRet || len(s.stack) == 0 {
					s.π.trace = append(s.π.trace, ptraceG4{ins, s.env, len(s.π.lits)})
				}
			}
			switch x := ins.(type) {
			case *ssa.Store:
				if a, ok := x.Addr.(*ssa.Alloc); ok && localAllocG4(a) {
					s.stores[pkG4{a, s.env}] = rvalG4{x.Val, s.env}
				}
			case *ssa.UnOp:
				if a, ok := x.X.(*ssa.Alloc); ok && x.Op == token.MUL && localAllocG4(a) {
					if v, has := s.stores[pkG4{a, s.env}]; has {
						s.π.loads[pkG4{x, s.env}] = v
					}
				}
			case *ssa.Call:
				s.π.calls = append(s.π.calls, pkG4{x, s.env})
				if h := newHelperCallee(x); h != nil && len(s.stack) < 6 {
					if _, _, rec := s.env.lookup(h); !rec {
						fr := &envG4{h, x, s.env}
						s.π.frames[pkG4{x, s.env}] = fr
						s.stack = append(s.stack, pcontG4{s.b, s.i + 1, s.env, x})
						s.b, s.i, s.pred, s.env = h.Blocks[0], 0, nil, fr
						continue
					}
				}
			case *ssa.Panic:
				paths = append(paths, s.π)
				return
			case *ssa.Return:
				if len(s.stack) == 0 {
					s.π.end = x
					paths = append(paths, s.π)
					if len(paths) > maxPaths {
						why = "more than " + fmt.Sprint(maxPaths) + " paths"
					}
					return
				}
				k := s.stack[len(s.stack)-1]
				s.stack = s.stack[:len(s.stack)-1]
				s.π.rets[pkG4{k.call, k.env}] = x
				// the continuation is in the middle of a block: no phi resolution, no loop mark
				s.b, s.i, s.pred, s.env = k.b, k.i, nil, k.env // k.i >= 1
				continue
			case *ssa.Jump:
				s.pred, s.b, s.i = s.b, s.b.Succs[0], 0
				continue
			case *ssa.If:
				for k, succ := range s.b.Succs {
					key, pol, konst := s.π.lit(rvalG4{x.Cond, s.env}, k == 0)
					if konst >= 0 {
						// the condition has a known value on this path
						if (konst == 1) != (k == 0) {
							continue
						}
					} else if s.π.holds(key, !pol, -1) {
						continue // contradicts an earlier test of the same value
					}
					q := s.clone()
					if konst < 0 {
						q.π.conds = append(q.π.conds, pcondG4{key, pol, len(q.π.calls)})
						q.π.lits = append(q.π.lits, s.π.litText(rvalG4{x.Cond, s.env}, k == 0))
					}
					q.pred, q.b, q.i = s.b, succ, 0
					run(q)
				}
				return
			}
			s.i++
		}
	}
	if len(fn.Blocks) == 0 {
		return nil, "no body"
	}
	π := &pathG4{phis: map[pkG4]ssa.Value{}, rets: map[pkG4]*ssa.Return{}, frames: map[pkG4]*envG4{}, loads: map[pkG4]rvalG4{}}
	run(&pstateG4{π: π, b: fn.Blocks[0], onPath: map[pkbG4]bool{}, stores: map[pkG4]rvalG4{}})
	return paths, why
}

// ivOnPathG4 evaluates an integer expression to an interval on one path.
// seed gives the range of leaves (call results with a documented range); mk
// builds the one-node evaluator (with the overflow / fits callbacks of the
// rule) for a node of the given frame, its operands pre-evaluated.
func ivOnPathG4(π *pathG4, x rvalG4, seed func(rvalG4) (ival, bool), mk func(env *envG4, operands map[ssa.Value]ival) *ivEval, unknown *[]rvalG4) ival {
	for n := 0; n < 256; n++ {
		y, ok := π.step(x)
		if !ok {
			break
		}
		x = y
	}
	if r, ok := seed(x); ok {
		return r
	}
	sub := func(v ssa.Value) ival { return ivOnPathG4(π, rvalG4{v, x.env}, seed, mk, unknown) }
	one := func(ops map[ssa.Value]ival) ival {
		ev := mk(x.env, ops)
		r := ev.eval(x.v)
		if len(ev.unknown) > 0 {
			*unknown = append(*unknown, x)
		}
		return r
	}
	switch v := x.v.(type) {
	case *ssa.Const:
		return one(nil)
	case *ssa.ChangeType:
		return sub(v.X)
	case *ssa.Convert:
		return one(map[ssa.Value]ival{v.X: sub(v.X)})
	case *ssa.BinOp:
		return one(map[ssa.Value]ival{v.X: sub(v.X), v.Y: sub(v.Y)})
	case *ssa.Call:
		if bi, ok := v.Call.Value.(*ssa.Builtin); ok && len(v.Call.Args) == 2 && (bi.Name() == "min" || bi.Name() == "max") {
			return one(map[ssa.Value]ival{v.Call.Args[0]: sub(v.Call.Args[0]), v.Call.Args[1]: sub(v.Call.Args[1])})
		}
	}
	return one(nil)
}

// ivStaticG4 evaluates an integer expression to an interval over ALL paths
// (phis joined), looking through new helpers: a parameter of a helper is the
// argument of the call it is interpreted for, a call of a helper is the join
// of the values it returns. Every node is evaluated once per (value, call
// sites), so the overflow / fits callbacks of mk fire once per node.
func ivStaticG4(x rvalG4, seed func(rvalG4) (ival, bool), mk func(env *envG4, operands map[ssa.Value]ival) *ivEval, memo map[string]*ival, unknown *[]rvalG4) ival {
	for n := 0; n < 64; n++ {
		y, ok := stepG4(x)
		if !ok {
			break
		}
		x = y
	}
	if r, ok := seed(x); ok {
		return r
	}
	k := fmt.Sprintf("%p|%s", x.v, envKeyG4(x.env))
	if f := x.v.Parent(); f == nil || !isNewHelper(f) {
		k = fmt.Sprintf("%p|", x.v)
	}
	if r, ok := memo[k]; ok {
		if r == nil { // cycle: the full range of the type
			ev := mk(x.env, nil)
			full, _ := intRange(x.v.Type(), ev.intBits)
			return full
		}
		return *r
	}
	memo[k] = nil
	sub := func(v ssa.Value) ival { return ivStaticG4(rvalG4{v, x.env}, seed, mk, memo, unknown) }
	one := func(ops map[ssa.Value]ival) ival {
		ev := mk(x.env, ops)
		r := ev.eval(x.v)
		if len(ev.unknown) > 0 {
			*unknown = append(*unknown, x)
		}
		return r
	}
	var r ival
	switch v := x.v.(type) {
	case *ssa.ChangeType:
		r = sub(v.X)
	case *ssa.Convert:
		r = one(map[ssa.Value]ival{v.X: sub(v.X)})
	case *ssa.BinOp:
		r = one(map[ssa.Value]ival{v.X: sub(v.X), v.Y: sub(v.Y)})
	case *ssa.Phi:
		first := true
		for _, e := range v.Edges {
			a := sub(e)
			if first {
				r, first = a, false
			} else {
				r = ivUnion(r, a)
			}
		}
		if first {
			r = one(nil)
		}
	case *ssa.Call:
		if bi, ok := v.Call.Value.(*ssa.Builtin); ok && len(v.Call.Args) == 2 && (bi.Name() == "min" || bi.Name() == "max") {
			r = one(map[ssa.Value]ival{v.Call.Args[0]: sub(v.Call.Args[0]), v.Call.Args[1]: sub(v.Call.Args[1])})
			break
		}
		if h := newHelperCallee(v); h != nil && h.Signature.Results().Len() == 1 && x.env.depth() <= 6 {
			first := true
			for _, ret := range helperReturnsG4(h) {
				a := ivStaticG4(rvalG4{retVal(ret, 0), &envG4{h, v, x.env}}, seed, mk, memo, unknown)
				if first {
					r, first = a, false
				} else {
					r = ivUnion(r, a)
				}
			}
			if !first {
				break
			}
		}
		r = one(nil)
	case *ssa.Extract:
		if cl, ok := v.Tuple.(*ssa.Call); ok {
			if h := newHelperCallee(cl); h != nil && x.env.depth() <= 6 {
				first := true
				for _, ret := range helperReturnsG4(h) {
					if v.Index >= len(ret.Results) {
						continue
					}
					a := ivStaticG4(rvalG4{retVal(ret, v.Index), &envG4{h, cl, x.env}}, seed, mk, memo, unknown)
					if first {
						r, first = a, false
					} else {
						r = ivUnion(r, a)
					}
				}
				if !first {
					break
				}
			}
		}
		r = one(nil)
	default:
		r = one(nil)
	}
	memo[k] = &r
	return r
}

// ownersG4: the baseline functions an instruction belongs to - its own
// function, or, for an instruction of a new helper, the functions that reach
// the helper through its call sites.
func ownersG4(ins ssa.Instruction) []*ssa.Function {
	set := map[*ssa.Function]bool{}
	var walk func(f *ssa.Function, d int)
	walk = func(f *ssa.Function, d int) {
		if f == nil || d > 8 {
			return
		}
		if !isNewHelper(f) {
			set[f] = true
			return
		}
		for _, s := range helperIdx[f].sites {
			walk(s.Parent(), d+1)
		}
	}
	walk(ins.Parent(), 0)
	var out []*ssa.Function
	for f := range set {
		out = append(out, f)
	}
	sort.Slice(out, func(i, j int) bool { return fnName(out[i]) < fnName(out[j]) })
	return out
}

// ctxSiteG4 is a call site together with the call sites of the new helpers
// around it: the logical call sites of a function wrapped by a forwarding
// helper are the helper's call sites.
type ctxSiteG4 struct {
	call ssa.Instruction
	env  *envG4
	root *ssa.Function // the baseline function the site belongs to
}

// ctxSitesOfG4 lists the logical call sites of tgt in the module.
func ctxSitesOfG4(p *Prog, tgt *ssa.Function) []ctxSiteG4 {
	var out []ctxSiteG4
	for _, fn := range p.ModFuncs() {
		if isNewHelper(fn) || fn.Blocks == nil {
			continue
		}
		root := fn
		eachInstrCtxG4(fn, nil, func(i ssa.Instruction, env *envG4) {
			if staticCallee(i) == tgt {
				out = append(out, ctxSiteG4{i, env, root})
			}
		})
	}
	return out
}

// litText: the branch literal in the canonical text of litOf (ssax.go), but
// over the values the operands stand for on this path: `err != nil` where err
// is result #1 of an entered helper that returned through `return f(x)` reads
// (f(x)#1 == nil), exactly as if the test had been written on f's result.
func (π *pathG4) litText(cond rvalG4, outcome bool) Lit {
	c := π.resolve(cond)
	switch v := c.v.(type) {
	case *ssa.UnOp:
		if v.Op == token.NOT {
			return π.litText(rvalG4{v.X, c.env}, !outcome)
		}
	case *ssa.BinOp:
		X, Y := π.resolve(rvalG4{v.X, c.env}), π.resolve(rvalG4{v.Y, c.env})
		a, b := descG4(X), descG4(Y)
		switch v.Op {
		case token.EQL, token.NEQ:
			if isConst(X.v) && !isConst(Y.v) || (!isConst(Y.v) && !isConst(X.v) && a > b) {
				a, b = b, a
			}
			pos := outcome
			if v.Op == token.NEQ {
				pos = !pos
			}
			return Lit{"(" + a + " == " + b + ")", pos}
		}
		// emptiness forms of a non-negative quantity, as emptinessLit
		{
			val, k, op, vd := X, Y, v.Op, a
			if _, ok := smallConst(X.v); ok {
				val, k, vd = Y, X, b
				switch op {
				case token.LSS:
					op = token.GTR
				case token.GTR:
					op = token.LSS
				case token.LEQ:
					op = token.GEQ
				case token.GEQ:
					op = token.LEQ
				}
			}
			if n, ok := smallConst(k.v); ok && nonNegative(val.v) {
				atom := "(" + vd + " == 0)"
				switch {
				case op == token.GTR && n == 0, op == token.GEQ && n == 1:
					return Lit{atom, !outcome}
				case op == token.LSS && n == 1, op == token.LEQ && n == 0:
					return Lit{atom, outcome}
				}
			}
		}
		switch v.Op {
		case token.LSS:
			return Lit{"(" + a + " < " + b + ")", outcome}
		case token.GTR:
			return Lit{"(" + b + " < " + a + ")", outcome}
		case token.GEQ:
			return Lit{"(" + a + " < " + b + ")", !outcome}
		case token.LEQ:
			return Lit{"(" + b + " < " + a + ")", !outcome}
		}
	}
	return Lit{descG4(c), outcome}
}

// pathsCacheG4: enumeration results per function (functions are unique per load).
var pathsCacheG4 = map[*ssa.Function]*struct {
	paths []*pathG4
	why   string
}{}

// pathsCacheProgG4: the program the cache belongs to. The cache must not keep
// the SSA of an earlier load alive (the self-test reloads the tree once per
// mutant): it is dropped when a function of another program is asked for.
// (When moved into the engine: reset it in Load next to descCache.)
var pathsCacheProgG4 *ssa.Program

// resetCachesG4 drops the enumeration cache (call it where descCache is reset:
// Load, and after each mutant in mutants.go).
func resetCachesG4() {
	pathsCacheProgG4 = nil
	pathsCacheG4 = map[*ssa.Function]*struct {
		paths []*pathG4
		why   string
	}{}
}

func pathsOfG4(fn *ssa.Function) ([]*pathG4, string) {
	if fn.Prog != pathsCacheProgG4 {
		pathsCacheProgG4 = fn.Prog
		pathsCacheG4 = map[*ssa.Function]*struct {
			paths []*pathG4
			why   string
		}{}
	}
	if r, ok := pathsCacheG4[fn]; ok {
		return r.paths, r.why
	}
	ps, why := enumPathsG4(fn)
	pathsCacheG4[fn] = &struct {
		paths []*pathG4
		why   string
	}{ps, why}
	return ps, why
}

// mustPassPathsG4 decides "every feasible path from fn's entry to an
// instruction satisfying t carries a branch literal accepted by accept" by
// path enumeration. decided is false when fn (with its new helpers entered) has
// a loop or too many paths: the caller then falls back to the Walker.
// Compared with the Walker it (a) knows which return an entered helper took
// for every result of a tuple, so the caller's test of a returned error is a
// test of the value that was returned, and (b) drops paths that test the same
// computed value twice with opposite outcomes.
func mustPassPathsG4(fn *ssa.Function, t target, accept func(Lit) bool) (w *Witness, decided bool) {
	paths, why := pathsOfG4(fn)
	if why != "" {
		return nil, false
	}
	for _, π := range paths {
		for _, ev := range π.trace {
			if !t(ev.ins) {
				continue
			}
			ok := false
			for _, l := range π.lits[:ev.nlits] {
				if accept(l) {
					ok = true
					break
				}
			}
			if !ok {
				wt := &Witness{Hit: ev.ins, Lits: append([]Lit(nil), π.lits[:ev.nlits]...)}
				var last *ssa.BasicBlock
				for _, e2 := range π.trace {
					if b := e2.ins.Block(); b != last {
						wt.Blocks = append(wt.Blocks, b)
						last = b
					}
					if e2.ins == ev.ins && e2.env == ev.env {
						break
					}
				}
				return wt, true
			}
		}
	}
	return nil, true
}

// mustPassPredG4 is (*Ctx).mustPassPred (helpers_A.go) deciding by path
// enumeration where the function allows it, by the Walker otherwise. Same
// obligation key, same UNRESOLVED ANCHOR behaviour.
func (c *Ctx) mustPassPredG4(p *Prog, fn *ssa.Function, rule, key string, t target, accept func(Lit) bool) bool {
	if fn == nil {
		return false
	}
	n := countTargets(fn, t)
	if n == 0 {
		c.Undecided("UNRESOLVED ANCHOR effect of " + key + " not found in " + fnName(fn) + " (rule " + rule + ")")
		return false
	}
	if w, decided := mustPassPathsG4(fn, t, accept); decided {
		if w != nil {
			return c.Check(rule, key, false, p.Pos(posOf(w.Hit, fn)), "effect reachable without the required condition: "+w.String(p))
		}
		return c.Check(rule, key, true, p.Pos(fn.Pos()), itoa(n)+" effect site(s), all feasible paths carry the condition")
	}
	return c.mustPassPred(p, fn, rule, key, t, accept)
}

// valuesAtG4: the values v stands for at the executions of ins over all
// feasible paths of fn (decided=false: fn cannot be enumerated).
func valuesAtG4(fn *ssa.Function, ins ssa.Instruction, v ssa.Value) (out []rvalG4, decided bool) {
	paths, why := pathsOfG4(fn)
	if why != "" {
		return nil, false
	}
	for _, π := range paths {
		for _, ev := range π.trace {
			if ev.ins == ins {
				out = append(out, π.resolve(rvalG4{v, ev.env}))
			}
		}
	}
	return out, true
}
