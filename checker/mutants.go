package main

// Both-ways self-test (DESIGN.md section 2): in-memory mutants of real /repo
// files applied through the loader overlay. Nothing is written to disk. A
// mutant must (i) apply textually exactly once, (ii) type-check, (iii) be
// reported by the named rule. Run by the thorough tier.

import (
	"fmt"
	"os"
	"path/filepath"
	"runtime/debug"
	"strings"

	"golang.org/x/tools/go/ssa"
)

type Mutant struct {
	Prop   string
	Name   string
	File   string // relative to /repo
	Old    string
	New    string
	Expect string // rule id prefix that must report
	// Needs is an optional substring that must be present in File for the
	// mutant to apply (used when a "fix:" commit changed the text).
}

var mutants []Mutant

func addMutants(ms ...Mutant) { mutants = append(mutants, ms...) }

func applyMutant(m Mutant) (map[string][]byte, error) {
	abs := filepath.Join(repoDir, m.File)
	b, err := os.ReadFile(abs)
	if err != nil {
		return nil, err
	}
	s := string(b)
	if n := strings.Count(s, m.Old); n != 1 {
		return nil, fmt.Errorf("mutant %s: anchor text occurs %d times in %s (want 1)", m.Name, n, m.File)
	}
	return map[string][]byte{abs: []byte(strings.Replace(s, m.Old, m.New, 1))}, nil
}

// runMutant returns (reported, message). Obligations that already fail on the
// unmutated tree (baseline: known findings) do not count as a report.
func runMutant(m Mutant, tier string, baseline map[string]bool) (bool, string) {
	ov, err := applyMutant(m)
	if err != nil {
		return false, err.Error()
	}
	c := newCtx(m.Prop, tier, 0)
	c.overlay = ov
	c.quiet = true
	runProp(registry[m.Prop], c)
	for _, u := range c.undecided {
		if strings.HasPrefix(u, "load ") {
			return false, "mutant does not type-check: " + u
		}
	}
	var hits []string
	for _, o := range c.failedObls() {
		if strings.HasPrefix(o.Rule, m.Expect) && !baseline[o.Rule+"|"+o.Key] {
			hits = append(hits, o.Rule+" "+o.Key)
		}
	}
	if len(hits) == 0 {
		var others []string
		for _, o := range c.failedObls() {
			others = append(others, o.Rule+" "+o.Key)
		}
		for _, u := range c.undecided {
			others = append(others, "UNDECIDED "+u)
		}
		return false, fmt.Sprintf("not reported by %s (other reports: %v)", m.Expect, others)
	}
	return true, strings.Join(hits, "; ")
}

func runMutantsFor(c *Ctx) {
	baseline := map[string]bool{}
	for _, o := range c.failedObls() {
		baseline[o.Rule+"|"+o.Key] = true
	}
	for _, m := range mutants {
		if m.Prop != c.Prop {
			continue
		}
		c.selftest["mutants"]++
		ok, msg := runMutant(m, "quick", baseline)
		// a mutant's program (~2 GB) is garbage now: give it back before loading the next one
		descCache = map[ssa.Value]string{}
		resetCachesG4()
		debug.FreeOSMemory()
		if ok {
			c.selftest["mutants_reported"]++
			if !c.quiet {
				fmt.Printf("  mutant %-45s reported: %s\n", m.Name, trunc(msg, 160))
			}
		} else {
			c.Undecided("SELFTEST mutant " + m.Name + ": " + msg)
		}
	}
}

func runOneMutant(name string) int {
	for _, m := range mutants {
		if m.Name == name || m.Prop+"/"+m.Name == name {
			base := newCtx(m.Prop, "quick", 0)
			base.quiet = true
			runProp(registry[m.Prop], base)
			baseline := map[string]bool{}
			for _, o := range base.failedObls() {
				baseline[o.Rule+"|"+o.Key] = true
			}
			ok, msg := runMutant(m, "quick", baseline)
			fmt.Printf("mutant %s/%s reported=%v: %s\n", m.Prop, m.Name, ok, msg)
			if ok {
				return 0
			}
			return 1
		}
	}
	fmt.Println("no such mutant")
	return 2
}

func trunc(s string, n int) string {
	if len(s) > n {
		return s[:n] + "…"
	}
	return s
}

// fixturesFor is the hook for per-run positive fixtures (rules whose expected
// count on the real tree is zero). Properties register fixture expectations
// through Ctx.Fixture; the count is verified here.
func fixturesFor(c *Ctx) {
	if c.selftest["fixtures"] != c.selftest["fixtures_reported"] {
		c.Undecided(fmt.Sprintf("SELFTEST fixtures: %d expected, %d reported", c.selftest["fixtures"], c.selftest["fixtures_reported"]))
	}
}

// Fixture records the outcome of a positive fixture: `reported` must be true.
func (c *Ctx) Fixture(name string, reported bool) {
	c.selftest["fixtures"]++
	if reported {
		c.selftest["fixtures_reported"]++
	} else {
		c.Undecided("SELFTEST fixture not reported: " + name)
	}
}
