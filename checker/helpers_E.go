package main

// Generic helpers added for C21 / C35 / C38 / C39 (agent E). Nothing here is
// property specific.

import (
	"go/constant"
	"go/token"
	"go/types"
	"strings"

	"golang.org/x/tools/go/ssa"
)

var narrowCache = map[string]*Prog{}

// LoadNarrow loads only the given package patterns (and their dependencies)
// for a build configuration. Used when a rule instance lives in a file that
// is excluded from linux/amd64 and only a leaf package is needed (a full
// second load costs ~25 s). The mutant overlay is honoured. The 80-package
// floor of Ctx.Load does not apply; callers floor their own anchors.
func (c *Ctx) LoadNarrow(goos, goarch string, patterns ...string) *Prog {
	key := goos + "/" + goarch + ":" + strings.Join(patterns, ",")
	c.cfgs[goos+"/"+goarch] = true
	if p, ok := c.progs[key]; ok {
		return p
	}
	var p *Prog
	if c.overlay == nil {
		p = narrowCache[key]
	}
	if p == nil {
		var err error
		p, err = Load(LoadCfg{GOOS: goos, GOARCH: goarch, Patterns: patterns, Overlay: c.overlay})
		if err != nil {
			c.Undecided("load " + key + ": " + err.Error())
			return nil
		}
		if c.overlay == nil {
			narrowCache[key] = p
		}
	}
	c.progs[key] = p
	return p
}

// withCfg runs f with obligations labelled by the given build configuration.
func (c *Ctx) withCfg(cfg string, f func()) {
	old := c.curCfg
	c.curCfg = cfg
	defer func() { c.curCfg = old }()
	f()
}

// through strips representation-only wrappers (the same ones desc treats as
// transparent), except loads.
func through(v ssa.Value) ssa.Value {
	for {
		switch x := v.(type) {
		case *ssa.ChangeType:
			v = x.X
		case *ssa.Convert:
			v = x.X
		case *ssa.ChangeInterface:
			v = x.X
		case *ssa.MakeInterface:
			v = x.X
		default:
			return v
		}
	}
}

// loadOf: if v is a load *a (possibly of an Alloc with a single store, in
// which case the stored value is returned), returns the address / stored value.
func loadAddr(v ssa.Value) ssa.Value {
	if u, ok := v.(*ssa.UnOp); ok && u.Op == token.MUL {
		return u.X
	}
	return nil
}

// variadicElems returns the values stored into the backing array of a slice
// built for a variadic call (`new([n]T)[:]` with stores to constant indices).
func variadicElemsE(v ssa.Value) []ssa.Value {
	sl, ok := v.(*ssa.Slice)
	if !ok {
		return nil
	}
	a, ok := sl.X.(*ssa.Alloc)
	if !ok {
		return nil
	}
	var out []ssa.Value
	for _, r := range *a.Referrers() {
		ia, ok := r.(*ssa.IndexAddr)
		if !ok {
			continue
		}
		for _, rr := range *ia.Referrers() {
			if st, ok := rr.(*ssa.Store); ok && st.Addr == ia {
				out = append(out, st.Val)
			}
		}
	}
	return out
}

// makeClosureOf finds the unique MakeClosure instruction creating fn in its
// parent.
func makeClosureOf(fn *ssa.Function) *ssa.MakeClosure {
	par := fn.Parent()
	if par == nil {
		return nil
	}
	var out *ssa.MakeClosure
	n := 0
	eachInstr(par, func(i ssa.Instruction) {
		if mc, ok := i.(*ssa.MakeClosure); ok && mc.Fn == fn {
			out = mc
			n++
		}
	})
	if n != 1 {
		return nil
	}
	return out
}

// bindingOf resolves a free variable to the value bound in the parent.
func bindingOf(fv *ssa.FreeVar) ssa.Value {
	fn := fv.Parent()
	mc := makeClosureOf(fn)
	if mc == nil {
		return nil
	}
	for i, f := range fn.FreeVars {
		if f == fv && i < len(mc.Bindings) {
			return mc.Bindings[i]
		}
	}
	return nil
}

// rootBinding follows free variables up through nested closures.
func rootBinding(v ssa.Value) ssa.Value {
	for {
		fv, ok := v.(*ssa.FreeVar)
		if !ok {
			return v
		}
		b := bindingOf(fv)
		if b == nil {
			return v
		}
		v = b
	}
}

func constIntE(v ssa.Value) (int64, bool) {
	c, ok := v.(*ssa.Const)
	if !ok || c.Value == nil || c.Value.Kind() != constant.Int {
		return 0, false
	}
	n, ok := constant.Int64Val(c.Value)
	return n, ok
}

func constStringE(v ssa.Value) (string, bool) {
	c, ok := v.(*ssa.Const)
	if !ok || c.Value == nil || c.Value.Kind() != constant.String {
		return "", false
	}
	return constant.StringVal(c.Value), true
}

// staticCallee returns the statically resolved callee of a call instruction.
func staticCalleeE(i ssa.Instruction) *ssa.Function {
	cc := callCommon(i)
	if cc == nil {
		return nil
	}
	return cc.StaticCallee()
}

// fieldName of a FieldAddr / Field.
func fieldAddrName(fa *ssa.FieldAddr) string {
	pt, ok := fa.X.Type().Underlying().(*types.Pointer)
	if !ok {
		return ""
	}
	st, ok := pt.Elem().Underlying().(*types.Struct)
	if !ok {
		return ""
	}
	return st.Field(fa.Field).Name()
}

// ifOf returns the If terminating a block (nil when it ends otherwise).
func ifOf(b *ssa.BasicBlock) *ssa.If {
	if len(b.Instrs) == 0 {
		return nil
	}
	ifi, _ := b.Instrs[len(b.Instrs)-1].(*ssa.If)
	return ifi
}

// funcsOfPkg lists the module functions (incl. closures) of one package.
func funcsOfPkg(p *Prog, short string) []*ssa.Function {
	var out []*ssa.Function
	want := pkgPath(short)
	for _, f := range p.ModFuncs() {
		if funcPkgPath(f) == want {
			out = append(out, f)
		}
	}
	return out
}

// shortFn is a configuration independent, stable function name.
func shortFn(f *ssa.Function) string { return funcRefName(f) }

// ---- select helpers ----

// selectCase returns the first block of the body of state idx of a Select
// (the true successor of the dispatch test `select#0 == idx`).
func selectCase(sel *ssa.Select, idx int) *ssa.BasicBlock {
	for _, b := range sel.Parent().Blocks {
		ifi := ifOf(b)
		if ifi == nil {
			continue
		}
		bo, ok := ifi.Cond.(*ssa.BinOp)
		if !ok || bo.Op != token.EQL {
			continue
		}
		ex, ok := bo.X.(*ssa.Extract)
		if !ok || ex.Tuple != ssa.Value(sel) || ex.Index != 0 {
			continue
		}
		if k, isK := constIntE(bo.Y); isK && int(k) == idx {
			return b.Succs[0]
		}
	}
	return nil
}

// selectRecvSlot: index of the tuple component holding the value received by
// state idx (2 + number of receive states before it).
func selectRecvSlot(sel *ssa.Select, idx int) int {
	slot := 2
	for k, st := range sel.States {
		if k == idx {
			return slot
		}
		if st.Dir == types.RecvOnly {
			slot++
		}
	}
	return -1
}

// selectsWithState finds (select, state index) pairs whose state has the given
// direction and whose channel description satisfies pred.
func selectsWithState(fn *ssa.Function, dir types.ChanDir, pred func(string) bool) (out []selState) {
	eachInstr(fn, func(i ssa.Instruction) {
		s, ok := i.(*ssa.Select)
		if !ok {
			return
		}
		for k, st := range s.States {
			if st.Dir == dir && pred(desc(st.Chan)) {
				out = append(out, selState{s, k})
			}
		}
	})
	return out
}

type selState struct {
	Sel *ssa.Select
	Idx int
}

// extractOf finds the Extract instruction of tuple component idx.
func extractOf(tuple ssa.Value, idx int) *ssa.Extract {
	for _, r := range *tuple.Referrers() {
		if ex, ok := r.(*ssa.Extract); ok && ex.Index == idx {
			return ex
		}
	}
	return nil
}

// walkTo reports a path from `from` to `target` that executes no barrier and
// follows only edges accepted by edge.
func walkTo(from Point, target, barrier func(ssa.Instruction) bool, edge func(Lit) bool) *Witness {
	return (&Walker{
		Visit: func(i ssa.Instruction) int {
			if barrier != nil && barrier(i) {
				return wStop
			}
			if target(i) {
				return wHit
			}
			return wContinue
		},
		Edge: edge,
	}).Run(from)
}

// ---- loop idioms ----

// rangeCounter recognises the index of a `for i := range X` / `for i, v :=
// range X` loop as go/ssa builds it: k = phi(-1, k) + 1, loop head tests
// k < len(X). It returns the slice X, the loop head and its body block.
func rangeCounter(k ssa.Value) (x ssa.Value, head, body *ssa.BasicBlock, ok bool) {
	inc, isB := k.(*ssa.BinOp)
	if !isB || inc.Op != token.ADD {
		return
	}
	ph, isP := inc.X.(*ssa.Phi)
	one, isOne := constIntE(inc.Y)
	if !isP || !isOne || one != 1 || len(ph.Edges) < 2 {
		return
	}
	// one entry edge (-1), every other edge is the incremented counter
	// (several back edges when the body has `continue`-like exits)
	init, back := 0, 0
	for _, e := range ph.Edges {
		if n, isK := constIntE(e); isK && n == -1 {
			init++
		} else if e == ssa.Value(inc) {
			back++
		} else {
			return
		}
	}
	if init != 1 || back == 0 {
		return
	}
	head = ph.Block()
	ifi := ifOf(head)
	if ifi == nil {
		return
	}
	cond, isC := ifi.Cond.(*ssa.BinOp)
	if !isC || cond.Op != token.LSS || cond.X != ssa.Value(inc) {
		return
	}
	lc, isL := cond.Y.(*ssa.Call)
	if !isL || calleeName(&lc.Call) != "len" {
		return
	}
	return lc.Call.Args[0], head, head.Succs[0], true
}

// unconditionalBody: block b is the single-block body of the loop headed by
// head (entered from head only, jumps straight back).
func unconditionalBody(head, b *ssa.BasicBlock) bool {
	return len(b.Preds) == 1 && b.Preds[0] == head && len(b.Succs) == 1 && b.Succs[0] == head
}

// elemOf: v is a load of X[idx]; returns X and idx.
func elemOf(v ssa.Value) (x, idx ssa.Value, ok bool) {
	// look through a local that is assigned exactly once (range value
	// variables that are spilled because a field of them is selected)
	for n := 0; n < 4; n++ {
		a, isA := loadAddr(v).(*ssa.Alloc)
		if !isA {
			break
		}
		sv := singleStore(a)
		if sv == nil {
			break
		}
		v = sv
	}
	ia, isIA := loadAddr(v).(*ssa.IndexAddr)
	if !isIA {
		return nil, nil, false
	}
	return ia.X, ia.Index, true
}

// sameVal: identical SSA value, or two loads of the same field path.
func sameVal(a, b ssa.Value) bool {
	if a == b {
		return true
	}
	_, la := a.(*ssa.UnOp)
	_, lb := b.(*ssa.UnOp)
	return la && lb && desc(a) == desc(b)
}

// passE records "every path from fn's entry to a target carries one of alts"
// under an explicit key; an absent target is a failed obligation (not an
// unresolved anchor), so that a deleted effect is reported by the rule.
func (c *Ctx) passE(p *Prog, fn *ssa.Function, rule, key string, t target, alts ...LitPat) bool {
	if countTargets(fn, t) == 0 {
		return c.Check(rule, key, false, p.Pos(fn.Pos()), "the effect this rule is about is absent from "+shortFn(fn))
	}
	if w := reachWithout(entry(fn), t, alts); w != nil {
		return c.Check(rule, key, false, p.Pos(posOf(w.Hit, fn)), "reachable without "+altsStr(alts)+": "+w.String(p))
	}
	return c.Check(rule, key, true, p.Pos(fn.Pos()), "")
}

// precedeE: every path from entry to a target executes a barrier first.
func (c *Ctx) precedeE(p *Prog, fn *ssa.Function, rule, key string, t, barrier target) bool {
	if countTargets(fn, t) == 0 || countTargets(fn, barrier) == 0 {
		return c.Check(rule, key, false, p.Pos(fn.Pos()), "the effect or the required predecessor is absent from "+shortFn(fn))
	}
	if w := reachAvoiding(entry(fn), t, barrier); w != nil {
		return c.Check(rule, key, false, p.Pos(posOf(w.Hit, fn)), "reachable without the required predecessor: "+w.String(p))
	}
	return c.Check(rule, key, true, p.Pos(fn.Pos()), "")
}

// isStoreTo matches a store to field `field` of the struct type named by
// typeStr (e.g. "forward.Manager").
func isStoreTo(structName, field string) target {
	return func(i ssa.Instruction) bool {
		st, ok := i.(*ssa.Store)
		if !ok {
			return false
		}
		fa, ok := st.Addr.(*ssa.FieldAddr)
		return ok && fieldAddrIs(fa, structName, field)
	}
}
