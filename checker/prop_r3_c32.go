package main

import (
	"go/constant"
	"go/token"
	"go/types"
	"sort"
	"strings"

	"golang.org/x/tools/go/ssa"
)

// C32 (round 3): delta-encoded type lists.
//
// Parameter lists, property lists and the SETUP option list put on the wire,
// for each element, the DIFFERENCE between the element's type and the type of
// the element written just before it (0 before the first). The decoders rebuild
// the type as a running sum. A list therefore round-trips only if
//
//   C32.wire.delta_chain: at every write of a type delta  varint(X - Y).MarshalTo /
//     .MarshalSize , on EVERY control-flow path leading to the write, Y is the X
//     of the most recent earlier delta write of that function, and the constant
//     0 on the paths with no earlier write. (An encoder that forgets to carry
//     the previous type writes absolute types from the second element on.)
//   C32.wire.delta_accumulate: the decode method of the same type keeps a
//     loop-carried sum that starts at 0, is increased on every back edge by a
//     varint decoded with varint.Unmarshal, and the sum (not the bare delta) is
//     what the rest of the loop uses.
//
// The chain rule is decided by a backward walk over the SSA control-flow graph
// (phi edges are followed per predecessor), not by the shape of the source.

func init() {
	addMutants(
		// the seeded defect: MarshalTo lost `prevType = t`, MarshalSize kept it
		Mutant{"C32", "parameters-marshalto-prev-type-not-carried", "internal/protocols/moq/parameter/parameter.go",
			"		n += varint.Varint(delta).MarshalTo(buf[n:])\n		n += param.marshalTo(buf[n:])\n		prevType = t\n",
			"		n += varint.Varint(delta).MarshalTo(buf[n:])\n		n += param.marshalTo(buf[n:])\n", "C32.wire.delta_chain"},
		// same class, sibling list: the previous type is updated with the delta instead of the type
		Mutant{"C32", "properties-marshalsize-prev-type-is-delta", "internal/protocols/moq/property/property.go",
			"		n += delta.MarshalSize() + prop.marshalSize()\n		prevType = t\n",
			"		n += delta.MarshalSize() + prop.marshalSize()\n		prevType = delta\n", "C32.wire.delta_chain"},
		// same class, straight-line encoder: the second SETUP option no longer follows the first
		Mutant{"C32", "setup-marshalto-previous-type-not-set", "internal/protocols/moq/controlmessage/setup.go",
			"		pos += copy(buf[pos:], m.Path)\n		previousType = setupOptionPath\n",
			"		pos += copy(buf[pos:], m.Path)\n", "C32.wire.delta_chain"},
		// decoder side: the running sum is lost
		Mutant{"C32", "parameters-unmarshal-type-not-accumulated", "internal/protocols/moq/parameter/parameter.go",
			"		currentType += uint64(typeDelta)\n", "		currentType = uint64(typeDelta)\n", "C32.wire.delta_accumulate"},
	)
}

const (
	c32VMarshalTo   = "(protocols/moq/varint.Varint).MarshalTo"
	c32VMarshalSize = "(protocols/moq/varint.Varint).MarshalSize"
)

// c32DeltaSite is one write of a type delta, located in the function whose
// control-flow graph is walked.
type c32DeltaSite struct {
	fn   *ssa.Function
	at   ssa.Instruction // the varint MarshalTo/MarshalSize call, or the call of the new helper that contains it
	x, y ssa.Value       // written value is x - y (conversions stripped)
	sub  *ssa.BinOp
	what string
}

func c32IsZeroConst(v ssa.Value) bool {
	c, ok := v.(*ssa.Const)
	if !ok || c.Value == nil || c.Value.Kind() != constant.Int {
		return false
	}
	return constant.Sign(c.Value) == 0
}

// c32DeltaSites finds the delta writes of the MoQ wire packages.
func c32DeltaSites(p *Prog) []*c32DeltaSite {
	var out []*c32DeltaSite
	for _, fn := range p.ModFuncs() {
		if !c32InPkgs(fn) || fn.Synthetic != "" {
			continue
		}
		for _, b := range fn.Blocks {
			for _, ins := range b.Instrs {
				cl, ok := ins.(*ssa.Call)
				if !ok || cl.Call.IsInvoke() || len(cl.Call.Args) == 0 {
					continue
				}
				name := calleeName(&cl.Call)
				if name != c32VMarshalTo && name != c32VMarshalSize {
					continue
				}
				sub, ok := stripConv(cl.Call.Args[0]).(*ssa.BinOp)
				if !ok || sub.Op != token.SUB {
					continue
				}
				what := strings.TrimPrefix(name, "(protocols/moq/varint.Varint).")
				x, y := stripConv(sub.X), stripConv(sub.Y)
				if info := helperIdx[fn]; info != nil {
					// a new helper (`writeDelta(buf, t, prev)`): the write happens at
					// each of its call sites, with the arguments passed there
					px, xIsP := x.(*ssa.Parameter)
					py, yIsP := y.(*ssa.Parameter)
					if xIsP || yIsP {
						for _, site := range info.sites {
							sx, sy := x, y
							if xIsP && paramIndex(px) < len(site.Call.Args) {
								sx = stripConv(site.Call.Args[paramIndex(px)])
							}
							if yIsP && paramIndex(py) < len(site.Call.Args) {
								sy = stripConv(site.Call.Args[paramIndex(py)])
							}
							out = append(out, &c32DeltaSite{site.Parent(), site, sx, sy, sub, what})
						}
						continue
					}
				}
				out = append(out, &c32DeltaSite{fn, cl, x, y, sub, what})
			}
		}
	}
	sort.SliceStable(out, func(i, j int) bool { return out[i].at.Pos() < out[j].at.Pos() })
	return out
}

type c32DeltaWalk struct {
	siteAt map[ssa.Instruction]*c32DeltaSite
	memo   map[c32DeltaKey]string // "" = holds, "?" = in progress (coinductive), else the reason
}

type c32DeltaKey struct {
	v, anchor ssa.Value
	b         *ssa.BasicBlock
}

// same: v (evaluated after the site ran) is the type the site wrote.
func (w *c32DeltaWalk) same(v ssa.Value, s *c32DeltaSite) bool {
	v = stripConv(v)
	if v == s.x {
		return true
	}
	if cv, ok := v.(*ssa.Const); ok {
		cx, ok2 := s.x.(*ssa.Const)
		return ok2 && cv.Value != nil && cx.Value != nil && constant.Compare(cv.Value, token.EQL, cx.Value)
	}
	// a second call of the same type accessor on the same element
	if a, ok := v.(*ssa.Call); ok {
		if b, ok2 := s.x.(*ssa.Call); ok2 && a.Call.IsInvoke() && b.Call.IsInvoke() && a.Call.Method == b.Call.Method &&
			stripConv(a.Call.Value) == stripConv(b.Call.Value) && len(a.Call.Args) == 0 {
			return true
		}
	}
	if _, isPhi := v.(*ssa.Phi); isPhi {
		return false
	}
	d1, d2 := desc(v), desc(s.x)
	return d1 == d2 && !strings.Contains(d1, "phi") && !strings.Contains(d1, "…")
}

// holds decides "v equals the type written by the most recent delta write, or
// 0 when there is none" at the point just before instruction index `from` of
// block b, for every path reaching that point. Returns "" or the reason.
func (w *c32DeltaWalk) holds(v ssa.Value, b *ssa.BasicBlock, from int, depth int) string {
	return w.holdsA(v, nil, b, from, depth)
}

// holdsA: anchor, when set, is the value whose definition must not be crossed
// before a delta write is met (v is then a pure accessor call on anchor whose
// own definition was already crossed).
func (w *c32DeltaWalk) holdsA(v, anchor ssa.Value, b *ssa.BasicBlock, from int, depth int) string {
	v = stripConv(v)
	if depth > 64 {
		return "walk too deep"
	}
	whole := from == len(b.Instrs)
	key := c32DeltaKey{v, anchor, b}
	if whole {
		if r, ok := w.memo[key]; ok {
			if r == "?" {
				return "" // a cycle without a counter-example
			}
			return r
		}
		w.memo[key] = "?"
	}
	res := w.holds0(v, anchor, b, from, depth)
	if whole {
		w.memo[key] = res
	}
	return res
}

// c32AccessorRecv: v is a call of an argument-less interface method (a type
// accessor such as paramType()); returns the receiver value.
func c32AccessorRecv(v ssa.Value) ssa.Value {
	cl, ok := v.(*ssa.Call)
	if !ok || !cl.Call.IsInvoke() || len(cl.Call.Args) != 0 {
		return nil
	}
	return stripConv(cl.Call.Value)
}

func (w *c32DeltaWalk) holds0(v, anchor ssa.Value, b *ssa.BasicBlock, from int, depth int) string {
	for k := from - 1; k >= 0; k-- {
		ins := b.Instrs[k]
		if s := w.siteAt[ins]; s != nil {
			if w.same(v, s) {
				return ""
			}
			return "after the delta write of " + c24Short(s.x) + " (block " + itoa(b.Index) + ") the value carried to the next write is " + c24Short(v)
		}
		if _, isPhi := ins.(*ssa.Phi); isPhi {
			break
		}
		if iv, ok := ins.(ssa.Value); ok && anchor != nil && iv == anchor {
			return "the element whose type is carried (" + c24Short(anchor) + ") is obtained after the last delta write (block " + itoa(b.Index) + ")"
		}
		if iv, ok := ins.(ssa.Value); ok && iv == v && anchor == nil {
			// v is computed here: prev + (x - prev) is x
			if add, ok := v.(*ssa.BinOp); ok && add.Op == token.ADD {
				for _, pr := range [][2]ssa.Value{{add.X, add.Y}, {add.Y, add.X}} {
					if sub, ok := stripConv(pr[1]).(*ssa.BinOp); ok && sub.Op == token.SUB && stripConv(sub.Y) == stripConv(pr[0]) {
						return w.holds(sub.X, b, k, depth+1)
					}
				}
			}
			// a type accessor called again after the write: the same type as long
			// as the element it is called on is still the same one
			if rv := c32AccessorRecv(v); rv != nil {
				anchor = rv
				continue
			}
			return "the carried value " + c24Short(v) + " is computed after the last delta write (block " + itoa(b.Index) + ")"
		}
	}
	if ph, ok := v.(*ssa.Phi); ok && ph.Block() == b && anchor == nil {
		for k, e := range ph.Edges {
			if k >= len(b.Preds) {
				break
			}
			pr := b.Preds[k]
			if r := w.holds(e, pr, len(pr.Instrs), depth+1); r != "" {
				return r
			}
		}
		return ""
	}
	if ph, ok := anchor.(*ssa.Phi); ok && ph.Block() == b {
		return "the element whose type is carried (" + c24Short(anchor) + ") changes before the last delta write is reached (block " + itoa(b.Index) + ")"
	}
	if len(b.Preds) == 0 {
		if c32IsZeroConst(v) {
			return ""
		}
		return "no delta was written before on the path from the function entry, but " + c24Short(v) + " (not 0) is subtracted"
	}
	for _, pr := range b.Preds {
		if r := w.holdsA(v, anchor, pr, len(pr.Instrs), depth+1); r != "" {
			return r
		}
	}
	return ""
}

func c32RecvNamed(fn *ssa.Function) *types.Named {
	if fn.Signature == nil || fn.Signature.Recv() == nil {
		return nil
	}
	t := fn.Signature.Recv().Type()
	if pt, ok := t.(*types.Pointer); ok {
		t = pt.Elem()
	}
	n, _ := t.(*types.Named)
	return n
}

// c32DeltaAccumulator looks for the running sum of decoded type deltas in a
// decode function. Returns "" when found, else what is missing.
func c32DeltaAccumulator(fn *ssa.Function) string {
	// varint locals decoded by varint.Unmarshal
	decoded := map[*ssa.Alloc]bool{}
	eachInstr(fn, func(i ssa.Instruction) {
		if cl, ok := i.(*ssa.Call); ok && isCallTo(cl, c32VUnmarshal) && len(cl.Call.Args) > 0 {
			if a, ok := stripConv(cl.Call.Args[0]).(*ssa.Alloc); ok {
				decoded[a] = true
			}
		}
	})
	if len(decoded) == 0 {
		return "no varint is decoded"
	}
	isDelta := func(v ssa.Value) bool {
		a, _ := loadOf(v).(*ssa.Alloc)
		return a != nil && decoded[a]
	}
	reason := "no loop-carried integer that starts at 0 and is increased by a decoded varint on every back edge"
	found := false
	eachInstr(fn, func(i ssa.Instruction) {
		acc, ok := i.(*ssa.Phi)
		if !ok || found || !c24IsInt(acc.Type()) {
			return
		}
		b := acc.Block()
		var sums []*ssa.BinOp
		var stepOK func(v ssa.Value, depth int) bool
		stepOK = func(v ssa.Value, depth int) bool {
			v = stripConv(v)
			if depth > 6 {
				return false
			}
			if ph, ok := v.(*ssa.Phi); ok && ph != acc {
				for _, e := range ph.Edges {
					if !stepOK(e, depth+1) {
						return false
					}
				}
				return true
			}
			add, ok := v.(*ssa.BinOp)
			if !ok || add.Op != token.ADD {
				return false
			}
			if (stripConv(add.X) == ssa.Value(acc) && isDelta(add.Y)) || (stripConv(add.Y) == ssa.Value(acc) && isDelta(add.X)) {
				sums = append(sums, add)
				return true
			}
			return false
		}
		nBack, nEntry := 0, 0
		for k, e := range acc.Edges {
			if k >= len(b.Preds) {
				return
			}
			if b.Dominates(b.Preds[k]) {
				nBack++
				if !stepOK(e, 0) {
					return
				}
			} else {
				nEntry++
				if !c32IsZeroConst(stripConv(e)) {
					return
				}
			}
		}
		if nBack == 0 || nEntry == 0 {
			return
		}
		// the sum itself is consumed by the loop (dispatch on the type), not only carried
		for _, s := range sums {
			for _, r := range *s.Referrers() {
				if _, isPhi := r.(*ssa.Phi); isPhi { // carried, not used
					continue
				}
				if _, isDbg := r.(*ssa.DebugRef); isDbg {
					continue
				}
				found = true
			}
		}
		if !found {
			reason = "the running sum of the type deltas is carried but never used: the elements are dispatched on something else"
		}
	})
	if found {
		return ""
	}
	return reason
}

func c32DeltaR3(c *Ctx, p *Prog) {
	sites := c32DeltaSites(p)
	w := &c32DeltaWalk{siteAt: map[ssa.Instruction]*c32DeltaSite{}, memo: map[c32DeltaKey]string{}}
	for _, s := range sites {
		w.siteAt[s.at] = s
	}
	perFn := map[*ssa.Function]int{}
	encTypes := map[*types.Named]*ssa.Function{}
	var encOrder []*types.Named
	for _, s := range sites {
		perFn[s.fn]++
		c.Analysed(fnName(s.fn))
		idx := 0
		for k, ins := range s.at.Block().Instrs {
			if ins == s.at {
				idx = k
			}
		}
		r := w.holds(s.y, s.at.Block(), idx, 0)
		c.Check("C32.wire.delta_chain", fnName(s.fn)+": type delta #"+itoa(perFn[s.fn])+" ("+s.what+") subtracts the type written by the previous delta write on every path, 0 before the first",
			r == "", p.Pos(posOf(s.at, s.fn)), sprintf("writes %s - %s; %s", c24Short(s.x), c24Short(s.y), r))
		if n := c32RecvNamed(s.fn); n != nil && s.what == "MarshalTo" {
			if _, dup := encTypes[n]; !dup {
				encTypes[n] = s.fn
				encOrder = append(encOrder, n)
			}
		}
	}
	c.Floor("C32.wire.delta_chain", len(sites), 8)

	// decoder side, for every type whose encoder writes deltas
	nDec := 0
	for _, n := range encOrder {
		var dec *ssa.Function
		for _, fn := range p.ModFuncs() {
			if fn.Synthetic != "" || c32RecvNamed(fn) != n {
				continue
			}
			switch fn.Name() {
			case "Unmarshal", "unmarshal", "Read", "read":
				dec = fn
			}
		}
		name := shortPkg(n.Obj().Pkg()) + "." + n.Obj().Name()
		if dec == nil {
			c.Check("C32.wire.delta_accumulate", name+": has a decode method that sums the type deltas its encoder writes", false, p.Pos(encTypes[n].Pos()), "no Unmarshal/unmarshal/Read/read method")
			continue
		}
		nDec++
		c.Analysed(fnName(dec))
		r := c32DeltaAccumulator(dec)
		c.Check("C32.wire.delta_accumulate", name+": "+dec.Name()+" rebuilds each type as the running sum (from 0) of the decoded deltas and uses that sum", r == "", p.Pos(dec.Pos()), r)
	}
	c.Floor("C32.wire.delta_accumulate", nDec, 3)
}
