package main

// C31.find_by_instant - the routine that listing, playback /list and playback
// /get share (recordstore.FindSegments) attributes an instant to the segment
// whose start instant it is.
//
// The listing reports Segment.Start as the identity of a segment, and the
// URLs of /list carry it back as `start`. "Listing and playback agree on each
// segment's start instant" therefore needs: FindSegments(start = Start of
// segment k) keeps segment k as its first segment - not k-1, not k+1. How the
// first segment is found (linear scan with two comparisons, binary search with
// a predicate, a helper) is free; which comparison is strict and which is
// inclusive is not, and it cannot be read off one comparison in isolation
// (`!a.Before(b)`, `a.Equal(b) || a.After(b)`, `a.Compare(b) >= 0`, a
// sort.Search predicate followed by i-- all spell ">=" or fail to).
//
// So the rule is stated over the MEANING of the code: the part of FindSegments
// that runs after the collected list was sorted is EXECUTED by an interpreter
// of its SSA on a finite model - n = 1..4 segments starting at 10, 20, ...,
// the requested instant equal to the start of segment k (and, second
// obligation, strictly inside segment k, and before the first segment) - and
// the returned list is compared with the specification "segments[k:], nil"
// (all segments when the instant precedes the first one). Values are exact
// (small integers, booleans, instants, windows of the model list, pointers to
// its elements, closures); time.Time.Before/After/Equal/Compare,
// len/cap, slicing and indexing (with bounds: a panic is an outcome),
// sort.Search / sort.Find / slices.BinarySearchFunc / slices.IndexFunc (their
// documented algorithm, calling the interpreted predicate) and calls of module
// functions with a body (an extracted helper) are executed; anything else makes
// the scenario UNKNOWN, which fails the rule - it never passes on code it did
// not evaluate. Nothing of /repo is run: the interpreter is part of the checker.
//
// Not decided: the collection phase (WalkDir, the `end` filter), more than 4
// segments (the code has no constant that would distinguish them), segments
// with equal start instants.

import (
	"fmt"
	"go/constant"
	"go/token"
	"go/types"
	"strings"

	"golang.org/x/tools/go/ssa"
)

type c31kind int

const (
	c31Unknown c31kind = iota
	c31Int
	c31Bool
	c31Time
	c31Nil
	c31Slice    // window [off, off+ln) of the model list
	c31SegPtr   // *Segment k
	c31ElemPtr  // &list[k]
	c31StartPtr // &list[k].Start
	c31TimePtr  // *time.Time (the start parameter)
	c31Err      // a non-nil error
	c31Closure
	c31CellPtr
	c31Tuple
	c31Opaque // a value that is carried but never inspected
)

type c31cell struct{ v c31val }

type c31val struct {
	kind  c31kind
	n     int64
	b     bool
	off   int
	ln    int
	cell  *c31cell
	fn    *ssa.Function
	binds []c31val
	tuple []c31val
	why   string
}

func c31unk(why string) c31val { return c31val{kind: c31Unknown, why: why} }

type c31abort struct{ why string }
type c31panic struct{ why string }

type c31interp struct {
	segs  []int64
	steps int
	cells map[*ssa.Alloc]*c31cell // cells of enclosing frames that were preset
}

type c31frame struct {
	fn    *ssa.Function
	args  []c31val
	binds []c31val
	env   map[ssa.Value]c31val
	cells map[*ssa.Alloc]*c31cell
}

func (it *c31interp) fail(format string, a ...any) { panic(c31abort{fmt.Sprintf(format, a...)}) }

func (it *c31interp) eval(fr *c31frame, v ssa.Value) c31val {
	if x, ok := fr.env[v]; ok {
		return x
	}
	switch x := v.(type) {
	case *ssa.Const:
		if x.Value == nil {
			return c31val{kind: c31Nil}
		}
		switch x.Value.Kind() {
		case constant.Int:
			n, _ := constant.Int64Val(x.Value)
			return c31val{kind: c31Int, n: n}
		case constant.Bool:
			return c31val{kind: c31Bool, b: constant.BoolVal(x.Value)}
		}
		return c31val{kind: c31Opaque}
	case *ssa.Parameter:
		i := paramIndex(x)
		if i < len(fr.args) {
			return fr.args[i]
		}
		return c31unk("parameter " + x.Name())
	case *ssa.FreeVar:
		for i, fv := range fr.fn.FreeVars {
			if fv == x && i < len(fr.binds) {
				return fr.binds[i]
			}
		}
		return c31unk("free variable " + x.Name())
	case *ssa.Global:
		return c31val{kind: c31Opaque, why: x.Name()}
	case *ssa.Function:
		return c31val{kind: c31Closure, fn: x}
	case *ssa.Alloc:
		// an Alloc of a frame that was not executed from its entry (the start point is in the middle)
		if c := fr.cells[x]; c != nil {
			return c31val{kind: c31CellPtr, cell: c}
		}
		c := &c31cell{c31unk("variable " + x.Comment + " not assigned on the executed path")}
		// a parameter that lives in a memory cell because a closure captures it: spilled at the entry
		if sv := singleStore(x); sv != nil {
			if prm, ok := sv.(*ssa.Parameter); ok {
				c.v = it.eval(fr, prm)
			}
		}
		fr.cells[x] = c
		return c31val{kind: c31CellPtr, cell: c}
	case ssa.Instruction:
		// defined before the start point: pure values are computed on demand
		r := it.compute(fr, x)
		return r
	}
	return c31unk("value " + v.String())
}

func (it *c31interp) timeCmp(name string, a, b c31val) c31val {
	if a.kind != c31Time || b.kind != c31Time {
		return c31unk(name + " on a value that is not a modelled instant")
	}
	switch name {
	case "Before":
		return c31val{kind: c31Bool, b: a.n < b.n}
	case "After":
		return c31val{kind: c31Bool, b: a.n > b.n}
	case "Equal":
		return c31val{kind: c31Bool, b: a.n == b.n}
	case "Compare":
		switch {
		case a.n < b.n:
			return c31val{kind: c31Int, n: -1}
		case a.n > b.n:
			return c31val{kind: c31Int, n: 1}
		}
		return c31val{kind: c31Int, n: 0}
	}
	return c31unk(name)
}

func (it *c31interp) load(p c31val) c31val {
	switch p.kind {
	case c31CellPtr:
		return p.cell.v
	case c31TimePtr:
		return c31val{kind: c31Time, n: p.n}
	case c31ElemPtr:
		return c31val{kind: c31SegPtr, off: p.off}
	case c31StartPtr:
		return c31val{kind: c31Time, n: it.segs[p.off]}
	case c31Opaque:
		if strings.HasPrefix(p.why, "Err") {
			return c31val{kind: c31Err, why: p.why}
		}
		return c31val{kind: c31Opaque, why: "*" + p.why}
	}
	return c31unk("load through " + p.why)
}

// compute evaluates a value-producing instruction.
func (it *c31interp) compute(fr *c31frame, ins ssa.Instruction) c31val {
	switch x := ins.(type) {
	case *ssa.Alloc:
		c := &c31cell{c31val{kind: c31Opaque, why: "zero value"}}
		// zero value of a slice / pointer / bool / int local
		switch t := x.Type().Underlying().(*types.Pointer).Elem().Underlying().(type) {
		case *types.Basic:
			if t.Info()&types.IsBoolean != 0 {
				c.v = c31val{kind: c31Bool}
			} else if t.Info()&types.IsInteger != 0 {
				c.v = c31val{kind: c31Int}
			}
		case *types.Slice, *types.Pointer, *types.Interface:
			c.v = c31val{kind: c31Nil}
		}
		fr.cells[x] = c
		return c31val{kind: c31CellPtr, cell: c}
	case *ssa.UnOp:
		switch x.Op {
		case token.MUL:
			return it.load(it.eval(fr, x.X))
		case token.NOT:
			o := it.eval(fr, x.X)
			if o.kind != c31Bool {
				return c31unk("! of " + o.why)
			}
			return c31val{kind: c31Bool, b: !o.b}
		case token.SUB:
			o := it.eval(fr, x.X)
			if o.kind != c31Int {
				return c31unk("- of " + o.why)
			}
			return c31val{kind: c31Int, n: -o.n}
		}
		return c31unk("operator " + x.Op.String())
	case *ssa.BinOp:
		return it.binop(x.Op, it.eval(fr, x.X), it.eval(fr, x.Y))
	case *ssa.Convert:
		return it.eval(fr, x.X)
	case *ssa.ChangeType:
		return it.eval(fr, x.X)
	case *ssa.MakeInterface:
		return it.eval(fr, x.X)
	case *ssa.ChangeInterface:
		return it.eval(fr, x.X)
	case *ssa.FieldAddr:
		b := it.eval(fr, x.X)
		name := fieldAddrName(x)
		if b.kind == c31SegPtr && name == "Start" {
			return c31val{kind: c31StartPtr, off: b.off}
		}
		if b.kind == c31SegPtr {
			return c31val{kind: c31Opaque, why: "segment." + name}
		}
		return c31val{kind: c31Opaque, why: "field " + name}
	case *ssa.Field:
		return c31val{kind: c31Opaque, why: "field"}
	case *ssa.IndexAddr:
		b, i := it.eval(fr, x.X), it.eval(fr, x.Index)
		if b.kind != c31Slice || i.kind != c31Int {
			return c31unk("index of a value that is not the modelled list")
		}
		if i.n < 0 || int(i.n) >= b.ln {
			panic(c31panic{fmt.Sprintf("index out of range [%d] with length %d", i.n, b.ln)})
		}
		return c31val{kind: c31ElemPtr, off: b.off + int(i.n)}
	case *ssa.Slice:
		b := it.eval(fr, x.X)
		if b.kind == c31Nil && x.Low == nil && x.High == nil {
			return b
		}
		if b.kind != c31Slice {
			return c31unk("slice of a value that is not the modelled list")
		}
		lo, hi := 0, b.ln
		if x.Low != nil {
			v := it.eval(fr, x.Low)
			if v.kind != c31Int {
				return c31unk("slice bound")
			}
			lo = int(v.n)
		}
		if x.High != nil {
			v := it.eval(fr, x.High)
			if v.kind != c31Int {
				return c31unk("slice bound")
			}
			hi = int(v.n)
		}
		capacity := len(it.segs) - b.off
		if lo < 0 || hi < lo || hi > capacity {
			panic(c31panic{fmt.Sprintf("slice bounds out of range [%d:%d] with capacity %d", lo, hi, capacity)})
		}
		return c31val{kind: c31Slice, off: b.off + lo, ln: hi - lo}
	case *ssa.Extract:
		t := it.eval(fr, x.Tuple)
		if t.kind != c31Tuple || x.Index >= len(t.tuple) {
			return c31unk("component of " + t.why)
		}
		return t.tuple[x.Index]
	case *ssa.MakeClosure:
		f, _ := x.Fn.(*ssa.Function)
		var bs []c31val
		for _, b := range x.Bindings {
			bs = append(bs, it.eval(fr, b))
		}
		return c31val{kind: c31Closure, fn: f, binds: bs}
	case *ssa.Call:
		return it.call(fr, x)
	case *ssa.Phi:
		return c31unk("phi outside the executed path")
	}
	return c31unk("instruction " + ins.String())
}

func (it *c31interp) binop(op token.Token, a, b c31val) c31val {
	isNilLike := func(v c31val) (isNil, known bool) {
		switch v.kind {
		case c31Nil:
			return true, true
		case c31TimePtr, c31SegPtr, c31Err, c31Closure, c31ElemPtr, c31StartPtr, c31CellPtr:
			return false, true
		case c31Slice:
			return false, true // the collected list is not nil after the emptiness test
		}
		return false, false
	}
	switch {
	case a.kind == c31Int && b.kind == c31Int:
		switch op {
		case token.ADD:
			return c31val{kind: c31Int, n: a.n + b.n}
		case token.SUB:
			return c31val{kind: c31Int, n: a.n - b.n}
		case token.MUL:
			return c31val{kind: c31Int, n: a.n * b.n}
		case token.QUO:
			if b.n == 0 {
				panic(c31panic{"integer divide by zero"})
			}
			return c31val{kind: c31Int, n: a.n / b.n}
		case token.REM:
			if b.n == 0 {
				panic(c31panic{"integer divide by zero"})
			}
			return c31val{kind: c31Int, n: a.n % b.n}
		case token.SHR:
			return c31val{kind: c31Int, n: a.n >> uint(b.n)}
		case token.SHL:
			return c31val{kind: c31Int, n: a.n << uint(b.n)}
		case token.LSS:
			return c31val{kind: c31Bool, b: a.n < b.n}
		case token.LEQ:
			return c31val{kind: c31Bool, b: a.n <= b.n}
		case token.GTR:
			return c31val{kind: c31Bool, b: a.n > b.n}
		case token.GEQ:
			return c31val{kind: c31Bool, b: a.n >= b.n}
		case token.EQL:
			return c31val{kind: c31Bool, b: a.n == b.n}
		case token.NEQ:
			return c31val{kind: c31Bool, b: a.n != b.n}
		}
	case a.kind == c31Bool && b.kind == c31Bool:
		switch op {
		case token.EQL:
			return c31val{kind: c31Bool, b: a.b == b.b}
		case token.NEQ:
			return c31val{kind: c31Bool, b: a.b != b.b}
		case token.AND, token.LAND:
			return c31val{kind: c31Bool, b: a.b && b.b}
		case token.OR, token.LOR:
			return c31val{kind: c31Bool, b: a.b || b.b}
		}
	case op == token.EQL || op == token.NEQ:
		an, ak := isNilLike(a)
		bn, bk := isNilLike(b)
		if ak && bk && (an || bn) {
			eq := an == bn
			return c31val{kind: c31Bool, b: eq == (op == token.EQL)}
		}
	}
	return c31unk("operator " + op.String() + " on values that are not modelled")
}

func (it *c31interp) callClosure(f c31val, args []c31val, depth int) c31val {
	if f.kind != c31Closure || f.fn == nil || len(f.fn.Blocks) == 0 {
		it.fail("call of a function value that is not a known closure")
	}
	return it.run(f.fn, args, f.binds, nil, nil, 0, depth+1)
}

func (it *c31interp) call(fr *c31frame, c *ssa.Call) c31val {
	var args []c31val
	for _, a := range c.Call.Args {
		args = append(args, it.eval(fr, a))
	}
	if b, ok := c.Call.Value.(*ssa.Builtin); ok {
		switch b.Name() {
		case "len":
			switch args[0].kind {
			case c31Slice:
				return c31val{kind: c31Int, n: int64(args[0].ln)}
			case c31Nil:
				return c31val{kind: c31Int, n: 0}
			}
		case "cap":
			if args[0].kind == c31Slice {
				return c31val{kind: c31Int, n: int64(len(it.segs) - args[0].off)}
			}
		case "min", "max":
			if len(args) == 2 && args[0].kind == c31Int && args[1].kind == c31Int {
				if (b.Name() == "min") == (args[0].n < args[1].n) {
					return args[0]
				}
				return args[1]
			}
		}
		return c31unk("builtin " + b.Name())
	}
	if c.Call.IsInvoke() {
		return c31unk("interface call " + c.Call.Method.Name())
	}
	name := calleeName(&c.Call)
	depth := 0
	switch name {
	case "(time.Time).Before", "(time.Time).After", "(time.Time).Equal", "(time.Time).Compare":
		return it.timeCmp(name[strings.LastIndex(name, ".")+1:], args[0], args[1])
	case "sort.Search":
		// documented algorithm: smallest i in [0,n) with f(i), else n; f must be monotone - it is executed as written
		if args[0].kind != c31Int {
			return c31unk("sort.Search length")
		}
		lo, hi := int64(0), args[0].n
		for lo < hi {
			h := int64(uint64(lo+hi) >> 1)
			r := it.callClosure(args[1], []c31val{{kind: c31Int, n: h}}, depth)
			if r.kind != c31Bool {
				return c31unk("sort.Search predicate: " + r.why)
			}
			if !r.b {
				lo = h + 1
			} else {
				hi = h
			}
		}
		return c31val{kind: c31Int, n: lo}
	case "sort.Find":
		if args[0].kind != c31Int {
			return c31unk("sort.Find length")
		}
		lo, hi := int64(0), args[0].n
		for lo < hi {
			h := int64(uint64(lo+hi) >> 1)
			r := it.callClosure(args[1], []c31val{{kind: c31Int, n: h}}, depth)
			if r.kind != c31Int {
				return c31unk("sort.Find comparison: " + r.why)
			}
			if r.n > 0 {
				lo = h + 1
			} else {
				hi = h
			}
		}
		found := false
		if lo < args[0].n {
			r := it.callClosure(args[1], []c31val{{kind: c31Int, n: lo}}, depth)
			found = r.kind == c31Int && r.n == 0
		}
		return c31val{kind: c31Tuple, tuple: []c31val{{kind: c31Int, n: lo}, {kind: c31Bool, b: found}}}
	}
	if strings.HasPrefix(name, "slices.BinarySearchFunc") && len(args) == 3 && args[0].kind == c31Slice {
		n := int64(args[0].ln)
		lo, hi := int64(0), n
		cmpAt := func(i int64) int64 {
			r := it.callClosure(args[2], []c31val{{kind: c31SegPtr, off: args[0].off + int(i)}, args[1]}, depth)
			if r.kind != c31Int {
				it.fail("slices.BinarySearchFunc comparison: %s", r.why)
			}
			return r.n
		}
		for lo < hi {
			h := int64(uint64(lo+hi) >> 1)
			if cmpAt(h) < 0 {
				lo = h + 1
			} else {
				hi = h
			}
		}
		return c31val{kind: c31Tuple, tuple: []c31val{{kind: c31Int, n: lo}, {kind: c31Bool, b: lo < n && cmpAt(lo) == 0}}}
	}
	if strings.HasPrefix(name, "slices.IndexFunc") && len(args) == 2 && args[0].kind == c31Slice {
		for i := 0; i < args[0].ln; i++ {
			r := it.callClosure(args[1], []c31val{{kind: c31SegPtr, off: args[0].off + i}}, depth)
			if r.kind != c31Bool {
				return c31unk("slices.IndexFunc predicate: " + r.why)
			}
			if r.b {
				return c31val{kind: c31Int, n: int64(i)}
			}
		}
		return c31val{kind: c31Int, n: -1}
	}
	// a function of the module with a body (extracted helper), or a closure called directly
	var f *ssa.Function
	var binds []c31val
	switch v := c.Call.Value.(type) {
	case *ssa.Function:
		f = v
	case *ssa.MakeClosure:
		f, _ = v.Fn.(*ssa.Function)
		cv := it.eval(fr, v)
		binds = cv.binds
	default:
		cv := it.eval(fr, c.Call.Value)
		if cv.kind == c31Closure {
			f, binds = cv.fn, cv.binds
		}
	}
	if f != nil && len(f.Blocks) > 0 && (inModule(f) || f.Parent() != nil) {
		return it.run(f, args, binds, nil, nil, 0, 1)
	}
	return c31unk("call of " + name + " (not modelled)")
}

// run executes fn from block start / instruction index from (nil: the entry).
func (it *c31interp) run(fn *ssa.Function, args, binds []c31val, preset map[ssa.Value]c31val, start *ssa.BasicBlock, from, depth int) c31val {
	if depth > 6 {
		it.fail("call depth")
	}
	fr := &c31frame{fn: fn, args: args, binds: binds, env: map[ssa.Value]c31val{}, cells: map[*ssa.Alloc]*c31cell{}}
	for k, v := range preset {
		if a, ok := k.(*ssa.Alloc); ok {
			fr.cells[a] = v.cell
		}
		fr.env[k] = v
	}
	b := fn.Blocks[0]
	if start != nil {
		b = start
	}
	var prev *ssa.BasicBlock
	for {
		// phis: simultaneous assignment
		if prev != nil {
			pi := -1
			for k, p := range b.Preds {
				if p == prev {
					pi = k
				}
			}
			vals := map[*ssa.Phi]c31val{}
			for _, ins := range b.Instrs {
				ph, ok := ins.(*ssa.Phi)
				if !ok {
					break
				}
				if pi < 0 {
					it.fail("phi without the executed predecessor")
				}
				vals[ph] = it.eval(fr, ph.Edges[pi])
			}
			for ph, v := range vals {
				fr.env[ph] = v
			}
		}
		next := (*ssa.BasicBlock)(nil)
		for i := from; i < len(b.Instrs); i++ {
			it.steps++
			if it.steps > 20000 {
				it.fail("step bound exceeded (non-terminating loop?)")
			}
			switch x := b.Instrs[i].(type) {
			case *ssa.Phi:
				if prev == nil {
					it.fail("phi at the start point")
				}
			case *ssa.DebugRef, *ssa.RunDefers:
			case *ssa.Defer, *ssa.Go, *ssa.Send, *ssa.Select, *ssa.MapUpdate, *ssa.Panic:
				it.fail("instruction %s is not modelled", x.String())
			case *ssa.Store:
				p := it.eval(fr, x.Addr)
				if p.kind != c31CellPtr {
					it.fail("store through %s (only local variables are modelled)", p.why)
				}
				p.cell.v = it.eval(fr, x.Val)
			case *ssa.If:
				cnd := it.eval(fr, x.Cond)
				if cnd.kind != c31Bool {
					it.fail("branch on a value that is not modelled: %s", cnd.why)
				}
				if cnd.b {
					next = b.Succs[0]
				} else {
					next = b.Succs[1]
				}
			case *ssa.Jump:
				next = b.Succs[0]
			case *ssa.Return:
				var rs []c31val
				for k := range x.Results {
					rs = append(rs, it.eval(fr, retVal(x, k)))
				}
				if len(rs) == 1 {
					return rs[0]
				}
				return c31val{kind: c31Tuple, tuple: rs}
			default:
				if v, ok := x.(ssa.Value); ok {
					fr.env[v] = it.compute(fr, x)
				} else {
					it.fail("instruction %s is not modelled", x.String())
				}
			}
		}
		if next == nil {
			it.fail("block without a modelled terminator")
		}
		prev, b, from = b, next, 0
	}
}

// c31SortAnchor: the call that sorts the collected list of segments.
func c31SortAnchor(fn *ssa.Function) *ssa.Call {
	var out *ssa.Call
	for _, b := range fn.Blocks {
		for _, i := range b.Instrs {
			c, ok := i.(*ssa.Call)
			if !ok || c.Call.IsInvoke() || len(c.Call.Args) == 0 {
				continue
			}
			n := calleeName(&c.Call)
			if !(strings.HasPrefix(n, "sort.Slice") || strings.HasPrefix(n, "slices.Sort") || n == "sort.Sort" || n == "sort.Stable") {
				continue
			}
			if strings.Contains(typeStr(c.Call.Args[0].Type()), "recordstore.Segment") || strings.Contains(desc(c.Call.Args[0]), "recordstore.Segment") {
				if out != nil {
					return nil
				}
				out = c
			}
		}
	}
	return out
}

type c31Scenario struct {
	n      int
	at     int64
	expect int // index of the first segment that must be kept
	name   string
}

func c31RunScenario(fn *ssa.Function, anchor *ssa.Call, sc c31Scenario) (res string) {
	it := &c31interp{}
	for i := 0; i < sc.n; i++ {
		it.segs = append(it.segs, int64(10*(i+1)))
	}
	defer func() {
		if r := recover(); r != nil {
			switch x := r.(type) {
			case c31abort:
				res = "UNKNOWN: " + x.why
			case c31panic:
				res = "panics: " + x.why
			default:
				panic(r)
			}
		}
	}()
	list := c31val{kind: c31Slice, off: 0, ln: sc.n}
	preset := map[ssa.Value]c31val{}
	// the sorted list: a variable (captured by the comparator closure) or a register
	arg := anchor.Call.Args[0]
	if a, ok := loadOf(arg).(*ssa.Alloc); ok {
		preset[a] = c31val{kind: c31CellPtr, cell: &c31cell{list}}
	} else {
		preset[stripConv(arg)] = list
		preset[arg] = list
	}
	var args []c31val
	for _, prm := range fn.Params {
		t := typeStr(prm.Type())
		switch {
		case t == "*time.Time" && (prm.Name() == "start" || len(args) == 2):
			args = append(args, c31val{kind: c31TimePtr, n: sc.at})
		case t == "*time.Time":
			args = append(args, c31val{kind: c31Nil}) // end: already applied while collecting
		default:
			args = append(args, c31val{kind: c31Opaque, why: prm.Name()})
		}
	}
	out := it.run(fn, args, nil, preset, anchor.Block(), instrIndex(anchor)+1, 0)
	if out.kind != c31Tuple || len(out.tuple) != 2 {
		return "UNKNOWN: result " + out.why
	}
	l, e := out.tuple[0], out.tuple[1]
	switch {
	case e.kind == c31Err:
		return "returns the error " + e.why
	case e.kind != c31Nil:
		return "UNKNOWN: error result " + e.why
	case l.kind != c31Slice:
		return "UNKNOWN: list result " + l.why
	case l.off != sc.expect || l.off+l.ln != sc.n:
		return fmt.Sprintf("keeps segments [%d,%d) - the first one starts at %d", l.off, l.off+l.ln, it.segs[min(l.off, sc.n-1)])
	}
	return ""
}

func c31FindByInstant(c *Ctx, p *Prog) {
	fn := c.fn(p, "internal/recordstore", "", "FindSegments")
	if fn == nil {
		return
	}
	anchor := c31SortAnchor(fn)
	if anchor == nil {
		c.Undecided("UNRESOLVED ANCHOR the call that sorts the collected segments in recordstore.FindSegments (rule C31.find_by_instant)")
		return
	}
	var eq, inside []string
	nEq, nIn := 0, 0
	for n := 1; n <= 4; n++ {
		for k := 0; k < n; k++ {
			nEq++
			if r := c31RunScenario(fn, anchor, c31Scenario{n: n, at: int64(10 * (k + 1)), expect: k}); r != "" {
				eq = append(eq, sprintf("%d segments starting at 10,20,..; start = %d (= start of segment #%d): %s", n, 10*(k+1), k, r))
			}
			nIn++
			if r := c31RunScenario(fn, anchor, c31Scenario{n: n, at: int64(10*(k+1) + 5), expect: k}); r != "" {
				inside = append(inside, sprintf("%d segments; start = %d (inside segment #%d): %s", n, 10*(k+1)+5, k, r))
			}
		}
		nIn++
		if r := c31RunScenario(fn, anchor, c31Scenario{n: n, at: 5, expect: 0}); r != "" {
			inside = append(inside, sprintf("%d segments; start = 5 (before the first segment): %s", n, r))
		}
	}
	pos := p.Pos(anchor.Pos())
	c.Check("C31.find_by_instant.equal", "recordstore.FindSegments: an instant equal to the start instant of segment k selects segment k as the first segment", len(eq) == 0, pos,
		strings.Join(eq, " | ")+" ; wanted segments[k:], nil: the start instants reported by the listing (and carried by the /list URLs) must select the segment they name, otherwise playback /get and /list attribute that instant to the previous segment")
	c.Check("C31.find_by_instant.inside", "recordstore.FindSegments: an instant inside segment k (or before the first segment) selects segment k (the first segment)", len(inside) == 0, pos, strings.Join(inside, " | "))
	c.Count("find_by_instant_scenarios", nEq+nIn)
}
