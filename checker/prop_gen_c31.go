package main

// C31, generalisation of "the delete handler's value chain lives in one
// function".
//
// The delete rules follow values: os.Remove's argument back to the Encode call,
// the Encode format back to the sibling builder, the builder's leaves back to
// the configuration FindPathConf returned for the queried name. They compared
// SSA values of onRecordingDeleteSegment by identity, so moving a stretch of
// that chain into a new function (or a stretch of a new function back) cut the
// chain at the call: the result of the call was opaque and the parameters of
// the helper were not the caller's values.
//
// hv is a value together with the call context it is looked at in. norm()
// carries a value across the boundary of a NEW helper (inline.go: a function
// that is not in the baseline, has a body and is only called statically):
//
//	result k of a call to a new helper  ->  the value the helper returns at k
//	                                        (the only one that is not the zero constant; a helper that
//	                                        can return two different computed values is not resolved),
//	                                        looked at in the context of that call;
//	parameter i of a new helper         ->  argument i of the call it was entered by
//	                                        (or of its only call site when the walk started inside it).
//
// Inlining a call preserves behaviour, so a chain that holds on the resolved
// values holds for the program; anything not resolved stays opaque and the
// rule fails as before. Functions of the baseline are never looked through.

import (
	"go/constant"

	"golang.org/x/tools/go/ssa"
)

type hctx struct {
	call   *ssa.Call
	parent *hctx
}

type hv struct {
	v   ssa.Value
	ctx *hctx
}

func (x hv) at(v ssa.Value) hv { return hv{v, x.ctx} }

func sameCtx(a, b *hctx) bool {
	for a != nil && b != nil {
		if a.call != b.call {
			return false
		}
		a, b = a.parent, b.parent
	}
	return a == nil && b == nil
}

func (x hv) same(y hv) bool { return x.v != nil && x.v == y.v && sameCtx(x.ctx, y.ctx) }

func isZeroConst(v ssa.Value) bool {
	c, ok := v.(*ssa.Const)
	if !ok {
		return false
	}
	if c.Value == nil {
		return true // nil, zero struct
	}
	switch c.Value.Kind() {
	case constant.String:
		return constant.StringVal(c.Value) == ""
	case constant.Bool:
		return !constant.BoolVal(c.Value)
	case constant.Int, constant.Float:
		return constant.Sign(c.Value) == 0
	}
	return false
}

// helperReturn: the single computed value a new helper returns at index idx
// (zero constants, which accompany an error, are ignored).
func helperReturn(h *ssa.Function, idx int) ssa.Value {
	var out ssa.Value
	for _, b := range h.Blocks {
		for _, ins := range b.Instrs {
			r, ok := ins.(*ssa.Return)
			if !ok || idx >= len(r.Results) {
				continue
			}
			v := retVal(r, idx)
			if isZeroConst(v) {
				continue
			}
			if out != nil && out != v {
				return nil
			}
			out = v
		}
	}
	return out
}

func ctxDepth(c *hctx) int {
	n := 0
	for ; c != nil; c = c.parent {
		n++
	}
	return n
}

// norm strips conversions and crosses new-helper boundaries.
func (x hv) norm() hv {
	for steps := 0; steps < 32; steps++ {
		v := stripConv(x.v)
		x.v = v
		switch y := v.(type) {
		case *ssa.Parameter:
			h := y.Parent()
			k := paramIndex(y)
			if x.ctx != nil && x.ctx.call.Call.StaticCallee() == h && k >= 0 && k < len(x.ctx.call.Call.Args) {
				x = hv{x.ctx.call.Call.Args[k], x.ctx.parent}
				continue
			}
			if x.ctx == nil && isNewHelper(h) && len(helperIdx[h].sites) == 1 && k >= 0 && k < len(helperIdx[h].sites[0].Call.Args) {
				x = hv{helperIdx[h].sites[0].Call.Args[k], nil}
				continue
			}
		case *ssa.Extract:
			if c, ok := y.Tuple.(*ssa.Call); ok && ctxDepth(x.ctx) < 4 {
				if h := newHelperCallee(c); h != nil {
					if r := helperReturn(h, y.Index); r != nil {
						x = hv{r, &hctx{c, x.ctx}}
						continue
					}
				}
			}
		case *ssa.Call:
			if h := newHelperCallee(y); h != nil && h.Signature.Results().Len() == 1 && ctxDepth(x.ctx) < 4 {
				if r := helperReturn(h, 0); r != nil {
					x = hv{r, &hctx{y, x.ctx}}
					continue
				}
			}
		}
		return x
	}
	return x
}

// throughCall: when x is result `idx` of a call to the named (baseline) callee,
// returns argument `arg` of that call in x's context.
func (x hv) throughCall(callee string, idx, arg int) (hv, bool) {
	x = x.norm()
	var cl *ssa.Call
	switch y := x.v.(type) {
	case *ssa.Extract:
		if y.Index == idx {
			cl, _ = y.Tuple.(*ssa.Call)
		}
	case *ssa.Call:
		if idx == 0 && y.Call.Signature().Results().Len() == 1 {
			cl = y
		}
	}
	if cl == nil || calleeName(&cl.Call) != callee || arg >= len(cl.Call.Args) {
		return x, false
	}
	return x.at(cl.Call.Args[arg]).norm(), true
}

// c31FormatBuilderHV is c31FormatBuilder over context values.
func c31FormatBuilderHV(x hv) (recordPath, name, format hv, ok bool) {
	x = x.norm()
	cl, isC := x.v.(*ssa.Call)
	if !isC || calleeName(&cl.Call) != "recordstore.PathAddExtension" || len(cl.Call.Args) != 2 {
		return hv{}, hv{}, hv{}, false
	}
	r := x.at(cl.Call.Args[0]).norm()
	ra, isC := r.v.(*ssa.Call)
	if !isC || calleeName(&ra.Call) != "strings.ReplaceAll" {
		return hv{}, hv{}, hv{}, false
	}
	if s, isS := ssaConstString(ra.Call.Args[1]); !isS || s != "%path" {
		return hv{}, hv{}, hv{}, false
	}
	return r.at(ra.Call.Args[0]).norm(), r.at(ra.Call.Args[2]).norm(), x.at(cl.Call.Args[1]).norm(), true
}

// baselineOwner: the baseline function a call site belongs to - the function
// itself, or, for a site inside a new helper that has one call site, the
// function the helper was extracted from.
func baselineOwner(fn *ssa.Function) *ssa.Function {
	for d := 0; d < 6 && isNewHelper(fn) && len(helperIdx[fn].sites) == 1; d++ {
		fn = helperIdx[fn].sites[0].Parent()
	}
	return fn
}
