package main

// C10 class P8 - optional destinations in the environment loader.
//
// env.loadEnvInternal(env, prefix, prv) receives in prv a pointer to the
// destination. For the per-path settings the destination struct is the
// "optional" mirror of conf.Path, in which EVERY field is a pointer that is nil
// until the file or the environment sets it (conf.newOptionalPathValues), so prv
// itself may be a nil pointer. Dereferencing it - prv.Elem().Set*(...) on the
// zero Value, or calling UnmarshalEnv on the nil pointer - panics, and a panic
// is neither of the two outcomes C10 allows for arbitrary environment values.
//
// Rule (P8.init): every write through (reflect.Value).Elem(prv) and every
// UnmarshalEnv call in loadEnvInternal is reached only after prv was found
// non-nil (IsNil/IsZero test) or was initialised (prv.Set(reflect.New(...))).
// The map and struct branches dereference prv without a test; they are sound
// only because no optional field has such a kind, which is rule (P8.kinds): no
// field of conf.Path has a map or struct type (unless it loads itself through
// env.Unmarshaler).

import (
	"go/types"
	"strings"

	"golang.org/x/tools/go/ssa"
)

func init() {
	addMutants(
		Mutant{"C10", "env-int-optional-not-initialised", "internal/conf/env/env.go",
			"			if prv.IsNil() {\n				prv.Set(reflect.New(rt))\n			}\n			iv, err := strconv.ParseInt(ev, 10, 32)", "			iv, err := strconv.ParseInt(ev, 10, 32)", "C10.P8.init"},
		Mutant{"C10", "env-empty-struct-list-optional-not-initialised", "internal/conf/env/env.go",
			"			if ev, ok := env[prefix]; ok && ev == \"\" { // special case: empty list\n				if prv.IsNil() {\n					prv.Set(reflect.New(rt))\n				}\n", "			if ev, ok := env[prefix]; ok && ev == \"\" { // special case: empty list\n", "C10.P8.init"},
		Mutant{"C10", "env-unmarshaler-called-on-nil-optional", "internal/conf/env/env.go",
			"		} else if envHasAtLeastAKeyWithPrefix(env, prefix) {\n			if prv.IsNil() {\n				prv.Set(reflect.New(rt))\n				i = prv.Interface().(Unmarshaler)\n			}\n", "		} else if envHasAtLeastAKeyWithPrefix(env, prefix) {\n", "C10.P8.init"},
		Mutant{"C10", "path-gets-a-map-field", "internal/conf/path.go",
			"	RPICameraAWBGains              []float64 `json:\"rpiCameraAWBGains\"`", "	RPICameraAWBGains              []float64 `json:\"rpiCameraAWBGains\"`\n	RPICameraExtra                 map[string]string `json:\"rpiCameraExtra\"`", "C10.P8.kinds"},
	)
}

func c10EnvOptional(c *Ctx, p *Prog) {
	fn := c.fn(p, "internal/conf/env", "", "loadEnvInternal")
	if fn == nil {
		return
	}
	// the destination parameter: the one of type reflect.Value
	prv := ""
	for i, par := range fn.Params {
		if typeStr(par.Type()) == "reflect.Value" {
			prv = "$" + string(rune('0'+i))
		}
	}
	if prv == "" {
		c.Undecided("UNRESOLVED ANCHOR env.loadEnvInternal: no reflect.Value parameter")
		return
	}
	elem := "(reflect.Value).Elem(" + prv + ")"
	isInit := func(i ssa.Instruction) bool {
		cl, ok := i.(*ssa.Call)
		if !ok || !isCallTo(cl, "(reflect.Value).Set") || len(cl.Call.Args) != 2 {
			return false
		}
		return desc(cl.Call.Args[0]) == prv && strings.HasPrefix(desc(cl.Call.Args[1]), "reflect.New(")
	}
	nonNil := []LitPat{F("(reflect.Value).IsNil(" + prv + ")"), F("(reflect.Value).IsZero(" + prv + ")")}
	// reflect.Map = 21, reflect.Struct = 25 (reflect.Kind constants): branches discharged by P8.kinds
	rt := "(reflect.Type).Elem((reflect.Value).Type(" + prv + "))" // the pointed-to type (not its element type)
	byKind := []LitPat{T("((reflect.Type).Kind(" + rt + ") == 21)"), T("((reflect.Type).Kind(" + rt + ") == 25)")}
	n := 0
	ord := map[string]int{}
	eachInstr(fn, func(i ssa.Instruction) {
		cc := callCommon(i)
		if cc == nil {
			return
		}
		if _, isCall := i.(*ssa.Call); !isCall {
			return
		}
		what := ""
		switch {
		case cc.IsInvoke() && cc.Method.Name() == "UnmarshalEnv":
			what = "UnmarshalEnv on the destination"
		case !cc.IsInvoke() && len(cc.Args) >= 1 && desc(cc.Args[0]) == elem && strings.HasPrefix(calleeName(cc), "(reflect.Value).Set"):
			what = strings.TrimPrefix(calleeName(cc), "(reflect.Value).") + " through prv.Elem()"
			if len(cc.Args) >= 2 {
				// tell the sites apart by what is stored (the producing call, or the static type)
				if ac, ok := stripConv(cc.Args[1]).(*ssa.Call); ok {
					what += " of " + calleeName(&ac.Call) + "(…)"
					if len(ac.Call.Args) == 1 {
						what += " [" + typeStr(ac.Call.Args[0].Type()) + "]"
					}
				} else {
					what += " of a " + typeStr(cc.Args[1].Type())
				}
			}
		default:
			return
		}
		n++
		ord[what]++
		if ord[what] > 1 {
			what += " (site " + string(rune('0'+ord[what])) + " in source order)"
		}
		ii := i
		w := (&Walker{
			Visit: func(j ssa.Instruction) int {
				if isInit(j) {
					return wStop
				}
				if j == ii {
					return wHit
				}
				return wContinue
			},
			Edge: func(l Lit) bool {
				for _, a := range nonNil {
					if a.match(l) {
						return false
					}
				}
				for _, a := range byKind {
					if a.match(l) {
						return false
					}
				}
				return true
			},
		}).Run(entry(fn))
		c.Check("C10.P8.init", fnName(fn)+": "+what+" only after the destination pointer was tested non-nil or initialised", w == nil, p.Pos(posOf(i, fn)),
			"per-path settings are loaded into a struct of nil pointers: a nil destination makes this call panic. "+w.String(p))
	})
	c.Floor("C10.P8.init", n, 10)

	// P8.kinds: which kinds can arrive behind a nil pointer
	pk := p.Pkg("internal/conf")
	epk := p.Pkg("internal/conf/env")
	if pk == nil || epk == nil {
		c.Undecided("UNRESOLVED ANCHOR internal/conf or internal/conf/env")
		return
	}
	var unm *types.Interface
	if o := epk.Types.Scope().Lookup("Unmarshaler"); o != nil {
		unm, _ = o.Type().Underlying().(*types.Interface)
	}
	po := pk.Types.Scope().Lookup("Path")
	if unm == nil || po == nil {
		c.Undecided("UNRESOLVED ANCHOR env.Unmarshaler / conf.Path")
		return
	}
	st, ok := po.Type().Underlying().(*types.Struct)
	if !ok {
		c.Undecided("UNRESOLVED ANCHOR conf.Path is not a struct")
		return
	}
	nf := 0
	for i := 0; i < st.NumFields(); i++ {
		f := st.Field(i)
		tag := structTagGet(st.Tag(i), "json")
		if tag == "-" || !f.Exported() {
			continue
		}
		nf++
		t := f.Type()
		if types.Implements(types.NewPointer(t), unm) || types.Implements(t, unm) {
			continue
		}
		bad := false
		switch t.Underlying().(type) {
		case *types.Map, *types.Struct:
			bad = true
		}
		c.Check("C10.P8.kinds", "conf.Path."+f.Name()+" ("+typeStr(t)+"): optional fields are loaded through a nil pointer; the loader's map and struct branches dereference it unconditionally", !bad, p.Pos(f.Pos()), "")
	}
	c.Floor("C10.P8.kinds", nf, 50)
}

func structTagGet(tag, key string) string {
	// minimal reflect.StructTag.Get
	for tag != "" {
		i := 0
		for i < len(tag) && tag[i] == ' ' {
			i++
		}
		tag = tag[i:]
		if tag == "" {
			break
		}
		i = 0
		for i < len(tag) && tag[i] > ' ' && tag[i] != ':' && tag[i] != '"' {
			i++
		}
		if i == 0 || i+1 >= len(tag) || tag[i] != ':' || tag[i+1] != '"' {
			break
		}
		name := tag[:i]
		tag = tag[i+1:]
		i = 1
		for i < len(tag) && tag[i] != '"' {
			if tag[i] == '\\' {
				i++
			}
			i++
		}
		if i >= len(tag) {
			break
		}
		val := tag[1:i]
		tag = tag[i+1:]
		if name == key {
			if j := strings.IndexByte(val, ','); j >= 0 {
				val = val[:j]
			}
			return val
		}
	}
	return ""
}
