package main

import (
	"go/token"

	"golang.org/x/tools/go/ssa"
)

// C21 - hook commands receive values verbatim and report their exit status.
//
// Rule ids carry the suffix "@windows" when the instance lives in the windows
// sibling (cmd_os_windows.go), so that every instance has its own mutant.

const (
	c21Split   = "github.com/kballard/go-shellquote.Split"
	c21Expand  = "externalcmd.expandEnv"
	c21Command = "os/exec.Command"
)

func init() {
	register(Property{ID: "C21", Level: "other", Run: runC21,
		Technique: "static analysis: origin classification of the exec argv / environment / completion value on go/ssa (def-use, must-pass-through, must-follow) in internal/externalcmd, for the unix and the windows sibling",
		Text:      "Decides, in internal/externalcmd for linux/amd64 and windows/amd64: (1) shellquote.Split is applied to the raw command template (the cmdstr parameter, which Cmd.run fills with c.Cmdstr), never to an expanded string; (2) the argv of every exec.Command is element 0 / elements 1.. of that split result after a full-range loop replaced every element i by expandEnv(element i, c.Env) - so a value lands inside exactly one argument (the windows cmd.exe raw-command-line branch is a tabled exception); (3) expandEnv returns os.Expand(s, f) where f returns the hook value env[name] unchanged when present and os.Getenv otherwise; (4) Cmd.run appends key+\"=\"+val for every c.Env entry, unconditionally, to the environment it passes on and runOSSpecific stores exactly that slice in exec.Cmd.Env before Start; (5) exit status: every ExitCode() result in the module is used, the waiter returns it whenever Wait() failed with an *exec.ExitError, that value is what is sent on the completion channel that runOSSpecific selects on, nil is returned only under code == 0, the non-zero branch returns fmt.Errorf carrying the code, and Cmd.run hands every non-nil, non-terminated error to OnExit; (6) argv[0]/argv[1:] are taken only after a length test; (7) module-wide: every write of a hook value into an externalcmd.Environment map goes to a map created for that one invocation (a map literal / make in the writer, or the result of a module function whose every return is such a fresh map, followed through locals, captured variables, parameter structs and call sites), and every module function that returns an Environment returns a fresh map - a cached / stored / captured map would let the next hook invocation overwrite the values before the command, which keeps a reference to Env, reads them. Not decided: os.Expand / shellquote / os/exec internals, which variables each hook puts into Env (internal/hooks), one map reused for several commands inside a single invocation, delivery of OnExit to a log line.",
		Note:      "trusted: os.Expand, shellquote.Split, os/exec, go/ssa construction; the expand loop is recognised as the range-index idiom the repository uses (any other idiom is reported, not guessed)"})
	addMutants(
		Mutant{"C21", "expand-before-split", "internal/externalcmd/cmd_os.go",
			"shellquote.Split(cmdstr)", "shellquote.Split(expandEnv(cmdstr, c.Env))", "C21.split_raw"},
		Mutant{"C21", "run-passes-expanded-template", "internal/externalcmd/cmd.go",
			"c.runOSSpecific(c.Cmdstr, env)", "c.runOSSpecific(expandEnv(c.Cmdstr, c.Env), env)", "C21.split_raw"},
		Mutant{"C21", "expand-loop-skips-argv0", "internal/externalcmd/cmd_os.go",
			"for i, part := range cmdParts {", "for i, part := range cmdParts[1:] {", "C21.argv_expanded"},
		Mutant{"C21", "exec-through-shell", "internal/externalcmd/cmd_os.go",
			"exec.Command(cmdParts[0], cmdParts[1:]...)", "exec.Command(\"/bin/sh\", \"-c\", expandEnv(cmdstr, c.Env))", "C21.argv_expanded"},
		Mutant{"C21", "expand-only-process-env", "internal/externalcmd/cmd_os.go",
			"cmdParts[i] = expandEnv(part, c.Env)", "cmdParts[i] = os.ExpandEnv(part)", "C21.argv_expanded"},
		Mutant{"C21", "windows-expand-loop-conditional", "internal/externalcmd/cmd_os_windows.go",
			"cmdParts[i] = expandEnv(part, c.Env)", "if i != 0 {\n\t\t\t\tcmdParts[i] = expandEnv(part, c.Env)\n\t\t\t}", "C21.argv_expanded@windows"},
		Mutant{"C21", "expand-quotes-value", "internal/externalcmd/cmd.go",
			"\t\t\treturn value\n", "\t\t\treturn fmt.Sprintf(\"%q\", value)\n", "C21.expand_env"},
		Mutant{"C21", "expand-prefers-process-env", "internal/externalcmd/cmd.go",
			"if value, ok := env[variable]; ok {", "if value, ok := env[variable]; ok && os.Getenv(variable) == \"\" {", "C21.expand_env"},
		Mutant{"C21", "env-value-quoted", "internal/externalcmd/cmd.go",
			"key+\"=\"+val", "key+\"=\"+fmt.Sprintf(\"%q\", val)", "C21.env_verbatim"},
		Mutant{"C21", "env-not-passed", "internal/externalcmd/cmd_os.go",
			"cmd.Env = env", "cmd.Env = os.Environ()", "C21.env_verbatim"},
		Mutant{"C21", "windows-exit-code-dropped", "internal/externalcmd/cmd_os_windows.go",
			"\t\t\treturn ee.ExitCode()\n", "\t\t\tee.ExitCode()\n\t\t\treturn 0\n", "C21.exit_status.waiter@windows"},
		Mutant{"C21", "negative-codes-only", "internal/externalcmd/cmd_os.go",
			"if c != 0 {", "if c < 0 {", "C21.exit_status.nil_only_on_zero"},
		Mutant{"C21", "error-without-code", "internal/externalcmd/cmd_os.go",
			"return fmt.Errorf(\"command exited with code %d\", c)", "return fmt.Errorf(\"command failed\")", "C21.exit_status.error_carries_code"},
		Mutant{"C21", "onexit-dropped-without-restart", "internal/externalcmd/cmd.go",
			"\t\t\tif err != nil {\n\t\t\t\tc.OnExit(err)\n\t\t\t}\n\t\t\treturn", "\t\t\treturn", "C21.exit_status.on_exit"},
		Mutant{"C21", "path-env-cached", "internal/core/path.go",
			"	return env\n}\n\nfunc (pa *path) shouldClose() bool {",
			"	if cached, ok := externalCmdEnvCache.Load(pa.name); ok {\n		return cached.(externalcmd.Environment)\n	}\n	externalCmdEnvCache.Store(pa.name, env)\n	return env\n}\n\nvar externalCmdEnvCache sync.Map\n\nfunc (pa *path) shouldClose() bool {", "C21.env_private"},
		Mutant{"C21", "segment-hook-env-hoisted", "internal/core/path.go",
			"func (pa *path) startRecording() {\n	pa.recorder = &recorder.Recorder{\n		PathFormat:      pa.conf.RecordPath,\n		Format:          pa.conf.RecordFormat,\n		PartDuration:    time.Duration(pa.conf.RecordPartDuration),\n		MaxPartSize:     pa.conf.RecordMaxPartSize,\n		SegmentDuration: time.Duration(pa.conf.RecordSegmentDuration),\n		PathName:        pa.name,\n		Stream:          pa.stream,\n		OnSegmentCreate: func(segmentPath string) {\n			if pa.conf.RunOnRecordSegmentCreate != \"\" {\n				env := pa.ExternalCmdEnv()\n",
			"func (pa *path) startRecording() {\n	recEnv := pa.ExternalCmdEnv()\n	pa.recorder = &recorder.Recorder{\n		PathFormat:      pa.conf.RecordPath,\n		Format:          pa.conf.RecordFormat,\n		PartDuration:    time.Duration(pa.conf.RecordPartDuration),\n		MaxPartSize:     pa.conf.RecordMaxPartSize,\n		SegmentDuration: time.Duration(pa.conf.RecordSegmentDuration),\n		PathName:        pa.name,\n		Stream:          pa.stream,\n		OnSegmentCreate: func(segmentPath string) {\n			if pa.conf.RunOnRecordSegmentCreate != \"\" {\n				env := recEnv\n", "C21.env_private"},
		Mutant{"C21", "windows-done-channel-gets-zero", "internal/externalcmd/cmd_os_windows.go",
			"\t\t\treturn ee.ExitCode()\n\t\t}()\n", "\t\t\treturn ee.ExitCode()\n\t\t}() & 0\n", "C21.exit_status.sent@windows"},
	)
}

func runC21(c *Ctx) {
	p := c.Main()
	if p == nil {
		return
	}
	defer dumpObls(c)
	c.Explain = "E5/E1/E4 in internal/externalcmd. split_raw: shellquote.Split argument is the raw template parameter and Cmd.run passes c.Cmdstr. " +
		"argv_expanded: exec.Command(parts[0], parts[1:]...) with parts = Split result, reached only through the exit edge of a range-index loop over the same slice whose single-block body stores expandEnv(parts[i], c.Env) to parts[i]; no other store into parts; windows cmd.exe branch tabled (documented raw command line). " +
		"expand_env: expandEnv = os.Expand(s, f), f returns env[name] when present else os.Getenv(name), env bound to the parameter. " +
		"env_verbatim: Cmd.run appends key+\"=\"+val per c.Env entry in an unconditional range body and passes the result; runOSSpecific stores parameter env to Cmd.Env of the command it starts, before Start. " +
		"exit_status.{result_used,waiter,sent,nil_only_on_zero,error_carries_code,on_exit}: see property text. argv0_len: constant index/slice of the split result needs a length test. " +
		"env_private (prop_r3_c21.go): every MapUpdate on an externalcmd.Environment writes into a map whose origins (through locals, captured cells, struct literals, parameters -> call-site arguments, phis, module callees incl. every implementation of an invoked module interface method) are all: map literal/make, maps.Clone, nil; a field of a longer-lived object, a package variable, a container element, a variable captured by an escaping closure, or an unresolved value is reported; every module function returning Environment returns only such fresh maps. " +
		"NOT decided: library internals (os.Expand, shellquote, os/exec), which variables hooks put into Env, one map reused by several commands of one invocation, what OnExit does with the error."
	c.Assume = []string{
		"os.Expand substitutes the mapping result verbatim; shellquote.Split does not depend on later element values; os/exec passes argv and Env unchanged to the kernel",
		"the windows cmd.exe branch passes a raw command line by design (tabled exception, not checked for splitting)",
	}

	c21Package(c, p, "")
	if pw := c.LoadNarrow("windows", "amd64", "./internal/externalcmd"); pw != nil {
		c.withCfg("windows/amd64", func() { c21Package(c, pw, "@windows") })
	}

	// ---- shared (cmd.go): expandEnv, Cmd.run
	c21ExpandEnv(c, p)
	c21Run(c, p)

	// ---- the environment map belongs to one hook invocation (prop_r3_c21.go)
	c21EnvPrivate(c, p)

	// ---- every ExitCode() result in the module is used
	n := 0
	for _, fn := range p.ModFuncs() {
		eachInstr(fn, func(i ssa.Instruction) {
			call, ok := i.(*ssa.Call)
			if !ok || !isCallTo(i, "(*os.ProcessState).ExitCode", "(*os/exec.ExitError).ExitCode") {
				return
			}
			n++
			c.Analysed(fnName(fn))
			c.Check("C21.exit_status.result_used", shortFn(fn)+": result of "+calleeName(&call.Call)+" is used",
				len(*call.Referrers()) > 0, p.Pos(posOf(i, fn)), "the exit status is computed and thrown away")
		})
	}
	c.Floor("C21.exit_status.result_used", n, 1)
}

// c21Package checks the OS specific half for one build configuration.
func c21Package(c *Ctx, p *Prog, sfx string) {
	ros := c.fn(p, "internal/externalcmd", "Cmd", "runOSSpecific")
	if ros == nil {
		return
	}
	pkgFuncs := funcsOfPkg(p, "internal/externalcmd")

	// ---- (1) Split on the raw template
	nSplit := 0
	for _, fn := range pkgFuncs {
		for _, i := range callsIn(fn, c21Split) {
			nSplit++
			a := callCommon(i).Args[0]
			par, isPar := a.(*ssa.Parameter)
			ok := fn == ros && isPar && paramIndex(par) == 1
			c.Check("C21.split_raw"+sfx, shortFn(fn)+": shellquote.Split argument is the raw cmdstr parameter", ok,
				p.Pos(posOf(i, fn)), "argument is "+desc(a))
		}
	}
	c.Floor("C21.split_raw"+sfx, nSplit, 1)

	// ---- (2) argv of every exec.Command in the package
	nCmd := 0
	var started ssa.Value // the *exec.Cmd (or its variable) that is started
	for _, fn := range pkgFuncs {
		for _, i := range callsIn(fn, c21Command, "os/exec.CommandContext", "os.StartProcess", "syscall.Exec", "syscall.ForkExec") {
			nCmd++
			call, _ := i.(*ssa.Call)
			key := shortFn(fn) + ": argv of " + calleeName(callCommon(i))
			if call == nil || fn != ros || !isCallTo(i, c21Command) {
				c.Check("C21.argv_expanded"+sfx, key, false, p.Pos(posOf(i, fn)), "process creation outside the analysed idiom")
				continue
			}
			if s, isC := constStringE(call.Call.Args[0]); isC && sfx == "@windows" && s == "cmd.exe" {
				// tabled exception: raw command line for cmd.exe, only under the prefix test
				c.Count("tabled:cmd.exe raw command line", 1)
				ii := i
				c.MustPass(p, fn, "C21.argv_cmdexe_guard"+sfx, "exec.Command(\"cmd.exe\")", func(x ssa.Instruction) bool { return x == ii },
					T(`strings.HasPrefix($1, "cmd ")`), T(`strings.HasPrefix($1, "cmd.exe ")`))
				continue
			}
			ok, why := c21ArgvIdiom(c, p, fn, call, sfx)
			c.Check("C21.argv_expanded"+sfx, key, ok, p.Pos(posOf(i, fn)), why)
		}
	}
	c.Floor("C21.argv_expanded"+sfx, nCmd, 1)

	// ---- (4b) Cmd.Env of the started command is the env parameter
	starts := callsIn(ros, "(*os/exec.Cmd).Start")
	c.Floor("C21.env_verbatim.start"+sfx, len(starts), 1)
	for _, s := range starts {
		started = callCommon(s).Args[0]
		recv := desc(started)
		var envStores []*ssa.Store
		eachInstr(ros, func(i ssa.Instruction) {
			st, ok := i.(*ssa.Store)
			if !ok {
				return
			}
			fa, ok := st.Addr.(*ssa.FieldAddr)
			if !ok || fieldAddrName(fa) != "Env" || typeStr(fa.X.Type()) != "*os/exec.Cmd" {
				return
			}
			envStores = append(envStores, st)
		})
		ok := len(envStores) == 1
		why := ""
		if !ok {
			why = "want exactly one store to exec.Cmd.Env"
		} else {
			st := envStores[0]
			par, isPar := st.Val.(*ssa.Parameter)
			if !isPar || paramIndex(par) != 2 {
				ok, why = false, "Cmd.Env is assigned "+desc(st.Val)+", not the env parameter"
			} else if desc(st.Addr.(*ssa.FieldAddr).X) != recv {
				ok, why = false, "Env stored on "+desc(st.Addr.(*ssa.FieldAddr).X)+" but "+recv+" is started"
			}
		}
		c.Check("C21.env_verbatim"+sfx, shortFn(ros)+": exec.Cmd.Env of the started command is the env parameter", ok, p.Pos(posOf(s, ros)), why)
		if ok {
			st := envStores[0]
			ss := s
			c.MustPrecede(p, ros, "C21.env_verbatim"+sfx, "(*exec.Cmd).Start", "the store to Cmd.Env",
				func(i ssa.Instruction) bool { return i == ss }, func(i ssa.Instruction) bool { return i == ssa.Instruction(st) })
		}
	}

	// ---- (5) exit status inside runOSSpecific
	c21ExitStatusGen(c, p, ros, sfx) // prop_gen_c21.go

	// ---- (6) constant index / slice of the split result needs a length test
	var idx []ssa.Instruction
	var parts ssa.Value
	eachInstr(ros, func(i ssa.Instruction) {
		var x ssa.Value
		switch v := i.(type) {
		case *ssa.IndexAddr:
			if _, ok := constIntE(v.Index); ok {
				x = v.X
			}
		case *ssa.Slice:
			if v.Low != nil {
				if k, ok := constIntE(v.Low); ok && k > 0 {
					x = v.X
				}
			}
		}
		if x == nil {
			return
		}
		ex, ok := x.(*ssa.Extract)
		if !ok {
			return
		}
		if cl, ok := ex.Tuple.(*ssa.Call); !ok || calleeName(&cl.Call) != c21Split {
			return
		}
		idx = append(idx, i)
		parts = x
	})
	c.Floor("C21.argv0_len"+sfx, len(idx), 2)
	if len(idx) > 0 {
		L := "len(" + desc(parts) + ")"
		w := reachWithout(entry(ros), func(q ssa.Instruction) bool {
			for _, i := range idx {
				if q == i {
					return true
				}
			}
			return false
		}, []LitPat{F("(" + L + " == 0)"), T("(0 < " + L + ")"), F("(" + L + " < 1)"), T("(1 < " + L + ")"), F("(" + L + " < 2)")})
		detail := itoa(len(idx)) + " constant-bound accesses, all behind a length test"
		pos := p.Pos(ros.Pos())
		if w != nil {
			detail = "a template that splits into zero words (blank string) panics here: " + w.String(p)
			pos = p.Pos(posOf(w.Hit, ros))
		}
		c.Check("C21.argv0_len"+sfx, shortFn(ros)+": cmdParts[0] and cmdParts[1:] are taken only after a length test of the split result", w == nil, pos, detail)
	}
}

// c21ArgvIdiom: exec.Command(parts[0], parts[1:]...) after the full expand loop.
func c21ArgvIdiom(c *Ctx, p *Prog, fn *ssa.Function, call *ssa.Call, sfx string) (bool, string) {
	if len(call.Call.Args) != 2 {
		return false, "unexpected arity"
	}
	// arg0 = *(&parts[0])
	a0 := loadAddr(call.Call.Args[0])
	ia, ok := a0.(*ssa.IndexAddr)
	if !ok {
		return false, "argv[0] is " + desc(call.Call.Args[0]) + ", not element 0 of the split result"
	}
	if k, isK := constIntE(ia.Index); !isK || k != 0 {
		return false, "argv[0] is not element 0"
	}
	parts := ia.X
	ex, ok := parts.(*ssa.Extract)
	if !ok || ex.Index != 0 {
		return false, "argv does not come from the split result: " + desc(parts)
	}
	if sc, ok := ex.Tuple.(*ssa.Call); !ok || calleeName(&sc.Call) != c21Split {
		return false, "argv does not come from shellquote.Split: " + desc(parts)
	}
	sl, ok := call.Call.Args[1].(*ssa.Slice)
	if !ok || sl.X != parts || sl.High != nil || sl.Max != nil {
		return false, "argv[1:] is " + desc(call.Call.Args[1])
	}
	if k, isK := constIntE(sl.Low); !isK || k != 1 {
		return false, "argv tail does not start at element 1"
	}
	// all stores into elements of parts
	var stores []*ssa.Store
	for _, r := range *parts.Referrers() {
		ea, ok := r.(*ssa.IndexAddr)
		if !ok {
			continue
		}
		for _, rr := range *ea.Referrers() {
			if st, ok := rr.(*ssa.Store); ok && st.Addr == ea {
				stores = append(stores, st)
			}
		}
	}
	if len(stores) != 1 {
		return false, "want exactly one store into the split result's elements, got " + itoa(len(stores))
	}
	st := stores[0]
	ea := st.Addr.(*ssa.IndexAddr)
	ec, ok := st.Val.(*ssa.Call)
	if !ok || calleeName(&ec.Call) != c21Expand || len(ec.Call.Args) != 2 {
		return false, "element is replaced by " + desc(st.Val) + ", not expandEnv(element, c.Env)"
	}
	src, ok := loadAddr(ec.Call.Args[0]).(*ssa.IndexAddr)
	if !ok || src.X != parts || src.Index != ea.Index {
		return false, "expandEnv is applied to " + desc(ec.Call.Args[0]) + ", not to the same element"
	}
	if desc(ec.Call.Args[1]) != "$0.Env" {
		return false, "expandEnv uses " + desc(ec.Call.Args[1]) + ", not c.Env"
	}
	// the index is the counter of a full range-index loop over parts
	inc, ok := ea.Index.(*ssa.BinOp)
	if !ok || inc.Op != token.ADD {
		return false, "element index is not a range counter"
	}
	ph, ok := inc.X.(*ssa.Phi)
	one, isOne := constIntE(inc.Y)
	if !ok || !isOne || one != 1 || len(ph.Edges) != 2 {
		return false, "element index is not a range counter"
	}
	seenInit, seenBack := false, false
	for _, e := range ph.Edges {
		if k, isK := constIntE(e); isK && k == -1 {
			seenInit = true
		} else if e == ssa.Value(inc) {
			seenBack = true
		}
	}
	if !seenInit || !seenBack {
		return false, "range counter does not start at element 0 / step 1"
	}
	head := ph.Block()
	ifi := ifOf(head)
	if ifi == nil {
		return false, "loop head has no condition"
	}
	cond, ok := ifi.Cond.(*ssa.BinOp)
	if !ok || cond.Op != token.LSS || cond.X != ssa.Value(inc) {
		return false, "loop condition is not counter < len"
	}
	lc, ok := cond.Y.(*ssa.Call)
	if !ok || calleeName(&lc.Call) != "len" || lc.Call.Args[0] != parts {
		return false, "loop bound is " + desc(cond.Y) + ", not len of the split result"
	}
	body := head.Succs[0]
	if st.Block() != body || len(body.Succs) != 1 || body.Succs[0] != head {
		return false, "the element store is conditional inside the loop body"
	}
	// the command is created only after the loop ran to completion
	w := reachWithout(entry(fn), func(i ssa.Instruction) bool { return i == ssa.Instruction(call) },
		[]LitPat{F(litOf(ifi.Cond, true).Atom)})
	if w != nil {
		return false, "exec.Command reachable without completing the expand loop: " + w.String(p)
	}
	_ = sfx
	return true, "argv = split(raw)[i] each replaced by expandEnv(split(raw)[i], c.Env)"
}

// sendChanAddr: the address a channel value was loaded from (variable), or
// the value itself.
func sendChanAddr(v ssa.Value) ssa.Value {
	if a := loadAddr(v); a != nil {
		return a
	}
	return v
}

// refsOfFunc lists instructions referring to a closure function value: calls
// of the MakeClosure result (immediately-invoked closures) or of the function.
func refsOfFunc(fn *ssa.Function) []ssa.Instruction {
	var out []ssa.Instruction
	if mc := makeClosureOf(fn); mc != nil {
		out = append(out, *mc.Referrers()...)
		return out
	}
	if par := fn.Parent(); par != nil {
		eachInstr(par, func(i ssa.Instruction) {
			if cc := callCommon(i); cc != nil && cc.StaticCallee() == fn {
				out = append(out, i)
			}
		})
	}
	return out
}

func c21ExpandEnv(c *Ctx, p *Prog) {
	ee := c.fn(p, "internal/externalcmd", "", "expandEnv")
	if ee == nil {
		return
	}
	rule := "C21.expand_env"
	var mapper *ssa.Function
	rets := returnsOf(ee)
	ok := len(rets) == 1
	if ok {
		cl, isCall := retVal(rets[0], 0).(*ssa.Call)
		ok = isCall && calleeName(&cl.Call) == "os.Expand" && desc(cl.Call.Args[0]) == "$0"
		if ok {
			if mc, isMC := cl.Call.Args[1].(*ssa.MakeClosure); isMC {
				mapper = mc.Fn.(*ssa.Function)
				ok = len(mc.Bindings) == 1 && desc(mc.Bindings[0]) == "$1"
			} else {
				ok = false
			}
		}
	}
	c.Check(rule, "externalcmd.expandEnv: returns os.Expand(s, mapping closure over the env parameter)", ok, p.Pos(ee.Pos()), "")
	if mapper == nil {
		return
	}
	c.Analysed(fnName(mapper))
	const present = "free:env[$0]#1"
	want := map[string]bool{"free:env[$0]#0": false, "os.Getenv($0)": false}
	for _, d := range retDescs(mapper, 0) {
		_, known := want[d]
		c.Check(rule, "externalcmd.expandEnv$1: returns "+d, known, p.Pos(mapper.Pos()), "the mapping returns the hook value unchanged or the process environment value")
		if known {
			want[d] = true
		}
	}
	for d, seen := range want {
		c.Check(rule, "externalcmd.expandEnv$1: has return "+d, seen, p.Pos(mapper.Pos()), "")
	}
	retIs := func(d string) target {
		return func(i ssa.Instruction) bool {
			r, ok := i.(*ssa.Return)
			return ok && retVal(r, 0) != nil && desc(retVal(r, 0)) == d
		}
	}
	if want["os.Getenv($0)"] {
		c.MustPass(p, mapper, rule, "return os.Getenv(name)", retIs("os.Getenv($0)"), F(present))
	}
	if want["free:env[$0]#0"] {
		c.MustPass(p, mapper, rule, "return env[name]", retIs("free:env[$0]#0"), T(present))
	}
	// the hook value wins whenever present: the only test in the mapping is the presence test
	nIf := 0
	for _, b := range mapper.Blocks {
		if ifi := ifOf(b); ifi != nil {
			nIf++
			c.Check(rule, "externalcmd.expandEnv$1: branch on "+litOf(ifi.Cond, true).Atom, litOf(ifi.Cond, true).Atom == present, p.Pos(posOf(ifi, mapper)),
				"the mapping may branch only on presence of the variable in the hook environment")
		}
	}
	c.Floor(rule, nIf, 1)
}

func c21Run(c *Ctx, p *Prog) {
	run := c.fn(p, "internal/externalcmd", "Cmd", "run")
	if run == nil {
		return
	}
	calls := callsIn(run, "(*externalcmd.Cmd).runOSSpecific")
	c.Floor("C21.split_raw.run", len(calls), 1)
	for _, i := range calls {
		call, ok := i.(*ssa.Call)
		if !ok || len(call.Call.Args) != 3 {
			c.Check("C21.split_raw", "(*externalcmd.Cmd).run: runOSSpecific is called directly", false, p.Pos(posOf(i, run)), "")
			continue
		}
		c.Check("C21.split_raw", "(*externalcmd.Cmd).run: runOSSpecific receives c.Cmdstr unmodified", desc(call.Call.Args[1]) == "$0.Cmdstr",
			p.Pos(call.Pos()), "template argument is "+desc(call.Call.Args[1]))

		// ---- environment: os.Environ() plus key=val per c.Env entry
		envArg := call.Call.Args[2]
		okEnv, why := c21EnvValue(envArg)
		c.Check("C21.env_verbatim", "(*externalcmd.Cmd).run: env passed on = os.Environ() + key=val for every c.Env entry", okEnv, p.Pos(call.Pos()), why)
		ii := i
		c.MustPass(p, run, "C21.env_verbatim", "call runOSSpecific", func(x ssa.Instruction) bool { return x == ii }, F("next(range($0.Env))#0"))

		// ---- OnExit receives every non-nil, non-terminated result
		R := desc(call)
		c.MustFollow(p, run, "C21.exit_status.on_exit", "error returned by runOSSpecific reaches OnExit before the next run / return",
			after(i),
			func(x ssa.Instruction) bool {
				if _, ok := x.(*ssa.Return); ok {
					return true
				}
				return x == ii
			},
			func(x ssa.Instruction) bool {
				cc := callCommon(x)
				return cc != nil && calleeName(cc) == "dyn:$0.OnExit" && len(cc.Args) == 1 && c21CarriesResult(cc.Args[0], call, 0)
			},
			func(l Lit) bool {
				if l.Pos && (l.Atom == "("+R+" == nil)" || l.Atom == "errors.Is("+R+", externalcmd.errTerminated)") {
					return false
				}
				return true
			})
	}
}

// c21EnvValue: v = phi(append(nil, os.Environ()...) | append(v, key+"="+val))
// where key,val are the range variables of `range c.Env` and the append sits in
// the unconditional loop body.
func c21EnvValue(v ssa.Value) (bool, string) {
	ph, ok := v.(*ssa.Phi)
	if !ok || len(ph.Edges) != 2 {
		return false, "environment is " + desc(v)
	}
	var step *ssa.Call
	baseOK := false
	for _, e := range ph.Edges {
		cl, ok := e.(*ssa.Call)
		if !ok || calleeName(&cl.Call) != "append" || len(cl.Call.Args) != 2 {
			return false, "environment edge is " + desc(e)
		}
		if cl.Call.Args[0] == ssa.Value(ph) {
			step = cl
		} else if desc(cl) == "append(nil, os.Environ())" {
			baseOK = true
		}
	}
	if step == nil || !baseOK {
		return false, "environment is " + desc(v)
	}
	el := variadicElemsE(step.Call.Args[1])
	if len(el) != 1 || desc(el[0]) != `((next(range($0.Env))#1 + "=") + next(range($0.Env))#2)` {
		d := "?"
		if len(el) == 1 {
			d = desc(el[0])
		}
		return false, "appended entry is " + d + ", want key+\"=\"+val of the c.Env entry"
	}
	// unconditional: the append's block is the true successor of the range test and jumps back to it
	b := step.Block()
	if len(b.Preds) != 1 || len(b.Succs) != 1 || b.Succs[0] != b.Preds[0] {
		return false, "the append is conditional inside the range body"
	}
	ifi := ifOf(b.Preds[0])
	if ifi == nil || b.Preds[0].Succs[0] != b || desc(ifi.Cond) != "next(range($0.Env))#0" {
		return false, "the append is not in the body of range c.Env"
	}
	return true, ""
}
