package main

import (
	"fmt"
	"go/token"
	"go/types"
	"os"
	"sort"
	"strings"

	"golang.org/x/tools/go/ssa"
)

// C28 - playback endpoints survive any recording directory content.

func init() {
	register(Property{ID: "C28", Level: "other", Run: runC28,
		Technique: "static analysis: crash-site rules (E6) over the call closure of the playback list/get and API recordings handlers inside packages playback, recordstore and api (static calls, closures, goroutines, module-interface dispatch): explicit panics, Must* with non-constant arguments, single-value type assertions, integer divisors without a non-zero guard (one call level), dereference of captured pointer variables before assignment, make lengths that are unsigned subtractions of file-derived sizes without a lower-bound test, slice bounds / indexes computed from file content without a dominating range test (data flow + go/ssa path conditions), first/last position of a list produced elsewhere without a non-emptiness derivation (interprocedural, producer contracts)",
		Text:      "Decides, for every function reachable from playback.(*Server).onList/onGet and api.(*API).onRecordingsList/onRecordingsGet/onRecordingDeleteSegment inside packages playback, recordstore and api: P1 no explicit panic; P2 every Must* call has constant arguments or is a tabled, sanitised site; P3 every single-value type assertion is a tabled site whose dynamic type is fixed; P5 every integer / and % has a divisor that is a non-zero constant, is dominated by a non-zero test, is a tabled non-zero field, or is a parameter whose every call-site argument is one of these; P6 every dereference of a captured pointer variable is dominated, inside the closure, by an assignment or a nil test (or the variable is assigned before the closure is created); P7 every make whose length is an unsigned subtraction of a non-constant is dominated by a lower-bound test on the minuend; P9 every slice bound / index that is computed from file content (bytes of a buffer, binary.UintNN, numeric go-mp4/mediacommon box fields, and arithmetic on them) lies within the operand's make length by construction or is dominated by a comparison on the bound, one of its file-derived terms, the operand's len/cap or a file-derived term of its allocation length; P10 every first/last-position access (x[0], x[len(x)-1], x[1:], x[len(x)-1:]) to a list that comes from another module function or from a parameter is non-empty-derivable: dominated by a length test, or the producer returns - on every return that can carry a nil error, its error being tested by the consumer - a list that is make([]T, len(non-empty input)), an append of an element, a list it tested itself, or the result of a tabled producer contract (FindSegments: no error => at least one segment; concatenateSegments: non-empty input => non-empty output; both re-checked structurally), so a producer that drops entries (unparseable segments) cannot hand an empty list with a nil error to onList / seekAndMux. Absence of a report is NOT a proof of crash freedom: index arithmetic on values that do not come from the file, the adequacy of the constants in a range check, 32-bit wrap-around, allocation sizes, third-party parsers (go-mp4, mediacommon) and the functions outside the three packages (auth, conf, gin) are outside the rule set. P9 is directional for operands of constant capacity (a fixed-size array or a slice of one): every path to the expression passes a comparison that limits the file-derived bound from above (a lower-bound test alone does not count); such sites count towards the P7 instance floor.",
		Note:      "trusted: go/ssa; go-mp4 ReadPayload returns the struct registered for the box type named in the enclosing case; mediacommon fmp4.Init.Unmarshal rejects mdhd.Timescale == 0 (init.go:146), so fmp4.InitTrack.TimeScale is non-zero"})
	addMutants(
		Mutant{"C28", "divisor-from-file", "internal/playback/segment_fmp4.go",
			"		elapsedGo := durationMp4ToGo(elapsed, track.TimeScale)", "		elapsedGo := durationMp4ToGo(elapsed, uint32(tfdt.BaseMediaDecodeTimeV0))", "C28.P5.segmentFMP4ReadDurationFromParts"},
		Mutant{"C28", "explicit-panic", "internal/playback/on_list.go",
			"	return nil, fmt.Errorf(\"MPEG-TS format is not supported yet\")\n}\n\nfunc (s *Server) onList", "	panic(\"MPEG-TS format is not supported yet\")\n}\n\nfunc (s *Server) onList", "C28.P1.parseAndConcatenate"},
		Mutant{"C28", "findmtxi-single-value-assert", "internal/playback/segment_fmp4.go",
			"		if i, ok := box.(*recordstore.Mtxi); ok {\n			return i\n		}", "		if box != nil {\n			return box.(*recordstore.Mtxi)\n		}", "C28.P3.findMtxi"},
		Mutant{"C28", "track-nil-check-dropped", "internal/playback/segment_fmp4.go",
			"		track := findInitTrack(init.Tracks, int(tfhd.TrackID))\n		if track == nil {\n			return 0, fmt.Errorf(\"invalid track ID: %v\", tfhd.TrackID)\n		}\n", "		track := findInitTrack(init.Tracks, int(tfhd.TrackID))\n", "C28.P8.segmentFMP4ReadDurationFromParts"},
		Mutant{"C28", "mustcompile-on-record-path", "internal/recordstore/path.go",
			"func CommonPath(v string) string {\n	common := \"\"", "func CommonPath(v string) string {\n	_ = regexp.MustCompile(v)\n	common := \"\"", "C28.P2.CommonPath"},
		Mutant{"C28", "captured-pointer-in-parsesegments", "internal/playback/on_list.go",
			"	parsed := make([]*parsedSegment, len(segments))\n	ch := make(chan error)\n", "	parsed := make([]*parsedSegment, len(segments))\n	ch := make(chan error)\n	var first *parsedSegment\n	defer func() {\n		if len(parsed) > 100 {\n			first.duration = 0\n		}\n	}()\n", "C28.P6.parseSegments"},
		Mutant{"C28", "header-mvhd-sliced-from-buffer", "internal/playback/segment_fmp4.go",
			"	var init fmp4.Init\n	err = init.Unmarshal(bytes.NewReader(buf))\n", "	var mvhd2 amp4.Mvhd\n	_, err = amp4.Unmarshal(bytes.NewReader(buf[ftypSize+16:]), uint64(moovSize-16), &mvhd2, amp4.Context{})\n	if err != nil {\n		return nil, 0, err\n	}\n\n	var init fmp4.Init\n	err = init.Unmarshal(bytes.NewReader(buf))\n", "C28.P9.segmentFMP4ReadHeader"},
		Mutant{"C28", "track-selected-by-file-index", "internal/playback/segment_fmp4.go",
			"		track := findInitTrack(init.Tracks, int(tfhd.TrackID))\n", "		track := init.Tracks[tfhd.TrackID-1]\n", "C28.P9.segmentFMP4ReadDurationFromParts"},
		Mutant{"C28", "unparseable-segments-dropped-silently", "internal/playback/on_list.go",
			"	return parsed, err\n", "	_ = err\n	valid := parsed[:0]\n	for _, ps := range parsed {\n		if ps != nil {\n			valid = append(valid, ps)\n		}\n	}\n	return valid, nil\n", "C28.P10.onList"},
		Mutant{"C28", "findsegments-empty-list-without-error", "internal/recordstore/segment.go",
			"	if segments == nil {\n		return nil, ErrNoSegmentsFound\n	}\n", "", "C28.P10.contract"},
		Mutant{"C28", "concatenate-skips-zero-duration-segments", "internal/playback/on_list.go",
			"		if len(out) != 0 && segmentFMP4CanBeConcatenated(", "		if parsed.duration == 0 {\n			continue\n		}\n		if len(out) != 0 && segmentFMP4CanBeConcatenated(", "C28.P10.contract"},
		Mutant{"C28", "make-underflow-in-header", "internal/playback/segment_fmp4.go",
			"	buf = make([]byte, uint64(ftypSize+moovSize))", "	buf = make([]byte, uint64(ftypSize+moovSize-16))", "C28.P7.segmentFMP4ReadHeader"},
	)
}

// table entries: (function | construct) -> reason
var c28AssertTable = map[string]string{
	"internal/playback.segmentFMP4MuxParts$1|*github.com/abema/go-mp4.Tfhd": "ReadPayload() under case BoxInfo.Type == \"tfhd\": go-mp4 instantiates the struct registered for that box type",
	"internal/playback.segmentFMP4MuxParts$1|*github.com/abema/go-mp4.Tfdt": "ReadPayload() under case \"tfdt\"",
	"internal/playback.segmentFMP4MuxParts$1|*github.com/abema/go-mp4.Trun": "ReadPayload() under case \"trun\"",
}

var c28MustTable = map[string]string{
	"(*internal/recordstore.Path).Decode|regexp.MustCompile": "argument = format with every regexp.QuoteMeta metacharacter escaped plus constant capture groups (decided by C26.escape); format and path name are valid UTF-8 (YAML / IsValidPathName)",
}

// lookups whose nil result is excluded by an argument recorded here
var c28LookupTable = map[string]string{
	"internal/playback.seekAndMux|playback.findMtxi|DTS": "non-nil by induction: firstMtxi != nil and segmentFMP4CanBeConcatenated admits a pair only with markers on both sides or on neither",
}

// fields whose value is non-zero by a third-party invariant
var c28NonZeroFields = map[string]string{
	"github.com/bluenviron/mediacommon/v2/pkg/formats/fmp4.InitTrack.TimeScale": "fmp4.Init.Unmarshal rejects mdhd.Timescale == 0",
	"playback.muxerFMP4Track.timeScale":                                         "copied from fmp4.InitTrack.TimeScale in muxerFMP4.writeInit",
}

// moduleImplementers returns the module methods that an invoke of iface.m may reach.
func moduleImplementers(p *Prog, iface *types.Interface, method string) []*ssa.Function {
	var out []*ssa.Function
	for _, pk := range p.Pkgs {
		if pk.Types == nil {
			continue
		}
		sc := pk.Types.Scope()
		for _, n := range sc.Names() {
			tn, ok := sc.Lookup(n).(*types.TypeName)
			if !ok || tn.IsAlias() {
				continue
			}
			if _, isI := tn.Type().Underlying().(*types.Interface); isI {
				continue
			}
			for _, t := range []types.Type{tn.Type(), types.NewPointer(tn.Type())} {
				if !types.Implements(t, iface) {
					continue
				}
				sel := p.SSA.MethodSets.MethodSet(t).Lookup(tn.Pkg(), method)
				if sel == nil {
					continue
				}
				if f := p.SSA.MethodValue(sel); f != nil {
					out = append(out, f)
				}
				break
			}
		}
	}
	return out
}

func c28Reachable(p *Prog, roots []*ssa.Function, inScope func(*ssa.Function) bool) []*ssa.Function {
	seen := map[*ssa.Function]bool{}
	var q []*ssa.Function
	add := func(g *ssa.Function) {
		if g != nil && !seen[g] && g.Blocks != nil && inScope(g) {
			seen[g] = true
			q = append(q, g)
		}
	}
	for _, r := range roots {
		add(r)
	}
	for len(q) > 0 {
		f := q[0]
		q = q[1:]
		eachInstr(f, func(i ssa.Instruction) {
			add(staticCallee(i))
			if cc := callCommon(i); cc != nil && cc.IsInvoke() {
				if n := namedOf(cc.Value.Type()); n != nil && n.Obj().Pkg() != nil && strings.HasPrefix(n.Obj().Pkg().Path(), modPath) {
					if it, ok := n.Underlying().(*types.Interface); ok {
						for _, g := range moduleImplementers(p, it, cc.Method.Name()) {
							add(g)
						}
					}
				}
			}
			var ops []*ssa.Value
			for _, op := range i.Operands(ops) {
				if op == nil || *op == nil {
					continue
				}
				switch x := (*op).(type) {
				case *ssa.Function:
					add(x)
				case *ssa.MakeClosure:
					add(x.Fn.(*ssa.Function))
				}
			}
		})
	}
	var out []*ssa.Function
	for f := range seen {
		out = append(out, f)
	}
	sort.Slice(out, func(i, j int) bool { return fnName(out[i]) < fnName(out[j]) })
	return out
}

// nonZeroGuarded: every path from fn's entry to `at` passes a branch that
// establishes v != 0 (v rendered by desc, conversions transparent).
func nonZeroGuarded(fn *ssa.Function, at ssa.Instruction, v ssa.Value) bool {
	d := desc(v)
	return mustPassPred(fn, func(i ssa.Instruction) bool { return i == at }, func(l Lit) bool {
		switch {
		case !l.Pos && (l.Atom == "("+d+" == 0)" || l.Atom == "(0 == "+d+")"):
			return true
		case l.Pos && l.Atom == "(0 < "+d+")":
			return true
		case !l.Pos && l.Atom == "("+d+" < 1)":
			return true
		}
		return false
	}) == nil
}

// divisorClass classifies a divisor value inside fn.
func c28DivisorClass(fn *ssa.Function, at ssa.Instruction, v ssa.Value) (class string, why string) {
	sv := stripConv(v)
	if n, ok := constBig(sv); ok {
		if n.Sign() != 0 {
			return "const", ""
		}
		return "zero", "constant zero"
	}
	if nonZeroGuarded(fn, at, v) {
		return "guarded", ""
	}
	if ph, ok := sv.(*ssa.Phi); ok {
		// every incoming value is a non-zero constant or is non-zero on its own edge
		all := true
		for k, e := range ph.Edges {
			if n, isC := constBig(stripConv(e)); isC {
				if n.Sign() == 0 {
					all = false
				}
				continue
			}
			pred := ph.Block().Preds[k]
			d := desc(e)
			isGuard := func(l Lit) bool {
				return (!l.Pos && (l.Atom == "("+d+" == 0)" || l.Atom == "(0 == "+d+")")) || (l.Pos && l.Atom == "(0 < "+d+")")
			}
			if l, has := edgeLit(pred, ph.Block()); has && isGuard(l) {
				continue
			}
			term := pred.Instrs[len(pred.Instrs)-1]
			if mustPassPred(fn, func(i ssa.Instruction) bool { return i == term }, isGuard) == nil {
				continue
			}
			all = false
		}
		if all {
			return "guarded", "every phi edge is a non-zero constant or tested on its edge"
		}
	}
	// loads of tabled fields
	if u, ok := sv.(*ssa.UnOp); ok && u.Op == token.MUL {
		if fa, ok := u.X.(*ssa.FieldAddr); ok {
			k := typeStr(fa.X.Type().Underlying().(*types.Pointer).Elem()) + "." + fieldNameOf(fa)
			if why, ok := c28NonZeroFields[k]; ok {
				return "field", why
			}
			return "unguarded", "field " + k + " (no non-zero test)"
		}
		if fv, ok := u.X.(*ssa.FreeVar); ok {
			return "cell", "captured variable " + fv.Name()
		}
	}
	if f, ok := sv.(*ssa.Field); ok {
		st := f.X.Type().Underlying().(*types.Struct)
		k := typeStr(f.X.Type()) + "." + st.Field(f.Field).Name()
		if why, ok := c28NonZeroFields[k]; ok {
			return "field", why
		}
		return "unguarded", "field " + k + " (no non-zero test)"
	}
	if _, ok := sv.(*ssa.Parameter); ok {
		return "param", ""
	}
	return "unguarded", desc(v)
}

func runC28(c *Ctx) {
	p := c.Main()
	if p == nil {
		return
	}
	defer dumpObls(c)
	c.Explain = "Reachable set: closure of the five handlers over static calls, closures, go statements and module-interface dispatch, restricted to packages internal/playback, internal/recordstore, internal/api. " +
		"C28.P1 explicit panic; C28.P2 Must* with a non-constant argument (table: Path.Decode's MustCompile, sanitised per C26.escape); C28.P3 single-value type assertion (table: three go-mp4 payload assertions); " +
		"C28.P5 integer divisor: non-zero constant | dominated by a non-zero test | tabled non-zero field | parameter with every call-site argument in these classes | captured variable whose every store is in these classes (its zero initial value is only observable in the box order reported by P6); " +
		"C28.P6 dereference of a captured pointer variable before assignment/nil test; C28.P7 make length = unsigned (x - k) without a lower-bound test on x; " +
		"C28.P8 dereference of the result of a module lookup helper that can return nil (find*) without a nil test. " +
		"C28.P9 (prop_r3_c28.go) slice bound / index that is file-derived (data flow from byte-buffer elements, binary.ByteOrder.UintNN, integer fields of go-mp4/mediacommon boxes through + - * | ^ << >> / conversions / phis) without a dominating comparison on the bound, its file-derived terms, len/cap of the operand or the file-derived terms of the operand's make length, unless every + term of the bound is a + term of that make length. " +
		"C28.P10 (prop_r4_c28.go) first/last position of a list produced by another function or received as a parameter: interprocedural non-emptiness derivation over SSA values (phis with edge literals, error-tested call results, returns that can carry a nil error, make(len(input)), append, parameters through the call that was followed or every call site) with two tabled producer contracts re-checked structurally (C28.P10.contract). " +
		"Not decided: crash freedom in general (index arithmetic, allocation sizes, go-mp4/mediacommon internals, code outside the three packages)."
	c.Assume = []string{"go-mp4 ReadPayload returns the struct registered for the box type", "mediacommon fmp4.Init.Unmarshal rejects a zero mdhd time scale", "functions outside playback/recordstore/api (auth manager, conf, gin, logger) are covered by C35/C10 or trusted"}

	roots := []*ssa.Function{
		c.fn(p, "internal/playback", "Server", "onList"),
		c.fn(p, "internal/playback", "Server", "onGet"),
		c.fn(p, "internal/api", "API", "onRecordingsList"),
		c.fn(p, "internal/api", "API", "onRecordingsGet"),
		c.fn(p, "internal/api", "API", "onRecordingDeleteSegment"),
	}
	for _, r := range roots {
		if r == nil {
			return
		}
	}
	scope := map[string]bool{pkgPath("internal/playback"): true, pkgPath("internal/recordstore"): true, pkgPath("internal/api"): true}
	set := c28Reachable(p, roots, func(f *ssa.Function) bool { return scope[funcPkgPath(f)] })
	inSet := map[*ssa.Function]bool{}
	for _, f := range set {
		inSet[f] = true
		c.Analysed(fnName(f))
	}
	c.Floor("C28.reachable", len(set), 40)
	must := []string{"internal/playback.segmentFMP4ReadHeader", "internal/playback.segmentFMP4ReadDurationFromParts", "internal/playback.segmentFMP4MuxParts$1", "internal/playback.parseSegments$1",
		"(*internal/playback.muxerFMP4).writeSample", "(*internal/playback.muxerMP4).flush", "(*internal/recordstore.Path).Decode", "internal/recordstore.FindSegments$1", "internal/api.paginate2"}
	for _, m := range must {
		found := false
		for _, f := range set {
			if fnName(f) == m {
				found = true
			}
		}
		if !found {
			c.Undecided("UNRESOLVED ANCHOR reachable set lacks " + m)
		}
	}

	sitesOf := map[*ssa.Function][]ssa.Instruction{}
	for _, f := range set {
		eachInstr(f, func(i ssa.Instruction) {
			if g := staticCallee(i); g != nil {
				sitesOf[g] = append(sitesOf[g], i)
			}
		})
	}

	n1, n2, n3, n5, n6, n7, n8 := 0, 0, 0, 0, 0, 0, 0
	doneSite := map[ssa.Instruction]bool{}
	ord7 := map[*ssa.Function]int{}
	for _, fn := range set {
		f := fn
		// ---- P1
		eachInstr(f, func(i ssa.Instruction) {
			if pn, ok := i.(*ssa.Panic); ok {
				n1++
				c.Check("C28.P1."+topName(f), fnName(f)+": explicit panic("+trunc(desc(pn.X), 60)+")", false, p.Pos(posOf(i, f)), "a panic in a handler exits the process (handlerExitOnPanic); in a goroutine it crashes it directly")
			}
		})
		// ---- P2
		eachInstr(f, func(i ssa.Instruction) {
			cc := callCommon(i)
			if cc == nil || cc.IsInvoke() {
				return
			}
			g, ok := cc.Value.(*ssa.Function)
			if !ok || !strings.HasPrefix(g.Name(), "Must") {
				return
			}
			allConst := true
			for _, a := range cc.Args {
				if _, isC := stripConv(a).(*ssa.Const); !isC {
					allConst = false
				}
			}
			n2++
			name := calleeName(cc)
			_, tabled := c28MustTable[fnName(f)+"|"+name]
			c.Check("C28.P2."+topName(f), fnName(f)+": "+name+" with "+map[bool]string{true: "constant", false: "non-constant"}[allConst]+" argument", allConst || tabled, p.Pos(i.Pos()), c28MustTable[fnName(f)+"|"+name])
		})
		// ---- P3
		eachInstr(f, func(i ssa.Instruction) {
			ta, ok := i.(*ssa.TypeAssert)
			if !ok || ta.CommaOk {
				return
			}
			// interface-to-interface assertions and assertions on a value produced by a type switch are CommaOk in SSA
			n3++
			k := fnName(f) + "|" + types.TypeString(ta.AssertedType, nil)
			_, tabled := c28AssertTable[k]
			// dynamic type fixed by construction: operand is a MakeInterface of that type
			fixed := false
			for _, l := range phiLeaves(ta.X) {
				if mi, ok := l.(*ssa.MakeInterface); ok && types.Identical(mi.X.Type(), ta.AssertedType) {
					fixed = true
				} else {
					fixed = false
					break
				}
			}
			c.Check("C28.P3."+topName(f), fnName(f)+": single-value type assertion .("+typeStr(ta.AssertedType)+") on "+trunc(desc(ta.X), 50), tabled || fixed, p.Pos(posOf(i, f)), c28AssertTable[k])
		})
		// ---- P5
		eachInstr(f, func(i ssa.Instruction) {
			b, ok := i.(*ssa.BinOp)
			if !ok || (b.Op != token.QUO && b.Op != token.REM) {
				return
			}
			bt, ok := b.Type().Underlying().(*types.Basic)
			if !ok || bt.Info()&types.IsInteger == 0 {
				return
			}
			class, why := c28DivisorClass(f, i, b.Y)
			if class == "const" {
				return
			}
			n5++
			key := fnName(f) + ": divisor " + trunc(desc(b.Y), 70) + " of " + b.Op.String()
			switch class {
			case "guarded", "field":
				c.Check("C28.P5."+topName(f), key, true, p.Pos(b.Pos()), class+" "+why)
			case "cell":
				c.Check("C28.P5."+topName(f), key, true, p.Pos(b.Pos()), "captured variable")
			case "param":
				par := stripConv(b.Y).(*ssa.Parameter)
				k := paramIndex(par)
				sites := sitesOf[f]
				if len(sites) == 0 {
					c.Check("C28.P5."+topName(f), key, false, p.Pos(b.Pos()), "parameter divisor of a function without static call sites in the reachable set")
					return
				}
				for _, s := range sites {
					if doneSite[s] {
						continue
					}
					doneSite[s] = true
					arg := callCommon(s).Args[k]
					cls, w := c28DivisorClass(s.Parent(), s, arg)
					okk := cls == "const" || cls == "guarded" || cls == "field"
					if cls == "cell" {
						// every store to the captured variable must itself be safe
						okk = true
						fv := stripConv(arg).(*ssa.UnOp).X.(*ssa.FreeVar)
						eachInstr(s.Parent(), func(x ssa.Instruction) {
							if st, isSt := x.(*ssa.Store); isSt && st.Addr == ssa.Value(fv) {
								c2, _ := c28DivisorClass(s.Parent(), x, st.Val)
								if c2 != "const" && c2 != "guarded" && c2 != "field" {
									okk = false
									w = "stored from " + desc(st.Val)
								}
							}
						})
					}
					c.Check("C28.P5."+topName(s.Parent()), fnName(s.Parent())+" → "+fnName(f)+": argument "+trunc(desc(arg), 70)+" for divisor parameter "+par.Name(), okk, p.Pos(s.Pos()), cls+" "+w)
				}
			default:
				c.Check("C28.P5."+topName(f), key, false, p.Pos(b.Pos()), "no dominating non-zero test: "+why)
			}
		})
		// ---- P6: captured pointer variables
		if f.Parent() != nil {
			type agg struct {
				ok  bool
				pos token.Pos
				w   string
				n   int
			}
			byVar := map[*ssa.FreeVar]*agg{}
			eachInstr(f, func(i ssa.Instruction) {
				var base ssa.Value
				switch x := i.(type) {
				case *ssa.FieldAddr:
					base = x.X
				case *ssa.UnOp:
					if x.Op == token.MUL {
						base = x.X
					}
				}
				ld, ok := base.(*ssa.UnOp)
				if !ok || ld.Op != token.MUL {
					return
				}
				fv, ok := ld.X.(*ssa.FreeVar)
				if !ok {
					return
				}
				// the cell holds a pointer
				cellT, ok := fv.Type().Underlying().(*types.Pointer)
				if !ok {
					return
				}
				if _, isPtr := cellT.Elem().Underlying().(*types.Pointer); !isPtr {
					return
				}
				a := byVar[fv]
				if a == nil {
					a = &agg{ok: true}
					byVar[fv] = a
				}
				a.n++
				w := (&Walker{
					Visit: func(x ssa.Instruction) int {
						if st, isSt := x.(*ssa.Store); isSt && st.Addr == ssa.Value(fv) && !isNilConst(st.Val) {
							return wStop
						}
						if x == i {
							return wHit
						}
						return wContinue
					},
					Edge: func(l Lit) bool { return !(!l.Pos && l.Atom == "(free:"+fv.Name()+" == nil)") },
				}).Run(entry(f))
				if w != nil && a.ok {
					a.ok = false
					a.pos = posOf(i, f)
					a.w = w.String(p)
				}
			})
			for fv, a := range byVar {
				okk := a.ok
				detail := a.w
				if !okk {
					// assigned non-nil in the enclosing function before the closure exists?
					par := f.Parent()
					idx := -1
					for k, v := range f.FreeVars {
						if v == fv {
							idx = k
						}
					}
					eachInstr(par, func(x ssa.Instruction) {
						mc, isMC := x.(*ssa.MakeClosure)
						if !isMC || mc.Fn != ssa.Value(f) || idx < 0 {
							return
						}
						if al, isAl := mc.Bindings[idx].(*ssa.Alloc); isAl {
							for _, r := range *al.Referrers() {
								if st, isSt := r.(*ssa.Store); isSt && st.Addr == ssa.Value(al) && !isNilConst(st.Val) && st.Block().Dominates(mc.Block()) {
									okk = true
									detail = "assigned before the closure is created"
								}
							}
						}
					})
				}
				n6++
				pos := a.pos
				if !pos.IsValid() {
					pos = f.Pos()
				}
				c.Check("C28.P6."+topName(f), fnName(f)+": captured pointer variable "+fv.Name()+" is dereferenced only after an assignment or nil test in the closure", okk, p.Pos(pos),
					detail)
			}
		}
		// ---- P7: make length = unsigned subtraction
		eachInstr(f, func(i ssa.Instruction) {
			ms, ok := i.(*ssa.MakeSlice)
			if !ok {
				return
			}
			l := stripConv(ms.Len)
			sub, ok := l.(*ssa.BinOp)
			if !ok || sub.Op != token.SUB {
				return
			}
			bt, ok := sub.Type().Underlying().(*types.Basic)
			if !ok || bt.Info()&types.IsUnsigned == 0 {
				return
			}
			if _, isC := stripConv(sub.X).(*ssa.Const); isC {
				return
			}
			n7++
			ord7[f]++
			d := desc(sub.X)
			guarded := mustPassPred(f, func(x ssa.Instruction) bool { return x == i }, func(l Lit) bool {
				if !l.Pos && strings.HasPrefix(l.Atom, "("+d+" < ") {
					return true
				}
				if l.Pos && strings.HasSuffix(l.Atom, " < "+d+")") {
					return true
				}
				return false
			}) == nil
			c.Check("C28.P7."+topName(f), fmt.Sprintf("%s: make #%d with an unsigned (size - %s) length has a lower-bound test on the size", fnName(f), ord7[f], desc(sub.Y)), guarded, p.Pos(posOf(i, f)),
				"an unsigned size read from the file minus a constant wraps to ~4 GiB: makeslice panics on 32-bit releases and allocates 4 GiB per request elsewhere")
		})
		// ---- P8: result of a nil-returning module lookup helper dereferenced without a test
		eachInstr(f, func(i ssa.Instruction) {
			cl, ok := i.(*ssa.Call)
			if !ok {
				return
			}
			g := staticCallee(cl)
			if g == nil || !inSet[g] || g.Signature.Results().Len() != 1 {
				return
			}
			if _, isPtr := g.Signature.Results().At(0).Type().Underlying().(*types.Pointer); !isPtr {
				return
			}
			mayNil := false
			for _, r := range returnsOf(g) {
				if isNilConst(retVal(r, 0)) {
					mayNil = true
				}
			}
			if !mayNil {
				return
			}
			for _, r := range *cl.Referrers() {
				fa, ok := r.(*ssa.FieldAddr)
				if !ok || fa.X != ssa.Value(cl) {
					continue
				}
				n8++
				d := desc(cl)
				guarded := mustPassPred(f, func(x ssa.Instruction) bool { return x == ssa.Instruction(fa) }, func(l Lit) bool {
					return !l.Pos && (l.Atom == "("+d+" == nil)" || l.Atom == "(nil == "+d+")")
				}) == nil
				if !guarded {
					// path-sensitive retry (switch chains that re-evaluate the nil tests)
					w, okc := mustPassConsistent(f, func(x ssa.Instruction) bool { return x == ssa.Instruction(fa) }, []LitPat{F("(" + d + " == nil)")})
					guarded = okc && w == ""
				}
				why, tabled := c28LookupTable[fnName(f)+"|"+calleeName(&cl.Call)+"|"+fieldNameOf(fa)]
				if os.Getenv("MTX_DEBUG") != "" {
					fmt.Println("DEBUG P8", fnName(f), d, fieldNameOf(fa), guarded, tabled)
				}
				c.Check("C28.P8."+topName(f), fnName(f)+": result of "+calleeName(&cl.Call)+" (may be nil) is dereferenced (."+fieldNameOf(fa)+") only after a nil test", guarded || tabled, p.Pos(posOf(fa, f)), why)
			}
		})
	}
	// ---- P9: slice / index bounds computed from file content (prop_r3_c28.go)
	nFixed := c28FileBounds(c, p, set)
	// ---- P10: first / last position of a list produced elsewhere (prop_r4_c28.go)
	c28ListContract(c, p, set)
	_ = n1
	c.Count("P1_sites", n1)
	c.Floor("C28.P2", n2, 1)
	c.Floor("C28.P3", n3, 3)
	c.Floor("C28.P5", n5, 6)
	c.Floor("C28.P6", n6, 2)
	// a size that positions into a fixed-size buffer instead of sizing a make is P9's instance, not a lost one
	c.Floor("C28.P7", n7+nFixed, 3)
	c.Floor("C28.P8", n8, 2)
	c.Count("reachable_functions", len(set))
	_ = fmt.Sprint
}

// topName is the name of the outermost enclosing declared function.
func topName(f *ssa.Function) string {
	for f.Parent() != nil {
		f = f.Parent()
	}
	return f.Name()
}
