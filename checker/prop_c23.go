package main

import (
	"go/token"
	"go/types"
	"sort"
	"strings"

	"golang.org/x/tools/go/ssa"
)

// C23 - RTP re-packetization is size-bounded and lossless.
// Structural clauses decided: the configured maximum reaches every encoder the
// stream builds, oversize detection compares every incoming packet with the same
// maximum and incoming packets never bypass an existing encoder, SSRC / first
// sequence number continue the replaced packet stream, the per-unit timestamp
// formula, the single-writer discipline of the per-format offset, and the
// type-level pairing of each format's decoder output with its encoder input.
// Losslessness and sequence numbering inside the codec libraries are trusted.

const (
	c23EncNil   = "($0.streamFormat.rtpEncoder == nil)"
	c23LoopAtom = "((phi((phi↺ + 1) | -1) + 1) < len($1.RTPPackets))"
	c23CmpAtom  = "($0.streamFormat.rtpMaxPayloadSize < len($1.RTPPackets[_].Payload))"
	c23NewEnc   = "stream.newRTPEncoder"
	c23WriteOut = "dyn:$0.streamFormat.writeRTSP"
	c23TsStore  = "($1.RTPPackets[_].Header.Timestamp + ($0.streamFormat.rtpTimeOffset + $1.PTS))"
)

func init() {
	register(Property{ID: "C23", Level: "other", Run: runC23,
		Technique: "static analysis: field-coverage of encoder composite literals on SSA (E3), sibling agreement of the decoder/encoder type switches (E7), path conditions on writeUnitInner (E1), who-may-write tables (E2)",
		Text:      "Decides: (1) every RTP encoder struct that newRTPEncoder builds and whose type has a PayloadMaxSize / SSRC / InitialSequenceNumber field sets it from the corresponding parameter, and the encoder returned is the configured object; (2) both newRTPEncoder call sites pass the stream format's outFormat and rtpMaxPayloadSize and store the result in that format's rtpEncoder, the oversize site passing the offending packet's SSRC and sequence number; rtpEncoder/rtpTimeOffset are written nowhere else; (3) in writeUnitInner the oversize encoder is created only under len(pkt.Payload) > rtpMaxPayloadSize, every incoming packet is compared before packets pass through, and once an encoder exists incoming packets never reach the readers; (4) every packet of a re-encoded unit gets Timestamp += rtpTimeOffset + uint32(PTS), the oversize offset is pkt.Timestamp - uint32(PTS), and the offset changes only where an encoder is created; (4b) the encode wrappers returned by newRTPEncoder leave the library's timestamps alone, except that a wrapper splitting one unit into several timed packets (Opus) adds to packet k an offset that is loop-carried state only, is 0 for the first packet of the unit and grows per iteration by exactly opus.PacketDuration*(element just encoded); (5) for each of the 16 codecs the payload type produced by the format's RTP decoder is the payload type asserted by its encoder; (6) non-RTP / always-available / force-remux sub streams leave initialize with an encoder; (7) rtpMaxPayloadSize is plumbed from core to every streamFormat. Not decided: packetization inside gortsplib encoders (size, sequence numbers, losslessness).",
		Note:      "trusted: gortsplib rtp* encoders honour PayloadMaxSize/SSRC/InitialSequenceNumber and decoders invert them; pion/rtp"})
	addMutants(
		Mutant{"C23", "h264-default-max-size", "internal/stream/rtp_encoder.go",
			"		wrapped := &rtph264.Encoder{\n			PayloadMaxSize:        rtpMaxPayloadSize,\n", "		wrapped := &rtph264.Encoder{\n", "C23.encoder.max_size"},
		Mutant{"C23", "opus-constant-max-size", "internal/stream/rtp_encoder.go",
			"		wrapped := &rtpsimpleaudio.Encoder{\n			PayloadMaxSize:        rtpMaxPayloadSize,", "		wrapped := &rtpsimpleaudio.Encoder{\n			PayloadMaxSize:        1450,", "C23.encoder.max_size"},
		Mutant{"C23", "klv-random-ssrc", "internal/stream/rtp_encoder.go",
			"		wrapped := &rtpklv.Encoder{\n			PayloadMaxSize:        rtpMaxPayloadSize,\n			PayloadType:           forma.PayloadTyp,\n			SSRC:                  ssrc,", "		wrapped := &rtpklv.Encoder{\n			PayloadMaxSize:        rtpMaxPayloadSize,\n			PayloadType:           forma.PayloadTyp,", "C23.encoder.ssrc_seq"},
		Mutant{"C23", "oversize-compares-constant", "internal/stream/sub_stream_format.go",
			"if len(pkt.Payload) > ssf.streamFormat.rtpMaxPayloadSize {", "if len(pkt.Payload) > 1450 {", "C23.oversize"},
		Mutant{"C23", "oversize-first-packet-only", "internal/stream/sub_stream_format.go",
			"			for _, pkt := range u.RTPPackets {\n				if len(pkt.Payload) > ssf.streamFormat.rtpMaxPayloadSize {", "			for _, pkt := range u.RTPPackets[:1] {\n				if len(pkt.Payload) > ssf.streamFormat.rtpMaxPayloadSize {", "C23.oversize"},
		Mutant{"C23", "incoming-packets-kept", "internal/stream/sub_stream_format.go",
			"		if ssf.streamFormat.rtpEncoder != nil {\n			u.RTPPackets = nil\n		}\n", "", "C23.oversize.no_passthrough"},
		Mutant{"C23", "timestamp-without-pts", "internal/stream/sub_stream_format.go",
			"pkt.Timestamp += ssf.streamFormat.rtpTimeOffset + uint32(u.PTS)", "pkt.Timestamp += ssf.streamFormat.rtpTimeOffset", "C23.timestamp"},
		Mutant{"C23", "oversize-offset-sign", "internal/stream/sub_stream_format.go",
			"ssf.streamFormat.rtpTimeOffset = pkt.Timestamp - uint32(u.PTS)", "ssf.streamFormat.rtpTimeOffset = pkt.Timestamp + uint32(u.PTS)", "C23.timestamp"},
		Mutant{"C23", "oversize-restarts-sequence", "internal/stream/sub_stream_format.go",
			"new(pkt.SSRC), new(pkt.SequenceNumber))", "new(pkt.SSRC), nil)", "C23.callers"},
		Mutant{"C23", "decoder-encoder-type-mismatch", "internal/stream/rtp_decoder.go",
			"	return unit.PayloadMPEG4AudioLATM(payload), nil", "	return unit.PayloadMPEG4Video(payload), nil", "C23.codec_pairing"},
		Mutant{"C23", "non-rtp-without-encoder", "internal/stream/sub_stream_format.go",
			"	if ssf.streamFormat.rtpEncoder == nil && (!ssf.useRTPPackets ||\n		ssf.streamFormat.alwaysAvailable ||", "	if ssf.streamFormat.rtpEncoder == nil && (\n		ssf.streamFormat.alwaysAvailable ||", "C23.encoder.when_needed"},
		Mutant{"C23", "max-size-not-plumbed", "internal/stream/stream_media.go",
			"			rtpMaxPayloadSize:    sm.rtpMaxPayloadSize,\n", "", "C23.plumbing"},
	)
}

func runC23(c *Ctx) {
	p := c.Main()
	if p == nil {
		return
	}
	c.Explain = "C23.encoder.*: E3 field coverage over every struct literal in newRTPEncoder (PayloadMaxSize=$1, SSRC=$2, InitialSequenceNumber=$3), returned value is the configured literal. " +
		"C23.callers / C23.writers: both call sites and the only writers of streamFormat.rtpEncoder / rtpTimeOffset. " +
		"C23.oversize.*: creation guard, every-packet comparison, no pass-through once an encoder exists (three walks over writeUnitInner's CFG). " +
		"C23.timestamp.*: per-packet store shape, loop exhaustion before fan-out, oversize offset formula. " +
		"C23.timestamp.wrapper_offset: every Timestamp store of the 17 encode wrappers is own timestamp + O with O a linear form over loop-carried phis and constants, O = 0 with the phis at their loop-entry values, O(next iteration) - O = PacketDuration*(element passed to the library Encode whose result is stamped); wrappers without a store are listed as pass-through. " +
		"C23.codec_pairing: for each format type, payload type returned by rtpDecoderX.decode == payload type asserted by rtpEncoderX.encode. " +
		"C23.encoder.when_needed, C23.plumbing. NOT decided: behaviour of the gortsplib encoders/decoders (size bound given PayloadMaxSize, sequence numbers, losslessness)."
	c.Assume = []string{"a gortsplib encoder never emits a payload larger than its PayloadMaxSize and numbers packets consecutively from InitialSequenceNumber",
		"gortsplib decoders invert the matching encoders"}

	enc := c.fn(p, "internal/stream", "", "newRTPEncoder")
	dec := c.fn(p, "internal/stream", "", "newRTPDecoder")
	wui := c.fn(p, "internal/stream", "subStreamFormat", "writeUnitInner")
	ini := c.fn(p, "internal/stream", "subStreamFormat", "initialize")

	// ---- (1) encoder literals
	checked := map[*ssa.Alloc]bool{}
	if enc != nil {
		n := 0
		eachInstr(enc, func(i ssa.Instruction) {
			a, ok := i.(*ssa.Alloc)
			if !ok {
				return
			}
			et := a.Type().(*types.Pointer).Elem()
			if _, ok := et.Underlying().(*types.Struct); !ok {
				return
			}
			tn := typeStr(et)
			if structFieldIndex(et, "PayloadMaxSize") < 0 && structFieldIndex(et, "InitialSequenceNumber") < 0 {
				return
			}
			n++
			checked[a] = true
			fs := allocFieldStores(a)
			caseOf := c23CaseOf(a)
			for _, f := range []struct{ field, want, rule, why string }{
				{"PayloadMaxSize", "$1", "C23.encoder.max_size", "a missing PayloadMaxSize makes the encoder fall back to its built-in default (1450) instead of the configured maximum"},
				{"SSRC", "$2", "C23.encoder.ssrc_seq", "the replacement stream must keep the SSRC of the packets it replaces"},
				{"InitialSequenceNumber", "$3", "C23.encoder.ssrc_seq", "sequence numbers must continue from the replaced packet"},
			} {
				if structFieldIndex(et, f.field) < 0 {
					continue
				}
				got := "<not set>"
				if v := fs[f.field]; v != nil {
					got = desc(v)
				}
				c.Check(f.rule, "newRTPEncoder case "+caseOf+": "+tn+"."+f.field+" = "+c23ParamName(f.want), got == f.want, p.Pos(posOf(a, enc)), "got "+got+"; "+f.why)
			}
		})
		c.Floor("C23.encoder.max_size", n, 16)
		// the encoder handed back is the configured literal
		nr := 0
		for _, r := range returnsOf(enc) {
			v := retVal(r, 0)
			if v == nil || isNilConst(v) {
				continue
			}
			nr++
			a, _ := stripConv(v).(*ssa.Alloc)
			ok := a != nil && (checked[a] || typeStr(a.Type()) == "*stream.rtpEncoderEmpty")
			c.Check("C23.encoder.returns_configured", "newRTPEncoder: returns "+typeStr(v.Type())+" built in its own case", ok, p.Pos(posOf(r, enc)), "returned "+desc(v))
			c.Check("C23.encoder.returns_configured", "newRTPEncoder: "+typeStr(v.Type())+" returned with nil error", isNilConst(retVal(r, 1)), p.Pos(posOf(r, enc)), "")
		}
		c.Floor("C23.encoder.returns_configured", nr, 17)
		// a nil-error return never carries a nil encoder (callers test only err)
		for _, r := range returnsOf(enc) {
			if isNilConst(retVal(r, 1)) && isNilConst(retVal(r, 0)) {
				c.Check("C23.encoder.returns_configured", "newRTPEncoder: no (nil, nil) return", false, p.Pos(posOf(r, enc)), "")
			}
		}
	}

	// ---- (4b) timestamps inside the encoder wrappers (prop_r3_c23.go)
	if enc != nil {
		c23WrapperOffsetsR3(c, p, enc)
	}

	// ---- (2) call sites and writers
	ncalls := 0
	for _, fn := range p.ModFuncs() {
		for _, i := range callsIn(fn, c23NewEnc) {
			ncalls++
			cc := callCommon(i)
			key := fnName(fn) + ": newRTPEncoder call"
			okArgs := desc(cc.Args[0]) == "$0.streamFormat.outFormat" && desc(cc.Args[1]) == "$0.streamFormat.rtpMaxPayloadSize"
			c.Check("C23.callers.args", key+" passes the format's outFormat and rtpMaxPayloadSize", okArgs && (fn == wui || fn == ini), p.Pos(posOf(i, fn)), desc(cc.Args[0])+", "+desc(cc.Args[1]))
			// result stored to the same format's rtpEncoder
			stored := false
			if v, ok := i.(ssa.Value); ok {
				for _, r := range *v.Referrers() {
					if ex, ok := r.(*ssa.Extract); ok && ex.Index == 0 {
						for _, rr := range *ex.Referrers() {
							if st, ok := rr.(*ssa.Store); ok && desc(st.Addr) == "$0.streamFormat.rtpEncoder" {
								stored = true
							}
						}
					}
				}
			}
			c.Check("C23.callers.result", key+" result stored in $0.streamFormat.rtpEncoder", stored, p.Pos(posOf(i, fn)), "")
			if fn == wui {
				c.Check("C23.callers.continues_stream", key+" passes the oversize packet's SSRC and SequenceNumber",
					desc(cc.Args[2]) == "$1.RTPPackets[_].Header.SSRC" && desc(cc.Args[3]) == "$1.RTPPackets[_].Header.SequenceNumber", p.Pos(posOf(i, fn)),
					desc(cc.Args[2])+", "+desc(cc.Args[3]))
			}
		}
	}
	c.Floor("C23.callers.args", ncalls, 2)
	nw := 0
	for _, fn := range p.ModFuncs() {
		for _, st := range fieldStores(fn, "stream.streamFormat", "rtpEncoder") {
			nw++
			ex, _ := st.Val.(*ssa.Extract)
			ok := ex != nil && ex.Index == 0 && isCallTo(ex.Tuple.(ssa.Instruction), c23NewEnc)
			c.Check("C23.writers", fnName(fn)+": rtpEncoder := result of newRTPEncoder", ok, p.Pos(posOf(st, fn)), "stored "+desc(st.Val))
		}
		for _, st := range fieldStores(fn, "stream.streamFormat", "rtpTimeOffset") {
			nw++
			s0 := st
			// the offset changes only where an encoder has just been created successfully
			ok := (fn == wui || fn == ini)
			if ok {
				w := (&Walker{Visit: func(i ssa.Instruction) int {
					if i == ssa.Instruction(s0) {
						return wHit
					}
					return wContinue
				}, Edge: func(l Lit) bool {
					return !(l.Pos && strings.HasPrefix(l.Atom, "("+c23NewEnc+"(") && strings.HasSuffix(l.Atom, ")#1 == nil)"))
				}}).Run(entry(fn))
				ok = w == nil
			}
			c.Check("C23.writers", fnName(fn)+": rtpTimeOffset changes only after a successful newRTPEncoder", ok, p.Pos(posOf(st, fn)), "stored "+desc(st.Val))
		}
	}
	c.Floor("C23.writers", nw, 4)

	// ---- (3) oversize handling in writeUnitInner
	if wui != nil {
		isOut := func(i ssa.Instruction) bool { return isCallTo(i, c23WriteOut) }
		if countTargets(wui, isOut) == 0 {
			c.Undecided("UNRESOLVED ANCHOR writeRTSP call in writeUnitInner")
		}
		pktStore := func(i ssa.Instruction) bool {
			st, ok := i.(*ssa.Store)
			return ok && desc(st.Addr) == "$1.RTPPackets"
		}
		encStore := func(i ssa.Instruction) bool {
			st, ok := i.(*ssa.Store)
			return ok && desc(st.Addr) == "$0.streamFormat.rtpEncoder"
		}
		created := callsIn(wui, c23NewEnc)
		if len(created) == 1 {
			cr := created[0]
			c.MustPass(p, wui, "C23.oversize.guard", "oversize newRTPEncoder", func(i ssa.Instruction) bool { return i == cr }, T(c23CmpAtom))
			c.MustPass(p, wui, "C23.oversize.guard", "oversize newRTPEncoder", func(i ssa.Instruction) bool { return i == cr }, T(c23EncNil))
		} else {
			c.Check("C23.oversize.guard", fnName(wui)+": one oversize newRTPEncoder site", false, p.Pos(wui.Pos()), sprintf("%d", len(created)))
		}
		// locate the "incoming packets present" edge
		var inEdge *Point
		var loopHdr *ssa.BasicBlock
		eachInstr(wui, func(i ssa.Instruction) {
			ifi, ok := i.(*ssa.If)
			if !ok {
				return
			}
			l := litOf(ifi.Cond, true)
			if l.Atom == "(len($1.RTPPackets) == 0)" && inEdge == nil {
				k := 0
				if l.Pos {
					k = 1
				}
				inEdge = &Point{ifi.Block().Succs[k], 0}
			}
			if l.Atom == c23CmpAtom {
				// header of the loop containing the comparison
				for _, pr := range ifi.Block().Preds {
					if len(pr.Instrs) > 0 {
						if h, ok := pr.Instrs[len(pr.Instrs)-1].(*ssa.If); ok && litOf(h.Cond, true).Atom == c23LoopAtom {
							loopHdr = pr
						}
					}
				}
			}
		})
		if inEdge == nil {
			c.Undecided("UNRESOLVED ANCHOR len(u.RTPPackets) != 0 test in writeUnitInner")
		} else {
			// A: an encoder exists => incoming packets are replaced before the fan-out
			wA := (&Walker{Visit: func(i ssa.Instruction) int {
				if pktStore(i) {
					return wStop
				}
				if isOut(i) {
					return wHit
				}
				return wContinue
			}, Edge: func(l Lit) bool { return !(l.Atom == c23EncNil && l.Pos) }}).Run(*inEdge)
			c.Check("C23.oversize.no_passthrough", fnName(wui)+": with an encoder present incoming packets never reach writeRTSP/readers", wA == nil, p.Pos(wui.Pos()), wA.String(p))
			// B: the encoder created in this call
			nB := 0
			eachInstr(wui, func(i ssa.Instruction) {
				if !encStore(i) {
					return
				}
				nB++
				wB := (&Walker{Visit: func(i ssa.Instruction) int {
					if pktStore(i) {
						return wStop
					}
					if isOut(i) {
						return wHit
					}
					return wContinue
				}, Edge: func(l Lit) bool { return !(l.Atom == c23EncNil && l.Pos) }}).Run(after(i))
				c.Check("C23.oversize.no_passthrough", fnName(wui)+": after creating the oversize encoder the incoming packets are replaced", wB == nil, p.Pos(posOf(i, wui)), wB.String(p))
			})
			c.Floor("C23.oversize.no_passthrough", nB, 1)
			// C: without an encoder packets pass through only after every packet was compared
			wC := (&Walker{Visit: func(i ssa.Instruction) int {
				if encStore(i) || pktStore(i) {
					return wStop
				}
				if isOut(i) {
					return wHit
				}
				return wContinue
			}, Edge: func(l Lit) bool {
				if l.Atom == c23EncNil && !l.Pos {
					return false
				}
				if l.Atom == c23LoopAtom && !l.Pos {
					return false
				}
				return true
			}}).Run(*inEdge)
			c.Check("C23.oversize.all_packets_compared", fnName(wui)+": packets pass through only after the comparison loop over $1.RTPPackets was exhausted", wC == nil, p.Pos(wui.Pos()), wC.String(p))
			if c.Check("C23.oversize.all_packets_compared", fnName(wui)+": comparison loop over $1.RTPPackets with "+c23CmpAtom, loopHdr != nil, p.Pos(wui.Pos()), "") {
				// every iteration compares: no way round the body back to the header avoiding the comparison
				body := loopHdr.Succs[0]
				hdrFirst := loopHdr.Instrs[0]
				for _, ins := range loopHdr.Instrs {
					if _, ok := ins.(*ssa.Phi); !ok {
						hdrFirst = ins
						break
					}
				}
				wD := (&Walker{Visit: func(i ssa.Instruction) int {
					if i == hdrFirst {
						return wHit
					}
					return wContinue
				}, Edge: func(l Lit) bool { return l.Atom != c23CmpAtom }}).Run(Point{body, 0})
				c.Check("C23.oversize.all_packets_compared", fnName(wui)+": every iteration compares the packet's payload length with rtpMaxPayloadSize", wD == nil, p.Pos(wui.Pos()), wD.String(p))
			}
		}

		// ---- (4) timestamps
		var tsStores []*ssa.Store
		eachInstr(wui, func(i ssa.Instruction) {
			if st, ok := i.(*ssa.Store); ok && desc(st.Addr) == "$1.RTPPackets[_].Header.Timestamp" {
				tsStores = append(tsStores, st)
			}
		})
		c.Floor("C23.timestamp.per_packet", len(tsStores), 1)
		for _, st := range tsStores {
			c.Check("C23.timestamp.per_packet", fnName(wui)+": pkt.Timestamp += rtpTimeOffset + uint32(PTS)", desc(st.Val) == c23TsStore, p.Pos(posOf(st, wui)), "stored "+desc(st.Val))
			// unconditional in a loop over the encoder's output
			b := st.Block()
			unc := len(b.Preds) == 1 && b.Preds[0].Succs[0] == b
			if unc {
				h, ok := b.Preds[0].Instrs[len(b.Preds[0].Instrs)-1].(*ssa.If)
				unc = ok && litOf(h.Cond, true).Atom == c23LoopAtom
			}
			c.Check("C23.timestamp.per_packet", fnName(wui)+": the timestamp store is unconditional in the loop over the unit's packets", unc, p.Pos(posOf(st, wui)), "")
		}
		encodes := callsIn(wui, "(stream.rtpEncoder).encode")
		if c.Check("C23.timestamp.all_packets", fnName(wui)+": one encode site", len(encodes) == 1, p.Pos(wui.Pos()), sprintf("%d", len(encodes))) {
			e0 := encodes[0]
			cc := callCommon(e0)
			c.Check("C23.timestamp.all_packets", fnName(wui)+": encode($0.streamFormat.rtpEncoder, $1.Payload) result becomes $1.RTPPackets",
				desc(cc.Value) == "$0.streamFormat.rtpEncoder" && desc(cc.Args[0]) == "$1.Payload", p.Pos(posOf(e0, wui)), "")
			stored := false
			eachInstr(wui, func(i ssa.Instruction) {
				if st, ok := i.(*ssa.Store); ok && pktStore(i) {
					if ex, ok := st.Val.(*ssa.Extract); ok && ex.Tuple == e0.(ssa.Value) && ex.Index == 0 {
						stored = true
					}
				}
			})
			c.Check("C23.timestamp.all_packets", fnName(wui)+": encoder output stored to $1.RTPPackets", stored, p.Pos(posOf(e0, wui)), "")
			// from a successful encode every path to the fan-out exhausts the timestamp loop
			w := (&Walker{Visit: func(i ssa.Instruction) int {
				if isOut(i) {
					return wHit
				}
				return wContinue
			}, Edge: func(l Lit) bool { return !(l.Atom == c23LoopAtom && !l.Pos) }}).Run(after(e0))
			c.Check("C23.timestamp.all_packets", fnName(wui)+": after encode the fan-out is reached only through the exhausted timestamp loop", w == nil, p.Pos(posOf(e0, wui)), w.String(p))
			// encode only with an encoder and a payload
			c.MustPass(p, wui, "C23.timestamp.all_packets", "encode", func(i ssa.Instruction) bool { return i == e0 }, F(c23EncNil))
		}
		for _, st := range fieldStores(wui, "stream.streamFormat", "rtpTimeOffset") {
			c.Check("C23.timestamp.oversize_offset", fnName(wui)+": rtpTimeOffset = pkt.Timestamp - uint32(PTS)", desc(st.Val) == "($1.RTPPackets[_].Header.Timestamp - $1.PTS)", p.Pos(posOf(st, wui)), "stored "+desc(st.Val))
		}
	}

	// ---- (5) codec pairing
	if enc != nil && dec != nil {
		encT := c23SwitchTable(p, enc, "encode")
		decT := c23SwitchTable(p, dec, "decode")
		var keys []string
		for k := range encT {
			if _, ok := decT[k]; ok {
				keys = append(keys, k)
			}
		}
		sort.Strings(keys)
		for _, k := range keys {
			e, d := encT[k], decT[k]
			c.Check("C23.codec_pairing", "format "+k+": decoder output type == encoder input type", e.payload != "" && e.payload == d.payload, p.Pos(enc.Pos()),
				"decoder "+d.wrapper+" yields "+d.payload+", encoder "+e.wrapper+" asserts "+e.payload)
		}
		c.Floor("C23.codec_pairing", len(keys), 16)
	}

	// ---- (6) encoder exists when packets must be generated
	if ini != nil {
		have := []LitPat{F(c23EncNil), T("(" + c23NewEnc + "($0.streamFormat.outFormat, $0.streamFormat.rtpMaxPayloadSize, nil, nil)#1 == nil)")}
		c.MustPass(p, ini, "C23.encoder.when_needed", "return nil (non-RTP publisher)", retNil(0), append(have, T("$0.useRTPPackets"))...)
		c.MustPass(p, ini, "C23.encoder.when_needed", "return nil (always-available stream)", retNil(0), append(have, F("$0.streamFormat.alwaysAvailable"))...)
		c.MustPass(p, ini, "C23.encoder.when_needed", "return nil (forced remux)", retNil(0), append(have, F("$0.streamFormat.forceRemux"))...)
	}

	// ---- (7) plumbing of the configured maximum
	type lit struct{ typ, field string }
	wantLits := []lit{{"stream.streamFormat", "rtpMaxPayloadSize"}, {"stream.streamMedia", "rtpMaxPayloadSize"}, {"stream.Stream", "RTPMaxPayloadSize"},
		{"core.path", "rtpMaxPayloadSize"}, {"core.pathManager", "rtpMaxPayloadSize"}}
	counts := map[string]int{}
	for _, fn := range p.ModFuncs() {
		eachInstr(fn, func(i ssa.Instruction) {
			a, ok := i.(*ssa.Alloc)
			if !ok {
				return
			}
			ts := typeStr(a.Type().(*types.Pointer).Elem())
			for _, w := range wantLits {
				if ts != w.typ {
					continue
				}
				fs := allocFieldStores(a)
				if len(fs) == 0 {
					continue // not a composite literal
				}
				counts[w.typ]++
				v := fs[w.field]
				got := "<not set>"
				ok := false
				if v != nil {
					got = desc(v)
					if k, isC := constInt64(v); isC {
						ok = k > 0
					} else {
						ok = strings.HasSuffix(strings.ToLower(got), ".rtpmaxpayloadsize") || strings.HasPrefix(got, "core.getRTPMaxPayloadSize(")
					}
				}
				c.Check("C23.plumbing", fnName(fn)+": "+w.typ+" literal sets "+w.field+" from the configured maximum", ok, p.Pos(posOf(a, fn)), "got "+got)
			}
		})
	}
	for _, w := range wantLits {
		min := 1
		if w.typ == "stream.Stream" {
			min = 2
		}
		c.Floor("C23.plumbing:"+w.typ, counts[w.typ], min)
	}
	_ = token.NoPos
}

func c23ParamName(d string) string {
	switch d {
	case "$1":
		return "rtpMaxPayloadSize"
	case "$2":
		return "ssrc"
	case "$3":
		return "initialSequenceNumber"
	}
	return d
}

// c23CaseOf names the type-switch case (asserted format type) that dominates
// an instruction.
func c23CaseOf(i ssa.Instruction) string {
	for b := i.Block(); b != nil; b = b.Idom() {
		if len(b.Preds) != 1 {
			continue
		}
		pr := b.Preds[0]
		if len(pr.Instrs) == 0 || pr.Succs[0] != b {
			continue
		}
		ifi, ok := pr.Instrs[len(pr.Instrs)-1].(*ssa.If)
		if !ok {
			continue
		}
		if ex, ok := ifi.Cond.(*ssa.Extract); ok && ex.Index == 1 {
			if ta, ok := ex.Tuple.(*ssa.TypeAssert); ok {
				s := typeStr(ta.AssertedType)
				if k := strings.LastIndex(s, "."); k >= 0 {
					s = s[k+1:]
				}
				return s
			}
		}
	}
	return "?"
}

type c23Row struct{ wrapper, payload string }

// c23SwitchTable maps the format type of each case of newRTPEncoder /
// newRTPDecoder to the wrapper type returned there and to the unit payload
// type its encode method asserts / its decode method returns.
func c23SwitchTable(p *Prog, fn *ssa.Function, method string) map[string]c23Row {
	out := map[string]c23Row{}
	for _, r := range returnsOf(fn) {
		v := retVal(r, 0)
		if v == nil || isNilConst(v) {
			continue
		}
		mi, ok := v.(*ssa.MakeInterface)
		if !ok {
			continue
		}
		wt := mi.X.Type()
		k := c23CaseOf(r)
		row := c23Row{wrapper: typeStr(wt)}
		ms := p.SSA.MethodSets.MethodSet(wt)
		var m *ssa.Function
		for j := 0; j < ms.Len(); j++ {
			if ms.At(j).Obj().Name() == method {
				m = p.SSA.MethodValue(ms.At(j))
			}
		}
		if m != nil && m.Blocks != nil {
			set := map[string]bool{}
			if method == "encode" {
				eachInstr(m, func(i ssa.Instruction) {
					if ta, ok := i.(*ssa.TypeAssert); ok {
						if pr, ok := ta.X.(*ssa.Parameter); ok && paramIndex(pr) == 1 {
							set[typeStr(ta.AssertedType)] = true
						}
					}
				})
			} else {
				for _, rr := range returnsOf(m) {
					rv := retVal(rr, 0)
					if rv == nil || isNilConst(rv) {
						continue
					}
					if mk, ok := rv.(*ssa.MakeInterface); ok {
						set[typeStr(mk.X.Type())] = true
					} else {
						set["?"+desc(rv)] = true
					}
				}
			}
			var ks []string
			for s := range set {
				ks = append(ks, s)
			}
			sort.Strings(ks)
			row.payload = strings.Join(ks, "|")
		}
		out[k] = row
	}
	return out
}
