package main

import (
	"fmt"
	"go/token"
	"regexp"
	"sort"
	"strings"

	"golang.org/x/tools/go/ssa"
)

// C26 - segment file names encode path and start instant losslessly.

func init() {
	register(Property{ID: "C26", Level: "other", Run: runC26,
		Technique: "static analysis: sibling-table agreement between recordstore.Path.Encode and Path.Decode extracted from SSA (placeholder rows, pad widths vs. capture-group digit counts, time component per placeholder vs. time.Date/time.Unix parameter), origin classification of the regexp.MustCompile argument (anchoring, metacharacter escaping before substitution), capture-group/index alignment",
		Text:      "Decides: the ten placeholders of Path.Encode are exactly those given a capture group, a groupMapping row and a switch case in Path.Decode; each Decode group has one capturing group whose language is what Encode emits for that placeholder (N-digit for leadingZeros(_, N), Z|[+-]hhmm for the zone); placeholder X is written from component C of Start in Encode and read into the C parameter of time.Date/time.Unix in Decode with the same microsecond scale; groups are mapped by scanning the unescaped format in order and matches[1:] is indexed with the same index; the zone sign and hh*3600+mm*60 agree; every regexp metacharacter (regexp.QuoteMeta's set) of the format is escaped, backslash first, before placeholder substitution; and the compiled pattern is anchored to the whole name. Not decided: calendar/zone arithmetic of package time, names with years outside 1000..9999 or unix seconds not 10 digits long (Encode does not pad %Y and %s), ambiguity of formats lacking %z across DST changes.",
		Note:      "trusted: go/ssa, package regexp/time/strconv; the group languages are compared by compiling the constant group patterns found in the source with package regexp inside the checker"})
	addMutants(
		Mutant{"C26", "decode-row-removed", "internal/recordstore/path.go",
			"	re = strings.ReplaceAll(re, \"%f\", \"([0-9]{6})\")\n", "", "C26.tables"},
		Mutant{"C26", "scan-list-entry-removed", "internal/recordstore/path.go",
			"			\"%f\",\n", "", "C26.tables"},
		Mutant{"C26", "width-mismatch", "internal/recordstore/path.go",
			"leadingZeros(p.Start.Nanosecond()/1000, 6)", "leadingZeros(p.Start.Nanosecond()/1000, 5)", "C26.width"},
		Mutant{"C26", "hour-minute-swapped", "internal/recordstore/path.go",
			"time.Date(year, month, day, hour, minute, second, micros*1000, loc)", "time.Date(year, month, day, minute, hour, second, micros*1000, loc)", "C26.component"},
		Mutant{"C26", "micros-scale", "internal/recordstore/path.go",
			"p.Start = time.Unix(unixSec, int64(micros)*1000)", "p.Start = time.Unix(unixSec, int64(micros))", "C26.component"},
		Mutant{"C26", "matches-offset", "internal/recordstore/path.go",
			"for i, match := range matches[1:] {", "for i, match := range matches {", "C26.group_alignment"},
		Mutant{"C26", "dot-not-escaped", "internal/recordstore/path.go",
			"		'\\\\',\n		'.',\n", "		'\\\\',\n", "C26.escape"},
		Mutant{"C26", "scan-escaped-format", "internal/recordstore/path.go",
			"	cur := format\n", "	cur := re\n", "C26.group_alignment"},
		Mutant{"C26", "zone-sign-swapped", "internal/recordstore/path.go",
			"	if off > 0 {\n		ret = \"+\"\n	} else {\n		ret = \"-\"\n		off = -off\n	}", "	if off > 0 {\n		ret = \"-\"\n	} else {\n		ret = \"+\"\n		off = -off\n	}", "C26.zone"},
		Mutant{"C26", "encode-day-from-yearday", "internal/recordstore/path.go",
			"leadingZeros(p.Start.Day(), 2)", "leadingZeros(p.Start.YearDay(), 2)", "C26.component"},
		Mutant{"C26", "escape-after-substitution", "internal/recordstore/path.go",
			"		re = strings.ReplaceAll(re, string(ch), \"\\\\\"+string(ch))\n", "		re = strings.ReplaceAll(format, string(ch), \"\\\\\"+string(ch))\n", "C26.escape"},
		// the 10-digit unix seconds parsed with the bit size of the other fields (saturates at 2^31-1)
		Mutant{"C26", "unix-seconds-32bit", "internal/recordstore/path.go",
			"unixSec, _ = strconv.ParseInt(v, 10, 64)", "unixSec, _ = strconv.ParseInt(v, 10, 32)", "C26.component"},
	)
}

type c26Enc struct {
	ph    string
	kind  string // path | padded | decimal | zone
	comp  string // time.Time method
	width int64
	scale int64 // divisor applied in Encode (1 = none)
	pos   token.Pos
}

// timeComp recognises M($0.Start) optionally divided by a constant.
func c26TimeComp(v ssa.Value) (comp string, scale int64, ok bool) {
	v = stripConv(v)
	scale = 1
	if b, isB := v.(*ssa.BinOp); isB && b.Op == token.QUO {
		n, isC := constBig(b.Y)
		if !isC {
			return "", 0, false
		}
		scale = n.Int64()
		v = stripConv(b.X)
	}
	cl, isC := v.(*ssa.Call)
	if !isC || cl.Call.IsInvoke() || len(cl.Call.Args) != 1 || desc(cl.Call.Args[0]) != "$0.Start" {
		return "", 0, false
	}
	n := calleeName(&cl.Call)
	if !strings.HasPrefix(n, "(time.Time).") {
		return "", 0, false
	}
	return strings.TrimPrefix(n, "(time.Time)."), scale, true
}

// The constant tables Decode iterates (escape characters, placeholders) are
// resolved by c26ElemTable (prop_gen_c26.go): a local literal, a local variable
// or a package-level slice/array variable that nothing writes.

// rootsThroughSlices follows Slice operands and phi edges to the root values.
func rootsThroughSlices(v ssa.Value, seen map[ssa.Value]bool, out map[ssa.Value]bool) {
	if seen[v] {
		return
	}
	seen[v] = true
	switch x := v.(type) {
	case *ssa.Slice:
		rootsThroughSlices(x.X, seen, out)
	case *ssa.Phi:
		for _, e := range x.Edges {
			rootsThroughSlices(e, seen, out)
		}
	default:
		out[v] = true
	}
}

// phiLeaves returns the non-phi values reaching v through phis.
func phiLeaves(v ssa.Value) []ssa.Value {
	var out []ssa.Value
	seen := map[ssa.Value]bool{}
	var rec func(ssa.Value)
	rec = func(x ssa.Value) {
		if seen[x] {
			return
		}
		seen[x] = true
		if ph, ok := x.(*ssa.Phi); ok {
			for _, e := range ph.Edges {
				rec(e)
			}
			return
		}
		out = append(out, x)
	}
	rec(v)
	return out
}

func addLeaves(v ssa.Value) []ssa.Value {
	if b, ok := v.(*ssa.BinOp); ok && b.Op == token.ADD {
		return append(addLeaves(b.X), addLeaves(b.Y)...)
	}
	return []ssa.Value{v}
}

func runC26(c *Ctx) {
	p := c.Main()
	if p == nil {
		return
	}
	c.Explain = "C26.tables: placeholder rows of Encode = Decode's regexp rows = groupMapping scan list = switch cases, prefix-free. " +
		"C26.width: the constant capture pattern of each Decode row accepts exactly what Encode emits (N digits for leadingZeros(_,N); 4-digit years and 10-digit unix seconds for the unpadded rows; Z|[+-]hhmm) and has exactly one capturing group. " +
		"C26.component: placeholder X <- component C of p.Start in Encode, and case X -> parameter C of time.Date / time.Unix (same 1000 scale for %f; the capture is parsed in base 10 and every container on the way - ParseInt/ParseUint bit size, integer conversions, constant products, int counted as 32 bits - holds the largest text of the group), %path <-> p.Path, default location time.Local. " +
		"C26.group_alignment: groupMapping is built from the unescaped format parameter, appended with the tested element, and values[groupMapping[i]] = matches[1:][i] with one index. " +
		"C26.zone: sign and hh/mm arithmetic of timeLocationEncode/Decode agree. " +
		"C26.escape: every regexp.QuoteMeta metacharacter is escaped (backslash first, no placeholder character escaped) and the substitution chain starts from the escaped string. " +
		"C26.anchored: the pattern given to regexp.MustCompile is ^...$ (or the whole-match is compared with the name). " +
		"Not decided: package time arithmetic, DST ambiguity of zone-less formats, years outside 1000..9999."
	c.Assume = []string{
		"years are in 1000..9999 and unix seconds have 10 digits (Encode does not pad %Y / %s, Decode expects {4} / {10})",
		"path names contain no '%' (conf.IsValidPathName)",
		"package regexp, time, strconv behave as documented",
	}
	enc := c.fn(p, "internal/recordstore", "Path", "Encode")
	dec := c.fn(p, "internal/recordstore", "Path", "Decode")
	tle := c.fn(p, "internal/recordstore", "", "timeLocationEncode")
	tld := c.fn(p, "internal/recordstore", "", "timeLocationDecode")
	if enc == nil || dec == nil || tle == nil || tld == nil {
		return
	}

	// ---------- Encode table
	encT := map[string]*c26Enc{}
	var encOrder []string
	for _, i := range callsIn(enc, "strings.ReplaceAll") {
		cl, ok := i.(*ssa.Call)
		if !ok || len(cl.Call.Args) != 3 {
			continue
		}
		ph, ok := ssaConstString(cl.Call.Args[1])
		if !ok {
			c.Check("C26.tables", "Path.Encode: strings.ReplaceAll with a non-constant placeholder", false, p.Pos(cl.Pos()), desc(cl.Call.Args[1]))
			continue
		}
		row := &c26Enc{ph: ph, pos: cl.Pos(), scale: 1}
		v := stripConv(cl.Call.Args[2])
		switch x := v.(type) {
		case *ssa.Call:
			switch calleeName(&x.Call) {
			case "recordstore.leadingZeros":
				if n, ok := constBig(x.Call.Args[1]); ok {
					if comp, sc, ok := c26TimeComp(x.Call.Args[0]); ok {
						row.kind, row.width, row.comp, row.scale = "padded", n.Int64(), comp, sc
					}
				}
			case "strconv.FormatInt":
				if n, ok := constBig(x.Call.Args[1]); ok && n.Int64() == 10 {
					if comp, sc, ok := c26TimeComp(x.Call.Args[0]); ok {
						row.kind, row.comp, row.scale = "decimal", comp, sc
					}
				}
			case "recordstore.timeLocationEncode":
				if desc(x.Call.Args[0]) == "$0.Start" {
					row.kind, row.comp = "zone", "zone"
				}
			}
		default:
			if desc(v) == "$0.Path" {
				row.kind, row.comp = "path", "path"
			}
		}
		c.Check("C26.tables", "Path.Encode: row "+ph+" is p.Path, leadingZeros(p.Start.C(), N), FormatInt(p.Start.C(), 10) or timeLocationEncode(p.Start)", row.kind != "", p.Pos(cl.Pos()), "got "+desc(cl.Call.Args[2]))
		if _, dup := encT[ph]; dup {
			c.Check("C26.tables", "Path.Encode: row "+ph+" appears once", false, p.Pos(cl.Pos()), "")
		}
		encT[ph] = row
		encOrder = append(encOrder, ph)
	}
	c.Floor("C26.tables.encode_rows", len(encT), 10)

	// ---------- Decode: MustCompile argument, chain, escape loop
	mcs := callsIn(dec, "regexp.MustCompile")
	if len(mcs) != 1 {
		c.Undecided(fmt.Sprintf("UNRESOLVED ANCHOR Path.Decode: %d regexp.MustCompile calls (want 1)", len(mcs)))
		return
	}
	mc := mcs[0].(*ssa.Call)
	anchored, chainTop, fsm := decodeAnchoring(dec, mc)
	anchoredConcat, wholeCmp := anchored, false
	c.Check("C26.anchored", "Path.Decode: the pattern passed to regexp.MustCompile is anchored (^...$) or the whole match equals the candidate name", anchoredConcat || wholeCmp,
		p.Pos(mc.Pos()), "an unanchored pattern recognises names with arbitrary prefix/suffix around a recorder-produced name")

	decRe := map[string]string{}
	var decOrder []string
	cur := chainTop
	for {
		cl, ok := cur.(*ssa.Call)
		if !ok || calleeName(&cl.Call) != "strings.ReplaceAll" {
			break
		}
		ph, ok1 := ssaConstString(cl.Call.Args[1])
		re, ok2 := ssaConstString(cl.Call.Args[2])
		if !ok1 || !ok2 {
			break
		}
		if _, dup := decRe[ph]; dup {
			c.Check("C26.tables", "Path.Decode: regexp row "+ph+" appears once", false, p.Pos(cl.Pos()), "")
		}
		decRe[ph] = re
		decOrder = append(decOrder, ph)
		cur = cl.Call.Args[0]
	}
	c.Floor("C26.tables.decode_rows", len(decRe), 9)
	c26LengthTables(c, p, decRe)

	// escape loop: base of the chain is phi(format | ReplaceAll(phi, string(ch), "\\"+string(ch)))
	// the table of characters is a constant table wherever it is declared (local
	// literal, local variable, package-level slice or array: prop_gen_c26.go)
	var escAlloc *c26Table
	baseOK := false
	if ph, ok := cur.(*ssa.Phi); ok && len(ph.Edges) == 2 {
		var loopCall *ssa.Call
		hasFormat := false
		for _, e := range ph.Edges {
			if e == ssa.Value(dec.Params[1]) {
				hasFormat = true
			} else if cl, ok := e.(*ssa.Call); ok && calleeName(&cl.Call) == "strings.ReplaceAll" {
				loopCall = cl
			}
		}
		if hasFormat && loopCall != nil && loopCall.Call.Args[0] == ssa.Value(ph) {
			escAlloc = c26ElemTable(p, loopCall.Call.Args[1])
			// replacement is "\\" + string(ch) of the same element
			if b, ok := loopCall.Call.Args[2].(*ssa.BinOp); ok && b.Op == token.ADD {
				bs, isC := ssaConstString(b.X)
				baseOK = isC && bs == "\\" && escAlloc != nil && escAlloc.same(c26ElemTable(p, b.Y)) && desc(b.Y) == desc(loopCall.Call.Args[1])
			}
		}
	}
	c.Check("C26.escape", "Path.Decode: placeholder substitution starts from the format escaped by ReplaceAll(re, string(ch), \"\\\\\"+string(ch)) over a constant table", baseOK,
		p.Pos(mc.Pos()), "chain base: "+trunc(desc(cur), 200))
	if escAlloc != nil {
		tab := escAlloc.consts
		set := map[byte]int64{}
		for idx, cv := range tab {
			if n, ok := constBig(cv); ok {
				set[byte(n.Int64())] = idx
			}
		}
		nSpecial := 0
		for ch := 0; ch < 128; ch++ {
			s := string(rune(ch))
			if regexp.QuoteMeta(s) == s {
				continue
			}
			nSpecial++
			_, has := set[byte(ch)]
			c.Check("C26.escape", fmt.Sprintf("Path.Decode: regexp metacharacter %q of the format is escaped", s), has, p.Pos(escAlloc.pos), "")
		}
		c.Floor("C26.escape.metachars", nSpecial, 14)
		if idx, has := set['\\']; has {
			c.Check("C26.escape", "Path.Decode: backslash is escaped before any other character", idx == 0, p.Pos(escAlloc.pos), fmt.Sprintf("index %d", idx))
		}
		bad := ""
		for ph := range encT {
			for k := 0; k < len(ph); k++ {
				if _, has := set[ph[k]]; has {
					bad += fmt.Sprintf("%q in %s; ", ph[k], ph)
				}
			}
		}
		c.Check("C26.escape", "Path.Decode: no character of a placeholder is escaped", bad == "", p.Pos(escAlloc.pos), bad)
	}

	// ---------- groupMapping scan list and alignment
	var scanList []string
	hps := callsIn(dec, "strings.HasPrefix")
	alignOK := len(hps) == 1
	alignDetail := ""
	if len(hps) == 1 {
		hp := hps[0].(*ssa.Call)
		if a := c26ElemTable(p, hp.Call.Args[1]); a != nil {
			tab := a.consts
			for k := int64(0); k < int64(len(tab)); k++ {
				if s, ok := ssaConstString(tab[k]); ok {
					scanList = append(scanList, s)
				}
			}
		}
		roots := map[ssa.Value]bool{}
		rootsThroughSlices(hp.Call.Args[0], map[ssa.Value]bool{}, roots)
		if len(roots) != 1 || !roots[ssa.Value(dec.Params[1])] {
			alignOK = false
			alignDetail += "scanned string is not the unescaped format parameter; "
		}
		// the appended element is the tested one, on the true edge
		appended := false
		eachInstr(dec, func(i ssa.Instruction) {
			st, ok := i.(*ssa.Store)
			if !ok || st.Val != hp.Call.Args[1] {
				return
			}
			if _, ok := st.Addr.(*ssa.IndexAddr); !ok {
				return
			}
			blk := st.Block()
			if len(blk.Preds) == 1 {
				if l, has := edgeLit(blk.Preds[0], blk); has && l.Pos && l.Atom == desc(hp) {
					appended = true
				}
			}
		})
		if !appended {
			alignOK = false
			alignDetail += "the matched placeholder is not the appended element; "
		}
	}
	var mu *ssa.MapUpdate
	nMU := 0
	eachInstr(dec, func(i ssa.Instruction) {
		if m, ok := i.(*ssa.MapUpdate); ok {
			mu = m
			nMU++
		}
	})
	var fsmCall ssa.Value
	if len(fsm) == 1 {
		fsmCall = fsm[0].(ssa.Value)
	}
	if nMU != 1 || fsmCall == nil {
		alignOK = false
		alignDetail += "values map update not found; "
	} else {
		idxOf := func(v ssa.Value) (base ssa.Value, idx ssa.Value) {
			u, ok := v.(*ssa.UnOp)
			if !ok || u.Op != token.MUL {
				return nil, nil
			}
			ia, ok := u.X.(*ssa.IndexAddr)
			if !ok {
				return nil, nil
			}
			return ia.X, ia.Index
		}
		kb, ki := idxOf(mu.Key)
		vb, vi := idxOf(mu.Value)
		ok := kb != nil && vb != nil && ki == vi
		if ok {
			sl, isSl := vb.(*ssa.Slice)
			low, isC := (*ssa.Const)(nil), false
			if isSl && sl.Low != nil {
				low, isC = sl.Low.(*ssa.Const)
			}
			ok = isSl && sl.X == fsmCall && isC && low.Int64() == 1
			// key base: the groupMapping accumulator (phi of appends)
			appendSeen := false
			for _, l := range phiLeaves(kb) {
				if cl, isCall := l.(*ssa.Call); isCall {
					if bi, isB := cl.Call.Value.(*ssa.Builtin); isB && bi.Name() == "append" {
						appendSeen = true
					}
				}
			}
			ok = ok && appendSeen
		}
		if !ok {
			alignOK = false
			alignDetail += "values[groupMapping[i]] = matches[1:][i] shape not found (key " + trunc(desc(mu.Key), 60) + ", value " + trunc(desc(mu.Value), 80) + "); "
		}
	}
	c.Check("C26.group_alignment", "Path.Decode: capture group i is mapped to the i-th placeholder of the unescaped format (scan of format, append of the tested element, matches[1:][i])", alignOK, p.Pos(dec.Pos()), alignDetail)

	// ---------- switch cases
	caseOf := map[*ssa.BasicBlock]string{}
	var cases []string
	var nextVal ssa.Value
	for _, b := range dec.Blocks {
		if len(b.Instrs) == 0 {
			continue
		}
		ifi, ok := b.Instrs[len(b.Instrs)-1].(*ssa.If)
		if !ok {
			continue
		}
		bo, ok := ifi.Cond.(*ssa.BinOp)
		if !ok || bo.Op != token.EQL {
			continue
		}
		ex, ok := bo.X.(*ssa.Extract)
		if !ok || ex.Index != 1 {
			continue
		}
		if _, isNext := ex.Tuple.(*ssa.Next); !isNext {
			continue
		}
		s, ok := ssaConstString(bo.Y)
		if !ok {
			continue
		}
		nextVal = ex.Tuple
		caseOf[b.Succs[0]] = s
		cases = append(cases, s)
	}

	// ---------- C26.tables: four sets equal
	all := map[string]bool{}
	for ph := range encT {
		all[ph] = true
	}
	for ph := range decRe {
		all[ph] = true
	}
	for _, ph := range scanList {
		all[ph] = true
	}
	for _, ph := range cases {
		all[ph] = true
	}
	var allS []string
	for ph := range all {
		allS = append(allS, ph)
	}
	sort.Strings(allS)
	for _, ph := range allS {
		_, inEnc := encT[ph]
		_, inRe := decRe[ph]
		c.Check("C26.tables", "placeholder "+ph+": row in Path.Encode", inEnc, p.Pos(enc.Pos()), "")
		c.Check("C26.tables", "placeholder "+ph+": capture-group row in Path.Decode", inRe, p.Pos(dec.Pos()), "")
		c.Check("C26.tables", "placeholder "+ph+": entry in Path.Decode's group-mapping scan list", contains(scanList, ph), p.Pos(dec.Pos()), "")
		c.Check("C26.tables", "placeholder "+ph+": case in Path.Decode's value switch", contains(cases, ph), p.Pos(dec.Pos()), "")
		for _, other := range allS {
			if other != ph && strings.HasPrefix(other, ph) {
				c.Check("C26.tables", "placeholder "+ph+" is not a prefix of "+other, false, p.Pos(enc.Pos()), "ReplaceAll order and the HasPrefix scan would disagree")
			}
		}
	}

	// ---------- C26.width
	digits := func(n int64, d byte) string { return strings.Repeat(string(d), int(n)) }
	for _, ph := range allS {
		row, re := encT[ph], decRe[ph]
		if row == nil || re == "" || row.kind == "" {
			continue
		}
		rx, err := regexp.Compile("^(?:" + re + ")$")
		if err != nil {
			c.Check("C26.width", "placeholder "+ph+": Decode group pattern compiles", false, p.Pos(dec.Pos()), err.Error())
			continue
		}
		c.Check("C26.width", "placeholder "+ph+": Decode group pattern has exactly one capturing group", rx.NumSubexp() == 1, p.Pos(dec.Pos()), re)
		var acc, rej []string
		switch row.kind {
		case "padded":
			acc = []string{digits(row.width, '0'), digits(row.width, '9')}
			rej = []string{digits(row.width-1, '1'), digits(row.width+1, '1'), digits(row.width-1, '1') + "x", ""}
		case "decimal":
			w := int64(4)
			if row.comp == "Unix" {
				w = 10
			}
			acc = []string{"1" + digits(w-1, '0'), digits(w, '9')}
			rej = []string{digits(w-1, '1') + "x", "", "-" + digits(w-1, '1')}
		case "zone":
			acc = []string{"Z", "+0000", "-1200", "+0530"}
			rej = []string{"z", "+000", "0000", "+00000", ""}
		case "path":
			acc = []string{"mypath", "a/b/c", "x.y-z_~1"}
		}
		bad := ""
		for _, s := range acc {
			if !rx.MatchString(s) {
				bad += "rejects " + fmt.Sprintf("%q", s) + "; "
			}
		}
		for _, s := range rej {
			if rx.MatchString(s) {
				bad += "accepts " + fmt.Sprintf("%q", s) + "; "
			}
		}
		what := row.kind
		if row.kind == "padded" {
			what = fmt.Sprintf("%d digits", row.width)
		}
		c.Check("C26.width", "placeholder "+ph+": Decode group language equals what Encode emits ("+what+")", bad == "", p.Pos(row.pos), re+": "+bad)
	}

	// ---------- C26.component
	wantDate := []string{"Year", "Month", "Day", "Hour", "Minute", "Second", "Nanosecond", "zone"}
	// source placeholder(s) of a sink argument: the values it may stand for
	// (c26Leaves, prop_gen_c26.go: through phis, conversions, constant products
	// and new helpers per call site); a source is number(case value) [* const]
	// or timeLocationDecode(case value) computed under case X.
	type src struct {
		ph    string
		scale int64
		other string
		lossy string // why number() may lose information for the texts of the group
	}
	// caseFor: the case whose body every path to the block passes through
	caseFor := func(b *ssa.BasicBlock) (string, bool) {
		if b == nil {
			return "", false
		}
		for body, ph := range caseOf {
			if len(body.Preds) == 1 && body.Dominates(b) {
				return ph, true
			}
		}
		return "", false
	}
	isCaseValue := func(x rvalG4) bool {
		ex, isEx := peelG4(x).v.(*ssa.Extract)
		return isEx && nextVal != nil && ex.Tuple == nextVal && ex.Index == 2
	}
	sourcesOf := func(v ssa.Value) []src {
		var out []src
		for _, lf := range c26Leaves(v) {
			l := lf.x
			if _, isC := l.v.(*ssa.Const); isC {
				continue
			}
			if arg, cl, hold, ok := c26Number(l); ok && isCaseValue(arg) {
				if ph, has := caseFor(c26EntryBlock(dec, l, cl)); has {
					s := src{ph: ph, scale: lf.scale}
					if row := encT[ph]; row != nil && (row.kind == "padded" || row.kind == "decimal") {
						w := row.width
						if row.kind == "decimal" {
							w = 4 // the years and unix seconds assumed (c.Assume), as in C26.width
							if row.comp == "Unix" {
								w = 10
							}
						}
						hold.outer = lf.scale
						s.lossy = c26Fits(w, lf.scale, append(lf.holds[:len(lf.holds):len(lf.holds)], hold))
					}
					out = append(out, s)
					continue
				}
			}
			if cl, ok := l.v.(*ssa.Call); ok && calleeName(&cl.Call) == "recordstore.timeLocationDecode" && len(cl.Call.Args) == 1 && lf.scale == 1 {
				if ph, has := caseFor(c26EntryBlock(dec, l, cl)); has && isCaseValue(rvalG4{cl.Call.Args[0], l.env}) {
					out = append(out, src{ph: ph, scale: 1})
					continue
				}
			}
			out = append(out, src{other: descG4(l)})
		}
		return out
	}
	checkSink := func(sink string, v ssa.Value, comp string, pos token.Pos) {
		srcs := sourcesOf(v)
		var phs []string
		okAll := true
		detail := ""
		for _, s := range srcs {
			if s.other != "" {
				if comp == "zone" && s.other == "time.Local" {
					continue
				}
				okAll = false
				detail += "unrecognised source " + s.other + "; "
				continue
			}
			phs = append(phs, s.ph)
			row := encT[s.ph]
			if s.lossy != "" {
				okAll = false
				detail += "value of " + s.ph + " not preserved: " + s.lossy
			}
			if row == nil || row.comp != comp || row.scale != s.scale {
				okAll = false
				got := "<none>"
				if row != nil {
					got = fmt.Sprintf("%s/%d", row.comp, row.scale)
				}
				detail += fmt.Sprintf("fed by %s (x%d) which Encode writes from %s; ", s.ph, s.scale, got)
			}
		}
		if len(phs) != 1 {
			okAll = false
			detail += fmt.Sprintf("%d placeholder sources; ", len(phs))
		}
		c.Check("C26.component", "Path.Decode: "+sink+" is fed by the placeholder Encode writes from Start."+comp, okAll, p.Pos(pos), detail)
	}
	dates := callsIn(dec, "time.Date")
	unixes := callsIn(dec, "time.Unix")
	if len(dates) != 1 || len(unixes) != 1 {
		c.Undecided("UNRESOLVED ANCHOR Path.Decode: time.Date / time.Unix calls")
	} else {
		dc := dates[0].(*ssa.Call)
		for k, comp := range wantDate {
			checkSink(fmt.Sprintf("time.Date parameter %d (%s)", k, comp), dc.Call.Args[k], comp, dc.Pos())
		}
		// default location
		hasLocal := false
		for _, l := range phiLeaves(dc.Call.Args[7]) {
			if desc(l) == "time.Local" {
				hasLocal = true
			}
		}
		c.Check("C26.component", "Path.Decode: location defaults to time.Local when the format has no %z", hasLocal, p.Pos(dc.Pos()), desc(dc.Call.Args[7]))
		uc := unixes[0].(*ssa.Call)
		checkSink("time.Unix seconds", uc.Call.Args[0], "Unix", uc.Pos())
		checkSink("time.Unix nanoseconds", uc.Call.Args[1], "Nanosecond", uc.Pos())
		// both results are stored to p.Start
		for _, cl := range []*ssa.Call{dc, uc} {
			stored := false
			for _, st := range fieldStores(dec, "recordstore.Path", "Start") {
				if st.Val == ssa.Value(cl) && desc(st.Addr) == "$0.Start" {
					stored = true
				}
			}
			c.Check("C26.component", "Path.Decode: result of "+calleeName(&cl.Call)+" is stored to p.Start", stored, p.Pos(cl.Pos()), "")
		}
	}
	pathOK := false
	for _, st := range fieldStores(dec, "recordstore.Path", "Path") {
		ex, isEx := st.Val.(*ssa.Extract)
		if ph, has := caseOf[st.Block()]; has && isEx && ex.Tuple == nextVal && ex.Index == 2 && desc(st.Addr) == "$0.Path" {
			if row := encT[ph]; row != nil && row.kind == "path" {
				pathOK = true
			}
		}
	}
	c.Check("C26.component", "Path.Decode: p.Path is fed by the placeholder Encode writes from p.Path", pathOK, p.Pos(dec.Pos()), "")
	// Encode side: each time component used once
	usedComp := map[string]string{}
	for _, ph := range encOrder {
		row := encT[ph]
		if row.kind == "" {
			continue
		}
		if prev, dup := usedComp[row.comp]; dup {
			c.Check("C26.component", "Path.Encode: component "+row.comp+" written by one placeholder", false, p.Pos(row.pos), prev+" and "+ph)
		}
		usedComp[row.comp] = ph
	}

	// ---------- C26.zone
	// encode: "Z" iff offset == 0; sign "+" iff offset > 0; hh = off/60/60, mm = (off/60)%60, two digits each
	off := "(time.Time).Zone($0)#1"
	absOff := "phi(" + off + " | -" + off + ")"
	zOK, signOK, numOK := false, false, false
	for _, r := range returnsOf(tle) {
		v := retVal(r, 0)
		if s, ok := ssaConstString(v); ok {
			rr := r
			zOK = s == "Z" && mustPassPred(tle, func(i ssa.Instruction) bool { return i == ssa.Instruction(rr) }, func(l Lit) bool { return l.Pos && l.Atom == "("+off+" == 0)" }) == nil
			continue
		}
		ls := addLeaves(v)
		if len(ls) != 3 {
			continue
		}
		if ph, ok := ls[0].(*ssa.Phi); ok && len(ph.Edges) == 2 {
			good := 0
			for k, e := range ph.Edges {
				s, _ := ssaConstString(e)
				pred := ph.Block().Preds[k]
				lit, has := edgeLit(pred, ph.Block())
				if !has && len(pred.Preds) == 1 {
					lit, has = edgeLit(pred.Preds[0], pred)
				}
				if has && lit.Atom == "(0 < "+off+")" && ((s == "+" && lit.Pos) || (s == "-" && !lit.Pos)) {
					good++
				}
			}
			signOK = good == 2
		}
		d1, d2 := desc(ls[1]), desc(ls[2])
		numOK = d1 == "recordstore.leadingZeros((("+absOff+" / 60) / 60), 2)" && d2 == "recordstore.leadingZeros((("+absOff+" / 60) % 60), 2)"
	}
	c.Check("C26.zone", "timeLocationEncode: returns \"Z\" exactly for offset 0", zOK, p.Pos(tle.Pos()), "")
	c.Check("C26.zone", "timeLocationEncode: sign is + for positive and - for negative offsets", signOK, p.Pos(tle.Pos()), "")
	c.Check("C26.zone", "timeLocationEncode: emits hh = |off|/3600 and mm = (|off|/60)%60 as two digits each", numOK, p.Pos(tle.Pos()), "")
	dzOK, dnumOK := false, false
	for _, r := range returnsOf(tld) {
		v := retVal(r, 0)
		if desc(v) == "time.UTC" {
			rr := r
			dzOK = mustPassPred(tld, func(i ssa.Instruction) bool { return i == ssa.Instruction(rr) }, func(l Lit) bool { return l.Pos && l.Atom == `($0 == "Z")` }) == nil
			continue
		}
		cl, ok := v.(*ssa.Call)
		if !ok || calleeName(&cl.Call) != "time.FixedZone" {
			continue
		}
		m, ok := cl.Call.Args[1].(*ssa.BinOp)
		if !ok || m.Op != token.MUL {
			continue
		}
		sign, isPhi := m.X.(*ssa.Phi)
		mag := m.Y
		if !isPhi {
			sign, isPhi = m.Y.(*ssa.Phi)
			mag = m.X
		}
		if !isPhi || len(sign.Edges) != 2 {
			continue
		}
		good := 0
		for k, e := range sign.Edges {
			n, _ := constBig(e)
			pred := sign.Block().Preds[k]
			lit, has := edgeLit(pred, sign.Block())
			if !has && len(pred.Preds) == 1 {
				lit, has = edgeLit(pred.Preds[0], pred)
			}
			if n != nil && has && lit.Atom == "($0[0] == 43)" && ((n.Int64() == 1 && lit.Pos) || (n.Int64() == -1 && !lit.Pos)) {
				good++
			}
		}
		dnumOK = good == 2 && desc(mag) == "((strconv.ParseInt($0[1:3], 10, 32)#0 * 3600) + (strconv.ParseInt($0[3:5], 10, 32)#0 * 60))"
	}
	c.Check("C26.zone", "timeLocationDecode: \"Z\" is UTC", dzOK, p.Pos(tld.Pos()), "")
	c.Check("C26.zone", "timeLocationDecode: offset = (+1 iff s[0]=='+', else -1) * (s[1:3]*3600 + s[3:5]*60)", dnumOK, p.Pos(tld.Pos()), "")
}

// decodeAnchoring decides whether Path.Decode only accepts whole names: the
// pattern passed to regexp.MustCompile is "^" + ... + "$", or every
// `return true` is dominated by matches[0] == candidate. It also returns the
// top of the placeholder substitution chain and the FindStringSubmatch calls.
func decodeAnchoring(dec *ssa.Function, mc *ssa.Call) (anchored bool, chainTop ssa.Value, fsm []ssa.Instruction) {
	arg := mc.Call.Args[0]
	leaves := addLeaves(arg)
	chainTop = arg
	if len(leaves) >= 3 {
		first, ok1 := ssaConstString(leaves[0])
		last, ok2 := ssaConstString(leaves[len(leaves)-1])
		if ok1 && ok2 && strings.HasPrefix(first, "^") && strings.HasSuffix(last, "$") && !strings.HasSuffix(last, "\\$") {
			anchored = true
		}
		for _, l := range leaves {
			if _, isC := ssaConstString(l); !isC {
				chainTop = l
			}
		}
	}
	fsm = callsIn(dec, "(*regexp.Regexp).FindStringSubmatch")
	if !anchored && len(fsm) == 1 {
		want := desc(fsm[0].(ssa.Value)) + "[0]"
		anchored = mustPassPred(dec, retBool(0, true), func(l Lit) bool {
			return l.Pos && (l.Atom == "("+want+" == $2)" || l.Atom == "($2 == "+want+")")
		}) == nil
	}
	return
}
