package main

import (
	"go/token"
	"go/types"
	"sort"
	"strings"

	"golang.org/x/tools/go/ssa"
)

// C03 (round 3) - "admitted for exactly that path name AND for the matching
// action": a permission is the PAIR (action, path) of ONE entry of the
// permission list. A decision function that establishes "some entry grants the
// action" and "some entry matches the path" separately admits a user holding
// {publish: A} and {read: B} to publish on B.
//
// Rule C03.perm.same_entry, over every boolean decision function of the module
// that branches on the Path of an element of a []conf.AuthInternalUserPermission
// (today: auth.matchesPermission, which internal users, JWT claims and the
// HTTP/JWT exclude lists all go through):
//
//   entry k     = an element of the list, identified by the SSA value of its
//                 index (one value per loop iteration);
//   A_k         = a branch condition `e.Action == request.Action` where e is
//                 entry k (through a copy of the element, a pointer to it, or a
//                 parameter of an extracted helper);
//   P_k         = a branch condition whose value depends on the Path of entry k.
//
//   For every k: there is no execution path  entry -> P_k -> return (not
//   constant false)  that stays in the iteration of k after P_k and never
//   takes an edge on which A_k holds.
//
// Both orders (action first / path first), merged or split guards, an
// extracted path matcher, `for i := range` vs `for _, p := range`, a result
// flag instead of early returns leave the verdict unchanged; the names of
// locals, the number of statements and the text of the conditions are not
// looked at. The textual shape of the path alternatives is C01's business.

const c03PermType = "conf.AuthInternalUserPermission"

type c03Entry struct {
	key  string    // identifies (list, index value)
	idx  ssa.Value // index value (nil when unknown)
	base string
}

func c03IdxKey(v ssa.Value) string {
	if c, ok := v.(*ssa.Const); ok {
		return "const:" + desc(c)
	}
	fn := ""
	if i, ok := v.(ssa.Instruction); ok && i.Parent() != nil {
		fn = i.Parent().String()
	} else if pa, ok := v.(*ssa.Parameter); ok {
		fn = pa.Parent().String()
	}
	return fn + ":" + v.Name()
}

// c03EntriesOf: the list elements a value of type Perm / *Perm denotes.
func c03EntriesOf(v ssa.Value, seen map[ssa.Value]bool) []c03Entry {
	if v == nil || seen[v] {
		return nil
	}
	seen[v] = true
	defer delete(seen, v)
	switch x := v.(type) {
	case *ssa.IndexAddr:
		return []c03Entry{{key: desc(x.X) + "[" + c03IdxKey(x.Index) + "]", idx: x.Index, base: desc(x.X)}}
	case *ssa.Index:
		return []c03Entry{{key: desc(x.X) + "[" + c03IdxKey(x.Index) + "]", idx: x.Index, base: desc(x.X)}}
	case *ssa.UnOp:
		if x.Op == token.MUL {
			return c03EntriesOf(x.X, seen)
		}
	case *ssa.ChangeType:
		return c03EntriesOf(x.X, seen)
	case *ssa.Alloc:
		var out []c03Entry
		n := 0
		for _, r := range *x.Referrers() {
			if st, ok := r.(*ssa.Store); ok && st.Addr == ssa.Value(x) {
				n++
				out = append(out, c03EntriesOf(st.Val, seen)...)
			}
		}
		if n > 0 {
			return out
		}
	case *ssa.Phi:
		var out []c03Entry
		for _, e := range x.Edges {
			out = append(out, c03EntriesOf(e, seen)...)
		}
		return out
	case *ssa.Parameter:
		if info := helperIdx[x.Parent()]; info != nil {
			k := paramIndex(x)
			var out []c03Entry
			for _, site := range info.sites {
				if k >= 0 && k < len(site.Call.Args) {
					out = append(out, c03EntriesOf(site.Call.Args[k], seen)...)
				}
			}
			return out
		}
	}
	return []c03Entry{{key: "?" + desc(v), base: desc(v)}}
}

// c03PermField: v reads field `field` of a permission entry.
func c03PermField(v ssa.Value) (entries []c03Entry, field string, ok bool) {
	v = stripConv(v)
	var base ssa.Value
	switch x := v.(type) {
	case *ssa.UnOp:
		if x.Op != token.MUL {
			return nil, "", false
		}
		fa, isFA := x.X.(*ssa.FieldAddr)
		if !isFA {
			return nil, "", false
		}
		pt := fa.X.Type().Underlying().(*types.Pointer)
		if typeStr(pt.Elem()) != c03PermType {
			return nil, "", false
		}
		field, base = pt.Elem().Underlying().(*types.Struct).Field(fa.Field).Name(), fa.X
	case *ssa.Field:
		if typeStr(x.X.Type()) != c03PermType {
			return nil, "", false
		}
		field, base = x.X.Type().Underlying().(*types.Struct).Field(x.Field).Name(), x.X
	default:
		return nil, "", false
	}
	return c03EntriesOf(base, map[ssa.Value]bool{}), field, true
}

// c03Deps: the (entry, field) reads a value is computed from.
func c03Deps(v ssa.Value, seen map[ssa.Value]bool, out map[string]c03Entry, field string) {
	if v == nil || seen[v] {
		return
	}
	seen[v] = true
	if es, f, ok := c03PermField(v); ok {
		if f == field {
			for _, e := range es {
				out[e.key] = e
			}
		}
		return
	}
	switch x := v.(type) {
	case *ssa.Const, *ssa.Global, *ssa.Function, *ssa.Builtin, *ssa.FreeVar:
		return
	case *ssa.Parameter:
		if info := helperIdx[x.Parent()]; info != nil {
			k := paramIndex(x)
			for _, site := range info.sites {
				if k >= 0 && k < len(site.Call.Args) {
					c03Deps(site.Call.Args[k], seen, out, field)
				}
			}
		}
		return
	case *ssa.UnOp:
		if a, ok := x.X.(*ssa.Alloc); ok && x.Op == token.MUL {
			for _, r := range *a.Referrers() {
				if st, ok := r.(*ssa.Store); ok && st.Addr == ssa.Value(a) {
					c03Deps(st.Val, seen, out, field)
				}
			}
			return
		}
	case *ssa.Call:
		if h := newHelperCallee(x); h != nil {
			for _, b := range h.Blocks {
				for _, ins := range b.Instrs {
					if r, ok := ins.(*ssa.Return); ok {
						for _, rv := range r.Results {
							c03Deps(rv, seen, out, field)
						}
					}
				}
			}
		}
	}
	if ins, ok := v.(ssa.Instruction); ok {
		for _, op := range ins.Operands(nil) {
			if op != nil && *op != nil {
				c03Deps(*op, seen, out, field)
			}
		}
	}
}

func c03StripNot(v ssa.Value) ssa.Value {
	for {
		u, ok := v.(*ssa.UnOp)
		if !ok || u.Op != token.NOT {
			return v
		}
		v = u.X
	}
}

// c03ActionTest: cond is `entry.Action == request.Action` (either operand
// order, == or !=); returns the entries.
func c03ActionTest(cond ssa.Value) ([]c03Entry, bool) {
	b, ok := c03StripNot(cond).(*ssa.BinOp)
	if !ok || (b.Op != token.EQL && b.Op != token.NEQ) {
		return nil, false
	}
	isReqAction := func(v ssa.Value) bool {
		sn, f, _, ok := fieldLoad(v)
		return ok && sn == "auth.Request" && f == "Action"
	}
	for _, o := range [][2]ssa.Value{{b.X, b.Y}, {b.Y, b.X}} {
		if es, f, ok := c03PermField(o[0]); ok && f == "Action" && isReqAction(o[1]) {
			return es, true
		}
	}
	return nil, false
}

// c03CondsOf: the condition of an If and, when it is a boolean phi of the
// branching block, the values merged into it (the walker resolves those per
// incoming edge).
func c03CondsOf(ifi *ssa.If) []ssa.Value {
	out := []ssa.Value{ifi.Cond}
	if ph, ok := c03StripNot(ifi.Cond).(*ssa.Phi); ok && ph.Block() == ifi.Block() {
		out = append(out, ph.Edges...)
	}
	return out
}

func (c *Ctx) c03SameEntry(p *Prog) {
	nFuncs := 0
	for _, fn := range p.ModFuncs() {
		if fn.Parent() != nil || fn.Blocks == nil || isNewHelper(fn) {
			continue
		}
		res := fn.Signature.Results()
		if res.Len() == 0 {
			continue
		}
		if bt, ok := res.At(0).Type().Underlying().(*types.Basic); !ok || bt.Kind() != types.Bool {
			continue
		}
		// path tests per entry
		pathTests := map[string][]*ssa.If{}
		entries := map[string]c03Entry{}
		eachInstr(fn, func(i ssa.Instruction) {
			ifi, ok := i.(*ssa.If)
			if !ok {
				return
			}
			deps := map[string]c03Entry{}
			c03Deps(ifi.Cond, map[ssa.Value]bool{}, deps, "Path")
			for k, e := range deps {
				pathTests[k] = append(pathTests[k], ifi)
				entries[k] = e
			}
		})
		if len(pathTests) == 0 {
			continue
		}
		nFuncs++
		c.Analysed(fnName(fn))
		var keys []string
		for k := range pathTests {
			keys = append(keys, k)
		}
		sort.Strings(keys)
		bad := map[string]string{}   // list description -> witness
		seenBase := map[string]int{} // list description -> entries checked
		var posBad string
		for _, k := range keys {
			e := entries[k]
			seenBase[e.base]++
			if e.idx == nil {
				bad[e.base] = "cannot identify which element of the list " + e.base + " is tested"
				posBad = p.Pos(posOf(pathTests[k][0], pathTests[k][0].Parent()))
				continue
			}
			// the block whose execution starts a new iteration (redefines the index)
			var iterBlock *ssa.BasicBlock
			if ins, ok := e.idx.(ssa.Instruction); ok {
				iterBlock = ins.Block()
			}
			var cur *ssa.If
			holdsAk := func(l Lit) bool {
				if cur == nil || !l.Pos {
					return false
				}
				for _, cv := range c03CondsOf(cur) {
					es, ok := c03ActionTest(cv)
					if !ok || len(es) != 1 || es[0].key != k {
						continue
					}
					if litOf(c03StripNot(cv), true).Atom == l.Atom || litOf(c03StripNot(cv), false).Atom == l.Atom {
						return true
					}
				}
				return false
			}
			// phase 1: what is reachable from the entry without an edge on which A_k holds
			reached := map[ssa.Instruction]bool{}
			(&Walker{
				Visit: func(i ssa.Instruction) int {
					reached[i] = true
					cur, _ = i.(*ssa.If)
					return wContinue
				},
				Edge: func(l Lit) bool { return !holdsAk(l) },
			}).Run(entry(fn))
			// phase 2: from a reached path test of entry k, still without A_k and
			// within the iteration, to a return that may be true
			for _, pt := range pathTests[k] {
				if !reached[pt] {
					continue
				}
				cur = pt
				w := (&Walker{
					Visit: func(i ssa.Instruction) int {
						cur, _ = i.(*ssa.If)
						if iterBlock != nil && i.Block() == iterBlock {
							return wStop
						}
						if r, ok := i.(*ssa.Return); ok && len(r.Results) >= 1 {
							if v, isC := constBool(retVal(r, 0)); !(isC && !v) {
								return wHit
							}
						}
						return wContinue
					},
					Edge: func(l Lit) bool { return !holdsAk(l) },
				}).Run(after(pt))
				if w != nil {
					if _, dup := bad[e.base]; !dup {
						bad[e.base] = "the path test at " + p.Pos(posOf(pt, pt.Parent())) + " is reached, and leads to an admitting return, without `<that entry>.Action == request.Action` having held in the same iteration: " + w.String(p)
						posBad = p.Pos(posOf(pt, pt.Parent()))
					}
				}
			}
		}
		var bases []string
		for b := range seenBase {
			bases = append(bases, b)
		}
		sort.Strings(bases)
		for _, b := range bases {
			w, isBad := bad[b]
			pos := p.Pos(fn.Pos())
			if isBad {
				pos = posBad
			}
			c.Check("C03.perm.same_entry", fnName(fn)+": an admission that depends on the Path of an entry of "+b+" requires the Action of that same entry to equal the request's action", !isBad, pos,
				strings.TrimSpace(w+" (a permission binds ONE action to ONE path; matching them against different entries admits {publish:A},{read:B} to publish on B)"))
		}
	}
	c.Floor("C03.perm.same_entry", nFuncs, 1)
}
