package main

// Tolerance to "extract function" refactorings (DESIGN.md section 11).
//
// The rules are written against the functions of the tree they were confirmed
// on (baseline_funcs.txt). A function that is not in that list, is only ever
// called statically, and has a body, is a NEW HELPER: code that used to sit in
// one of the baseline functions (or new code). New helpers are analysed as
// part of their callers instead of being reported as unknown callees:
//
//   - desc: a parameter of a new helper is described by the arguments of its
//     call sites (merged when they differ), and a call to a new helper by the
//     values it returns - so `pa := pm.findOrCreatePath(conf, name, m)` and
//     the three statements it replaced have the same description;
//   - eachInstr: iterating a function also yields the instructions of the new
//     helpers it calls (their returns excepted), and iterating a new helper on
//     its own yields nothing - who-may-write/who-may-call rules attribute the
//     helper's effects to the baseline function that reaches them;
//   - Walker: a call to a new helper is entered, and its returns continue
//     after the call (context-sensitive, depth <= 4).
//
// Inlining preserves behaviour, so no violation is hidden by it; on a tree
// without new helpers nothing here is active.

import (
	_ "embed"
	"go/token"
	"go/types"
	"os"
	"path/filepath"
	"sort"
	"strings"

	"golang.org/x/tools/go/ssa"
)

//go:embed baseline_funcs.txt
var baselineFuncsTxt string

// baselineFuncs: name -> signature (without receiver) of every named function
// of the baseline tree.
var baselineFuncs = func() map[string]string {
	m := map[string]string{}
	for _, l := range strings.Split(baselineFuncsTxt, "\n") {
		if l = strings.TrimSpace(l); l != "" && !strings.HasPrefix(l, "#") {
			name, rest, _ := strings.Cut(l, "\t")
			m[name] = rest // signature \t configurations in which the function exists
		}
	}
	return m
}()

func inBaseline(key string) bool { _, ok := baselineFuncs[key]; return ok }

func sigKey(f *ssa.Function) string {
	return types.TypeString(types.NewSignatureType(nil, nil, nil, f.Signature.Params(), f.Signature.Results(), f.Signature.Variadic()), nil)
}

// Renamed anchors. A baseline function that no longer exists, when exactly one
// new function of the same package, receiver and signature exists (and it is
// the only baseline function of that receiver and signature that disappeared), was
// renamed: the new function answers to the old name (lookups, descriptions,
// callee names). If the guess is wrong the rules written for the old function
// fail on the new one - which is what an unresolved anchor does anyway.
var aliasOld = map[*ssa.Function]string{}

func aliasName(f *ssa.Function) string {
	if len(aliasOld) > 0 {
		if a, ok := aliasOld[f]; ok {
			return a
		}
	}
	return f.Name()
}

// aliasString rewrites the new name to the old one in f.String()-style text.
func aliasString(f *ssa.Function, s string) string {
	if len(aliasOld) == 0 {
		return s
	}
	root := f
	for root.Parent() != nil {
		root = root.Parent()
	}
	old, ok := aliasOld[root]
	if !ok {
		return s
	}
	if i := strings.LastIndex(s, "."+root.Name()); i >= 0 {
		rest := s[i+1+len(root.Name()):]
		if rest == "" || rest[0] == '$' {
			return s[:i+1] + old + rest
		}
	}
	return s
}

func recvTypeName(f *ssa.Function) string {
	r := f.Signature.Recv()
	if r == nil {
		return ""
	}
	t := r.Type()
	if pt, ok := t.(*types.Pointer); ok {
		t = pt.Elem()
	}
	if n, ok := t.(*types.Named); ok {
		return n.Obj().Name()
	}
	return "?"
}

func aliasLookup(pkgPath, recv, name string) *ssa.Function {
	for f, old := range aliasOld {
		if old == name && funcPkgPath(f) == pkgPath && recvTypeName(f) == recv {
			return f
		}
	}
	return nil
}

// indexRenames pairs vanished baseline functions with new functions.
func (p *Prog) indexRenames(newFuncs []*ssa.Function) map[*ssa.Function]bool {
	renamed := map[*ssa.Function]bool{}
	if len(newFuncs) == 0 {
		return renamed
	}
	present := map[string]bool{}
	for f := range p.AllFuncs() {
		if inModule(f) && f.Parent() == nil && f.Synthetic == "" {
			present[baselineKey(f)] = true
		}
	}
	// group key: everything of the name but the last component, plus the signature
	group := func(key, sig string) (string, string) {
		i := strings.LastIndex(key, ".")
		return key[:i] + "|" + sig, key[i+1:]
	}
	// only packages that are loaded in this configuration can lose functions
	loaded := map[string]bool{}
	for _, pk := range p.Pkgs {
		loaded[strings.TrimPrefix(pk.PkgPath, modPath+"/")] = true
	}
	pkgOfKey := func(key string) string {
		k := strings.TrimLeft(key, "(*")
		if i := strings.LastIndex(k, "/"); i >= 0 {
			if j := strings.Index(k[i:], "."); j >= 0 {
				return k[:i+j]
			}
		}
		if j := strings.Index(k, "."); j >= 0 {
			return k[:j]
		}
		return k
	}
	gone := map[string][]string{}
	cfgName := p.Cfg.GOOS + "/" + p.Cfg.GOARCH
	for key, rest := range baselineFuncs {
		sig, cfgs, _ := strings.Cut(rest, "\t")
		if present[key] || !loaded[pkgOfKey(key)] || !strings.Contains(","+cfgs+",", ","+cfgName+",") {
			continue
		}
		g, name := group(key, sig)
		gone[g] = append(gone[g], name)
	}
	fresh := map[string][]*ssa.Function{}
	for _, f := range newFuncs {
		g, _ := group(baselineKey(f), sigKey(f))
		fresh[g] = append(fresh[g], f)
	}
	for g, names := range gone {
		if len(names) == 1 && len(fresh[g]) == 1 {
			aliasOld[fresh[g][0]] = names[0]
			renamed[fresh[g][0]] = true
		}
	}
	return renamed
}

// inlineDisabled switches the whole mechanism off (-noinline, for comparison).
var inlineDisabled bool

// baselineKey names a function independently of the platform it was loaded for.
func baselineKey(f *ssa.Function) string {
	if o := f.Origin(); o != nil {
		f = o
	}
	return fnName(f)
}

// helperInfo describes a new helper: its static call sites.
type helperInfo struct {
	sites []*ssa.Call
	// tail: every call site is `return h(...)` - the helper's returns then
	// stand for the caller's (forwarding) return
	tail bool
}

// forwardedBy returns the Return that hands the results of the call straight
// to the caller's caller (`return h(...)`), or nil.
func forwardedBy(c *ssa.Call) *ssa.Return {
	refs := c.Referrers()
	if refs == nil || len(*refs) == 0 {
		return nil
	}
	n := c.Call.Signature().Results().Len()
	if n == 1 {
		if len(*refs) != 1 {
			return nil
		}
		r, ok := (*refs)[0].(*ssa.Return)
		if !ok || len(r.Results) != 1 || r.Results[0] != ssa.Value(c) {
			return nil
		}
		return r
	}
	var ret *ssa.Return
	for _, ref := range *refs {
		ex, ok := ref.(*ssa.Extract)
		if !ok || ex.Referrers() == nil || len(*ex.Referrers()) != 1 {
			return nil
		}
		r, ok := (*ex.Referrers())[0].(*ssa.Return)
		if !ok || len(r.Results) != n || ex.Index >= len(r.Results) || r.Results[ex.Index] != ssa.Value(ex) || (ret != nil && ret != r) {
			return nil
		}
		ret = r
	}
	if ret == nil || len(*refs) != n {
		return nil
	}
	return ret
}

// isForwarder: the Return forwards the results of a tail-called new helper.
func isForwarder(r *ssa.Return) bool {
	if len(helperIdx) == 0 || len(r.Results) == 0 {
		return false
	}
	v := r.Results[0]
	if ex, ok := v.(*ssa.Extract); ok {
		v = ex.Tuple
	}
	c, ok := v.(*ssa.Call)
	if !ok {
		return false
	}
	h := newHelperCallee(c)
	return h != nil && helperIdx[h].tail && forwardedBy(c) == r
}

// helperIdx maps every covered new helper of the loaded programs to its info.
var helperIdx = map[*ssa.Function]*helperInfo{}

// indexHelpers finds the new helpers of a freshly built program.
func (p *Prog) indexHelpers() {
	if inlineDisabled || p.SSA == nil {
		return
	}
	cand := map[*ssa.Function]*helperInfo{}
	for f := range p.AllFuncs() {
		// an instantiation of a generic function is synthetic, but it is the body
		// that runs: a new generic helper is inlined per instantiation
		if !inModule(f) || f.Blocks == nil || f.Parent() != nil || (f.Synthetic != "" && f.Origin() == nil) {
			continue
		}
		if f.Name() == "init" || f.Name() == "main" || inBaseline(baselineKey(f)) {
			continue
		}
		cand[f] = &helperInfo{}
	}
	if len(cand) == 0 {
		return
	}
	var fresh []*ssa.Function
	for f := range cand {
		fresh = append(fresh, f)
	}
	for f := range p.indexRenames(fresh) {
		delete(cand, f) // a renamed baseline function is not a helper
	}
	// every use must be a plain static call from a function with a body
	bad := map[*ssa.Function]bool{}
	for f := range p.AllFuncs() {
		if f.Blocks == nil {
			continue
		}
		for _, b := range f.Blocks {
			for _, ins := range b.Instrs {
				c, isCall := ins.(*ssa.Call)
				for _, op := range ins.Operands(nil) {
					if op == nil || *op == nil {
						continue
					}
					h, ok := (*op).(*ssa.Function)
					if !ok || cand[h] == nil {
						continue
					}
					if !isCall || c.Call.IsInvoke() || op != &c.Call.Value {
						bad[h] = true // go/defer, method value, stored or passed as a value
					}
				}
				if isCall && !c.Call.IsInvoke() {
					if h, ok := c.Call.Value.(*ssa.Function); ok && cand[h] != nil {
						cand[h].sites = append(cand[h].sites, c)
					}
				}
			}
		}
	}
	for h, info := range cand {
		if bad[h] || len(info.sites) == 0 || recursiveHelper(h, cand) {
			continue
		}
		sort.Slice(info.sites, func(i, j int) bool { return info.sites[i].Pos() < info.sites[j].Pos() })
		info.tail = h.Signature.Results().Len() > 0
		for _, site := range info.sites {
			if forwardedBy(site) == nil {
				info.tail = false
			}
		}
		helperIdx[h] = info
	}
}

// recursiveHelper: h reaches itself through calls to candidate helpers.
func recursiveHelper(h *ssa.Function, cand map[*ssa.Function]*helperInfo) bool {
	seen := map[*ssa.Function]bool{}
	var visit func(f *ssa.Function) bool
	visit = func(f *ssa.Function) bool {
		for _, b := range f.Blocks {
			for _, ins := range b.Instrs {
				c, ok := ins.(*ssa.Call)
				if !ok {
					continue
				}
				g, ok := c.Call.Value.(*ssa.Function)
				if !ok || cand[g] == nil {
					continue
				}
				if g == h {
					return true
				}
				if !seen[g] {
					seen[g] = true
					if visit(g) {
						return true
					}
				}
			}
		}
		return false
	}
	return visit(h)
}

// newHelperCallee returns the new helper called by the instruction, or nil.
func newHelperCallee(ins ssa.Instruction) *ssa.Function {
	if len(helperIdx) == 0 {
		return nil
	}
	c, ok := ins.(*ssa.Call)
	if !ok || c.Call.IsInvoke() {
		return nil
	}
	f, ok := c.Call.Value.(*ssa.Function)
	if !ok || helperIdx[f] == nil {
		return nil
	}
	return f
}

func isNewHelper(f *ssa.Function) bool { return len(helperIdx) > 0 && helperIdx[f] != nil }

// helperParamDesc describes a parameter of a new helper by the arguments
// passed at its call sites.
func helperParamDesc(x *ssa.Parameter, rec func(ssa.Value) string) (string, bool) {
	info := helperIdx[x.Parent()]
	if info == nil {
		return "", false
	}
	k := paramIndex(x)
	var es []string
	dup := map[string]bool{}
	for _, site := range info.sites {
		if k < 0 || k >= len(site.Call.Args) {
			return "", false
		}
		s := rec(site.Call.Args[k])
		if !dup[s] {
			dup[s] = true
			es = append(es, s)
		}
	}
	sort.Strings(es)
	if len(es) == 1 {
		return es[0], true
	}
	return "phi(" + strings.Join(es, " | ") + ")", true
}

// descBind binds a new helper to the call site it is currently being
// described for (a Walker frame, or the inlining of one call's result): its
// parameters are then described by that call's arguments instead of the merge
// over all call sites.
var descBind = map[*ssa.Function]*ssa.Call{}

// helperResultDesc describes result idx of a call to a new helper by the
// values the helper returns.
func helperResultDesc(call *ssa.Call, h *ssa.Function, idx int, rec func(ssa.Value) string) (string, bool) {
	if prev, had := descBind[h]; !had || prev != call {
		descBind[h] = call
		defer func() {
			if had {
				descBind[h] = prev
			} else {
				delete(descBind, h)
			}
		}()
	}
	var es []string
	dup := map[string]bool{}
	for _, b := range h.Blocks {
		for _, ins := range b.Instrs {
			r, ok := ins.(*ssa.Return)
			if !ok {
				continue
			}
			if idx >= len(r.Results) {
				return "", false
			}
			s := rec(retVal(r, idx)) // looks through the result slots of a helper with defers
			if !dup[s] {
				dup[s] = true
				es = append(es, s)
			}
		}
	}
	if len(es) == 0 {
		return "", false
	}
	sort.Strings(es)
	if len(es) == 1 {
		return es[0], true
	}
	return "phi(" + strings.Join(es, " | ") + ")", true
}

// eachInstrDeep yields the instructions of fn and, after each call to a new
// helper, the helper's instructions (once per top-level iteration). Returns of
// helpers are not yielded, except those of tail-called helpers, which replace
// the caller's forwarding return.
func eachInstrDeep(fn *ssa.Function, f func(ssa.Instruction), done map[*ssa.Function]bool, depth int, yieldReturns bool) {
	for _, b := range fn.Blocks {
		for _, i := range b.Instrs {
			if r, isRet := i.(*ssa.Return); isRet {
				if !yieldReturns || (isForwarder(r) && depth < 6) {
					continue
				}
			}
			f(i)
			if h := newHelperCallee(i); h != nil && !done[h] && depth < 6 {
				done[h] = true
				eachInstrDeep(h, f, done, depth+1, yieldReturns && helperIdx[h].tail)
			}
		}
	}
}

// writeBaseline records the named functions of the current tree (all the
// configurations the properties are checked for).
func writeBaseline() error {
	names := map[string][]string{}
	for _, cfg := range []LoadCfg{{GOOS: "linux", GOARCH: "amd64"}, {GOOS: "windows", GOARCH: "amd64"}, {GOOS: "linux", GOARCH: "arm"}, {GOOS: "darwin", GOARCH: "arm64"}, {GOOS: "linux", GOARCH: "386"}, {GOOS: "linux", GOARCH: "arm64"}} {
		inlineDisabled = true
		p, err := Load(cfg)
		if err != nil {
			return err
		}
		for f := range p.AllFuncs() {
			if inModule(f) && f.Parent() == nil && f.Synthetic == "" {
				k := baselineKey(f) + "\t" + sigKey(f)
				names[k] = append(names[k], cfg.GOOS+"/"+cfg.GOARCH)
			}
		}
	}
	var out []string
	for n, cfgs := range names {
		out = append(out, n+"\t"+strings.Join(cfgs, ","))
	}
	sort.Strings(out)
	hdr := "# name <TAB> signature <TAB> configurations: the named functions of the tree the rules were confirmed on. A function not listed here that is only called statically is analysed as part of its callers; a listed function that vanished while one new function of the same receiver and signature appeared is taken as renamed (inline.go)\n"
	return os.WriteFile(filepath.Join(verifDir, "checker", "baseline_funcs.txt"), []byte(hdr+strings.Join(out, "\n")+"\n"), 0o644)
}

// phiAlts splits a merged description "phi(a | b | c)" into its alternatives
// (any other description is its own single alternative).
func phiAlts(d string) []string {
	if !strings.HasPrefix(d, "phi(") || !strings.HasSuffix(d, ")") {
		return []string{d}
	}
	body := d[4 : len(d)-1]
	var out []string
	depth, start := 0, 0
	for i := 0; i < len(body); i++ {
		switch body[i] {
		case '(', '[':
			depth++
		case ')', ']':
			depth--
			if depth < 0 {
				return []string{d} // "phi(a) + (b)": not a single phi
			}
		case ' ':
			if depth == 0 && strings.HasPrefix(body[i:], " | ") {
				out = append(out, body[start:i])
				start = i + 3
				i += 2
			}
		}
	}
	return append(out, body[start:])
}

// freeVarAlias: a captured local that merely names a selection from another
// captured variable or parameter (`pathConf := params.Conf`) is described as
// that selection, so introducing or removing such a local does not change
// descriptions inside the closure.
func freeVarAlias(fv *ssa.FreeVar) (string, bool) {
	fn := fv.Parent()
	if fn == nil || fn.Parent() == nil {
		return "", false
	}
	idx := -1
	for i, v := range fn.FreeVars {
		if v == fv {
			idx = i
		}
	}
	if idx < 0 {
		return "", false
	}
	var mc *ssa.MakeClosure
	n := 0
	for _, b := range fn.Parent().Blocks {
		for _, ins := range b.Instrs {
			if m, ok := ins.(*ssa.MakeClosure); ok && m.Fn == ssa.Value(fn) {
				mc = m
				n++
			}
		}
	}
	if n != 1 || idx >= len(mc.Bindings) {
		return "", false
	}
	a, ok := mc.Bindings[idx].(*ssa.Alloc)
	if !ok {
		return "", false
	}
	sv := singleStore(a)
	if sv == nil {
		return "", false
	}
	if _, isParam := sv.(*ssa.Parameter); isParam {
		return "", false // the spill slot of a captured parameter: named as today
	}
	return aliasPath(sv, 0)
}

func aliasPath(v ssa.Value, depth int) (string, bool) {
	if depth > 8 {
		return "", false
	}
	switch x := v.(type) {
	case *ssa.UnOp:
		if x.Op == token.MUL {
			return aliasPath(x.X, depth+1)
		}
	case *ssa.FieldAddr:
		st := x.X.Type().Underlying().(*types.Pointer).Elem().Underlying().(*types.Struct)
		s, ok := aliasPath(x.X, depth+1)
		return s + "." + st.Field(x.Field).Name(), ok
	case *ssa.Field:
		st := x.X.Type().Underlying().(*types.Struct)
		s, ok := aliasPath(x.X, depth+1)
		return s + "." + st.Field(x.Field).Name(), ok
	case *ssa.Parameter:
		return x.Name(), true
	case *ssa.FreeVar:
		if a, ok := freeVarAlias(x); ok {
			return a, true
		}
		return x.Name(), true
	case *ssa.Alloc:
		if sv := singleStore(x); sv != nil {
			if p, ok := sv.(*ssa.Parameter); ok {
				return p.Name(), true
			}
			return aliasPath(sv, depth+1)
		}
		if x.Comment != "" && x.Comment != "complit" && !strings.HasPrefix(x.Comment, "new") {
			return x.Comment, true
		}
	}
	return "", false
}
