package main

import (
	"go/types"
	"strings"

	"golang.org/x/tools/go/ssa"
)

// C37.record - the record reaches every destination unchanged.
//
// The record is what Logger.Log(level, format, args...) is called with; its
// "formatted message" is fmt.Sprintf(format, args...) evaluated ONCE. Each
// destination formats what it receives (C37.message.formatted: the message
// written is fmt.Sprintf(format, args...) of log's own parameters), so the
// structured message field decodes to the record's formatted message only if
// the (format, args) pair handed to destination.log denotes the same text as
// the record's pair. Two shapes do:
//
//   - the enclosing function's format parameter and variadic parameter
//     themselves (on every path: no phi with another value), or
//   - a verbatim format ("%s" / "%v") with exactly one argument, which is
//     fmt.Sprintf(format, args...) of those parameters (formatted once, then
//     copied).
//
// Anything else - a text that was already formatted handed on as the FORMAT
// (every '%' that came out of an argument is interpreted a second time:
// "%2e" -> "%!e(MISSING)"), dropped or replaced arguments, a format with a
// prefix added - makes the message field differ from the record's message for
// some input. The level handed on must be the record's level parameter.
//
// A call made from an extracted helper is seen through the helper (desc
// resolves the parameters of a new helper to its call-site arguments).

func c37Record(c *Ctx, p *Prog) {
	n := 0
	for _, fn := range p.ModFuncs() {
		if !strings.HasSuffix(funcPkgPath(fn), "/internal/logger") {
			continue
		}
		eachInstr(fn, func(i ssa.Instruction) {
			cc := callCommon(i)
			if cc == nil || !c37IsDestLog(cc) {
				return
			}
			n++
			name := fnName(fn)
			pos := p.Pos(posOf(i, fn))
			// the record's parameters: (..., level Level, format string, args ...any)
			sig := fn.Signature
			np := sig.Params().Len()
			fmtIdx, argsIdx, lvlIdx := -1, -1, -1
			if sig.Variadic() && np >= 2 {
				if b, ok := sig.Params().At(np - 2).Type().Underlying().(*types.Basic); ok && b.Kind() == types.String {
					fmtIdx, argsIdx = np-2, np-1
				}
				for k := 0; k < np-2; k++ {
					if strings.HasSuffix(typeStr(sig.Params().At(k).Type()), "logger.Level") {
						lvlIdx = k
					}
				}
			}
			if sig.Recv() != nil {
				if fmtIdx >= 0 {
					fmtIdx, argsIdx = fmtIdx+1, argsIdx+1
				}
				if lvlIdx >= 0 {
					lvlIdx++
				}
			}
			if fmtIdx < 0 {
				c.Check("C37.record.message", name+": destination.log receives the record's (format, args)", false, pos,
					"the caller has no (format string, args ...any) parameters: the record cannot be identified")
				return
			}
			a := cc.Args
			if len(a) < 4 {
				c.Check("C37.record.message", name+": destination.log receives the record's (format, args)", false, pos, "unexpected call shape")
				return
			}
			fa, va, la := a[len(a)-2], a[len(a)-1], a[len(a)-3]
			pF, pA := "$"+itoa(fmtIdx), "$"+itoa(argsIdx)
			ok := desc(fa) == pF && desc(va) == pA
			how := "format=" + desc(fa) + " args=" + desc(va)
			if !ok {
				// formatted once, handed on verbatim
				if s, isC := constString(fa); isC && (s == "%s" || s == "%v") {
					if es := variadicElems(va); len(es) == 1 && es[0] != nil {
						// desc looks through boxing and through the parameters of an extracted helper
						if desc(es[0]) == "fmt.Sprintf("+pF+", "+pA+")" {
							ok = true
						}
					}
				}
			}
			c.Check("C37.record.message", name+": destination.log receives the record's (format, args)", ok, pos,
				how+" ; required: the caller's own format and variadic parameters ("+pF+", "+pA+") on every path, or (\"%s\", fmt.Sprintf("+pF+", "+pA+"...)). "+
					"The destination runs fmt.Sprintf on what it receives: a text that is already formatted must not be handed on as the format (every '%' produced by an argument would be interpreted again), and arguments must not be dropped")
			c.Check("C37.record.level", name+": destination.log receives the record's level", lvlIdx >= 0 && desc(la) == "$"+itoa(lvlIdx), pos, "level="+desc(la))
		})
	}
	c.Floor("C37.record.message", n, 1)
}

func c37IsDestLog(cc *ssa.CallCommon) bool {
	if cc.IsInvoke() {
		return cc.Method.Name() == "log" && strings.HasSuffix(typeStr(cc.Value.Type()), "logger.destination")
	}
	if f := cc.StaticCallee(); f != nil && f.Name() == "log" && f.Signature.Recv() != nil && strings.Contains(typeStr(f.Signature.Recv().Type()), "logger.destination") {
		return true
	}
	return false
}
