#!/bin/sh
# usage: agent_setup.sh <name>  -> creates /tmp/ruleagent_<name> as a private copy of /verif (no .git, no bin)
set -e
D=/tmp/ruleagent_$1
rm -rf "$D"; mkdir -p "$D"
cp -r /verif/checker /verif/DESIGN.md /verif/properties.jsonl /verif/build.sh "$D"/
[ -f /verif/known_findings.json ] && cp /verif/known_findings.json "$D"/ || echo '{"findings":[]}' > "$D"/known_findings.json
mkdir -p "$D/bin" "$D/evidence"
echo "$D"
