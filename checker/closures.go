package main

import "golang.org/x/tools/go/ssa"

// calledClosure returns the function literal invoked by a call whose callee
// is a closure value: directly a MakeClosure / Function, or a local variable
// holding exactly one such value.
func calledClosure(cc *ssa.CallCommon) *ssa.Function {
	if cc == nil || cc.IsInvoke() {
		return nil
	}
	v := cc.Value
	for k := 0; k < 4; k++ {
		switch x := v.(type) {
		case *ssa.MakeClosure:
			f, _ := x.Fn.(*ssa.Function)
			return f
		case *ssa.Function:
			return x
		case *ssa.UnOp:
			a, ok := x.X.(*ssa.Alloc)
			if !ok {
				return nil
			}
			sv := singleStore(a)
			if sv == nil {
				return nil
			}
			v = sv
		default:
			return nil
		}
	}
	return nil
}
