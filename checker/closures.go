package main

import "golang.org/x/tools/go/ssa"

// calledClosure returns the function literal invoked by a call whose callee
// is a closure value: directly a MakeClosure / Function, or a local variable
// holding exactly one such value.
func calledClosure(cc *ssa.CallCommon) *ssa.Function {
	if cc == nil || cc.IsInvoke() {
		return nil
	}
	v := cc.Value
	for k := 0; k < 4; k++ {
		switch x := v.(type) {
		case *ssa.MakeClosure:
			f, _ := x.Fn.(*ssa.Function)
			return f
		case *ssa.Function:
			return x
		case *ssa.UnOp:
			a, ok := x.X.(*ssa.Alloc)
			if !ok {
				return nil
			}
			sv := singleStore(a)
			if sv == nil {
				return nil
			}
			v = sv
		default:
			return nil
		}
	}
	return nil
}

// freeVarBindings maps the names of a closure's free variables to the values
// bound by the MakeClosure instruction in its parent function.
func freeVarBindings(fn *ssa.Function) map[string]ssa.Value {
	out := map[string]ssa.Value{}
	par := fn.Parent()
	if par == nil {
		return out
	}
	for _, b := range par.Blocks {
		for _, i := range b.Instrs {
			mc, ok := i.(*ssa.MakeClosure)
			if !ok || mc.Fn != ssa.Value(fn) {
				continue
			}
			for k, fv := range fn.FreeVars {
				if k < len(mc.Bindings) {
					out[fv.Name()] = mc.Bindings[k]
				}
			}
		}
	}
	return out
}

// subObligations runs another property's rule set on the same loaded programs
// and adopts the obligations selected by keep under new rule ids.
func subObligations(c *Ctx, run func(*Ctx), oldPrefix, newPrefix string, keep func(rule string) bool) {
	sub := newCtx(c.Prop, c.Tier, c.Seed)
	sub.progs, sub.overlay, sub.quiet, sub.curCfg = c.progs, c.overlay, true, c.curCfg
	run(sub)
	for _, o := range sub.Obls {
		if keep != nil && !keep(o.Rule) {
			continue
		}
		if len(o.Rule) >= len(oldPrefix) && o.Rule[:len(oldPrefix)] == oldPrefix {
			o.Rule = newPrefix + o.Rule[len(oldPrefix):]
		}
		c.Obls = append(c.Obls, o)
	}
	c.undecided = append(c.undecided, sub.undecided...)
}

// c09EnvPreserves: "an environment variable overrides the file value" of the
// parameter it names, not the whole entry: an UnmarshalEnv that delegates to
// env.Load(prefix, recv.F) must keep what the file put into recv.F - every
// store to recv.F in that method is guarded by recv.F == nil (seeded change
// C09 dropped the guard in OptionalPath.UnmarshalEnv: MTX_PATHS_X_* erased
// the other parameters of path X).
func c09EnvPreserves(c *Ctx, p *Prog) {
	n := 0
	for _, fn := range p.ModFuncs() {
		if fn.Name() != "UnmarshalEnv" || fn.Signature.Recv() == nil || !hasSuffixStr(funcPkgPath(fn), "/internal/conf") {
			continue
		}
		for _, ld := range callsIn(fn, "conf/env.Load") {
			args := callCommon(ld).Args
			if len(args) != 2 {
				continue
			}
			d := desc(args[1])
			if len(d) < 4 || d[:3] != "$0." {
				continue
			}
			n++
			field := d[3:]
			stores := 0
			eachInstr(fn, func(i ssa.Instruction) {
				st, ok := i.(*ssa.Store)
				if !ok || desc(st.Addr) != d {
					return
				}
				stores++
				ii := i
				c.MustPass(p, fn, "C09.env_preserves_file_values", "store to receiver."+field+" before env.Load", func(j ssa.Instruction) bool { return j == ii }, T("("+d+" == nil)"))
			})
			if stores == 0 {
				c.Check("C09.env_preserves_file_values", fnName(fn)+": env.Load fills the existing receiver."+field, true, p.Pos(fn.Pos()), "")
			}
		}
	}
	c.Floor("C09.env_preserves_file_values", n, 1)
}

func hasSuffixStr(s, suf string) bool { return len(s) >= len(suf) && s[len(s)-len(suf):] == suf }
