package main

import "golang.org/x/tools/go/ssa"

// calledClosure returns the function literal invoked by a call whose callee
// is a closure value: directly a MakeClosure / Function, or a local variable
// holding exactly one such value.
func calledClosure(cc *ssa.CallCommon) *ssa.Function {
	if cc == nil || cc.IsInvoke() {
		return nil
	}
	v := cc.Value
	for k := 0; k < 4; k++ {
		switch x := v.(type) {
		case *ssa.MakeClosure:
			f, _ := x.Fn.(*ssa.Function)
			return f
		case *ssa.Function:
			return x
		case *ssa.UnOp:
			a, ok := x.X.(*ssa.Alloc)
			if !ok {
				return nil
			}
			sv := singleStore(a)
			if sv == nil {
				return nil
			}
			v = sv
		default:
			return nil
		}
	}
	return nil
}

// freeVarBindings maps the names of a closure's free variables to the values
// bound by the MakeClosure instruction in its parent function.
func freeVarBindings(fn *ssa.Function) map[string]ssa.Value {
	out := map[string]ssa.Value{}
	par := fn.Parent()
	if par == nil {
		return out
	}
	for _, b := range par.Blocks {
		for _, i := range b.Instrs {
			mc, ok := i.(*ssa.MakeClosure)
			if !ok || mc.Fn != ssa.Value(fn) {
				continue
			}
			for k, fv := range fn.FreeVars {
				if k < len(mc.Bindings) {
					out[fv.Name()] = mc.Bindings[k]
				}
			}
		}
	}
	return out
}
