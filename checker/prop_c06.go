package main

import (
	"fmt"
	"go/token"
	"go/types"
	"regexp/syntax"
	"sort"
	"strings"

	"golang.org/x/tools/go/ssa"
)

// C06 - path names cannot escape the recording tree.

func init() {
	register(Property{ID: "C06", Level: "other", Run: runC06,
		Technique: "static analysis: must-pass-through path conditions on conf.IsValidPathName / conf.FindPathConf / (*conf.Path).validate (go/ssa), constant evaluation of the name charset pattern (regexp/syntax), whole-module origin classification of every value substituted for %path (field stores, call sites, dominating guards) and a who-may table of filesystem operations in the recording packages",
		Text:      "Decides: (1) IsValidPathName returns nil only after the non-empty, leading/trailing slash, charset (pattern constant admits exactly [0-9A-Za-z_-/.]) and dot-segment tests; (2) FindPathConf and Path.validate return success only for validated names (or regexp/all keys, which set Regexp); (3) every value substituted for %path anywhere in the module is a validated request name, a static configuration key, or tabled; decoded path names are validated before use; (4) the filesystem calls of recorder/recordstore/recordcleaner/api/playback are a closed table whose path arguments derive from those substitutions. Does not decide filepath/OS semantics or the contents of operator-chosen record path formats.",
		Note:      "trusted: regexp semantics, path/filepath, go/ssa dominator tree; configuration keys are operator-controlled; struct-field flow is flow-insensitive over all stores of the field in the module"})
	addMutants(
		Mutant{"C06", "drop-dot-segment-loop", "internal/conf/path.go",
			"	for segment := range strings.SplitSeq(name, \"/\") {\n		if segment == \".\" || segment == \"..\" {\n			return fmt.Errorf(\"can't contain dot path segments\")\n		}\n	}\n\n	return nil\n}\n\nfunc checkSRTPassphrase",
			"	return nil\n}\n\nfunc checkSRTPassphrase", "C06.valid_name.dot_segments"},
		Mutant{"C06", "dotdot-not-rejected", "internal/conf/path.go",
			`if segment == "." || segment == ".." {`, `if segment == "." {`, "C06.valid_name.dot_segments"},
		Mutant{"C06", "charset-admits-percent", "internal/conf/path.go",
			"`^[0-9a-zA-Z_\\-/\\.]+$`", "`^[0-9a-zA-Z_\\-/\\.%]+$`", "C06.valid_name.charset"},
		Mutant{"C06", "charset-unanchored", "internal/conf/path.go",
			"`^[0-9a-zA-Z_\\-/\\.]+$`", "`^[0-9a-zA-Z_\\-/\\.]+`", "C06.valid_name.charset"},
		Mutant{"C06", "trailing-slash-checks-second-char", "internal/conf/path.go",
			"if name[len(name)-1] == '/' {", "if name[len(name)/2] == '/' {", "C06.valid_name.trailing_slash"},
		Mutant{"C06", "findpathconf-skips-validation", "internal/conf/path.go",
			"	err := IsValidPathName(name)\n	if err != nil {\n		return nil, nil, fmt.Errorf(\"invalid path name: %w (%s)\", err, name)\n	}\n\n	// static path configuration",
			"	// static path configuration", "C06.find_path_conf"},
		Mutant{"C06", "static-name-not-validated", "internal/conf/path.go",
			"	case name == \"\" || name[0] != '~': // normal path\n		err := IsValidPathName(name)\n		if err != nil {\n			return fmt.Errorf(\"invalid path name '%s': %w\", name, err)\n		}\n",
			"	case name == \"\" || name[0] != '~': // normal path\n", "C06.validate.static_name"},
		Mutant{"C06", "findsegments-and-onget-unchecked", "internal/recordstore/segment.go",
			"	if err := conf.IsValidPathName(pathName); err != nil {\n		return nil, fmt.Errorf(\"invalid path name: %w (%s)\", err, pathName)\n	}\n",
			"	if err := conf.IsValidPathName(pathName); err != nil {\n		_ = fmt.Errorf(\"invalid path name: %w (%s)\", err, pathName) // result ignored\n	}\n", "C06.subst.origin"},
		Mutant{"C06", "decoded-name-unvalidated", "internal/recordstore/segment.go",
			"if err = conf.IsValidPathName(pa.Path); err == nil {", "if err == nil {", "C06.decoded_name"},
		Mutant{"C06", "api-delete-without-containment", "internal/api/api_recordings.go",
			"	segmentPath, err = absolutePathInside(commonPath, segmentPath)\n	if err != nil {\n		a.writeError(ctx, http.StatusBadRequest, err)\n		return\n	}\n", "", "C06.fs"},
		Mutant{"C06", "new-remove-site-in-api", "internal/api/api_recordings.go",
			"	ctx.JSON(http.StatusOK, recordingsOfPath(pathConf, pathName))\n",
			"	os.Remove(pathConf.RecordPath + pathName)\n	ctx.JSON(http.StatusOK, recordingsOfPath(pathConf, pathName))\n", "C06.fs"},
		Mutant{"C06", "recorder-uses-unvalidated-name", "internal/core/path_manager.go",
			"	pathConf, pathMatches, err := conf.FindPathConf(pm.pathConfs, req.AccessRequest.Name)\n	if err != nil {\n		req.Res <- defs.PathAddPublisherRes{Err: err}\n		return\n	}\n",
			"	pathConf, pathMatches, err := conf.FindPathConf(pm.pathConfs, req.AccessRequest.Name)\n	if err != nil && pathConf == nil {\n		pathConf = pm.pathConfs[\"all_others\"]\n	}\n	if pathConf == nil {\n		req.Res <- defs.PathAddPublisherRes{Err: err}\n		return\n	}\n", "C06.subst.origin"},
	)
}

const (
	c06Valid1   = "(conf.IsValidPathName($1) == nil)"
	c06Charset  = "(*regexp.Regexp).MatchString(conf.rePathName, $0)"
	c06StaticOK = "($0[$1]#0.Regexp == nil)"
)

func runC06(c *Ctx) {
	defer dumpObls(c)
	p := c.Main()
	if p == nil {
		return
	}
	c.Explain = "E1 on conf.IsValidPathName (nil return ⇒ non-empty ∧ no leading/trailing slash ∧ charset match ∧ no '.'/'..' segment; the segment loop - a range over strings.SplitSeq(name, \"/\") (yield closure), a counter loop over strings.Split(name, \"/\"), or slices.Contains tests of the split - continues only past segments other than '.' and '..' and success is reached only through the loop's exit), " +
		"E7 on the charset pattern constant (parsed with regexp/syntax: ^[class]+$ with class ⊆ [0-9A-Za-z_-/.]), " +
		"E1 on conf.FindPathConf (success ⇒ IsValidPathName(name)==nil, or a map hit on a configuration with Regexp==nil) and (*conf.Path).validate (success ⇒ all/all_others ∨ IsValidPathName(name)==nil ∨ regexp key; Regexp is stored only for all/regexp keys), " +
		"E2/E5 on every strings.ReplaceAll(_, \"%path\", X) in the module: X is classified through struct-field stores and call sites as validated (dominating IsValidPathName/FindPathConf success on the same value), static configuration key (…Name / map key guarded by Regexp==nil), or tabled; " +
		"reads of the decoded recordstore.Path.Path are dominated by IsValidPathName; " +
		"E2 closed table of os.*/filepath.Walk* calls in recorder, recordstore, recordcleaner, api, playback with the provenance of their path argument. " +
		"NOT decided: filepath/OS semantics (symlinks, HasPrefix-based containment in absolutePathInside), the operator-chosen recordPath format, regexp semantics."
	c.Assume = []string{
		"configuration keys and recordPath formats are operator-controlled (trusted)",
		"regexp.MatchString implements the parsed pattern; strings.SplitSeq yields the '/'-separated segments",
		"gin Query/Param return the decoded request value (encoded traversal sequences are decoded before validation)",
	}

	c06ValidName(c, p)
	holeClosed := c06FindPathConf(c, p)
	c06Validate(c, p)
	c06Subst(c, p, holeClosed)
	c06Decoded(c, p)
	c06FS(c, p)
}

// ---------------------------------------------------------------- (1)

func c06ValidName(c *Ctx, p *Prog) {
	fn := c.fn(p, "internal/conf", "", "IsValidPathName")
	if fn == nil {
		return
	}
	ok := retNil(0)
	c.MustPass(p, fn, "C06.valid_name.nonempty", "return nil", ok, F(`($0 == "")`))
	c.MustPass(p, fn, "C06.valid_name.leading_slash", "return nil", ok, F(`($0[0] == 47)`))
	c.MustPass(p, fn, "C06.valid_name.trailing_slash", "return nil", ok, F(`($0[_] == 47)`))
	c.MustPass(p, fn, "C06.valid_name.charset", "return nil", ok, T(c06Charset))
	// the non-constant index of the trailing test is len(name)-1
	nIdx := 0
	eachInstr(fn, func(i ssa.Instruction) {
		ifi, isIf := i.(*ssa.If)
		if !isIf {
			return
		}
		if l := litOf(ifi.Cond, true); l.Atom != `($0[_] == 47)` {
			return
		}
		bo := ifi.Cond.(*ssa.BinOp)
		for _, op := range []ssa.Value{bo.X, bo.Y} {
			var idx ssa.Value
			switch x := stripConv(op).(type) {
			case *ssa.Index:
				idx = x.Index
			case *ssa.Lookup:
				idx = x.Index
			}
			if idx != nil {
				nIdx++
				c.Check("C06.valid_name.trailing_slash", "conf.IsValidPathName: trailing test indexes len(name)-1", desc(idx) == "(len($0) - 1)", p.Pos(ifi.Cond.Pos()), "index is "+desc(idx))
			}
		}
	})
	if nIdx == 0 {
		c.Check("C06.valid_name.trailing_slash", "conf.IsValidPathName: trailing test indexes len(name)-1", false, p.Pos(fn.Pos()), "no comparison of a non-constant index of name with '/'")
	}

	// dot segments: every '/'-separated segment is examined and neither "." nor
	// ".." lets the function succeed. Decided for the yield closure of a
	// range-over-func loop over strings.SplitSeq (below), for a counter loop over
	// strings.Split and for slices.Contains tests (prop_gen_c06.go).
	ys, loops := c06YieldClosures(fn), c06IndexLoops(fn)
	for _, l := range loops {
		c.Analysed(fnName(l.fn))
		c06DotSegmentsIndexed(c, p, fn, l)
	}
	if len(ys) == 0 && len(loops) == 0 && !c06DotSegmentsContains(c, p, fn) {
		c.Check("C06.valid_name.dot_segments", "conf.IsValidPathName: segment loop rejects '.' and '..'", false, p.Pos(fn.Pos()), "no loop over strings.SplitSeq(name, \"/\") / strings.Split(name, \"/\") and no slices.Contains test of the segments found in IsValidPathName")
	}
	for _, y := range ys {
		c.Analysed(fnName(y))
		// the loop ranges over strings.SplitSeq(name, "/") (by construction of ys)
		c.Check("C06.valid_name.dot_segments", "conf.IsValidPathName: loop ranges over strings.SplitSeq(name, \"/\")", true, p.Pos(y.Pos()), "")
		c.MustPass(p, y, "C06.valid_name.dot_segments", "continue (yield returns true)", retBool(0, true), F(`($0 == ".")`))
		c.MustPass(p, y, "C06.valid_name.dot_segments", "continue (yield returns true)", retBool(0, true), F(`($0 == "..")`))
		// a rejected segment makes the function return a non-nil error
		nStop := 0
		for _, r := range returnsOf(y) {
			if v, isC := constBool(retVal(r, 0)); !isC || v {
				continue
			}
			nStop++
			stored := false
			for _, ins := range r.Block().Instrs {
				if st, ok := ins.(*ssa.Store); ok {
					if _, isFree := st.Addr.(*ssa.FreeVar); isFree && types.Identical(st.Val.Type(), types.Universe.Lookup("error").Type()) && !isNilConst(st.Val) {
						stored = true
					}
				}
			}
			c.Check("C06.valid_name.dot_segments", "conf.IsValidPathName: a rejected segment sets a non-nil error result", stored, p.Pos(posOf(r, y)), "")
		}
		c.Floor("C06.valid_name.dot_segments(stop returns)", nStop, 1)
	}

	// charset pattern constant
	v := p.globalInit("internal/conf", "rePathName")
	pat, okc := "", false
	if call, isCall := v.(*ssa.Call); isCall && isCallTo(call, "regexp.MustCompile") && len(call.Call.Args) == 1 {
		pat, okc = constStringB(call.Call.Args[0])
	}
	if !okc {
		c.Undecided("UNRESOLVED ANCHOR conf.rePathName is not regexp.MustCompile(<constant>)")
		return
	}
	why := charsetOnly(pat, "0123456789abcdefghijklmnopqrstuvwxyzABCDEFGHIJKLMNOPQRSTUVWXYZ_-/.")
	c.Check("C06.valid_name.charset", "conf.rePathName: ^[class]+$ with class ⊆ [0-9A-Za-z_-/.]", why == "", p.Pos(v.Pos()), "pattern "+pat+": "+why)
}

// charsetOnly: the pattern is anchored at both ends and every character it
// can consume is in allowed. Returns "" or the reason.
func charsetOnly(pat, allowed string) string {
	re, err := syntax.Parse(pat, syntax.Perl)
	if err != nil {
		return "does not parse: " + err.Error()
	}
	re = re.Simplify()
	if re.Op != syntax.OpConcat || len(re.Sub) != 3 {
		return "not of the form ^X$"
	}
	if re.Sub[0].Op != syntax.OpBeginText {
		return "not anchored at the beginning"
	}
	if re.Sub[2].Op != syntax.OpEndText || re.Sub[2].Flags&syntax.WasDollar == 0 && false {
		return "not anchored at the end"
	}
	mid := re.Sub[1]
	if mid.Op != syntax.OpPlus && mid.Op != syntax.OpStar {
		return "body is not a repetition of a character class"
	}
	cls := mid.Sub[0]
	var runes []rune
	switch cls.Op {
	case syntax.OpCharClass:
		runes = cls.Rune
	case syntax.OpLiteral:
		for _, r := range cls.Rune {
			runes = append(runes, r, r)
		}
	default:
		return "body is not a character class"
	}
	for i := 0; i+1 < len(runes); i += 2 {
		if runes[i+1]-runes[i] > 256 {
			return fmt.Sprintf("class admits range %q-%q", runes[i], runes[i+1])
		}
		for r := runes[i]; r <= runes[i+1]; r++ {
			if !strings.ContainsRune(allowed, r) {
				return fmt.Sprintf("class admits %q", r)
			}
		}
	}
	return ""
}

// ---------------------------------------------------------------- (2)

// c06FindPathConf returns whether the map-hit branch only returns validated
// (static) configurations.
func c06FindPathConf(c *Ctx, p *Prog) bool {
	fn := c.fn(p, "internal/conf", "", "FindPathConf")
	if fn == nil {
		return false
	}
	isHit := func(i ssa.Instruction) bool {
		r, ok := i.(*ssa.Return)
		return ok && retNil(2)(i) && desc(retVal(r, 0)) == "$0[$1]#0"
	}
	isOther := func(i ssa.Instruction) bool {
		return retNil(2)(i) && !isHit(i)
	}
	if countTargets(fn, isOther) > 0 {
		c.MustPass(p, fn, "C06.find_path_conf.regexp_branch", "success return of a non-map-hit configuration", isOther, T(c06Valid1))
	} else {
		c.Undecided("UNRESOLVED ANCHOR conf.FindPathConf has no success return besides the map hit")
	}
	closed := false
	if countTargets(fn, isHit) > 0 {
		closed = c.MustPass(p, fn, "C06.find_path_conf.static_hit", "success return of the map hit pathConfs[name]", isHit, T(c06Valid1), T(c06StaticOK))
	} else {
		closed = true // no unvalidated map-hit return at all
	}
	// every success return is one of the two kinds and errors are non-nil otherwise
	for _, r := range returnsOf(fn) {
		if v := retVal(r, 2); v != nil && !isNilConst(v) {
			c.Check("C06.find_path_conf.error_has_no_conf", fnName(fn)+": error return carries no configuration", isNilConst(retVal(r, 0)), p.Pos(posOf(r, fn)), desc(retVal(r, 0)))
		}
	}
	return closed
}

func c06Validate(c *Ctx, p *Prog) {
	fn := c.fn(p, "internal/conf", "Path", "validate")
	if fn == nil {
		return
	}
	// $0 receiver, $1 conf, $2 name
	alts := []LitPat{T(`($2 == "all_others")`), T(`($2 == "all")`), T("(conf.IsValidPathName($2) == nil)"), T("($2[0] == 126)")}
	c.MustPass(p, fn, "C06.validate.static_name", "return nil", retNil(0), alts...)
	// the regexp alternative really is a regexp key: Regexp is stored on that branch
	nRe, nName := 0, 0
	eachInstr(fn, func(i ssa.Instruction) {
		st, ok := i.(*ssa.Store)
		if !ok {
			return
		}
		fa, ok := st.Addr.(*ssa.FieldAddr)
		if !ok || typeStr(fa.X.Type()) != "*conf.Path" || desc(fa.X) != "$0" {
			return
		}
		switch fa.X.Type().Underlying().(*types.Pointer).Elem().Underlying().(*types.Struct).Field(fa.Field).Name() {
		case "Regexp":
			nRe++
			c.Check("C06.validate.regexp_only_for_patterns", fmt.Sprintf("(*conf.Path).validate: store #%d to Regexp is on the all/all_others/~ branch", nRe),
				hasGuard(st, T(`($2 == "all_others")`), T(`($2 == "all")`), T("($2[0] == 126)")) || c06AllBranch(st), p.Pos(st.Pos()), guardStr(st))
		case "Name":
			nName++
			c.Check("C06.validate.name_is_key", "(*conf.Path).validate: Name ← the map key", desc(st.Val) == "$2", p.Pos(st.Pos()), desc(st.Val))
		}
	})
	c.Floor("C06.validate.regexp_only_for_patterns", nRe, 2)
	c.Floor("C06.validate.name_is_key", nName, 1)
	// a regexp key without a leading '~' cannot reach the regexp branch
	c.MustPass(p, fn, "C06.validate.regexp_branch_guard", "regexp.Compile(name[1:])", callTo("regexp.Compile"), T("($2[0] == 126)"))
	c.MustPass(p, fn, "C06.validate.regexp_branch_guard", "regexp.Compile(name[1:])", callTo("regexp.Compile"), F(`($2 == "")`))
}

// c06AllBranch: the store sits in the switch-case body shared by the two
// `name == "all_others", name == "all"` tests (two predecessors, each the true
// edge of one of them).
func c06AllBranch(i ssa.Instruction) bool {
	b := i.Block()
	if len(b.Preds) == 0 {
		return false
	}
	for _, pr := range b.Preds {
		ifi, ok := pr.Instrs[len(pr.Instrs)-1].(*ssa.If)
		if !ok || pr.Succs[0] != b {
			return false
		}
		l := litOf(ifi.Cond, true)
		if !l.Pos || (l.Atom != `($2 == "all_others")` && l.Atom != `($2 == "all")`) {
			return false
		}
	}
	return true
}

// ---------------------------------------------------------------- (3)

type nameOrigin struct {
	class string // strong | viaFind | static | confkey | raw
	what  string
	pos   token.Pos
}

type nameFlow struct {
	p    *Prog
	ix   *modIndex
	seen map[string]bool
	out  []nameOrigin
}

// validatedAt: the value is covered by a dominating successful validation at
// the instruction.
func validatedAt(v ssa.Value, at ssa.Instruction) string {
	d := desc(v)
	for _, g := range guardsOf(at) {
		if !g.Lit.Pos {
			continue
		}
		if g.Lit.Atom == "(conf.IsValidPathName("+d+") == nil)" {
			return "strong"
		}
	}
	for _, g := range guardsOf(at) {
		if !g.Lit.Pos {
			continue
		}
		a := g.Lit.Atom
		if strings.HasPrefix(a, "(conf.FindPathConf(") && strings.HasSuffix(a, ", "+d+")#2 == nil)") {
			return "viaFind"
		}
		// wrappers returning FindPathConf's error unchanged (one level)
		if strings.HasSuffix(a, "("+d+")#1 == nil)") || strings.HasSuffix(a, ", "+d+")#1 == nil)") {
			if bo, ok := g.Cond.(*ssa.BinOp); ok {
				for _, op := range []ssa.Value{bo.X, bo.Y} {
					if ex, ok := op.(*ssa.Extract); ok {
						if call, ok := ex.Tuple.(*ssa.Call); ok {
							if f := call.Call.StaticCallee(); f != nil && inModule(f) && wrapsFindPathConf(f, call, v) {
								return "viaFind"
							}
						}
					}
				}
			}
		}
	}
	return ""
}

// wrapsFindPathConf: f returns (conf, err) of conf.FindPathConf(_, param) for
// the parameter that receives v at the call.
func wrapsFindPathConf(f *ssa.Function, call *ssa.Call, v ssa.Value) bool {
	k := -1
	for i, a := range call.Call.Args {
		if desc(a) == desc(v) {
			k = i
		}
	}
	if k < 0 || f.Blocks == nil {
		return false
	}
	for _, r := range returnsOf(f) {
		if r.Block().Comment == "recover" {
			continue
		}
		e := retVal(r, len(r.Results)-1)
		if e == nil {
			return false
		}
		d := desc(e)
		if !(strings.HasPrefix(d, "conf.FindPathConf(") && strings.HasSuffix(d, fmt.Sprintf(", $%d)#2", k))) {
			return false
		}
	}
	return true
}

// staticKeyAt: v is X.Name (X a *conf.Path) and X.Regexp == nil holds at the
// instruction, or v is the key of a range over map[string]*conf.Path whose
// value has Regexp == nil at the instruction.
func staticKeyAt(v ssa.Value, at ssa.Instruction) (isKey, static bool, base string) {
	v = stripConv(v)
	if sn, f, b, ok := fieldLoad(v); ok && sn == "conf.Path" && f == "Name" {
		base = desc(b)
		return true, hasGuard(at, T("("+base+".Regexp == nil)")), base
	}
	if ex, ok := v.(*ssa.Extract); ok && ex.Index == 1 {
		if nx, ok := ex.Tuple.(*ssa.Next); ok {
			if rg, ok := nx.Iter.(*ssa.Range); ok && typeStr(rg.X.Type()) == "map[string]*conf.Path" {
				base = desc(nx) + "#2"
				return true, hasGuard(at, T("("+base+".Regexp == nil)")), base
			}
		}
	}
	return false, false, ""
}

func (nf *nameFlow) add(class, what string, pos token.Pos) {
	nf.out = append(nf.out, nameOrigin{class, what, pos})
}

// resolve classifies the origins of a name value used at instruction `at`.
func (nf *nameFlow) resolve(v ssa.Value, at ssa.Instruction, depth int) {
	fn := at.Parent()
	v = stripConv(v)
	where := fnName(fn) + ": " + desc(v)
	if cl := validatedAt(v, at); cl != "" {
		nf.add(cl, where, at.Pos())
		return
	}
	if isKey, static, base := staticKeyAt(v, at); isKey {
		if static {
			nf.add("static", where, at.Pos())
			return
		}
		// guard may sit at the callers when the configuration is a parameter
		if par, ok := stripConv(baseOfNameLoad(v)).(*ssa.Parameter); ok && depth > 0 {
			k := paramIndex(par)
			sites := nf.ix.callers[fn]
			if len(sites) > 0 && nf.ix.valueUses[fn] == 0 {
				all := true
				for _, s := range sites {
					args := callCommon(s).Args
					if k >= len(args) || !hasGuard(s, T("("+desc(args[k])+".Regexp == nil)")) {
						all = false
					}
				}
				if all {
					nf.add("static", where+" (Regexp == nil at every call site)", at.Pos())
					return
				}
			}
		}
		_ = base
		nf.add("confkey", where, at.Pos())
		return
	}
	if depth <= 0 {
		nf.add("raw", where+" (depth)", at.Pos())
		return
	}
	switch x := v.(type) {
	case *ssa.Phi:
		k := fmt.Sprintf("phi@%p", x)
		if nf.seen[k] {
			return
		}
		nf.seen[k] = true
		for _, e := range x.Edges {
			nf.resolve(e, at, depth-1)
		}
		return
	case *ssa.Parameter:
		k := fmt.Sprintf("param@%p", x)
		if nf.seen[k] {
			return
		}
		nf.seen[k] = true
		sites := nf.ix.callers[fn]
		if len(sites) == 0 || nf.ix.valueUses[fn] > 0 || fn.Parent() != nil {
			nf.add("raw", where+" (parameter of a function whose callers are not all static calls)", at.Pos())
			return
		}
		idx := paramIndex(x)
		for _, s := range sites {
			args := callCommon(s).Args
			if idx >= len(args) {
				nf.add("raw", where+" (call arity)", s.Pos())
				continue
			}
			nf.resolve(args[idx], s, depth-1)
		}
		return
	}
	if sn, f, _, ok := fieldLoad(v); ok {
		k := "field:" + sn + "." + f
		if nf.seen[k] {
			return
		}
		nf.seen[k] = true
		stores := nf.ix.fieldStores[sn+"."+f]
		if len(stores) == 0 {
			nf.add("raw", where+" (field never stored in the module)", at.Pos())
			return
		}
		for _, st := range stores {
			nf.resolve(st.Val, st, depth-1)
		}
		return
	}
	if c, ok := v.(*ssa.Const); ok && c.Value != nil {
		nf.add("static", where+" (constant)", at.Pos())
		return
	}
	nf.add("raw", where, at.Pos())
}

func baseOfNameLoad(v ssa.Value) ssa.Value {
	if _, _, b, ok := fieldLoad(stripConv(v)); ok {
		return b
	}
	return v
}

// tabled substitution sites whose operand is a configuration key that may be
// a regexp key.
var c06ConfKeySites = map[string]string{
	"(*internal/recordcleaner.Cleaner).deleteEmptyDirs": "directory sweep root of a configuration: for a regexp key the substituted root does not exist (no-op); the key is operator-controlled",
}

func c06Subst(c *Ctx, p *Prog, holeClosed bool) {
	ix := p.index()
	n := 0
	for _, fn := range p.ModFuncs() {
		for _, call := range callsIn(fn, "strings.ReplaceAll", "strings.Replace", "(*strings.Replacer).Replace") {
			args := callCommon(call).Args
			if len(args) < 3 {
				continue
			}
			if s, ok := constStringB(args[1]); !ok || s != "%path" {
				continue
			}
			if rs, ok := constStringB(args[2]); ok && strings.HasPrefix(rs, "(") {
				continue // recordstore.Path.Decode builds a regexp from the format
			}
			n++
			c.Analysed(fnName(fn))
			key := fnName(fn) + ": %path ← " + desc(args[2])
			// recordstore.Path.Encode substitutes its own Path field: covered by the field-store rule below
			if sn, f, _, ok := fieldLoad(args[2]); ok && sn == "recordstore.Path" && f == "Path" {
				c06EncodePath(c, p, ix, fn, key, call)
				continue
			}
			nf := &nameFlow{p: p, ix: ix, seen: map[string]bool{}}
			nf.resolve(args[2], call, 8)
			var bad, weak []string
			classes := map[string]int{}
			for _, o := range nf.out {
				classes[o.class]++
				switch o.class {
				case "strong", "static":
				case "viaFind":
					if !holeClosed && !c06Contained(call) {
						weak = append(weak, "validated only by conf.FindPathConf (whose map-hit branch returns unvalidated regexp keys) and not contained: "+o.what+" at "+p.Pos(o.pos))
					}
				case "confkey":
					if _, tabled := c06ConfKeySites[fnName(fn)]; !tabled {
						bad = append(bad, "configuration key not known to be static: "+o.what+" at "+p.Pos(o.pos))
					}
				default:
					bad = append(bad, "unvalidated origin: "+o.what+" at "+p.Pos(o.pos))
				}
			}
			if len(nf.out) == 0 {
				bad = append(bad, "no origin found")
			}
			var cs []string
			for k, v := range classes {
				cs = append(cs, fmt.Sprintf("%s×%d", k, v))
			}
			sort.Strings(cs)
			detail := "origins: " + strings.Join(cs, ", ")
			if len(bad) > 0 {
				detail = strings.Join(bad, "; ")
			}
			c.Check("C06.subst.origin", key, len(bad) == 0, p.Pos(call.Pos()), detail)
			if classes["viaFind"] > 0 {
				c.Check("C06.subst.via_findpathconf", key, len(weak) == 0, p.Pos(call.Pos()), strings.Join(weak, "; "))
			}
		}
	}
	c.Floor("C06.subst", n, 6)
}

// c06Contained: the substitution result is passed through
// api.absolutePathInside with a dominating success test before it is used
// (the function also checks the final path the same way: see C06.fs).
func c06Contained(call ssa.Instruction) bool {
	fn := call.Parent()
	found := false
	eachInstr(fn, func(i ssa.Instruction) {
		if !isCallTo(i, "api.absolutePathInside") {
			return
		}
		args := callCommon(i).Args
		if len(args) == 2 && strings.Contains(desc(args[1]), desc(call.(ssa.Value))) {
			found = true
		}
	})
	return found
}

// c06EncodePath: recordstore.Path.Encode substitutes p.Path. Every store to
// that field in the module must be the decoder's, and no composite literal
// sets it (so encoders substitute "" - the name is already in the format).
func c06EncodePath(c *Ctx, p *Prog, ix *modIndex, fn *ssa.Function, key string, call ssa.Instruction) {
	var bad []string
	for _, st := range ix.fieldStores["recordstore.Path.Path"] {
		if f := fnName(st.Parent()); f != "(*internal/recordstore.Path).Decode" {
			bad = append(bad, "recordstore.Path.Path stored in "+f+" at "+p.Pos(st.Pos()))
		}
	}
	c.Check("C06.subst.origin", key, len(bad) == 0, p.Pos(call.Pos()), "the only writer of recordstore.Path.Path is Decode (segment listing); encoders pass Path{Start:…}: "+strings.Join(bad, "; "))
}

// ---------------------------------------------------------------- decoded names

func c06Decoded(c *Ctx, p *Prog) {
	n := 0
	for _, fn := range p.ModFuncs() {
		name := fnName(fn)
		if name == "(*internal/recordstore.Path).Decode" || name == "(internal/recordstore.Path).Encode" {
			continue
		}
		eachInstr(fn, func(i ssa.Instruction) {
			v, ok := i.(ssa.Value)
			if !ok {
				return
			}
			sn, f, _, isLoad := fieldLoad(v)
			if !isLoad || sn != "recordstore.Path" || f != "Path" {
				return
			}
			n++
			c.Analysed(name)
			// the read is the argument of the validation itself, or dominated by its success
			okRead := validatedAt(v, i) == "strong"
			if !okRead {
				for _, r := range *v.Referrers() {
					if isCallTo(r, "conf.IsValidPathName") {
						okRead = true
					}
				}
			}
			c.Check("C06.decoded_name", name+": read of decoded recordstore.Path.Path is validated", okRead, p.Pos(i.Pos()), guardStr(i))
		})
	}
	c.Floor("C06.decoded_name", n, 3)
}

// ---------------------------------------------------------------- (4)

var c06FSPkgs = []string{"internal/recorder", "internal/recordstore", "internal/recordcleaner", "internal/api", "internal/playback"}

var c06FSCallees = map[string]bool{
	"os.Remove": true, "os.RemoveAll": true, "os.Create": true, "os.OpenFile": true, "os.MkdirAll": true, "os.Mkdir": true,
	"os.Open": true, "os.Rename": true, "os.WriteFile": true, "os.ReadFile": true, "os.ReadDir": true, "os.Truncate": true,
	"os.Symlink": true, "os.Link": true, "os.Chmod": true, "os.CreateTemp": true, "os.MkdirTemp": true,
	"path/filepath.WalkDir": true, "path/filepath.Walk": true, "os.DirFS": true, "os.OpenRoot": true, "os.OpenInRoot": true,
}

// site -> provenance class of the path argument
var c06FSTable = map[string]string{
	"(*internal/recorder.formatFMP4Segment).closeCurPart os.MkdirAll":            "dir-of-segment-path",
	"(*internal/recorder.formatFMP4Segment).closeCurPart os.Create":              "segment-path",
	"(*internal/recorder.formatMPEGTSSegment).Write os.MkdirAll":                 "dir-of-segment-path",
	"(*internal/recorder.formatMPEGTSSegment).Write os.Create":                   "segment-path",
	"internal/recordstore.fixedPathHasSegments path/filepath.WalkDir":            "common-path",
	"internal/recordstore.regexpPathFindPathsWithSegments path/filepath.WalkDir": "common-path",
	"internal/recordstore.FindSegments path/filepath.WalkDir":                    "common-path",
	"(*internal/recordcleaner.Cleaner).deleteExpiredSegments os.Remove":          "segment-fpath",
	"(*internal/recordcleaner.Cleaner).deleteEmptyDirs path/filepath.WalkDir":    "common-path",
	"(*internal/recordcleaner.Cleaner).deleteEmptyDirs$1 os.Remove":              "walk-entry",
	"(*internal/api.API).onRecordingDeleteSegment os.Remove":                     "contained",
	"internal/playback.seekAndMux os.Open":                                       "segment-fpath",
	"internal/playback.parseSegment os.Open":                                     "segment-fpath",
}

func c06FS(c *Ctx, p *Prog) {
	ix := p.index()
	n := 0
	seen := map[string]bool{}
	for _, fn := range p.ModFuncs() {
		pk := strings.TrimPrefix(funcPkgPath(fn), modPath+"/")
		if !contains(c06FSPkgs, pk) {
			continue
		}
		eachInstr(fn, func(i ssa.Instruction) {
			cc := callCommon(i)
			if cc == nil {
				return
			}
			cn := calleeName(cc)
			if !c06FSCallees[cn] {
				return
			}
			n++
			c.Analysed(fnName(fn))
			site := fnName(fn) + " " + cn
			seen[site] = true
			class, ok := c06FSTable[site]
			if !ok {
				c.Check("C06.fs.closed_table", site, false, p.Pos(i.Pos()), "filesystem call outside the closed table of the recording packages: "+desc(cc.Args[0]))
				return
			}
			arg := cc.Args[0]
			good, why := c06FSArg(p, ix, fn, i, arg, class)
			c.Check("C06.fs.provenance", site+": path argument is "+class, good, p.Pos(i.Pos()), why)
		})
	}
	for site := range c06FSTable {
		if !seen[site] {
			c.Undecided("UNRESOLVED ANCHOR filesystem call site " + site)
		}
	}
	c.Floor("C06.fs", n, 14)

	// segment file paths come from the directory walk of FindSegments only
	nst := 0
	for _, st := range ix.fieldStores["recordstore.Segment.Fpath"] {
		nst++
		f := st.Parent()
		ok := fnName(f) == "internal/recordstore.FindSegments$1" && desc(st.Val) == "$0"
		c.Check("C06.fs.segment_fpath", "store to recordstore.Segment.Fpath in "+fnName(f), ok, p.Pos(st.Pos()), "value "+desc(st.Val)+" (must be the walked entry of FindSegments)")
	}
	c.Floor("C06.fs.segment_fpath", nst, 1)
	// recorder segment paths: Path{Start}.Encode(pathFormat2) where pathFormat2 is the substituted format
	for _, fld := range []string{"recorder.formatFMP4Segment.path", "recorder.formatMPEGTSSegment.path"} {
		sts := ix.fieldStores[fld]
		c.Floor("C06.fs.recorder_path:"+fld, len(sts), 1)
		for _, st := range sts {
			d := desc(st.Val)
			ok := strings.HasPrefix(d, "(recordstore.Path).Encode(") && strings.HasSuffix(d, ".pathFormat2)")
			c.Check("C06.fs.recorder_path", "store to "+fld+" in "+fnName(st.Parent()), ok, p.Pos(st.Pos()), d)
		}
	}
	for _, fld := range []string{"recorder.recorderInstance.pathFormat2", "recorder.formatMPEGTSSegment.pathFormat2"} {
		sts := ix.fieldStores[fld]
		c.Floor("C06.fs.recorder_format:"+fld, len(sts), 1)
		for _, st := range sts {
			d := desc(st.Val)
			ok := d == "$0.pathFormat" || strings.HasSuffix(d, ".pathFormat2") ||
				(strings.HasPrefix(d, "recordstore.PathAddExtension(strings.ReplaceAll(") && strings.Contains(d, `, "%path", $0.pathName)`))
			c.Check("C06.fs.recorder_format", "store to "+fld+" in "+fnName(st.Parent()), ok, p.Pos(st.Pos()), d)
		}
	}
}

func c06FSArg(p *Prog, ix *modIndex, fn *ssa.Function, at ssa.Instruction, arg ssa.Value, class string) (bool, string) {
	d := desc(arg)
	switch class {
	case "segment-fpath":
		sn, f, _, ok := fieldLoad(arg)
		return ok && sn == "recordstore.Segment" && f == "Fpath", d
	case "segment-path":
		sn, f, _, ok := fieldLoad(arg)
		return ok && strings.HasPrefix(sn, "recorder.format") && f == "path", d
	case "dir-of-segment-path":
		call, ok := arg.(*ssa.Call)
		if !ok || !isCallTo(call, "path/filepath.Dir") {
			return false, d
		}
		sn, f, _, ok2 := fieldLoad(call.Call.Args[0])
		return ok2 && strings.HasPrefix(sn, "recorder.format") && f == "path", d
	case "common-path":
		call, ok := arg.(*ssa.Call)
		if !ok || !isCallTo(call, "recordstore.CommonPath") {
			return false, d
		}
		da := descAll(call.Call.Args[0])
		return strings.Contains(da, ".RecordPath"), "recordstore.CommonPath(" + da + ")"
	case "walk-entry":
		par, ok := arg.(*ssa.Parameter)
		if !ok || paramIndex(par) != 0 || fn.Parent() == nil {
			return false, d
		}
		// the closure is passed to filepath.WalkDir
		used := false
		eachInstr(fn.Parent(), func(i ssa.Instruction) {
			if isCallTo(i, "path/filepath.WalkDir") {
				switch x := stripConv(callCommon(i).Args[1]).(type) {
				case *ssa.MakeClosure:
					used = used || x.Fn == fn
				case *ssa.Function:
					used = used || x == fn
				}
			}
		})
		return used, d
	case "contained":
		ex, ok := arg.(*ssa.Extract)
		if !ok || ex.Index != 0 {
			return false, "not the result of absolutePathInside: " + d
		}
		if ti, isI := ex.Tuple.(ssa.Instruction); !isI || !isCallTo(ti, "api.absolutePathInside") {
			return false, "not the result of absolutePathInside: " + d
		}
		return guardErrNil(at, ex.Tuple, 1), "result of api.absolutePathInside under its success test"
	}
	return false, "unknown class"
}
