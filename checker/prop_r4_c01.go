package main

import (
	"go/constant"
	"go/token"

	"golang.org/x/tools/go/ssa"
)

// C01 (round 4) - "an IP list containing the client IP": the (IP, Mask) pair
// that conf.IPNetwork.UnmarshalJSON stores is the network the text denotes.
//
// authenticateWithUser decides on IPNetworks.Contains -> IPNetwork.Contains ->
// net.IPNet.Contains of the pair built HERE (this is module code, not the CIDR
// arithmetic of the library). net.ParseCIDR returns a 16-byte address AND a
// 16-byte mask for an IPv4-mapped IPv6 CIDR (::ffff:10.0.0.0/104); the module
// normalises such a network to 4 bytes with To4(), which keeps the TRAILING 4
// bytes of the address. The mask must be cut the same way: its leading 12 bytes
// are all ones for every such network, so any other cut silently turns the
// network into a /32 (or panics). The rule evaluates the stored mask expression
// abstractly for both lengths ParseCIDR can return (4 and 16):
//
//   - a store of the receiver is (i) the ParseCIDR network verbatim, or (ii) an
//     {IP, Mask} pair;
//   - pair from a CIDR text: IP is N.IP or To4(N.IP) and Mask is N.Mask of the
//     SAME parsed network N, whole, or - only when the IP is known to be IPv4
//     (a To4 result tested non-nil) - restricted to its trailing 4 bytes, for
//     every mask length possible on that path (phi alternatives are evaluated
//     under their `len(N.Mask) == k` edge);
//   - pair from a bare address: Mask is CIDRMask(k, k), k = 128, or k = 32 when
//     the IP is known to be IPv4; a bare-address mask is never combined with a
//     CIDR network (it would drop the prefix length);
//   - ParseCIDR / ParseIP parse the decoded JSON text; `return nil` is preceded
//     by a store of the receiver; IPNetwork.Contains is net.IPNet.Contains of the
//     receiver and the argument (the semantics the accepted pairs rely on).
//
// Spelling is irrelevant: [len-4:], [len-4:len], [len-net.IPv4len:], a guarded
// `if len(m) == 16 { m = m[12:] }`, the whole mask, locals, extracted helpers.

func (c *Ctx) c01IPNetworkR4(p *Prog) {
	fn := c.fn(p, "internal/conf", "IPNetwork", "UnmarshalJSON")
	if fn == nil {
		return
	}
	name := fnName(fn)
	const rMask, rText, rAssign = "C01.ip_network.mask", "C01.ip_network.text", "C01.ip_network.assigned"

	// ---- the decoded text
	var text ssa.Value
	for _, cl := range callsIn(fn, "conf/jsonwrapper.Unmarshal") {
		if a := callCommon(cl).Args; len(a) == 2 {
			text = deref(a[1])
		}
	}
	if text == nil {
		c.Undecided("UNRESOLVED ANCHOR jsonwrapper.Unmarshal(b, &text) in " + name)
		return
	}
	isText := func(v ssa.Value) bool {
		if a := loadOf(v); a != nil && a == text {
			return true
		}
		return desc(v) == desc(text)
	}
	nParse := 0
	for _, cl := range callsIn(fn, "net.ParseCIDR", "net.ParseIP") {
		nParse++
		a := callCommon(cl).Args
		c.Check(rText, name+": "+calleeName(callCommon(cl))+" parses the decoded JSON text", len(a) == 1 && isText(a[0]), p.Pos(cl.Pos()), "got "+desc(a[0]))
	}
	c.Floor(rText, nParse, 2)

	// ---- origins
	cidrNet := func(v ssa.Value) *ssa.Extract { // v is (a load of) ParseCIDR(...)#1
		v = stripConv(v)
		if u, ok := v.(*ssa.UnOp); ok && u.Op == token.MUL {
			v = stripConv(u.X)
		}
		if ex, ok := deref(v).(*ssa.Extract); ok && ex.Index == 1 && isCallValueTo(ex.Tuple, "net.ParseCIDR") {
			return ex
		}
		return nil
	}
	netField := func(v ssa.Value, field string) *ssa.Extract { // v is N.<field> of a ParseCIDR network N
		sn, f, base, ok := fieldLoad(deref(v))
		if !ok || sn != "net.IPNet" || f != field {
			return nil
		}
		return cidrNet(base)
	}
	to4Of := func(v ssa.Value) (ssa.Value, *ssa.Call) {
		if cl := asCall(v); cl != nil && isCallTo(cl, "(net.IP).To4") && len(cl.Call.Args) == 1 {
			return cl.Call.Args[0], cl
		}
		return nil, nil
	}

	type write struct {
		at       ssa.Instruction
		ip, mask ssa.Value
		verbatim bool
	}
	var writes []write
	eachInstr(fn, func(i ssa.Instruction) {
		st, ok := i.(*ssa.Store)
		if !ok {
			return
		}
		if isParam(st.Addr, 0) {
			if cidrNet(st.Val) != nil {
				writes = append(writes, write{at: i, verbatim: true})
				return
			}
			w := write{at: i}
			if u, ok := stripConv(st.Val).(*ssa.UnOp); ok && u.Op == token.MUL {
				if a, ok := u.X.(*ssa.Alloc); ok {
					f := allocFieldStores(a)
					w.ip, w.mask = f["IP"], f["Mask"]
				}
			}
			writes = append(writes, w)
			return
		}
		if fa, ok := st.Addr.(*ssa.FieldAddr); ok && isParam(fa.X, 0) {
			// n.IP = ..; n.Mask = ..  : the two stores of one block make a pair
			k, found := -1, false
			for j := range writes {
				if _, byField := writes[j].at.(*ssa.Store).Addr.(*ssa.FieldAddr); byField && writes[j].at.Block() == i.Block() {
					k, found = j, true
				}
			}
			if !found {
				writes = append(writes, write{})
				k = len(writes) - 1
			}
			writes[k].at = i
			if fieldAddrName(fa) == "IP" {
				writes[k].ip = st.Val
			} else {
				writes[k].mask = st.Val
			}
		}
	})
	c.Floor(rMask, len(writes), 4)
	isWrite := func(i ssa.Instruction) bool {
		for _, w := range writes {
			if w.at == i {
				return true
			}
		}
		return false
	}
	c.MustPrecede(p, fn, rAssign, "return nil", "a store of the parsed network into the receiver", retNil(0), isWrite)

	for _, w := range writes {
		pos := p.Pos(posOf(w.at, fn))
		if w.verbatim {
			c.Check(rMask, name+": receiver ← the ParseCIDR network, verbatim", true, pos, "")
			continue
		}
		if w.ip == nil || w.mask == nil {
			c.Check(rMask, name+": receiver ← {IP, Mask}: both fields are set", false, pos, "")
			continue
		}
		// ---- the address: X or To4(X), X = ParseIP(text) | N.IP
		src := w.ip
		x, to4 := to4Of(w.ip)
		if to4 != nil {
			src = x
		}
		known4 := hasGuard(w.at, F("((net.IP).To4("+desc(src)+") == nil)"))
		key := name + ": receiver ← {IP: " + desc(w.ip) + ", Mask: …}"
		if to4 != nil && !known4 {
			c.Check(rMask, key+": a To4() result is stored only where it was tested non-nil", false, pos, "")
			continue
		}
		ipNet := netField(src, "IP")
		ipBare := isCallValueTo(src, "net.ParseIP")
		if !c.Check(rMask, key+": the address is the parsed text's (ParseIP result, or IP of the ParseCIDR network)", ipNet != nil || ipBare, pos, "got "+desc(src)) {
			continue
		}

		// ---- the mask
		m := deref(w.mask)
		if cl, ok := m.(*ssa.Call); ok && isCallTo(cl, "net.CIDRMask") && len(cl.Call.Args) == 2 {
			ones, ok1 := constInt64(cl.Call.Args[0])
			bits, ok2 := constInt64(cl.Call.Args[1])
			ok := ok1 && ok2 && ones == bits && (bits == 128 || bits == 32 && known4)
			c.Check(rMask, key+": a bare address gets the full-length mask of its family (CIDRMask(32,32) only for a known IPv4 address, else CIDRMask(128,128))", ok && ipBare, pos,
				"got "+desc(m)+map[bool]string{true: "", false: " on a CIDR network: the configured prefix length is dropped"}[ipBare])
			continue
		}
		if !c.Check(rMask, key+": the mask of a CIDR network is derived from the mask ParseCIDR returned", ipNet != nil, pos, "mask "+desc(m)) {
			continue
		}
		bad := c01MaskAlignmentR4(m, ipNet, netField, known4)
		c.Check(rMask, key+": Mask is N.Mask of the same network, whole or (IPv4 only) cut to its TRAILING 4 bytes, for both mask lengths ParseCIDR returns (4, 16)", bad == "", pos, bad)
	}

	// ---- the evaluator the accepted pairs rely on
	if ct := c.fn(p, "internal/conf", "IPNetwork", "Contains"); ct != nil {
		for _, d := range retDescs(ct, 0) {
			c.Check("C01.ip_network.contains", fnName(ct)+": is net.IPNet.Contains of the receiver and the argument", d == "(*net.IPNet).Contains($0, $1)", p.Pos(ct.Pos()), "got "+d)
		}
	}
}

// c01FrameR4 binds the parameters of a helper being evaluated to the
// arguments of its call.
type c01FrameR4 struct {
	call *ssa.Call
	up   *c01FrameR4
}

type c01CutR4 struct {
	lo, hi int64
	ok     bool   // false: not a cut of N.Mask / out of range
	why    string // when !ok
}

// c01MaskAlignmentR4 evaluates the mask expression for len(N.Mask) = 4 and 16
// (N = the ParseCIDR network n) and returns "" when, for both lengths, every
// feasible alternative denotes N.Mask whole or (known4) its trailing 4 bytes;
// otherwise the reason. Branches (phis, several returns of a helper) are
// followed only along edges whose condition is not refuted by the length.
func c01MaskAlignmentR4(m ssa.Value, n *ssa.Extract, netField func(ssa.Value, string) *ssa.Extract, known4 bool) string {
	var evalMask func(v ssa.Value, L int64, fr *c01FrameR4, depth int) []c01CutR4
	var evalInt func(v ssa.Value, L int64, fr *c01FrameR4, depth int) (int64, bool)
	fail := func(v ssa.Value) []c01CutR4 {
		return []c01CutR4{{why: "cannot evaluate " + desc(v) + " as a part of the mask of the same ParseCIDR network"}}
	}
	// refuted: the branch outcome is impossible for this mask length
	refuted := func(cond ssa.Value, outcome bool, L int64, fr *c01FrameR4, depth int) bool {
		neg := false
		for {
			u, ok := cond.(*ssa.UnOp)
			if !ok || u.Op != token.NOT {
				break
			}
			cond, neg = u.X, !neg
		}
		b, ok := cond.(*ssa.BinOp)
		if !ok {
			return false
		}
		x, ok1 := evalInt(b.X, L, fr, depth+1)
		y, ok2 := evalInt(b.Y, L, fr, depth+1)
		if !ok1 || !ok2 {
			return false
		}
		var val bool
		switch b.Op {
		case token.EQL:
			val = x == y
		case token.NEQ:
			val = x != y
		case token.LSS:
			val = x < y
		case token.LEQ:
			val = x <= y
		case token.GTR:
			val = x > y
		case token.GEQ:
			val = x >= y
		default:
			return false
		}
		return (val != neg) != outcome
	}
	// edgeCond: the If deciding that control enters block `to` from pred index i
	edgeCond := func(to *ssa.BasicBlock, i int) (ssa.Value, bool, bool) {
		if i >= len(to.Preds) {
			return nil, false, false
		}
		cur, from := to, to.Preds[i]
		for steps := 0; steps < 8; steps++ {
			if ifi := ifOf(from); ifi != nil {
				if from.Succs[0] == from.Succs[1] {
					return nil, false, false
				}
				return ifi.Cond, from.Succs[0] == cur, true
			}
			if len(from.Preds) != 1 {
				return nil, false, false
			}
			cur, from = from, from.Preds[0]
		}
		return nil, false, false
	}
	evalMask = func(v ssa.Value, L int64, fr *c01FrameR4, depth int) []c01CutR4 {
		if depth > 12 {
			return fail(v)
		}
		v = stripConv(v)
		switch x := v.(type) {
		case *ssa.UnOp:
			if x.Op == token.MUL {
				if a, isAlloc := x.X.(*ssa.Alloc); isAlloc {
					if sv := singleStore(a); sv != nil {
						return evalMask(sv, L, fr, depth+1)
					}
				}
			}
		case *ssa.Parameter:
			if fr != nil {
				if k := paramIndex(x); k >= 0 && k < len(fr.call.Call.Args) {
					return evalMask(fr.call.Call.Args[k], L, fr.up, depth+1)
				}
			}
			return fail(v)
		case *ssa.Phi:
			var out []c01CutR4
			for i, e := range x.Edges {
				if cond, outcome, ok := edgeCond(x.Block(), i); ok && refuted(cond, outcome, L, fr, depth) {
					continue
				}
				out = append(out, evalMask(e, L, fr, depth+1)...)
			}
			return out
		case *ssa.Call:
			f := x.Call.StaticCallee()
			if f == nil || !inModule(f) || f.Blocks == nil || f.Signature.Results().Len() != 1 {
				return fail(v)
			}
			nf := &c01FrameR4{call: x, up: fr}
			var out []c01CutR4
			for _, b := range f.Blocks {
				r, ok := b.Instrs[len(b.Instrs)-1].(*ssa.Return)
				if !ok || b.Comment == "recover" {
					continue
				}
				feasible := true
				for _, g := range guardsOfBlock(b) {
					if refuted(g.Cond, g.Outcome, L, nf, depth) {
						feasible = false
					}
				}
				if feasible {
					out = append(out, evalMask(retVal(r, 0), L, nf, depth+1)...)
				}
			}
			return out
		case *ssa.Slice:
			var out []c01CutR4
			for _, base := range evalMask(x.X, L, fr, depth+1) {
				if !base.ok {
					out = append(out, base)
					continue
				}
				cut := c01CutR4{lo: base.lo, hi: base.hi, ok: true}
				if x.Low != nil {
					k, ok := evalInt(x.Low, L, fr, depth+1)
					if !ok {
						return fail(v)
					}
					cut.lo = base.lo + k
				}
				if x.High != nil {
					k, ok := evalInt(x.High, L, fr, depth+1)
					if !ok {
						return fail(v)
					}
					cut.hi = base.lo + k
				}
				if cut.lo < base.lo || cut.lo > cut.hi || cut.hi > base.hi {
					cut.ok = false
					cut.why = "the expression " + desc(v) + " slices [" + itoa(int(cut.lo)) + ":" + itoa(int(cut.hi)) + "] of " + itoa(int(base.hi-base.lo)) + " bytes: out of range (panics)"
				}
				out = append(out, cut)
			}
			return out
		}
		if nn := netField(v, "Mask"); nn != nil && (nn == n || desc(nn) == desc(n)) {
			return []c01CutR4{{lo: 0, hi: L, ok: true}}
		}
		return fail(v)
	}
	evalInt = func(v ssa.Value, L int64, fr *c01FrameR4, depth int) (int64, bool) {
		if depth > 12 {
			return 0, false
		}
		v = stripConv(v)
		switch x := v.(type) {
		case *ssa.Const:
			if x.Value != nil && x.Value.Kind() == constant.Int {
				return constant.Int64Val(x.Value)
			}
		case *ssa.Parameter:
			if fr != nil {
				if k := paramIndex(x); k >= 0 && k < len(fr.call.Call.Args) {
					return evalInt(fr.call.Call.Args[k], L, fr.up, depth+1)
				}
			}
		case *ssa.Call:
			if b, ok := x.Call.Value.(*ssa.Builtin); ok && b.Name() == "len" && len(x.Call.Args) == 1 {
				a := x.Call.Args[0]
				// len(N.IP) == len(N.Mask): ParseCIDR returns both in the same length
				if nn := netField(stripConv(a), "IP"); nn != nil && fr == nil && (nn == n || desc(nn) == desc(n)) {
					return L, true
				}
				cuts := evalMask(a, L, fr, depth+1)
				if len(cuts) == 0 {
					return 0, false
				}
				for _, c := range cuts {
					if !c.ok || c.hi-c.lo != cuts[0].hi-cuts[0].lo {
						return 0, false
					}
				}
				return cuts[0].hi - cuts[0].lo, true
			}
		case *ssa.BinOp:
			a, ok1 := evalInt(x.X, L, fr, depth+1)
			b, ok2 := evalInt(x.Y, L, fr, depth+1)
			if ok1 && ok2 {
				switch x.Op {
				case token.ADD:
					return a + b, true
				case token.SUB:
					return a - b, true
				case token.MUL:
					return a * b, true
				}
			}
		case *ssa.UnOp:
			if x.Op == token.MUL {
				if a, ok := x.X.(*ssa.Alloc); ok {
					if sv := singleStore(a); sv != nil {
						return evalInt(sv, L, fr, depth+1)
					}
				}
			}
		}
		return 0, false
	}

	for _, L := range []int64{4, 16} {
		what := "for a " + itoa(int(L)) + "-byte mask"
		if L == 16 {
			what += " (IPv6 text; with a To4 address: an IPv4-mapped IPv6 CIDR such as ::ffff:10.0.0.0/104)"
		}
		cuts := evalMask(m, L, nil, 0)
		if len(cuts) == 0 {
			return what + " no alternative of the mask expression is feasible"
		}
		for _, cut := range cuts {
			if !cut.ok {
				return what + ": " + cut.why
			}
			whole := cut.lo == 0 && cut.hi == L
			trailing := known4 && cut.lo == L-4 && cut.hi == L
			if whole || trailing {
				continue
			}
			r := what + " the expression keeps bytes [" + itoa(int(cut.lo)) + ":" + itoa(int(cut.hi)) + "] of the parsed mask instead of "
			if known4 {
				r += "the trailing 4 (To4 keeps the trailing 4 bytes of the address; the leading 12 mask bytes of an IPv4-mapped network are all ones, so every such network silently becomes a /32 and clients inside it are rejected)"
			} else {
				r += "all of it (the address is kept whole)"
			}
			return r
		}
	}
	return ""
}
