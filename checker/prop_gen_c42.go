package main

// Context-sensitive SSA values for rules that compare VALUE IDENTITY (the same
// loop counter, the very call whose result is returned, ...) and must not
// depend on whether a sub-expression or a statement sits in the anchored
// function or in a NEW helper extracted from it (inline.go).
//
// desc() already describes values through new helpers, but a description is
// text: two different loop counters with the same shape have the same
// description. Where a rule needs identity it uses an rvalG4: an SSA value
// together with the call sites the surrounding new helpers are interpreted
// for. peelG4 looks through
//   - representation-only conversions,
//   - loads of a local that is stored exactly once,
//   - a parameter of a new helper (-> the argument of the call site it is
//     interpreted for; when no site is bound and the helper has exactly one
//     call site, that site),
//   - a call to a new helper that has exactly one return (-> the returned
//     value, interpreted for that call), also through Extract,
// so that `x := h(a)` with `func h(p T) U { return f(p) }` peels to f(a).
//
// (Engine candidate: this is the value-level counterpart of the Walker's
// frames; the names carry the suffix G4 so that it can be moved.)

import (
	"fmt"
	"go/token"

	"golang.org/x/tools/go/ssa"
)

// envG4 is a stack of (new helper, call site it is interpreted for).
type envG4 struct {
	h    *ssa.Function
	site *ssa.Call
	up   *envG4
}

func (e *envG4) depth() int {
	n := 0
	for ; e != nil; e = e.up {
		n++
	}
	return n
}

// lookup returns the call site h is bound to and the environment of the caller.
func (e *envG4) lookup(h *ssa.Function) (*ssa.Call, *envG4, bool) {
	for ; e != nil; e = e.up {
		if e.h == h {
			return e.site, e.up, true
		}
	}
	return nil, nil, false
}

func sameEnvG4(a, b *envG4) bool {
	for a != nil && b != nil {
		if a.h != b.h || a.site != b.site {
			return false
		}
		a, b = a.up, b.up
	}
	return a == nil && b == nil
}

type rvalG4 struct {
	v   ssa.Value
	env *envG4
}

// sameG4: the same SSA value of the same activation. Values of the anchored
// function itself (no helper around them) compare by SSA identity alone.
func sameG4(a, b rvalG4) bool {
	if a.v != b.v || a.v == nil {
		return false
	}
	if f := a.v.Parent(); f == nil || !isNewHelper(f) {
		return true // a value of a baseline function (or a constant/global): one activation
	}
	return sameEnvG4(a.env, b.env)
}

// helperReturnsG4: the returns of a new helper (recover blocks excepted).
func helperReturnsG4(h *ssa.Function) []*ssa.Return {
	var out []*ssa.Return
	for _, b := range h.Blocks {
		if b.Comment == "recover" {
			continue
		}
		for _, i := range b.Instrs {
			if r, ok := i.(*ssa.Return); ok {
				out = append(out, r)
			}
		}
	}
	return out
}

// peelG4: see the file comment.
func peelG4(x rvalG4) rvalG4 {
	for n := 0; n < 64; n++ {
		x.v = stripConv(x.v)
		y, ok := stepG4(x)
		if !ok {
			return x
		}
		x = y
	}
	return x
}

// stepG4 follows ONE indirection (helper parameter, helper result, load of a
// single-store local) without touching conversions; ok is false when x is not
// an indirection.
func stepG4(x rvalG4) (rvalG4, bool) {
	switch v := x.v.(type) {
	case *ssa.Parameter:
		h := v.Parent()
		if !isNewHelper(h) {
			return x, false
		}
		k := paramIndex(v)
		site, up, bound := x.env.lookup(h)
		if !bound {
			if info := helperIdx[h]; info != nil && len(info.sites) == 1 {
				site, up = info.sites[0], nil
			} else {
				return x, false
			}
		}
		if k < 0 || k >= len(site.Call.Args) {
			return x, false
		}
		return rvalG4{site.Call.Args[k], up}, true
	case *ssa.Call:
		h := newHelperCallee(v)
		if h == nil || h.Signature.Results().Len() != 1 || x.env.depth() > 6 {
			return x, false
		}
		rs := helperReturnsG4(h)
		if len(rs) != 1 {
			return x, false
		}
		return rvalG4{retVal(rs[0], 0), &envG4{h, v, x.env}}, true
	case *ssa.Extract:
		c, ok := v.Tuple.(*ssa.Call)
		if !ok {
			return x, false
		}
		h := newHelperCallee(c)
		if h == nil || x.env.depth() > 6 {
			return x, false
		}
		rs := helperReturnsG4(h)
		if len(rs) != 1 || v.Index >= len(rs[0].Results) {
			return x, false
		}
		return rvalG4{retVal(rs[0], v.Index), &envG4{h, c, x.env}}, true
	case *ssa.UnOp:
		if v.Op != token.MUL {
			return x, false
		}
		a, ok := v.X.(*ssa.Alloc)
		if !ok {
			// inside a closure: a captured variable of the enclosing function that
			// is assigned exactly once overall (a parameter the loop body reads)
			if fv, isFV := v.X.(*ssa.FreeVar); isFV {
				if ca := cellOfAddrG4(fv); ca != nil {
					if vals := cellStoresG4(ca); len(vals) == 1 {
						return rvalG4{vals[0], x.env}, true
					}
				}
			}
			return x, false
		}
		sv := singleStore(a)
		if sv == nil {
			return x, false
		}
		// a variable captured by closures may also be assigned in them
		// (singleStore only sees the stores of the declaring function)
		if capturedCellG4(a) && len(cellStoresG4(a)) != 1 {
			return x, false
		}
		return rvalG4{sv, x.env}, true
	}
	return x, false
}

// envKeyG4: a text identifying the call sites of an environment.
func envKeyG4(e *envG4) string {
	s := ""
	for ; e != nil; e = e.up {
		s += fmt.Sprintf("%p>", e.site)
	}
	return s
}

// altsG4 expands a value into the alternatives it may stand for: the edges of
// phis and the return values of a new helper with several returns. Every
// alternative is peeled. Cyclic phis are visited once.
func altsG4(x rvalG4) []rvalG4 {
	var out []rvalG4
	type key struct {
		v ssa.Value
		d int
	}
	seen := map[key]bool{}
	var walk func(x rvalG4, d int)
	walk = func(x rvalG4, d int) {
		x = peelG4(x)
		k := key{x.v, x.env.depth()}
		if seen[k] || d > 24 {
			return
		}
		seen[k] = true
		switch v := x.v.(type) {
		case *ssa.Phi:
			for _, e := range v.Edges {
				walk(rvalG4{e, x.env}, d+1)
			}
			return
		case *ssa.Call:
			if h := newHelperCallee(v); h != nil && h.Signature.Results().Len() == 1 && x.env.depth() <= 6 {
				for _, r := range helperReturnsG4(h) {
					walk(rvalG4{retVal(r, 0), &envG4{h, v, x.env}}, d+1)
				}
				return
			}
		case *ssa.Extract:
			if c, ok := v.Tuple.(*ssa.Call); ok {
				if h := newHelperCallee(c); h != nil && x.env.depth() <= 6 {
					for _, r := range helperReturnsG4(h) {
						if v.Index < len(r.Results) {
							walk(rvalG4{retVal(r, v.Index), &envG4{h, c, x.env}}, d+1)
						}
					}
					return
				}
			}
		case *ssa.UnOp:
			// a load of a variable that lives in a memory cell because closures
			// capture it (the body of a range-over-func loop assigns it): any
			// value stored to it, here or in those closures. The flow facts
			// this ignores are checked by the caller on cellLoadsSeenG4
			// (prop_gen_c42_rangefunc.go).
			if a := cellOfLoadG4(v); a != nil {
				if vals := cellStoresG4(a); len(vals) > 0 {
					if cellLoadsSeenG4 != nil {
						cellLoadsSeenG4[v] = a
					}
					for _, sv := range vals {
						walk(rvalG4{sv, x.env}, d+1)
					}
					return
				}
			}
		}
		out = append(out, x)
	}
	walk(x, 0)
	return out
}

// descG4 describes a value for the call sites of its environment.
func descG4(x rvalG4) string {
	if x.env == nil {
		return desc(x.v)
	}
	saved := descBind
	descBind = map[*ssa.Function]*ssa.Call{}
	for k, v := range saved {
		descBind[k] = v
	}
	// innermost frame wins
	var frames []*envG4
	for e := x.env; e != nil; e = e.up {
		frames = append(frames, e)
	}
	for i := len(frames) - 1; i >= 0; i-- {
		descBind[frames[i].h] = frames[i].site
	}
	defer func() { descBind = saved }()
	return desc(x.v)
}

// eachInstrCtxG4 yields the instructions of fn and, context-sensitively, of the
// new helpers it calls: a helper called from two places is yielded twice, once
// per call site (eachInstr yields it once, which is what who-may-write rules
// want; rules that count or bind operands per site want this one).
func eachInstrCtxG4(fn *ssa.Function, env *envG4, f func(ssa.Instruction, *envG4)) {
	for _, b := range fn.Blocks {
		for _, i := range b.Instrs {
			f(i, env)
			if h := newHelperCallee(i); h != nil && env.depth() < 6 {
				if _, _, rec := env.lookup(h); !rec {
					eachInstrCtxG4(h, &envG4{h, i.(*ssa.Call), env}, f)
				}
			}
		}
	}
}

// guardG4 is a branch condition that holds (Outcome) whenever the instruction
// it was computed for executes.
type guardG4 struct {
	Cond    rvalG4
	Outcome bool
}

// guardsG4: the conditions dominating an instruction in its own function and,
// when that function is a new helper interpreted for a call site, those
// dominating the call site (and so on outwards).
func guardsG4(ins ssa.Instruction, env *envG4) []guardG4 {
	var out []guardG4
	for {
		for _, g := range guardsOf(ins) {
			out = append(out, guardG4{rvalG4{g.Cond, env}, g.Outcome})
		}
		f := ins.Parent()
		if !isNewHelper(f) {
			return out
		}
		site, up, bound := env.lookup(f)
		if !bound {
			info := helperIdx[f]
			if info == nil || len(info.sites) != 1 {
				return out
			}
			site, up = info.sites[0], nil
		}
		ins, env = site, up
	}
}

// flowsOnlyToReturnG4: every use of the value is a return of the anchored
// function, possibly through phis, conversions, the return of the new helper
// it was computed in, or a parameter of a new helper it is handed to.
func flowsOnlyToReturnG4(x rvalG4) bool {
	type key struct {
		v ssa.Value
		d int
	}
	seen := map[key]bool{}
	var walk func(x rvalG4, d int) bool
	walk = func(x rvalG4, d int) bool {
		k := key{x.v, x.env.depth()}
		if seen[k] {
			return true
		}
		seen[k] = true
		if d > 16 {
			return false
		}
		refs := x.v.Referrers()
		if refs == nil || len(*refs) == 0 {
			return false
		}
		for _, r := range *refs {
			switch u := r.(type) {
			case *ssa.Return:
				h := u.Parent()
				if !isNewHelper(h) {
					continue
				}
				site, up, bound := x.env.lookup(h)
				if !bound {
					info := helperIdx[h]
					if info == nil || len(info.sites) != 1 {
						return false
					}
					site, up = info.sites[0], nil
				}
				if len(u.Results) == 1 {
					if !walk(rvalG4{site, up}, d+1) {
						return false
					}
					continue
				}
				// tuple result: the Extracts of the same index
				found := false
				for idx, res := range u.Results {
					if res != x.v {
						continue
					}
					for _, sr := range *site.Referrers() {
						if ex, ok := sr.(*ssa.Extract); ok && ex.Index == idx {
							found = true
							if !walk(rvalG4{ex, up}, d+1) {
								return false
							}
						}
					}
				}
				if !found {
					return false
				}
			case *ssa.Phi:
				if !walk(rvalG4{u, x.env}, d+1) {
					return false
				}
			case *ssa.ChangeType:
				if !walk(rvalG4{u, x.env}, d+1) {
					return false
				}
			case *ssa.Call:
				h := newHelperCallee(u)
				if h == nil {
					return false
				}
				for k, a := range u.Call.Args {
					if a == x.v && k < len(h.Params) {
						if !walk(rvalG4{h.Params[k], &envG4{h, u, x.env}}, d+1) {
							return false
						}
					}
				}
			case *ssa.DebugRef:
			default:
				return false
			}
		}
		return true
	}
	return walk(x, 0)
}
