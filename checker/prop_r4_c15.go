package main

// C15 (round 4) - a live path may ask to be collected when idle only while the
// configuration it CURRENTLY runs with is a regular-expression configuration.
//
// "Every static path configuration has a live path" is established by
// pathManager.doReloadConf (missing static paths are created, live paths are
// kept/moved) and can afterwards only be broken by a path that removes itself.
// The only self-removal that is not a reaction to a reload is the idle
// collection: a method of core.path calls parent.closePathIfIdle(pa). The state
// of a path that reloads keep up to date is pa.conf (path.doReloadConf installs
// the configuration the manager resolved for the path's name, see
// C15.path_reload.conf_installed); everything else a path knows about its origin
// (pa.matches, pa.name) is fixed at creation and says how the path was BORN, not
// what it is now: doReloadConf moves a live path between a regexp configuration
// and a static one whenever the difference is hot-reloadable and the capture
// groups are equal (e.g. all_others / a group-less expression -> a static entry
// with the same name). Hence the necessary condition:
//
//	every path from the entry of a function to a call of closePathIfIdle(x)
//	passes an edge on which x.conf.Regexp != nil holds - directly, or as the
//	true outcome of a predicate method of core.path all of whose true returns
//	pass such an edge (shouldClose today; predicates may be chained).
//
// Seeded change C15_r4 tested pa.matches != nil instead.

import (
	"fmt"
	"go/types"
	"sort"
	"strings"

	"golang.org/x/tools/go/ssa"
)

func init() {
	addMutants(
		Mutant{"C15", "idle-close-decided-by-creation-matches", "internal/core/path.go",
			"	return pa.conf.Regexp != nil &&\n", "	return pa.matches != nil &&\n", "C15.idle_close"},
		Mutant{"C15", "idle-close-of-any-path", "internal/core/path.go",
			"	return pa.conf.Regexp != nil &&\n		pa.source == nil &&\n", "	return pa.source == nil &&\n", "C15.idle_close"},
		Mutant{"C15", "idle-close-requested-without-predicate", "internal/core/path.go",
			"			pa.doOnDemandPublisherCloseTimer()\n", "			pa.doOnDemandPublisherCloseTimer()\n			pa.parent.closePathIfIdle(pa)\n", "C15.idle_close"},
	)
}

// dynAltsR4c15: the literals that establish "x currently runs with a regexp configuration".
func dynAltsR4c15(x string, preds map[*ssa.Function]bool) []LitPat {
	alts := []LitPat{F("(" + x + ".conf.Regexp == nil)")}
	var names []string
	for g := range preds {
		names = append(names, funcRefName(g))
	}
	sort.Strings(names)
	for _, n := range names {
		alts = append(alts, T(n+"("+x+")"))
	}
	return alts
}

func isCorePathPtrR4c15(t types.Type) bool {
	pt, ok := t.(*types.Pointer)
	return ok && typeStr(pt.Elem()) == "core.path"
}

func c15IdleCloseR4(c *Ctx, p *Prog) {
	const rule = "C15.idle_close"
	corePkg := pkgPath("internal/core")
	// ---- predicates of core.path that imply "dynamic now"
	var cands []*ssa.Function
	for _, f := range p.ModFuncs() {
		if funcPkgPath(f) != corePkg || f.Parent() != nil || f.Synthetic != "" || f.Blocks == nil || isNewHelper(f) {
			continue
		}
		sg := f.Signature
		if sg.Recv() == nil || !isCorePathPtrR4c15(sg.Recv().Type()) || sg.Params().Len() != 0 || sg.Results().Len() != 1 {
			continue
		}
		if b, ok := sg.Results().At(0).Type().Underlying().(*types.Basic); !ok || b.Kind() != types.Bool {
			continue
		}
		cands = append(cands, f)
	}
	sort.Slice(cands, func(i, j int) bool { return fnName(cands[i]) < fnName(cands[j]) })
	preds := map[*ssa.Function]bool{}
	for changed := true; changed; {
		changed = false
		for _, g := range cands {
			if preds[g] || countTargets(g, retBool(0, true)) == 0 {
				continue
			}
			if reachWithout(entry(g), retBool(0, true), dynAltsR4c15("$0", preds)) == nil {
				preds[g] = true
				changed = true
			}
		}
	}

	// ---- every request for idle collection
	type site struct {
		fn  *ssa.Function
		ins ssa.Instruction
		x   string
	}
	var sites []site
	// which calls ask the manager to collect an idle path? Found by role, not by name:
	// pathManager.run closes a path it RECEIVED from a channel (every other doClosePath is
	// a decision of the manager itself, taken in doReloadConf); the functions that send
	// their *path parameter on that channel are the requests, and so is every call of a
	// method with their name (the path reaches the manager through the pathParent interface).
	closeFn := c.fn(p, "internal/core", "pathManager", "doClosePath")
	runFn := c.fn(p, "internal/core", "pathManager", "run")
	if closeFn == nil || runFn == nil {
		return
	}
	type chanKey struct{ strct, name string }
	chans := map[chanKey]bool{}
	eachInstr(runFn, func(i ssa.Instruction) {
		cc := callCommon(i)
		if cc == nil || cc.StaticCallee() != closeFn {
			return
		}
		for _, a := range cc.Args {
			ex, ok := stripConv(a).(*ssa.Extract)
			if !ok {
				continue
			}
			sel, ok := ex.Tuple.(*ssa.Select)
			if !ok || ex.Index < 2 {
				continue
			}
			k := 0
			for _, st := range sel.States {
				if st.Send != nil {
					continue
				}
				if k == ex.Index-2 {
					if s2, n2, ok := chanFieldR3c13(st.Chan); ok {
						chans[chanKey{s2, n2}] = true
					}
				}
				k++
			}
		}
	})
	c.Check(rule, "pathManager.run: the request channel of the idle collection is identified (a received path is closed)", len(chans) > 0, p.Pos(runFn.Pos()), "")
	reqNames := map[string]bool{}
	for _, f := range p.ModFuncs() {
		if f.Blocks == nil || isNewHelper(f) {
			continue
		}
		ff := f
		eachInstr(f, func(i ssa.Instruction) {
			var ch, val ssa.Value
			switch x := i.(type) {
			case *ssa.Send:
				ch, val = x.Chan, x.X
			case *ssa.Select:
				for _, st := range x.States {
					if st.Send != nil {
						if s2, n2, ok := chanFieldR3c13(st.Chan); ok && chans[chanKey{s2, n2}] {
							ch, val = st.Chan, st.Send
						}
					}
				}
			}
			if ch == nil {
				return
			}
			if s2, n2, ok := chanFieldR3c13(ch); !ok || !chans[chanKey{s2, n2}] {
				return
			}
			if prm, ok := stripConv(val).(*ssa.Parameter); ok && prm.Parent() == ff && ff.Signature.Recv() != nil {
				reqNames[aliasName(ff)] = true // a forwarding method: its callers are the requests
				return
			}
			sites = append(sites, site{ff, i, desc(val)})
		})
	}
	for _, f := range p.ModFuncs() {
		if f.Blocks == nil || isNewHelper(f) || strings.HasSuffix(p.Fset.Position(f.Pos()).Filename, "_test.go") {
			continue
		}
		ff := f
		eachInstr(f, func(i ssa.Instruction) {
			cc := callCommon(i)
			if cc == nil {
				return
			}
			name := ""
			if cc.IsInvoke() {
				name = cc.Method.Name()
			} else if sf := cc.StaticCallee(); sf != nil && sf.Signature.Recv() != nil {
				name = aliasName(sf)
			}
			if !reqNames[name] {
				return
			}
			x := ""
			for _, a := range cc.Args {
				if isCorePathPtrR4c15(a.Type()) {
					x = desc(a)
				}
			}
			sites = append(sites, site{ff, i, x})
		})
	}
	c.Floor(rule, len(sites), 1)
	// one obligation per (function, path expression): all its sites must be guarded
	type grp struct {
		n    int
		bad  int
		pos  string
		w    *Witness
		alts []LitPat
	}
	groups := map[string]*grp{}
	var keys []string
	for _, s := range sites {
		c.Analysed(fnName(s.fn))
		if s.x == "" {
			c.Check(rule, fnName(s.fn)+": the idle-collection request names the path to collect", false, p.Pos(posOf(s.ins, s.fn)), "no *core.path argument")
			continue
		}
		key := fnName(s.fn) + ": the idle collection of " + s.x + " is requested only while " + s.x + ".conf.Regexp != nil (the path currently runs with a regular-expression configuration)"
		g := groups[key]
		if g == nil {
			g = &grp{pos: p.Pos(posOf(s.ins, s.fn)), alts: dynAltsR4c15(s.x, preds)}
			groups[key] = g
			keys = append(keys, key)
		}
		g.n++
		ins := s.ins
		if w := reachWithout(entry(s.fn), func(i ssa.Instruction) bool { return i == ins }, g.alts); w != nil {
			if g.bad == 0 {
				g.w, g.pos = w, p.Pos(posOf(s.ins, s.fn))
			}
			g.bad++
		}
	}
	sort.Strings(keys)
	for _, key := range keys {
		g := groups[key]
		c.Check(rule, key, g.bad == 0, g.pos,
			fmt.Sprintf("%d of %d call sites unguarded: a path that a reload moved to a static configuration (pa.conf replaced, creation-time state such as pa.matches untouched) would delete itself when idle and leave the static configuration without a live path; accepted guards: %s; %s", g.bad, g.n, altsStr(g.alts), g.w.String(p)))
	}
	// a predicate method that guards a failing site but is not proven is named too,
	// with the true outcome that does not test the current configuration
	for _, g := range cands {
		if preds[g] || countTargets(g, retBool(0, true)) == 0 {
			continue
		}
		guardsFailing := false
		for _, s := range sites {
			if s.x == "" {
				continue
			}
			ins := s.ins
			tgt := func(i ssa.Instruction) bool { return i == ins }
			if reachWithout(entry(s.fn), tgt, dynAltsR4c15(s.x, preds)) != nil &&
				reachWithout(entry(s.fn), tgt, append(dynAltsR4c15(s.x, preds), T(funcRefName(g)+"("+s.x+")"))) == nil {
				guardsFailing = true
			}
		}
		if !guardsFailing {
			continue
		}
		c.Analysed(fnName(g))
		w := reachWithout(entry(g), retBool(0, true), dynAltsR4c15("$0", preds))
		c.Check(rule, fnName(g)+": answers true only when $0.conf.Regexp != nil (it guards the idle-collection request)", false, p.Pos(g.Pos()),
			"the predicate guards the idle collection of a path but has a true outcome that does not test the configuration the path currently runs with: "+w.String(p))
	}
}
