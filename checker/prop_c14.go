package main

import (
	"fmt"
	"go/token"
	"strings"

	"golang.org/x/tools/go/ssa"
)

// C14 - path configuration resolution is deterministic and precedence-correct.

func init() {
	register(Property{ID: "C14", Level: "other", Run: runC14,
		Technique: "static analysis: must-pass-through path conditions and loop-shape rules on the SSA of conf.FindPathConf, exhaustive path enumeration of its sort comparator, who-may table of regexp matches on conf.Path.Regexp over the whole module",
		Text:      "Decides on conf.FindPathConf: the exact-name lookup is tested first and shadows every other outcome; the regexp branch is reached only for valid names; the map range that collects candidates has no effect besides appending configurations with Regexp != nil to a local slice (no return, call or break: map order cannot leak); that slice is sorted before the first match is attempted and is not modified afterwards; the comparator, on every path, puts all/all_others last and otherwise orders by Name ascending; the match loop runs from index 0 upwards and returns the first element whose Regexp.FindStringSubmatch(name) is non-nil together with that very result; any other exit is an error. Across the module only FindPathConf (and the recording-directory lister) match names against conf.Path.Regexp; and no caller of FindPathConf remembers a result (configuration, capture groups or a value read from them) in a field, map or package variable that survives a replacement of the configuration set it was computed from - except the fields of a live path, which the path manager re-resolves on every reload (C15) - so the server's effective resolution is FindPathConf on the current set and does not depend on earlier lookups. Does not decide regexp semantics nor sort.Slice, nor retention through interfaces/reflection or inside functions that are not new helpers.",
		Note:      "trusted: sort.Slice sorts by the comparator, regexp semantics; configuration names are unique map keys and at most one of all/all_others/~^.*$ exists (Conf.Validate)"})
	addMutants(
		Mutant{"C14", "drop-sort", "internal/conf/path.go",
			"	sort.Slice(regexpPathConfs, func(i, j int) bool {\n		// keep all and all_others at the end\n		if regexpPathConfs[i].Name == \"all\" || regexpPathConfs[i].Name == \"all_others\" {\n			return false\n		}\n		if regexpPathConfs[j].Name == \"all\" || regexpPathConfs[j].Name == \"all_others\" {\n			return true\n		}\n		return regexpPathConfs[i].Name < regexpPathConfs[j].Name\n	})\n",
			"	_ = sort.Strings\n", "C14.sorted_before_match"},
		Mutant{"C14", "comparator-all-first", "internal/conf/path.go",
			"		if regexpPathConfs[i].Name == \"all\" || regexpPathConfs[i].Name == \"all_others\" {\n			return false\n		}\n		if regexpPathConfs[j].Name == \"all\" || regexpPathConfs[j].Name == \"all_others\" {\n			return true\n		}",
			"		if regexpPathConfs[i].Name == \"all\" || regexpPathConfs[i].Name == \"all_others\" {\n			return true\n		}\n		if regexpPathConfs[j].Name == \"all\" || regexpPathConfs[j].Name == \"all_others\" {\n			return false\n		}", "C14.comparator"},
		Mutant{"C14", "comparator-descending", "internal/conf/path.go",
			"return regexpPathConfs[i].Name < regexpPathConfs[j].Name", "return regexpPathConfs[i].Name > regexpPathConfs[j].Name", "C14.comparator"},
		Mutant{"C14", "comparator-forgets-all-others", "internal/conf/path.go",
			"if regexpPathConfs[j].Name == \"all\" || regexpPathConfs[j].Name == \"all_others\" {", "if regexpPathConfs[j].Name == \"all\" {", "C14.comparator"},
		Mutant{"C14", "regexp-before-exact", "internal/conf/path.go",
			"	// static path configuration\n	if pathConf, ok := pathConfs[name]; ok {\n		return pathConf, nil, nil\n	}\n\n	// regexp path configuration\n",
			"	// regexp path configuration\n", "C14.exact_first"},
		Mutant{"C14", "exact-hit-only-for-static", "internal/conf/path.go",
			"	if pathConf, ok := pathConfs[name]; ok {\n		return pathConf, nil, nil\n	}\n\n	// regexp path configuration\n",
			"	if pathConf, ok := pathConfs[name]; ok && pathConf.Regexp == nil {\n		return pathConf, nil, nil\n	}\n\n	// regexp path configuration\n", "C14.exact_first"},
		Mutant{"C14", "last-match-wins", "internal/conf/path.go",
			"	for _, pathConf := range regexpPathConfs {\n		m := pathConf.Regexp.FindStringSubmatch(name)\n		if m != nil {\n			return pathConf, m, nil\n		}\n	}\n",
			"	var found *Path\n	var foundM []string\n	for _, pathConf := range regexpPathConfs {\n		m := pathConf.Regexp.FindStringSubmatch(name)\n		if m != nil {\n			found, foundM = pathConf, m\n		}\n	}\n	if found != nil {\n		return found, foundM, nil\n	}\n", "C14.first_match"},
		Mutant{"C14", "match-inside-map-range", "internal/conf/path.go",
			"		if pathConf.Regexp != nil {\n			regexpPathConfs = append(regexpPathConfs, pathConf)\n		}",
			"		if pathConf.Regexp != nil {\n			if m := pathConf.Regexp.FindStringSubmatch(name); m != nil && len(pathConfs) < 3 {\n				return pathConf, m, nil\n			}\n			regexpPathConfs = append(regexpPathConfs, pathConf)\n		}", "C14.collect_loop"},
		Mutant{"C14", "groups-of-other-string", "internal/conf/path.go",
			"m := pathConf.Regexp.FindStringSubmatch(name)\n		if m != nil {\n			return pathConf, m, nil", "m := pathConf.Regexp.FindStringSubmatch(pathConf.Name)\n		if m != nil {\n			return pathConf, m, nil", "C14.first_match"},
		Mutant{"C14", "describe-memoises-resolution", "internal/core/path_manager.go",
			"func (pm *pathManager) doDescribe(req defs.PathDescribeReq) {\n	pathConf, pathMatches, err := conf.FindPathConf(pm.pathConfs, req.AccessRequest.Name)\n",
			"var describeMemo = map[string]*conf.Path{}\n\nfunc (pm *pathManager) doDescribe(req defs.PathDescribeReq) {\n	pathConf, pathMatches, err := conf.FindPathConf(pm.pathConfs, req.AccessRequest.Name)\n	if memo, ok := describeMemo[req.AccessRequest.Name]; ok && pathMatches == nil {\n		pathConf = memo\n	} else if err == nil {\n		describeMemo[req.AccessRequest.Name] = pathConf\n	}\n", "C14.no_stale_resolution"},
		Mutant{"C14", "playback-remembers-resolution", "internal/playback/server.go",
			"func (s *Server) safeFindPathConf(name string) (*conf.Path, error) {\n	s.mutex.RLock()\n	defer s.mutex.RUnlock()\n\n	pathConf, _, err := conf.FindPathConf(s.PathConfs, name)\n	return pathConf, err",
			"var resolvedPathConfs sync.Map\n\nfunc (s *Server) safeFindPathConf(name string) (*conf.Path, error) {\n	if cached, ok := resolvedPathConfs.Load(name); ok {\n		return cached.(*conf.Path), nil\n	}\n\n	s.mutex.RLock()\n	defer s.mutex.RUnlock()\n\n	pathConf, _, err := conf.FindPathConf(s.PathConfs, name)\n	if err == nil {\n		resolvedPathConfs.Store(name, pathConf)\n	}\n	return pathConf, err", "C14.no_stale_resolution"},
		Mutant{"C14", "second-resolver-in-playback", "internal/playback/server.go",
			"	pathConf, _, err := conf.FindPathConf(s.PathConfs, name)\n	return pathConf, err",
			"	for _, pc := range s.PathConfs {\n		if pc.Regexp != nil && pc.Regexp.MatchString(name) {\n			return pc, nil\n		}\n	}\n	pathConf, _, err := conf.FindPathConf(s.PathConfs, name)\n	return pathConf, err", "C14.who_matches"},
	)
}

const c14Hit = "$0[$1]#1"

func runC14(c *Ctx) {
	defer dumpObls(c)
	p := c.Main()
	if p == nil {
		return
	}
	c.Explain = "E1 (must-pass-through on the SSA CFG) on conf.FindPathConf: exact_first (map hit pathConfs[name] returned with nil groups under ok; every other return passes !ok), valid_for_regexp (non-hit success ⇒ IsValidPathName(name)==nil), rejected_otherwise (error returns carry no configuration; the final error follows loop exhaustion); " +
		"collect_loop (the range over the map: body contains only the Regexp != nil test and append of the ranged value; no return/call/break); sorted_before_match (sort.Slice on the collected slice precedes every FindStringSubmatch; no store to the slice after the range loop); " +
		"comparator (the comparator - closure or named function, with the functions it calls - is executed on abstract values for each of the 15 situations it can distinguish (Name class of i and j x their order): i∈{all,all_others} ⇒ false, else j∈{…} ⇒ true, else Name[i] < Name[j]; anything not exactly evaluable fails); first_match (index loop from 0 step +1 over the sorted slice; success return is the current element with its own FindStringSubmatch(name) result, guarded by != nil); " +
		"who_matches (E2: regexp matches on conf.Path.Regexp in the module are a closed table); no_stale_resolution (E5, per call of conf.FindPathConf in the module: forward data flow of results #0/#1 and of what is read from them, through locals, fresh objects, new helpers, returns to static callers and closure bindings; a Store / MapUpdate / sync.Map.Store into non-local memory is allowed only for core.path.conf/confName/matches (re-resolved by doReloadConf, C15) or for a container that every function storing the struct field the first argument was loaded from empties - clear() or reassignment - before each of its returns). NOT decided: regexp semantics, sort.Slice, uniqueness of names (map keys)."
	c.Assume = []string{
		"sort.Slice orders the slice according to the comparator",
		"configuration names are distinct (map keys; Path.validate stores the key into Name) and Conf.Validate rejects more than one of all/all_others/~^.*$",
	}
	// the consumers resolve on the current configuration set: no result is remembered (prop_r3_c14.go)
	c14NoStaleResolution(c, p)

	fn := c.fn(p, "internal/conf", "", "FindPathConf")
	if fn == nil {
		return
	}

	// ---- exact first
	isHit := func(i ssa.Instruction) bool {
		r, ok := i.(*ssa.Return)
		return ok && desc(retVal(r, 0)) == "$0[$1]#0"
	}
	if countTargets(fn, isHit) == 0 {
		c.Check("C14.exact_first", fnName(fn)+": returns pathConfs[name] on an exact hit", false, p.Pos(fn.Pos()), "no return of the looked-up configuration")
	} else {
		c.MustPass(p, fn, "C14.exact_first", "return pathConfs[name]", isHit, T(c14Hit))
		for _, r := range returnsOf(fn) {
			if isHit(r) {
				ok := isNilConst(retVal(r, 1)) && isNilConst(retVal(r, 2))
				c.Check("C14.exact_first", fnName(fn)+": exact hit returns (conf, nil groups, nil error)", ok, p.Pos(posOf(r, fn)), desc(retVal(r, 1))+", "+desc(retVal(r, 2)))
			}
		}
		// every other return either follows a failed exact lookup, or rejects an
		// invalid name (C06: a name is validated even when it equals a key)
		c.MustPass(p, fn, "C14.exact_first", "any other return", func(i ssa.Instruction) bool { return anyReturn(i) && !isHit(i) }, F(c14Hit), F("(conf.IsValidPathName($1) == nil)"))
	}
	// the lookup precedes every other resolution step: the only decision
	// allowed before it is the validation of the name, and no regular
	// expression is consulted before the exact lookup failed
	first := false
	if ifi, ok := fn.Blocks[0].Instrs[len(fn.Blocks[0].Instrs)-1].(*ssa.If); ok {
		a := litOf(ifi.Cond, true).Atom
		first = a == c14Hit || a == "(conf.IsValidPathName($1) == nil)"
	}
	c.Check("C14.exact_first", fnName(fn)+": the exact lookup is the first resolution step (only name validation may precede it)", first, p.Pos(fn.Pos()), "")
	if len(callsIn(fn, "(*regexp.Regexp).FindStringSubmatch")) > 0 {
		c.MustPass(p, fn, "C14.exact_first", "regular expression match", callTo("(*regexp.Regexp).FindStringSubmatch"), F(c14Hit))
	}
	// a valid name that is a key reaches the hit: the hit is not guarded by anything but validity
	if w := reachWithout(entry(fn), isHit, []LitPat{T("(conf.IsValidPathName($1) == nil)"), T(c14Hit)}); w != nil {
		_ = w
	}
	nGuards := 0
	for _, b := range fn.Blocks {
		if len(b.Instrs) == 0 {
			continue
		}
		if ifi, ok := b.Instrs[len(b.Instrs)-1].(*ssa.If); ok {
			// conditions on the way to the hit return
			for k, s := range b.Succs {
				_ = k
				for _, ins := range s.Instrs {
					if isHit(ins) {
						a := litOf(ifi.Cond, true).Atom
						if a != c14Hit {
							nGuards++
						}
					}
				}
			}
		}
	}
	c.Check("C14.exact_first", fnName(fn)+": the exact hit is returned directly under the lookup test (no further condition)", nGuards == 0, p.Pos(fn.Pos()), "")

	// ---- valid names only / rejected otherwise
	succOther := func(i ssa.Instruction) bool { return retNil(2)(i) && !isHit(i) }
	if countTargets(fn, succOther) > 0 {
		c.MustPass(p, fn, "C14.valid_for_regexp", "success return of a regexp configuration", succOther, T("(conf.IsValidPathName($1) == nil)"))
	} else {
		c.Check("C14.valid_for_regexp", fnName(fn)+": has a regexp success return", false, p.Pos(fn.Pos()), "")
	}
	for _, r := range returnsOf(fn) {
		if v := retVal(r, 2); v != nil && !isNilConst(v) {
			c.Check("C14.rejected_otherwise", fnName(fn)+": error return carries no configuration and no groups", isNilConst(retVal(r, 0)) && isNilConst(retVal(r, 1)), p.Pos(posOf(r, fn)), "")
		}
	}

	// ---- collect loop
	var loop *rangeLoop
	for _, l := range rangeLoopsOf(fn) {
		if desc(l.Range.X) == "$0" {
			if loop != nil {
				c.Check("C14.collect_loop", fnName(fn)+": exactly one range over pathConfs", false, p.Pos(l.Range.Pos()), "second range over the map")
			}
			loop = l
		}
	}
	// the collected slice: a local variable cell (when a closure captures it) or,
	// when the variable lives in registers, the accumulator phi of the collecting loop
	slice := &c14coll{}
	if loop == nil {
		c.Check("C14.collect_loop", fnName(fn)+": exactly one range over pathConfs", false, p.Pos(fn.Pos()), "no range over the map")
	} else {
		var bad []string
		nApp := 0
		for b := range loop.Body {
			for _, s := range b.Succs {
				if !loop.Body[s] && s != loop.Header {
					bad = append(bad, fmt.Sprintf("block %d leaves the loop (break/goto)", b.Index))
				}
			}
			for _, ins := range b.Instrs {
				switch x := ins.(type) {
				case *ssa.Return:
					bad = append(bad, "return inside the map range at "+p.Pos(posOf(x, fn)))
				case *ssa.Panic, *ssa.Send, *ssa.Go, *ssa.Defer, *ssa.MapUpdate:
					bad = append(bad, fmt.Sprintf("%T inside the map range", x))
				case *ssa.Call:
					if bi, ok := x.Call.Value.(*ssa.Builtin); ok && bi.Name() == "append" {
						nApp++
						// appended element is the ranged value, under Regexp != nil
						okElem := false
						if sl, ok := x.Call.Args[1].(*ssa.Slice); ok {
							if arr, ok := sl.X.(*ssa.Alloc); ok {
								for _, r := range *arr.Referrers() {
									if ia, ok := r.(*ssa.IndexAddr); ok {
										for _, rr := range *ia.Referrers() {
											if st, ok := rr.(*ssa.Store); ok {
												if ex, ok := st.Val.(*ssa.Extract); ok && ex.Tuple == loop.Next && ex.Index == 2 {
													okElem = true
												}
											}
										}
									}
								}
							}
						}
						if !okElem {
							bad = append(bad, "append of something else than the ranged configuration")
						}
						if !hasGuard(x, F("("+desc(loop.Next)+"#2.Regexp == nil)")) {
							bad = append(bad, "append not guarded by Regexp != nil: "+guardStr(x))
						}
						// destination: the local slice variable
						if u, ok := x.Call.Args[0].(*ssa.UnOp); ok {
							if a, ok := u.X.(*ssa.Alloc); ok {
								slice.cell = a
							}
						} else if ph, ok := x.Call.Args[0].(*ssa.Phi); ok && ph.Block() == loop.Header && c14AccumulatorPhi(ph, x) {
							slice.val = ph
						}
						continue
					}
					bad = append(bad, "call inside the map range: "+desc(x))
				case *ssa.Store:
					switch a := x.Addr.(type) {
					case *ssa.Alloc:
						_ = a
					case *ssa.IndexAddr:
						if _, ok := a.X.(*ssa.Alloc); !ok {
							bad = append(bad, "store through "+desc(x.Addr))
						}
					default:
						bad = append(bad, "store to "+desc(x.Addr))
					}
				}
			}
		}
		if nApp != 1 {
			bad = append(bad, fmt.Sprintf("%d append calls (want 1)", nApp))
		}
		c.Check("C14.collect_loop", fnName(fn)+": the range over pathConfs only appends configurations with Regexp != nil to a local slice", len(bad) == 0, p.Pos(loop.Range.Pos()), strings.Join(bad, "; "))
	}

	// ---- sorted before match
	sortCall := c14SortCall(fn)
	matchCalls := callsIn(fn, "(*regexp.Regexp).FindStringSubmatch")
	if sortCall == nil || !slice.found() {
		c.Check("C14.sorted_before_match", fnName(fn)+": the collected slice is sorted before matching", false, p.Pos(fn.Pos()), "no sort call on the collected slice")
	} else {
		arg := stripConv(sortCall.Call.Args[0])
		c.Check("C14.sorted_before_match", fnName(fn)+": sort.Slice sorts the collected slice", slice.is(arg), p.Pos(sortCall.Pos()), desc(arg))
		if len(matchCalls) == 0 {
			c.Check("C14.sorted_before_match", fnName(fn)+": FindStringSubmatch preceded by the sort", false, p.Pos(fn.Pos()), "no match call")
		} else {
			c.MustPrecede(p, fn, "C14.sorted_before_match", "Regexp.FindStringSubmatch", "sort.Slice(collected)", callTo("(*regexp.Regexp).FindStringSubmatch"),
				func(i ssa.Instruction) bool { return i == ssa.Instruction(sortCall) })
		}
		// the slice variable is written only by the collecting append
		// (a register value cannot be reassigned: what is sorted and what is matched are
		// the same value by identity)
		nOut := 0
		if slice.cell != nil {
			for _, r := range *slice.cell.Referrers() {
				if st, ok := r.(*ssa.Store); ok && st.Addr == ssa.Value(slice.cell) {
					if loop == nil || !loop.Body[st.Block()] {
						nOut++
					}
				}
			}
		}
		c.Check("C14.sorted_before_match", fnName(fn)+": the collected slice is not reassigned outside the collecting loop", nOut == 0, p.Pos(slice.pos()), fmt.Sprintf("%d stores outside", nOut))
		// the comparator is the closure checked below
		// (a closure over the collected slice, or a named function of two elements)
		if mc, ok := stripConv(sortCall.Call.Args[1]).(*ssa.MakeClosure); ok {
			c14Comparator(c, p, mc.Fn.(*ssa.Function), slice.cell, mc.Bindings)
		} else if f, ok := stripConv(sortCall.Call.Args[1]).(*ssa.Function); ok {
			c14Comparator(c, p, f, slice.cell, nil)
		} else {
			c.Check("C14.comparator", fnName(fn)+": comparator is a closure over the collected slice", false, p.Pos(sortCall.Pos()), desc(sortCall.Call.Args[1]))
		}
	}

	// ---- first match
	c14FirstMatch(c, p, fn, slice, matchCalls)

	// ---- who matches
	allowed := map[string]string{
		"internal/conf.FindPathConf":                             "the resolver",
		"internal/recordstore.regexpPathFindPathsWithSegments$1": "lists recorded names that a regexp configuration matches (does not pick a configuration; callers resolve through FindPathConf)",
	}
	n := 0
	for _, f := range p.ModFuncs() {
		eachInstr(f, func(i ssa.Instruction) {
			cc := callCommon(i)
			if cc == nil || cc.IsInvoke() {
				return
			}
			callee := cc.StaticCallee()
			if callee == nil || callee.Signature.Recv() == nil || typeStr(callee.Signature.Recv().Type()) != "*regexp.Regexp" || len(cc.Args) == 0 {
				return
			}
			sn, fld, _, ok := fieldLoad(cc.Args[0])
			if !ok || sn != "conf.Path" || fld != "Regexp" {
				return
			}
			n++
			_, ok = allowed[fnName(f)]
			c.Check("C14.who_matches", "(*regexp.Regexp)."+callee.Name()+" on conf.Path.Regexp in "+fnName(f), ok, p.Pos(i.Pos()), "names are resolved to configurations only by conf.FindPathConf")
		})
	}
	c.Floor("C14.who_matches", n, 2)
}

// c14Comparator: the function handed to the sort call, decided by evaluating it on
// every situation it can distinguish (prop_gen_c14.go).
func c14Comparator(c *Ctx, p *Prog, cl *ssa.Function, slice *ssa.Alloc, bindings []ssa.Value) {
	c.Analysed(fnName(cl))
	key := fnName(cl) + ": "
	nCases, bad := c14ComparatorSemantics(cl, bindings, slice)
	c.Count("comparator_cases", nCases)
	if len(bad) > 4 {
		bad = append(bad[:4], fmt.Sprintf("... and %d more", len(bad)-4))
	}
	c.Check("C14.comparator", key+"all/all_others last, otherwise ascending by Name, on every path", len(bad) == 0 && nCases == 15, p.Pos(cl.Pos()), fmt.Sprintf("%d situations evaluated; %s", nCases, strings.Join(bad, "; ")))
}

func c14FirstMatch(c *Ctx, p *Prog, fn *ssa.Function, slice *c14coll, matchCalls []ssa.Instruction) {
	key := fnName(fn) + ": "
	if len(matchCalls) != 1 || !slice.found() {
		c.Check("C14.first_match", key+"exactly one FindStringSubmatch over the sorted slice", false, p.Pos(fn.Pos()), fmt.Sprintf("%d match calls", len(matchCalls)))
		return
	}
	call := matchCalls[0].(*ssa.Call)
	// receiver: S[idx].Regexp, argument: name
	var elem *ssa.IndexAddr
	okRecv := false
	if sn, f, base, ok := fieldLoad(call.Call.Args[0]); ok && sn == "conf.Path" && f == "Regexp" {
		if ld, ok := base.(*ssa.UnOp); ok {
			if ia, ok := ld.X.(*ssa.IndexAddr); ok {
				if slice.is(ia.X) {
					elem, okRecv = ia, true
				}
			}
		}
	}
	c.Check("C14.first_match", key+"the match receiver is sorted[idx].Regexp", okRecv, p.Pos(call.Pos()), desc(call.Call.Args[0]))
	c.Check("C14.first_match", key+"the matched string is the requested name", len(call.Call.Args) == 2 && desc(call.Call.Args[1]) == "$1", p.Pos(call.Pos()), desc(call))
	if elem == nil {
		return
	}
	// ascending from 0: idx = phi(-1, idx) + 1
	asc := false
	if bo, ok := elem.Index.(*ssa.BinOp); ok && bo.Op == token.ADD {
		if one, ok := constIntB(bo.Y); ok && one == 1 {
			if ph, ok := bo.X.(*ssa.Phi); ok && len(ph.Edges) == 2 {
				var hasInit, hasStep bool
				for _, e := range ph.Edges {
					if n, ok := constIntB(e); ok && n == -1 {
						hasInit = true
					}
					if e == ssa.Value(bo) {
						hasStep = true
					}
				}
				asc = hasInit && hasStep
			}
		}
	}
	c.Check("C14.first_match", key+"the match loop visits the sorted slice from index 0 upwards, one by one", asc, p.Pos(call.Pos()), desc(elem.Index))
	// the success return inside the loop
	n := 0
	for _, r := range returnsOf(fn) {
		if !retNil(2)(r) || desc(retVal(r, 0)) == "$0[$1]#0" {
			continue
		}
		n++
		r0 := retVal(r, 0)
		sameElem := false
		if ld, ok := r0.(*ssa.UnOp); ok && ld.X == ssa.Value(elem) {
			sameElem = true
		}
		c.Check("C14.first_match", key+"success returns the element that matched", sameElem, p.Pos(posOf(r, fn)), desc(r0))
		c.Check("C14.first_match", key+"success returns the groups of that match", retVal(r, 1) == ssa.Value(call), p.Pos(posOf(r, fn)), desc(retVal(r, 1)))
		c.Check("C14.first_match", key+"success return is taken as soon as the match is non-nil", guardNotNil(r, call) && r.Block().Dominates(r.Block()) && len(r.Block().Preds) == 1 && r.Block().Preds[0] == call.Block(), p.Pos(posOf(r, fn)), guardStr(r))
	}
	c.Check("C14.first_match", key+"exactly one regexp success return", n == 1, p.Pos(fn.Pos()), fmt.Sprintf("%d", n))
	// exhausting the loop is an error
	c.MustPass(p, fn, "C14.rejected_otherwise", "error return after the match loop", func(i ssa.Instruction) bool {
		r, ok := i.(*ssa.Return)
		return ok && retNotNil(2)(i) && !hasGuard(r, F("(conf.IsValidPathName($1) == nil)"))
	}, F("*< len(*"))
}
