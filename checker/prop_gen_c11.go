package main

// Generalisation of C11.case_shape / C11.kind_handled (DESIGN.md section 11,
// second round). The rules read the syntax of deepClone: the FIRST
// `switch rv.Kind()` statement, one case clause per kind, and inside that
// clause an allocation call, a deepClone call and no `return rv` outside an
// `if rv.IsNil()`. Splitting the switch in two (nil handling first, copying
// second), an if-chain, a merged case list, a hoisted `kind := rv.Kind()` or
// an extracted per-kind helper all broke it.
//
// Re-stated over the meaning, on SSA, per kind K that needs a deep copy:
// evaluate deepClone under the assumption rv.Kind() == K (every comparison of
// rv.Kind() with a constant is decided by it; (reflect.Value).Kind and IsNil
// are pure, rv is never reassigned - checked as the premise) and, where the
// kind can be nil, rv.IsNil() == false. Then
//
//   - allocates:    every feasible return hands back a fresh container of the
//                   right constructor (reflect.New / MakeSlice / MakeMap, or
//                   its .Elem());
//   - recurses:     a deepClone result is stored into that container
//                   (Set / SetMapIndex on a value derived from it) in the
//                   feasible region;
//   - input only when nil: no feasible return hands back rv itself.
//
// "deepClone has a case for K" (used by C11.kind_handled) = the function
// compares rv.Kind() with K somewhere.

import (
	"go/constant"
	"go/types"
	"strings"

	"golang.org/x/tools/go/ssa"
)

const (
	c11KindAtomPre = "((reflect.Value).Kind($0) == "
	c11NilAtom     = "(reflect.Value).IsNil($0)"
)

// c11KindConsts: reflect.Kind constants by name.
func c11KindConsts(p *Prog) map[string]string {
	out := map[string]string{}
	pk := p.ByPath["reflect"]
	if pk == nil || pk.Types == nil {
		return out
	}
	for _, n := range []string{"Pointer", "Struct", "Slice", "Map", "Interface", "Array"} {
		if k, ok := pk.Types.Scope().Lookup(n).(*types.Const); ok && k.Val().Kind() == constant.Int {
			out[n] = k.Val().ExactString()
		}
	}
	return out
}

// c11CaseShapes emits the case_shape obligations and returns the kinds
// deepClone has a case for.
func c11CaseShapes(c *Ctx, p *Prog, fn *ssa.Function) map[string]bool {
	kinds := c11KindConsts(p)
	handled := map[string]bool{}
	if len(kinds) < 6 || len(fn.Params) != 1 {
		c.Undecided("UNRESOLVED ANCHOR reflect.Kind constants / deepClone(rv) signature")
		return handled
	}
	funcs := c06Funcs(fn) // fn and the new helpers it calls
	// kinds compared with rv.Kind()
	for _, g := range funcs {
		for _, b := range g.Blocks {
			for _, ins := range b.Instrs {
				bo, ok := ins.(*ssa.BinOp)
				if !ok {
					continue
				}
				a := litOf(bo, true).Atom
				for name, k := range kinds {
					if a == c11KindAtomPre+k+")" {
						handled[name] = true
					}
				}
			}
		}
	}
	need := map[string]string{"Pointer": "reflect.New", "Struct": "reflect.New", "Slice": "reflect.MakeSlice", "Map": "reflect.MakeMap", "Interface": "reflect.New"}
	canBeNil := map[string]bool{"Pointer": true, "Slice": true, "Map": true, "Interface": true}
	for _, kind := range []string{"Pointer", "Struct", "Slice", "Map", "Interface"} {
		alloc := need[kind]
		if !handled[kind] {
			continue // reported per reachable type (C11.kind_handled)
		}
		k := kinds[kind]
		ev := newAeval(func(atom string) (bool, bool) {
			if strings.HasPrefix(atom, c11KindAtomPre) && strings.HasSuffix(atom, ")") {
				return atom[len(c11KindAtomPre):len(atom)-1] == k, true
			}
			if atom == c11NilAtom && canBeNil[kind] {
				return false, true
			}
			return false, false
		})
		ev.pureCallees = map[string]bool{"(reflect.Value).Kind": true, "(reflect.Value).IsNil": true}
		r := ev.reach(fn)
		fresh := func(d string) bool {
			return strings.HasPrefix(d, alloc+"(") || strings.HasPrefix(d, "(reflect.Value).Elem("+alloc+"(")
		}
		var notFresh, input []string
		nRet := 0
		for _, b := range fn.Blocks {
			if !r.blocks[b] || len(b.Instrs) == 0 {
				continue
			}
			ret, ok := b.Instrs[len(b.Instrs)-1].(*ssa.Return)
			if !ok || len(ret.Results) != 1 {
				continue
			}
			nRet++
			for _, d := range ev.vals(retVal(ret, 0)) {
				if d == "$0" {
					input = append(input, p.Pos(posOf(ret, fn)))
				} else if !fresh(d) {
					notFresh = append(notFresh, d+" at "+p.Pos(posOf(ret, fn)))
				}
			}
		}
		// a deepClone result is stored into the fresh container
		hasRec := false
		for _, g := range funcs {
			rg := ev.reach(g)
			for _, b := range g.Blocks {
				if !rg.blocks[b] {
					continue
				}
				for _, ins := range b.Instrs {
					cl, ok := ins.(*ssa.Call)
					if !ok || !isCallTo(cl, "conf.deepClone") || cl.Referrers() == nil {
						continue
					}
					for _, ref := range *cl.Referrers() {
						set, ok := ref.(*ssa.Call)
						if !ok || !isCallTo(set, "(reflect.Value).Set", "(reflect.Value).SetMapIndex") || len(set.Call.Args) < 2 {
							continue
						}
						if set.Call.Args[len(set.Call.Args)-1] == ssa.Value(cl) && strings.Contains(desc(set.Call.Args[0]), alloc+"(") {
							hasRec = true
						}
					}
				}
			}
		}
		pos := p.Pos(fn.Pos())
		pok, why := ev.premiseOK()
		if !pok {
			c.Check("C11.case_shape", "deepClone case reflect."+kind+": rv.Kind() / rv.IsNil() are tested on the unchanged input", false, pos, why)
		}
		c.Check("C11.case_shape", "deepClone case reflect."+kind+": allocates with "+alloc, nRet > 0 && len(notFresh) == 0 && len(input) == 0, pos,
			"returned for this kind (when not nil): "+joinS(append(notFresh, input...)))
		c.Check("C11.case_shape", "deepClone case reflect."+kind+": recurses with deepClone on the elements", hasRec, pos,
			"no deepClone result is stored (Set / SetMapIndex) into the "+alloc+" container when rv.Kind() == reflect."+kind)
		detail := ""
		if len(input) > 0 {
			detail = "returns the input value outside an IsNil guard at " + joinS(input)
		}
		c.Check("C11.case_shape", "deepClone case reflect."+kind+": returns its input only when nil", len(input) == 0, pos, detail)
	}
	return handled
}
