package main

import (
	"fmt"
	"go/token"
	"go/types"
	"strings"

	"golang.org/x/tools/go/ssa"
)

// C27 - recordings are playable up to the last complete part at any crash point.
// Crash points cannot be enumerated statically: the rules below are structural
// necessary conditions, not a crash-consistency claim.

func init() {
	register(Property{ID: "C27", Level: "other", Run: runC27,
		Technique: "static analysis: who-may-call of positioned file operations in package recorder, ordering (must-precede / must-follow) and must-pass-through path conditions on the fMP4 segment writer and on the playback tail scanner, loop-exit classification by dominators, sibling agreement of the continuity marker between recorder and playback (go/ssa)",
		Text:      "Decides structural necessary conditions of the property: (1) the segment file is append-only until close: Seek/WriteAt/Truncate occur in package recorder only inside writeDuration, which is called only from formatFMP4Segment.close, after the pending part was closed, with s.fi and endDTS-startDTS, and is followed by Close on every path; endDTS only grows; (2) the header is written before any part: curPart.close(s.fi) is reached only with s.fi set, s.fi is set only after writeInit succeeded on the freshly created file; (3) writeInit/writePart marshal into memory and issue exactly one Write of that buffer (a crash tears at most the tail write); (4) the playback tail scanner leaves its part loop through for.done on every read/compare/seek failure (no error return) and advances lastMoofPos only after moof header, moof skip, mdat header and mdat skip all succeeded; (5) a new segment is started only at a sync sample of a video track (or any track when there is no video), and each video handler drops samples until the first random-access one; (6) continuity marker: the recorder numbers segments consecutively per recorder instance (streamID fixed at initialize, number = nextSegmentNumber++), writes them into Mtxi, and playback concatenates iff StreamID equal and SegmentNumber+1 == next. Not decided: behaviour at actual crash points (torn/zero-filled tails), file-system ordering, third-party marshalling.",
		Note:      "trusted: go/ssa, os.File append semantics of sequential Write, mediacommon fmp4 Init/Part marshalling (mvhd timescale 1000), go-mp4"})
	addMutants(
		Mutant{"C27", "seek-in-part-write", "internal/recorder/format_fmp4_segment.go",
			"	return s.curPart.close(s.fi)\n}", "	s.fi.Seek(0, io.SeekEnd) //nolint:errcheck\n	return s.curPart.close(s.fi)\n}", "C27.append_only"},
		Mutant{"C27", "duration-before-last-part", "internal/recorder/format_fmp4_segment.go",
			"	if s.curPart != nil {\n		err = s.closeCurPart()\n	}\n\n	if s.fi != nil {", "	if s.fi != nil {", "C27.duration"},
		Mutant{"C27", "duration-wrong-operand", "internal/recorder/format_fmp4_segment.go",
			"		duration := s.endDTS - s.startDTS\n		err2 := writeDuration(s.fi, duration)", "		duration := s.endDTS\n		err2 := writeDuration(s.fi, duration)", "C27.duration"},
		Mutant{"C27", "enddts-guard-dropped", "internal/recorder/format_fmp4_segment.go",
			"	if endDTS > s.endDTS {\n		s.endDTS = endDTS\n	}\n", "	s.endDTS = endDTS\n", "C27.duration"},
		Mutant{"C27", "enddts-guard-inverted", "internal/recorder/format_fmp4_segment.go",
			"	if endDTS > s.endDTS {\n", "	if endDTS < s.endDTS {\n", "C27.duration"},
		Mutant{"C27", "enddts-min-instead-of-max", "internal/recorder/format_fmp4_segment.go",
			"	if endDTS > s.endDTS {\n		s.endDTS = endDTS\n	}\n", "	s.endDTS = min(s.endDTS, endDTS)\n", "C27.duration"},
		Mutant{"C27", "enddts-max-of-wrong-field", "internal/recorder/format_fmp4_segment.go",
			"	if endDTS > s.endDTS {\n		s.endDTS = endDTS\n	}\n", "	s.endDTS = max(s.startDTS, endDTS)\n", "C27.duration"},
		Mutant{"C27", "fi-set-before-header", "internal/recorder/format_fmp4_segment.go",
			"		s.f.ri.onSegmentCreate(s.path)\n\n		err = writeInit(", "		s.f.ri.onSegmentCreate(s.path)\n		s.fi = fi\n\n		err = writeInit(", "C27.header_first"},
		Mutant{"C27", "part-written-in-two-writes", "internal/recorder/format_fmp4_part.go",
			"	_, err = f.Write(buf.Bytes())\n	return err\n}\n\ntype formatFMP4Part struct", "	b := buf.Bytes()\n	_, err = f.Write(b[:len(b)/2])\n	if err != nil {\n		return err\n	}\n	_, err = f.Write(b[len(b)/2:])\n	return err\n}\n\ntype formatFMP4Part struct", "C27.single_write"},
		Mutant{"C27", "tail-error-returned", "internal/playback/segment_fmp4.go",
			"		_, err = r.Seek(int64(moofSize)-8, io.SeekCurrent)\n		if err != nil {\n			break\n		}", "		_, err = r.Seek(int64(moofSize)-8, io.SeekCurrent)\n		if err != nil {\n			return 0, err\n		}", "C27.tail_tolerant"},
		Mutant{"C27", "segment-switch-at-non-sync", "internal/recorder/format_fmp4_track.go",
			"		!t.nextSample.IsNonSyncSample &&\n", "", "C27.sync_start"},
		Mutant{"C27", "first-sample-not-gated", "internal/recorder/format_fmp4.go",
			"						if dtsExtractor == nil {\n							if !randomAccess {\n								return nil\n							}\n							dtsExtractor = &h265.DTSExtractor{}", "						if dtsExtractor == nil {\n							dtsExtractor = &h265.DTSExtractor{}", "C27.sync_start"},
		Mutant{"C27", "segment-number-not-incremented", "internal/recorder/format_fmp4_track.go",
			"		t.f.currentSegment.initialize()\n		t.f.nextSegmentNumber++\n	}\n\n	return nil", "		t.f.currentSegment.initialize()\n	}\n\n	return nil", "C27.continuity"},
		Mutant{"C27", "playback-continuity-off-by-one", "internal/playback/segment_fmp4.go",
			"(mtxi1.SegmentNumber+1) == mtxi2.SegmentNumber", "mtxi1.SegmentNumber == mtxi2.SegmentNumber", "C27.continuity"},
	)
}

func methodName(c *ssa.CallCommon) string {
	if c.IsInvoke() {
		return c.Method.Name()
	}
	if f, ok := c.Value.(*ssa.Function); ok {
		return f.Name()
	}
	return ""
}

// sccOf returns the blocks that are on a cycle through header.
func loopBlocks(header *ssa.BasicBlock) map[*ssa.BasicBlock]bool {
	fwd := map[*ssa.BasicBlock]bool{}
	var f func(b *ssa.BasicBlock)
	f = func(b *ssa.BasicBlock) {
		if fwd[b] {
			return
		}
		fwd[b] = true
		for _, s := range b.Succs {
			f(s)
		}
	}
	for _, s := range header.Succs {
		f(s)
	}
	bwd := map[*ssa.BasicBlock]bool{}
	var g func(b *ssa.BasicBlock)
	g = func(b *ssa.BasicBlock) {
		if bwd[b] {
			return
		}
		bwd[b] = true
		for _, s := range b.Preds {
			g(s)
		}
	}
	for _, s := range header.Preds {
		g(s)
	}
	out := map[*ssa.BasicBlock]bool{}
	for b := range fwd {
		if bwd[b] {
			out[b] = true
		}
	}
	if len(out) > 0 {
		out[header] = true
	}
	return out
}

func runC27(c *Ctx) {
	p := c.Main()
	if p == nil {
		return
	}
	c.Explain = "C27.append_only: every call of a method named Seek/WriteAt/Truncate/ReadAt in package internal/recorder is inside writeDuration; writeDuration has one call site (formatFMP4Segment.close). " +
		"C27.duration: in close, writeDuration is preceded by closeCurPart unless curPart == nil, receives (s.fi, s.endDTS - s.startDTS), is followed by s.fi.Close() on all paths; mvhd.DurationV0 = d/ms; endDTS stored only in initialize (= startDTS) and under endDTS > s.endDTS. " +
		"C27.header_first: curPart.close(s.fi) requires s.fi != nil; the only store of s.fi is the os.Create result after writeInit == nil on that file; writeInit is called only when s.fi == nil. " +
		"C27.single_write: writeInit and writePart: one Marshal into a local buffer, then exactly one (io.Writer).Write of that buffer's Bytes(), no other use of the writer. " +
		"C27.tail_tolerant: loop-exit classification of segmentFMP4ReadDurationFromParts' part loop. " +
		"C27.sync_start: segment switch guarded by !nextSample.IsNonSyncSample and (!hasVideo || IsVideo); video handlers gate the first write on randomAccess. " +
		"C27.continuity: Mtxi.StreamID/SegmentNumber binding in the recorder and the (StreamID equal, SegmentNumber+1 ==) test in playback. " +
		"Not a crash-consistency proof: crash points are not enumerable statically."
	c.Assume = []string{"sequential os.File.Write appends; a crash during one Write leaves at most a torn tail", "mediacommon writes mvhd with timescale 1000 and leaves DurationV0 = 0 in writeInit", "the file system preserves the order of completed writes"}

	seg := func(n string) *ssa.Function { return c.fn(p, "internal/recorder", "formatFMP4Segment", n) }
	closeFn, ccp, segWrite, segInit := seg("close"), seg("closeCurPart"), seg("write"), seg("initialize")
	wd := c.fn(p, "internal/recorder", "", "writeDuration")
	wi := c.fn(p, "internal/recorder", "", "writeInit")
	wp := c.fn(p, "internal/recorder", "", "writePart")
	trw := c.fn(p, "internal/recorder", "formatFMP4Track", "write")
	fini := c.fn(p, "internal/recorder", "formatFMP4", "initialize")
	riInit := c.fn(p, "internal/recorder", "recorderInstance", "initialize")
	rdp := c.fn(p, "internal/playback", "", "segmentFMP4ReadDurationFromParts")
	cbc := c.fn(p, "internal/playback", "", "segmentFMP4CanBeConcatenated")
	if closeFn == nil || ccp == nil || segWrite == nil || segInit == nil || wd == nil || wi == nil || wp == nil || trw == nil || fini == nil || riInit == nil || rdp == nil || cbc == nil {
		return
	}

	// ---------- (1) append-only
	nPos := 0
	recPkg := pkgPath("internal/recorder")
	for _, fn := range p.ModFuncs() {
		if funcPkgPath(fn) != recPkg {
			continue
		}
		eachInstr(fn, func(i ssa.Instruction) {
			cc := callCommon(i)
			if cc == nil {
				return
			}
			switch methodName(cc) {
			case "Seek", "WriteAt", "Truncate", "ReadAt":
				nPos++
				c.Check("C27.append_only", fnName(fn)+": positioned file operation "+calleeName(cc), fn == wd, p.Pos(i.Pos()), "segment files must be append-only until close; positioned operations belong to writeDuration only")
			}
		})
	}
	c.Floor("C27.append_only", nPos, 4)
	wdSites, wdEsc := callSitesOf(p, wd)
	c.Check("C27.append_only", "writeDuration: single call site, in formatFMP4Segment.close, never used as a value",
		len(wdSites) == 1 && len(wdEsc) == 0 && wdSites[0].Parent() == closeFn, p.Pos(wd.Pos()), fmt.Sprintf("%d sites", len(wdSites)))

	// ---------- duration
	if len(wdSites) == 1 && wdSites[0].Parent() == closeFn {
		wdc := wdSites[0].(*ssa.Call)
		isWD := func(i ssa.Instruction) bool { return i == ssa.Instruction(wdc) }
		// preceded by closeCurPart unless curPart == nil
		w := (&Walker{
			Visit: func(i ssa.Instruction) int {
				if isCallTo(i, "(*recorder.formatFMP4Segment).closeCurPart") {
					return wStop
				}
				if isWD(i) {
					return wHit
				}
				return wContinue
			},
			Edge: func(l Lit) bool { return !(l.Pos && l.Atom == "($0.curPart == nil)") },
		}).Run(entry(closeFn))
		c.Check("C27.duration", fnName(closeFn)+": writeDuration is preceded by closeCurPart unless no part is pending", w == nil, p.Pos(wdc.Pos()), w.String(p))
		c.Check("C27.duration", fnName(closeFn)+": writeDuration(s.fi, s.endDTS - s.startDTS)", desc(wdc) == "recorder.writeDuration($0.fi, ($0.endDTS - $0.startDTS))", p.Pos(wdc.Pos()), desc(wdc))
		c.MustPass(p, closeFn, "C27.duration", "call writeDuration", isWD, F("($0.fi == nil)"))
		c.MustFollow(p, closeFn, "C27.duration", "after writeDuration every path closes the file", after(wdc), anyReturn,
			func(i ssa.Instruction) bool {
				return isCallTo(i, "(*os.File).Close") && desc(callCommon(i).Args[0]) == "$0.fi"
			}, nil)
		// onSegmentComplete reports the same duration, only after a successful Close
		for _, i := range closeFn.Blocks {
			for _, ins := range i.Instrs {
				if cl, ok := ins.(*ssa.Call); ok && strings.HasSuffix(calleeName(&cl.Call), ".onSegmentComplete") {
					c.Check("C27.duration", fnName(closeFn)+": onSegmentComplete reports the recorded duration", desc(cl.Call.Args[1]) == "($0.endDTS - $0.startDTS)", p.Pos(cl.Pos()), desc(cl.Call.Args[1]))
				}
			}
		}
	}
	// DurationV0 store in writeDuration
	nDV := 0
	eachInstr(wd, func(i ssa.Instruction) {
		st, ok := i.(*ssa.Store)
		if !ok {
			return
		}
		if fa, ok := st.Addr.(*ssa.FieldAddr); ok && fieldAddrIs(fa, "", "DurationV0") {
			nDV++
			c.Check("C27.duration", "writeDuration: mvhd.DurationV0 = d / time.Millisecond", desc(st.Val) == "($1 / 1000000)", p.Pos(st.Pos()), desc(st.Val))
		}
	})
	c.Floor("C27.duration.DurationV0", nDV, 1)
	// the rewritten box goes back to the position it was read from
	var marshal, unmarshal *ssa.Call
	eachInstr(wd, func(i ssa.Instruction) {
		if cl, ok := i.(*ssa.Call); ok {
			switch calleeName(&cl.Call) {
			case "github.com/abema/go-mp4.Marshal":
				marshal = cl
			case "github.com/abema/go-mp4.Unmarshal":
				unmarshal = cl
			}
		}
	})
	if marshal == nil || unmarshal == nil {
		c.Undecided("UNRESOLVED ANCHOR writeDuration: go-mp4 Marshal/Unmarshal")
	} else {
		sameBox := len(marshal.Call.Args) >= 2 && len(unmarshal.Call.Args) >= 3 && stripConv(marshal.Call.Args[1]) == stripConv(unmarshal.Call.Args[2])
		c.Check("C27.duration", "writeDuration: the mvhd box read is the one written back", sameBox, p.Pos(marshal.Pos()), "")
		// a Seek to the remembered position precedes the Marshal
		var posSeek *ssa.Call
		eachInstr(wd, func(i ssa.Instruction) {
			if cl, ok := i.(*ssa.Call); ok && methodName(&cl.Call) == "Seek" && len(cl.Call.Args) == 2 {
				if ex, ok := cl.Call.Args[0].(*ssa.Extract); ok && ex.Index == 0 {
					if pc, ok := ex.Tuple.(*ssa.Call); ok && methodName(&pc.Call) == "Seek" {
						posSeek = cl
					}
				}
			}
		})
		okSeek := false
		if posSeek != nil {
			okSeek = reachAvoiding(entry(wd), func(i ssa.Instruction) bool { return i == ssa.Instruction(marshal) }, func(i ssa.Instruction) bool { return i == ssa.Instruction(posSeek) }) == nil
			if okSeek {
				// and that position was taken just before the Unmarshal
				ex := posSeek.Call.Args[0].(*ssa.Extract)
				src := ex.Tuple.(*ssa.Call)
				okSeek = reachAvoiding(after(src), func(i ssa.Instruction) bool { return i == ssa.Instruction(unmarshal) }, func(i ssa.Instruction) bool {
					cc := callCommon(i)
					return cc != nil && (methodName(cc) == "Seek" || calleeName(cc) == "io.ReadFull")
				}) != nil
			}
		}
		c.Check("C27.duration", "writeDuration: Marshal happens after seeking back to the position recorded right before Unmarshal", okSeek, p.Pos(marshal.Pos()), "")
	}
	// endDTS writers
	nEnd := 0
	for _, fn := range p.ModFuncs() {
		for _, st := range fieldStores(fn, "recorder.formatFMP4Segment", "endDTS") {
			nEnd++
			switch fn {
			case segInit:
				c.Check("C27.duration", fnName(fn)+": endDTS starts at startDTS", desc(st.Val) == "$0.startDTS", p.Pos(st.Pos()), desc(st.Val))
			case segWrite:
				sst := st
				key := fnName(fn) + ": endDTS is stored only when the new end is greater (monotone)"
				if storesAtLeastOld(sst) {
					// value form: s.endDTS = max(s.endDTS, v) is >= the old value by construction (prop_gen_c27.go)
					c.Check("C27.duration", key, true, p.Pos(st.Pos()), "stored value is max(old, ...)")
					break
				}
				// guard form: old < new on every path, or its non-strict twin !(new < old)
				nv := desc(sst.Val)
				c.checkMustPassPred(p, fn, "C27.duration", key,
					func(i ssa.Instruction) bool { return i == ssa.Instruction(sst) },
					func(l Lit) bool {
						return (l.Pos && l.Atom == "($0.endDTS < "+nv+")") || (!l.Pos && l.Atom == "("+nv+" < $0.endDTS)")
					})
			default:
				c.Check("C27.duration", fnName(fn)+": stores formatFMP4Segment.endDTS", false, p.Pos(st.Pos()), "only initialize and write may")
			}
		}
	}
	c.Floor("C27.duration.endDTS", nEnd, 2)

	// ---------- (2) header first
	pcs := callsIn(ccp, "(*recorder.formatFMP4Part).close")
	wics := callsIn(ccp, "recorder.writeInit")
	if len(pcs) != 1 || len(wics) != 1 {
		c.Undecided("UNRESOLVED ANCHOR closeCurPart: part close / writeInit")
	} else {
		pc := pcs[0].(*ssa.Call)
		wic := wics[0].(*ssa.Call)
		c.Check("C27.header_first", fnName(ccp)+": the part is written to s.fi", desc(pc) == "(*recorder.formatFMP4Part).close($0.curPart, $0.fi)", p.Pos(pc.Pos()), desc(pc))
		c.MustPass(p, ccp, "C27.header_first", "call writeInit", func(i ssa.Instruction) bool { return i == ssa.Instruction(wic) }, T("($0.fi == nil)"))
		created := stripConv(wic.Call.Args[0])
		crOK := false
		if ex, ok := created.(*ssa.Extract); ok && ex.Index == 0 {
			if cl, ok := ex.Tuple.(*ssa.Call); ok && calleeName(&cl.Call) == "os.Create" {
				crOK = true
				c.MustPass(p, ccp, "C27.header_first", "call writeInit", func(i ssa.Instruction) bool { return i == ssa.Instruction(wic) }, T("("+desc(cl)+"#1 == nil)"))
			}
		}
		c.Check("C27.header_first", fnName(ccp)+": writeInit writes into the file just created with os.Create", crOK, p.Pos(wic.Pos()), desc(created))
		// part close: either fi was already set at entry, or it was stored after a successful writeInit
		nFi := 0
		for _, fn := range p.ModFuncs() {
			for _, st := range fieldStores(fn, "recorder.formatFMP4Segment", "fi") {
				nFi++
				if fn != ccp {
					c.Check("C27.header_first", fnName(fn)+": stores formatFMP4Segment.fi", false, p.Pos(st.Pos()), "only closeCurPart may")
					continue
				}
				sst := st
				c.Check("C27.header_first", fnName(ccp)+": s.fi is the file the header was written to", stripConv(st.Val) == created, p.Pos(st.Pos()), desc(st.Val))
				c.checkMustPassPred(p, ccp, "C27.header_first", fnName(ccp)+": s.fi is set only after writeInit succeeded",
					func(i ssa.Instruction) bool { return i == ssa.Instruction(sst) }, func(l Lit) bool { return l.Pos && l.Atom == "("+desc(wic)+" == nil)" })
			}
		}
		c.Floor("C27.header_first.fi_stores", nFi, 1)
		// the part write is reached with fi != nil at entry or through the fi store
		w := (&Walker{
			Visit: func(i ssa.Instruction) int {
				if st, ok := i.(*ssa.Store); ok {
					if fa, ok := st.Addr.(*ssa.FieldAddr); ok && fieldAddrIs(fa, "recorder.formatFMP4Segment", "fi") {
						return wStop
					}
				}
				if i == ssa.Instruction(pc) {
					return wHit
				}
				return wContinue
			},
			Edge: func(l Lit) bool { return !(!l.Pos && l.Atom == "($0.fi == nil)") },
		}).Run(entry(ccp))
		c.Check("C27.header_first", fnName(ccp)+": a part is written only when s.fi was set (header already on disk)", w == nil, p.Pos(pc.Pos()), w.String(p))
	}
	// callers of closeCurPart: only segment.close and segment.write
	ccSites, ccEsc := callSitesOf(p, ccp)
	okCallers := len(ccEsc) == 0
	for _, s := range ccSites {
		if s.Parent() != closeFn && s.Parent() != segWrite {
			okCallers = false
		}
	}
	c.Check("C27.header_first", "closeCurPart is called only by formatFMP4Segment.close and .write", okCallers && len(ccSites) == 2, p.Pos(ccp.Pos()), fmt.Sprint(len(ccSites)))

	// ---------- (3) single write
	for _, fn := range []*ssa.Function{wi, wp} {
		var writes, marshals []*ssa.Call
		otherUse := 0
		w := ssa.Value(fn.Params[0])
		eachInstr(fn, func(i ssa.Instruction) {
			cl, ok := i.(*ssa.Call)
			if ok && cl.Call.IsInvoke() && cl.Call.Value == w && cl.Call.Method.Name() == "Write" {
				writes = append(writes, cl)
				return
			}
			if ok && strings.HasSuffix(calleeName(&cl.Call), ").Marshal") {
				marshals = append(marshals, cl)
			}
			var ops []*ssa.Value
			for _, op := range i.Operands(ops) {
				if op != nil && *op == w {
					otherUse++
				}
			}
		})
		c.Check("C27.single_write", fnName(fn)+": exactly one Write on the file, no other use of the writer", len(writes) == 1 && otherUse == 0, p.Pos(fn.Pos()), fmt.Sprintf("%d writes, %d other uses", len(writes), otherUse))
		if len(writes) == 1 && len(marshals) == 1 {
			wr, m := writes[0], marshals[0]
			// written bytes are Bytes() of the buffer marshalled into
			buf := stripConv(m.Call.Args[len(m.Call.Args)-1])
			bOK := false
			if bc, ok := wr.Call.Args[0].(*ssa.Call); ok && strings.HasSuffix(calleeName(&bc.Call), ".Bytes") {
				r := bc.Call.Args[0]
				if fa, ok := r.(*ssa.FieldAddr); ok {
					r = fa.X
				}
				bOK = r == buf
			}
			_, local := buf.(*ssa.Alloc)
			c.Check("C27.single_write", fnName(fn)+": the single Write carries Bytes() of the local buffer the box was marshalled into", bOK && local, p.Pos(wr.Pos()), desc(wr.Call.Args[0]))
			c.MustPass(p, fn, "C27.single_write", "Write", func(i ssa.Instruction) bool { return i == ssa.Instruction(wr) }, T("("+desc(m)+" == nil)"))
		} else {
			c.Check("C27.single_write", fnName(fn)+": one Marshal into memory before the Write", false, p.Pos(fn.Pos()), fmt.Sprintf("%d marshals", len(marshals)))
		}
	}
	// formatFMP4Part.close forwards the writer to writePart only
	if pcl := c.fn(p, "internal/recorder", "formatFMP4Part", "close"); pcl != nil {
		c.Check("C27.single_write", fnName(pcl)+": forwards to writePart(w, number, partTracks)", len(retDescs(pcl, 0)) == 1 && retDescs(pcl, 0)[0] == "recorder.writePart($1, $0.number, $0.partTracks)", p.Pos(pcl.Pos()), joinS(retDescs(pcl, 0)))
	}

	// ---------- (4) playback tail scanner
	var header *ssa.BasicBlock
	var posCall *ssa.Call
	var lastPhi *ssa.Phi
	eachInstr(rdp, func(i ssa.Instruction) {
		ph, ok := i.(*ssa.Phi)
		if !ok || len(ph.Edges) != 2 {
			return
		}
		var ex *ssa.Extract
		neg := false
		for _, e := range ph.Edges {
			if n, ok := constBig(e); ok && n.Int64() == -1 {
				neg = true
			}
			if x, ok := e.(*ssa.Extract); ok && x.Index == 0 {
				ex = x
			}
		}
		if !neg || ex == nil {
			return
		}
		if cl, ok := ex.Tuple.(*ssa.Call); ok && methodName(&cl.Call) == "Seek" && cl.Block() == ph.Block() {
			header, posCall, lastPhi = ph.Block(), cl, ph
		}
	})
	if header == nil {
		c.Undecided("UNRESOLVED ANCHOR segmentFMP4ReadDurationFromParts: lastMoofPos loop")
	} else {
		loop := loopBlocks(header)
		var back *ssa.BasicBlock
		for k, pr := range header.Preds {
			if loop[pr] {
				back = pr
				_, isEx := lastPhi.Edges[k].(*ssa.Extract)
				c.Check("C27.tail_tolerant", fnName(rdp)+": lastMoofPos advances to the position of the part just verified", isEx, p.Pos(posCall.Pos()), desc(lastPhi.Edges[k]))
			}
		}
		// exit target: the block reading the loop-carried value
		exitTargets := map[*ssa.BasicBlock]int{}
		nExit := 0
		kinds := map[string]int{}
		for b := range loop {
			for _, s := range b.Succs {
				if loop[s] {
					continue
				}
				ifi, _ := b.Instrs[len(b.Instrs)-1].(*ssa.If)
				what := "jump"
				var condCall *ssa.Call
				if ifi != nil {
					v := ifi.Cond
					if u, ok := v.(*ssa.UnOp); ok {
						v = u.X
					}
					if bo, ok := v.(*ssa.BinOp); ok {
						if ex, ok := bo.X.(*ssa.Extract); ok {
							condCall, _ = ex.Tuple.(*ssa.Call)
						}
					}
					if cl, ok := v.(*ssa.Call); ok {
						condCall = cl
					}
					if condCall != nil {
						what = calleeName(&condCall.Call)
						if methodName(&condCall.Call) == "Seek" {
							what = "Seek"
						}
					}
				}
				kinds[what]++
				key := fmt.Sprintf("%s: part-loop exit #%d on %s failure leaves through for.done (no error return)", fnName(rdp), kinds[what], what)
				isRet := false
				for _, ins := range s.Instrs {
					if _, ok := ins.(*ssa.Return); ok {
						isRet = true
					}
				}
				if condCall == posCall {
					// the position query itself may fail with an error
					c.Check("C27.tail_tolerant", fnName(rdp)+": only the position query returns an error from the part loop", isRet, p.Pos(posOf(b.Instrs[len(b.Instrs)-1], rdp)), "")
					continue
				}
				nExit++
				exitTargets[s]++
				// the exit block must carry the lastMoofPos phi (for.done), not a return
				hasPhiUse := false
				for _, ins := range s.Instrs {
					var ops []*ssa.Value
					for _, op := range ins.Operands(ops) {
						if op == nil || *op == nil {
							continue
						}
						if *op == ssa.Value(lastPhi) {
							hasPhiUse = true
						}
						if bo, ok := (*op).(*ssa.BinOp); ok && (bo.X == ssa.Value(lastPhi) || bo.Y == ssa.Value(lastPhi)) {
							hasPhiUse = true
						}
					}
				}
				c.Check("C27.tail_tolerant", key, !isRet && hasPhiUse, p.Pos(posOf(b.Instrs[len(b.Instrs)-1], rdp)), "")
				// the continue side dominates the back edge
				if ifi != nil && back != nil {
					cont := b.Succs[0]
					if cont == s {
						cont = b.Succs[1]
					}
					c.Check("C27.tail_tolerant", fmt.Sprintf("%s: check #%d (%s) must succeed before lastMoofPos advances", fnName(rdp), kinds[what], what), cont.Dominates(back) || cont == back, p.Pos(posOf(ifi, rdp)), "")
				}
			}
		}
		c.Floor("C27.tail_tolerant.exits", nExit, 6)
		c.Check("C27.tail_tolerant", fnName(rdp)+": the part loop checks two headers (ReadFull), two box types (bytes.Equal) and two skips (Seek)",
			kinds["io.ReadFull"] >= 2 && kinds["bytes.Equal"] >= 2 && kinds["Seek"] >= 3, p.Pos(posCall.Pos()), fmt.Sprint(kinds))
	}

	// ---------- (5) sync start
	cls := callsIn(trw, "(*recorder.formatFMP4Segment).close")
	if len(cls) != 1 {
		c.Undecided("UNRESOLVED ANCHOR formatFMP4Track.write: segment close")
	} else {
		isCl := func(i ssa.Instruction) bool { return i == cls[0] }
		c.MustPass(p, trw, "C27.sync_start", "segment switch (currentSegment.close)", isCl, F("$0.nextSample.Sample.IsNonSyncSample"))
		c.MustPass(p, trw, "C27.sync_start", "segment switch (currentSegment.close)", isCl, F("$0.f.hasVideo"), T("(github.com/bluenviron/mediacommon/v2/pkg/formats/mp4/codecs.Codec).IsVideo($0.initTrack.Codec)"))
		// hasVideo is raised by video tracks before the decision
		nHV := 0
		for _, fn := range p.ModFuncs() {
			for _, st := range fieldStores(fn, "recorder.formatFMP4", "hasVideo") {
				nHV++
				v, isC := constBool(st.Val)
				sst := st
				okk := fn == trw && isC && v
				c.Check("C27.sync_start", fnName(fn)+": hasVideo is only ever set to true, by formatFMP4Track.write", okk, p.Pos(st.Pos()), desc(st.Val))
				if okk {
					c.checkMustPassPred(p, trw, "C27.sync_start", fnName(fn)+": hasVideo is set only for a video codec", func(i ssa.Instruction) bool { return i == ssa.Instruction(sst) },
						func(l Lit) bool { return l.Pos && strings.HasSuffix(l.Atom, ".IsVideo($0.initTrack.Codec)") })
				}
			}
		}
		c.Floor("C27.sync_start.hasVideo", nHV, 1)
	}
	// per-codec handlers: the first written sample is a random-access one
	nGate := 0
	var walkAnon func(f *ssa.Function)
	walkAnon = func(f *ssa.Function) {
		for _, a := range f.AnonFuncs {
			walkAnon(a)
			for _, wc := range callsIn(a, "(*recorder.formatFMP4Track).write") {
				// IsNonSyncSample store in this closure
				var ra ssa.Value
				constSync := false
				eachInstr(a, func(i ssa.Instruction) {
					st, ok := i.(*ssa.Store)
					if !ok {
						return
					}
					fa, ok := st.Addr.(*ssa.FieldAddr)
					if !ok || !fieldAddrIs(fa, "", "IsNonSyncSample") {
						return
					}
					if u, ok := st.Val.(*ssa.UnOp); ok && u.Op == token.NOT {
						ra = u.X
					} else if v, isC := constBool(st.Val); isC && !v {
						constSync = true
					} else {
						ra = st.Val
					}
				})
				if ra == nil {
					// no store: zero value false = every sample is a sync sample
					_ = constSync
					continue
				}
				nGate++
				raAtom := desc(ra)
				wcc := wc
				w := mustPassPred(a, func(i ssa.Instruction) bool { return i == wcc }, func(l Lit) bool {
					if l.Pos && l.Atom == raAtom {
						return true
					}
					if l.Pos && l.Atom == "free:firstReceived" {
						return true
					}
					if !l.Pos && l.Atom == "(free:dtsExtractor == nil)" {
						return true
					}
					return false
				})
				c.Check("C27.sync_start", fnName(a)+": the first sample written to the track is a random-access sample (gate on firstReceived/dtsExtractor)", w == nil, p.Pos(wc.Pos()), w.String(p))
			}
		}
	}
	walkAnon(fini)
	c.Floor("C27.sync_start.gates", nGate, 6)

	// ---------- (6) continuity
	nSeg := 0
	eachInstr(trw, func(i ssa.Instruction) {
		st, ok := i.(*ssa.Store)
		if !ok {
			return
		}
		fa, ok := st.Addr.(*ssa.FieldAddr)
		if !ok || !fieldAddrIs(fa, "recorder.formatFMP4Segment", "number") {
			return
		}
		nSeg++
		c.Check("C27.continuity", fmt.Sprintf("%s: new segment #%d takes number = f.nextSegmentNumber", fnName(trw), nSeg), desc(st.Val) == "$0.f.nextSegmentNumber", p.Pos(st.Pos()), desc(st.Val))
		// followed in the same block by nextSegmentNumber++
		inc := false
		for _, ins := range st.Block().Instrs {
			if s2, ok := ins.(*ssa.Store); ok {
				if fa2, ok := s2.Addr.(*ssa.FieldAddr); ok && fieldAddrIs(fa2, "recorder.formatFMP4", "nextSegmentNumber") && desc(s2.Val) == "($0.f.nextSegmentNumber + 1)" {
					inc = true
				}
			}
		}
		c.Check("C27.continuity", fmt.Sprintf("%s: new segment #%d increments f.nextSegmentNumber", fnName(trw), nSeg), inc, p.Pos(st.Pos()), "")
	})
	c.Floor("C27.continuity.segments", nSeg, 2)
	nNum := 0
	for _, fn := range p.ModFuncs() {
		for _, st := range fieldStores(fn, "recorder.formatFMP4", "nextSegmentNumber") {
			nNum++
			c.Check("C27.continuity", fnName(fn)+": nextSegmentNumber is only incremented, in formatFMP4Track.write", fn == trw && desc(st.Val) == "($0.f.nextSegmentNumber + 1)", p.Pos(st.Pos()), desc(st.Val))
		}
		for _, st := range fieldStores(fn, "recorder.recorderInstance", "streamID") {
			c.Check("C27.continuity", fnName(fn)+": streamID is assigned once, a fresh UUID, in recorderInstance.initialize", fn == riInit && desc(st.Val) == "github.com/google/uuid.New()", p.Pos(st.Pos()), desc(st.Val))
			nNum++
		}
	}
	c.Floor("C27.continuity.writers", nNum, 3)
	for _, i := range callsIn(ccp, "recorder.writeInit") {
		a := callCommon(i).Args
		c.Check("C27.continuity", fnName(ccp)+": writeInit(streamID = ri.streamID, segmentNumber = s.number, dts = s.startDTS, ntp = s.startNTP)",
			desc(a[1]) == "$0.f.ri.streamID" && desc(a[2]) == "$0.number" && desc(a[3]) == "$0.startDTS" && desc(a[4]) == "$0.startNTP", p.Pos(i.Pos()), "")
	}
	want := map[string]string{"StreamID": "$1", "SegmentNumber": "$2", "DTS": "$3", "NTP": "(time.Time).UnixNano($4)"}
	got := map[string]string{}
	eachInstr(wi, func(i ssa.Instruction) {
		if st, ok := i.(*ssa.Store); ok {
			if fa, ok := st.Addr.(*ssa.FieldAddr); ok && typeStr(fa.X.Type()) == "*recordstore.Mtxi" {
				got[fieldNameOf(fa)] = desc(st.Val)
			}
		}
	})
	for f, w := range want {
		c.Check("C27.continuity", "writeInit: Mtxi."+f+" <- "+w, got[f] == w, p.Pos(wi.Pos()), "got "+got[f])
	}
	// playback: concatenation test
	a1, a2 := "playback.findMtxi($0.UserData)", "playback.findMtxi($2.UserData)"
	ds := retDescs(cbc, 0)
	wantRet := "phi(((" + a1 + ".SegmentNumber + 1) == " + a2 + ".SegmentNumber) | false)"
	c.Check("C27.continuity", "segmentFMP4CanBeConcatenated: with markers on both sides the result is StreamID equal && prev.SegmentNumber+1 == cur.SegmentNumber", contains(ds, wantRet), p.Pos(cbc.Pos()), joinS(ds))
	retT := func(i ssa.Instruction) bool {
		r, ok := i.(*ssa.Return)
		return ok && desc(r.Results[0]) == wantRet
	}
	if countTargets(cbc, retT) == 1 {
		c.MustPassConsistent(p, cbc, "C27.continuity", "marker comparison", retT, F("("+a1+" == nil)"))
		c.MustPassConsistent(p, cbc, "C27.continuity", "marker comparison", retT, F("("+a2+" == nil)"))
		// the comparison value is used only under StreamID equality
		var cmp *ssa.BinOp
		eachInstr(cbc, func(i ssa.Instruction) {
			if b, ok := i.(*ssa.BinOp); ok && b.Op == token.EQL && strings.Contains(desc(b), "SegmentNumber") {
				cmp = b
			}
		})
		if cmp != nil {
			c.checkMustPassPred(p, cbc, "C27.continuity", "segmentFMP4CanBeConcatenated: SegmentNumber comparison decides only when the StreamIDs are equal",
				func(i ssa.Instruction) bool { return i == ssa.Instruction(cmp) },
				func(l Lit) bool { return l.Pos && l.Atom == "bytes.Equal("+a1+".StreamID[:], "+a2+".StreamID[:])" })
		}
	}
	// a marker on one side only never concatenates
	c.MustPassConsistent(p, cbc, "C27.continuity", "legacy comparison (TracksAreEqual)", callTo("playback.segmentFMP4TracksAreEqual"), T("("+a1+" == nil)"))
	c.MustPassConsistent(p, cbc, "C27.continuity", "legacy comparison (TracksAreEqual)", callTo("playback.segmentFMP4TracksAreEqual"), T("("+a2+" == nil)"))
}

func fieldNameOf(fa *ssa.FieldAddr) string {
	st := fa.X.Type().Underlying().(*types.Pointer).Elem().Underlying().(*types.Struct)
	return st.Field(fa.Field).Name()
}
