package main

import (
	"go/ast"
	"go/constant"
	"go/token"
	"go/types"
	"os"
	"sort"
	"strings"

	"golang.org/x/tools/go/packages"
	"golang.org/x/tools/go/ssa"
)

// C32 (wire part): sibling agreement, on the type-checked AST, of the wire
// operations of marshalTo, the size terms of marshalSize, the payload-size
// computation and the read operations of unmarshal, plus message type and flag
// tables. Tokens:
//   v:F      varint of field F ("." = the receiver itself, "_" = anonymous)
//   len(F)   varint of len(F)         b:F   raw bytes of F
//   s:F      nested structure F       v:const  a constant varint (message type)
//   raw      a literal byte

func init() {
	addMutants(
		Mutant{"C32", "namespace-count-unbounded", "internal/protocols/moq/namespace/namespace.go",
			"	if nsCount > maxFieldCount {\n		return 0, fmt.Errorf(\"too many namespace fields: %d\", nsCount)\n	}\n", "	_ = fmt.Errorf\n", "C32.alloc_bound"},
		Mutant{"C32", "object-payload-unbounded", "internal/protocols/moq/subgroup/object.go",
			"	if payloadLen > maxPayloadSize {\n		return fmt.Errorf(\"payload too large: %d\", payloadLen)\n	}\n", "", "C32.alloc_bound"},
		Mutant{"C32", "publish-trackname-unchecked", "internal/protocols/moq/controlmessage/publish.go",
			"	if uint64(len(buf)) < uint64(tnLen) {\n		return fmt.Errorf(\"invalid track name length: %d\", tnLen)\n	}\n", "	_ = fmt.Errorf\n", "C32.slice_guard"},
		Mutant{"C32", "properties-no-progress", "internal/protocols/moq/property/property.go",
			"		n, err := delta.Unmarshal(buf)\n		if err != nil {\n			return err\n		}\n		buf = buf[n:]\n", "		_, err := delta.Unmarshal(buf)\n		if err != nil {\n			return err\n		}\n", "C32.loop_progress"},
		Mutant{"C32", "varint-wrong-payload-mask", "internal/protocols/moq/varint/varint.go",
			"		*v = Varint(b&0x1F)<<16 | Varint(buf[1])<<8 | Varint(buf[2])", "		*v = Varint(b&0x3F)<<16 | Varint(buf[1])<<8 | Varint(buf[2])", "C32.varint.shifts"},
		Mutant{"C32", "varint-size-threshold-off", "internal/protocols/moq/varint/varint.go",
			"	case v < 1<<14:\n		return 2\n", "	case v < 1<<15:\n		return 2\n", "C32.varint.size_agreement"},
		Mutant{"C32", "varint-unmarshal-no-length-test", "internal/protocols/moq/varint/varint.go",
			"	if len(buf) < size {\n		return 0, fmt.Errorf(\"not enough bytes\")\n	}\n", "", "C32."},
		Mutant{"C32", "varint-encoder-shift", "internal/protocols/moq/varint/varint.go",
			"		buf[0] = 0xE0 | byte(v>>24)\n		buf[1] = byte(v >> 16)", "		buf[0] = 0xE0 | byte(v>>24)\n		buf[1] = byte(v >> 8)", "C32.varint"},
		Mutant{"C32", "request-error-retry-not-read", "internal/protocols/moq/controlmessage/request_error.go",
			"	var retry varint.Varint\n	n, err = retry.Unmarshal(buf)\n	if err != nil {\n		return err\n	}\n	buf = buf[n:]\n\n", "", "C32.wire.order"},
		Mutant{"C32", "publish-size-misses-alias", "internal/protocols/moq/controlmessage/publish.go",
			"	n += varint.Varint(len(m.TrackName)).MarshalSize() + len(m.TrackName)\n	n += varint.Varint(m.TrackAlias).MarshalSize()\n", "	n += varint.Varint(len(m.TrackName)).MarshalSize() + len(m.TrackName)\n", "C32.wire.size"},
		Mutant{"C32", "subscribe-ok-order-swapped", "internal/protocols/moq/controlmessage/subscribe_ok.go",
			"	n += varint.Varint(m.TrackAlias).MarshalTo(buf[n:])\n	n += varint.Varint(len(m.Parameters)).MarshalTo(buf[n:])\n	n += m.Parameters.MarshalTo(buf[n:])\n",
			"	n += varint.Varint(len(m.Parameters)).MarshalTo(buf[n:])\n	n += m.Parameters.MarshalTo(buf[n:])\n	n += varint.Varint(m.TrackAlias).MarshalTo(buf[n:])\n", "C32.wire.order"},
		Mutant{"C32", "read-maps-type-to-wrong-message", "internal/protocols/moq/controlmessage/message.go",
			"	case typePublishOk:\n		m = &PublishOk{}", "	case typePublishOk:\n		m = &RequestOk{}", "C32.msgtype"},
		Mutant{"C32", "header-flag-bit-differs", "internal/protocols/moq/subgroup/header.go",
			"func (h Header) marshalTo(buf []byte) int {\n	st := varint.Varint(0x30)\n	if h.Properties {\n		st |= 0x01\n	}\n	if h.FirstObject {\n		st |= 0x40\n	}",
			"func (h Header) marshalTo(buf []byte) int {\n	st := varint.Varint(0x30)\n	if h.Properties {\n		st |= 0x01\n	}\n	if h.FirstObject {\n		st |= 0x20\n	}", "C32.wire.flags"},
		Mutant{"C32", "length-little-endian", "internal/protocols/moq/controlmessage/message.go",
			"length := uint16(lenBuf[0])<<8 | uint16(lenBuf[1])", "length := uint16(lenBuf[1])<<8 | uint16(lenBuf[0])", "C32.msgtype.length"},
	)
}

type c32W struct {
	c    *Ctx
	p    *Prog
	pk   *packages.Package
	fd   *ast.FuncDecl
	recv types.Object
	// set while the body of a NEW helper (inline.go) is scanned as part of the
	// method that calls it: the helper's parameters (and receiver) stand for the
	// argument expressions of the call, which live in the scope of outer
	subst map[types.Object]ast.Expr
	outer *c32W
	depth int
}

// resolve follows a parameter of an inlined new helper to the argument
// expression of the call being inlined (and the scope it is written in).
func (w *c32W) resolve(e ast.Expr) (ast.Expr, *c32W) {
	for w.subst != nil {
		id, ok := unparen(e).(*ast.Ident)
		if !ok {
			break
		}
		arg, ok := w.subst[w.pk.TypesInfo.Uses[id]]
		if !ok {
			break
		}
		e, w = arg, w.outer
	}
	return e, w
}

// inlineHelper: the call is a static call of a new helper (a function that is
// not in the baseline and is only ever called statically - code extracted from
// the anchored methods). Returns a scanner for its body with the parameters
// bound to the call's arguments, or nil.
func (w *c32W) inlineHelper(call *ast.CallExpr) *c32W {
	if w.depth >= 4 || w.p == nil || w.p.SSA == nil {
		return nil
	}
	obj, ok := calleeObj(w.pk, call).(*types.Func)
	if !ok || obj.Pkg() == nil {
		return nil
	}
	fn := w.p.SSA.FuncValue(obj)
	if fn == nil || !isNewHelper(fn) {
		return nil
	}
	fd, ok := fn.Syntax().(*ast.FuncDecl)
	pk := w.p.ByPath[obj.Pkg().Path()]
	if !ok || fd.Body == nil || pk == nil {
		return nil
	}
	w2 := &c32W{c: w.c, p: w.p, pk: pk, fd: fd, subst: map[types.Object]ast.Expr{}, outer: w, depth: w.depth + 1}
	var params []*ast.Ident
	for _, f := range fd.Type.Params.List {
		if len(f.Names) == 0 {
			params = append(params, nil)
		}
		params = append(params, f.Names...)
	}
	sig := obj.Type().(*types.Signature)
	if sig.Variadic() || len(params) != len(call.Args) {
		return nil
	}
	for i, id := range params {
		if id != nil && id.Name != "_" {
			if o := pk.TypesInfo.Defs[id]; o != nil {
				w2.subst[o] = call.Args[i]
			}
		}
	}
	if fd.Recv != nil && len(fd.Recv.List) == 1 && len(fd.Recv.List[0].Names) == 1 {
		if sel, ok := unparen(call.Fun).(*ast.SelectorExpr); ok {
			if o := pk.TypesInfo.Defs[fd.Recv.List[0].Names[0]]; o != nil {
				w2.subst[o] = sel.X
			}
		}
	}
	return w2
}

func (w *c32W) isVarintType(t types.Type) bool {
	return t != nil && isNamed(t, "internal/protocols/moq/varint", "Varint") && !isPtr(t)
}

func isPtr(t types.Type) bool { _, ok := t.(*types.Pointer); return ok }

func (w *c32W) typeOf(e ast.Expr) types.Type {
	if tv, ok := w.pk.TypesInfo.Types[e]; ok {
		return tv.Type
	}
	return nil
}

func (w *c32W) isConst(e ast.Expr) bool {
	tv, ok := w.pk.TypesInfo.Types[e]
	return ok && tv.Value != nil
}

// key names an operand relative to the method receiver.
func (w *c32W) key(e ast.Expr, anonLocals bool) string {
	e, w = w.resolve(e)
	e = unparen(e)
	switch x := e.(type) {
	case *ast.Ident:
		if o := w.pk.TypesInfo.Uses[x]; o != nil && o == w.recv {
			return "."
		}
		if anonLocals {
			return "_"
		}
		return x.Name
	case *ast.SelectorExpr:
		if bx, bw := w.resolve(x.X); bx != nil {
			if id, ok := unparen(bx).(*ast.Ident); ok {
				if o := bw.pk.TypesInfo.Uses[id]; o != nil && o == bw.recv {
					return x.Sel.Name
				}
			}
		}
	case *ast.StarExpr:
		return w.key(x.X, anonLocals)
	case *ast.UnaryExpr:
		if x.Op == token.AND {
			return w.key(x.X, anonLocals)
		}
	}
	if anonLocals {
		return "_"
	}
	return exprStr(e)
}

// varintOperand: e is varint.Varint(E) -> E, else nil.
func (w *c32W) varintConv(e ast.Expr) ast.Expr {
	call, ok := unparen(e).(*ast.CallExpr)
	if !ok || len(call.Args) != 1 {
		return nil
	}
	if tv, ok := w.pk.TypesInfo.Types[call.Fun]; ok && tv.IsType() && w.isVarintType(tv.Type) {
		return call.Args[0]
	}
	return nil
}

func (w *c32W) lenArg(e ast.Expr) ast.Expr {
	call, ok := unparen(e).(*ast.CallExpr)
	if !ok || len(call.Args) != 1 {
		return nil
	}
	if id, ok := call.Fun.(*ast.Ident); ok && id.Name == "len" {
		if _, isB := w.pk.TypesInfo.Uses[id].(*types.Builtin); isB {
			return call.Args[0]
		}
	}
	return nil
}

// opToken classifies the receiver expression of a MarshalTo/MarshalSize call.
func (w *c32W) opToken(recv ast.Expr) string {
	recv, w = w.resolve(recv)
	if e := w.varintConv(recv); e != nil {
		e, w := w.resolve(e)
		// an integer conversion around the operand (helper parameters are
		// typically uint64 / int) does not change what is written
		for {
			call, ok := unparen(e).(*ast.CallExpr)
			if !ok || len(call.Args) != 1 || w.lenArg(e) != nil {
				break
			}
			tv, ok := w.pk.TypesInfo.Types[call.Fun]
			if !ok || !tv.IsType() {
				break
			}
			if b, isB := tv.Type.Underlying().(*types.Basic); !isB || b.Info()&types.IsInteger == 0 {
				break
			}
			e, w = w.resolve(call.Args[0])
		}
		if l := w.lenArg(e); l != nil {
			return "len(" + w.key(l, false) + ")"
		}
		if w.isConst(e) {
			return "v:const"
		}
		return "v:" + w.key(e, true)
	}
	if t := w.typeOf(recv); t != nil && (w.isVarintType(t) || isNamed(t, "internal/protocols/moq/property", "Timestamp") && false) {
		if w.isConst(recv) {
			return "v:const"
		}
		return "v:" + w.key(recv, true)
	}
	return "s:" + w.key(recv, false)
}

// encTokens: wire operations (methods named like wantMethod, copy, raw byte
// stores); sizeTokens: MarshalSize/marshalSize terms, bare len() and literals.
func (w *c32W) scan(body ast.Node, wantWrite bool) (toks []string, lits int64, hasIf bool) {
	var condRanges [][2]token.Pos
	ast.Inspect(body, func(n ast.Node) bool {
		if is, ok := n.(*ast.IfStmt); ok {
			hasIf = true
			condRanges = append(condRanges, [2]token.Pos{is.Cond.Pos(), is.Cond.End()})
		}
		return true
	})
	inCond := func(p token.Pos) bool {
		for _, r := range condRanges {
			if p >= r[0] && p < r[1] {
				return true
			}
		}
		return false
	}
	ast.Inspect(body, func(n ast.Node) bool {
		switch x := n.(type) {
		case *ast.CallExpr:
			if inCond(x.Pos()) {
				return true
			}
			// a new helper is scanned in place of its call (its parameters
			// standing for the arguments): `n += putVarint(buf[n:], m.F)` with
			// `func putVarint(b []byte, v uint64) int { return varint.Varint(v).MarshalTo(b) }`
			// is the write of v:F it was extracted from
			if w2 := w.inlineHelper(x); w2 != nil {
				t2, l2, if2 := w2.scan(w2.fd.Body, wantWrite)
				toks = append(toks, t2...)
				lits += l2
				hasIf = hasIf || if2
				return false
			}
			if sel, ok := x.Fun.(*ast.SelectorExpr); ok {
				name := sel.Sel.Name
				isW := name == "MarshalTo" || name == "marshalTo"
				isS := name == "MarshalSize" || name == "marshalSize"
				if (wantWrite && isW) || (!wantWrite && isS) {
					toks = append(toks, w.opToken(sel.X))
					return false
				}
				if isW || isS {
					return false
				}
			}
			if id, ok := x.Fun.(*ast.Ident); ok {
				if _, isB := w.pk.TypesInfo.Uses[id].(*types.Builtin); isB {
					if wantWrite && id.Name == "copy" && len(x.Args) == 2 {
						toks = append(toks, "b:"+w.key(x.Args[1], false))
						return false
					}
					if !wantWrite && id.Name == "len" && len(x.Args) == 1 {
						toks = append(toks, "b:"+w.key(x.Args[0], false))
						return false
					}
				}
			}
		case *ast.Ident:
			// inside an inlined helper: a size parameter that stands for len(F)
			// at the call (`func bytesSize(l int) int { return varint.Varint(l).MarshalSize() + l }`)
			if !wantWrite && w.subst != nil && !inCond(x.Pos()) {
				if e, ow := w.resolve(x); ow != w {
					if l := ow.lenArg(e); l != nil {
						toks = append(toks, "b:"+ow.key(l, false))
					}
				}
			}
		case *ast.AssignStmt:
			if wantWrite && len(x.Lhs) == 1 && x.Tok == token.ASSIGN {
				if ix, ok := x.Lhs[0].(*ast.IndexExpr); ok && c32IsByteSlice(w.typeOf(ix.X)) {
					if w.isConst(x.Rhs[0]) {
						toks = append(toks, "raw")
					} else {
						toks = append(toks, "raw:"+exprStr(x.Rhs[0]))
					}
				}
			}
		case *ast.BinaryExpr:
			// literal addends of a size sum (`... + 2`)
			if !wantWrite && x.Op == token.ADD && !inCond(x.Pos()) {
				for _, o := range []ast.Expr{x.X, x.Y} {
					if bl, ok := unparen(o).(*ast.BasicLit); ok && bl.Kind == token.INT {
						if tv, ok := w.pk.TypesInfo.Types[bl]; ok && tv.Value != nil {
							if k, ok := constant.Int64Val(tv.Value); ok {
								lits += k
							}
						}
					}
				}
			}
		}
		return true
	})
	return
}

// decTokens: read operations of an unmarshal/read method in source order.
func (w *c32W) decTokens(body ast.Node) []string {
	type ev struct {
		pos  token.Pos
		toks []string
	}
	var evs []ev
	decoded := map[types.Object]token.Pos{} // varint locals decoded, position of decode
	used := map[types.Object]bool{}
	localVarint := func(e ast.Expr) types.Object {
		// a Varint local, possibly wrapped in conversions int(x), T(x), uint64(x)
		for {
			e = unparen(e)
			if call, ok := e.(*ast.CallExpr); ok && len(call.Args) == 1 {
				if tv, ok := w.pk.TypesInfo.Types[call.Fun]; ok && tv.IsType() {
					e = call.Args[0]
					continue
				}
			}
			break
		}
		id, ok := e.(*ast.Ident)
		if !ok {
			return nil
		}
		o := w.pk.TypesInfo.Uses[id]
		if o == nil || o == w.recv || !w.isVarintType(o.Type()) {
			return nil
		}
		return o
	}
	mentions := func(n ast.Node) types.Object {
		var found types.Object
		ast.Inspect(n, func(m ast.Node) bool {
			if id, ok := m.(*ast.Ident); ok {
				if o := w.pk.TypesInfo.Uses[id]; o != nil && o != w.recv && w.isVarintType(o.Type()) {
					if _, dec := decoded[o]; dec {
						found = o
					}
				}
			}
			return true
		})
		return found
	}
	ast.Inspect(body, func(n ast.Node) bool {
		switch x := n.(type) {
		case *ast.CallExpr:
			sel, ok := x.Fun.(*ast.SelectorExpr)
			if !ok {
				return true
			}
			switch sel.Sel.Name {
			case "Unmarshal", "unmarshal", "Read", "read":
				if o := localVarint(sel.X); o != nil {
					decoded[o] = x.Pos()
					return false
				}
				if t := w.typeOf(sel.X); t != nil && isNamed(t, "io", "Reader") {
					// r.Read(b[:]) of a fixed array: one raw byte
					evs = append(evs, ev{x.Pos(), []string{"v:_"}})
					return false
				}
				k := w.key(sel.X, false)
				var ts []string
				for _, a := range x.Args {
					if o := localVarint(a); o != nil {
						used[o] = true
						ts = append(ts, "len("+k+")")
					}
				}
				evs = append(evs, ev{x.Pos(), append(ts, "s:"+k)})
				return false
			}
		case *ast.AssignStmt:
			if len(x.Lhs) != 1 || len(x.Rhs) != 1 {
				return true
			}
			k := w.key(x.Lhs[0], false)
			isField := false
			switch l := unparen(x.Lhs[0]).(type) {
			case *ast.SelectorExpr:
				if id, ok := unparen(l.X).(*ast.Ident); ok && w.pk.TypesInfo.Uses[id] == w.recv {
					isField = true
				}
			case *ast.StarExpr:
				if id, ok := unparen(l.X).(*ast.Ident); ok && w.pk.TypesInfo.Uses[id] == w.recv {
					isField = true
				}
			}
			if !isField {
				return true
			}
			rhs := unparen(x.Rhs[0])
			if o := localVarint(rhs); o != nil {
				used[o] = true
				evs = append(evs, ev{x.Pos(), []string{"v:" + k}})
				return false
			}
			// string(buf[:l]) / make([]byte, l) / buf[n:]
			if o := mentions(rhs); o != nil {
				used[o] = true
				evs = append(evs, ev{x.Pos(), []string{"len(" + k + ")", "b:" + k}})
				return false
			}
			if se, ok := rhs.(*ast.SliceExpr); ok && c32IsByteSlice(w.typeOf(se.X)) {
				evs = append(evs, ev{x.Pos(), []string{"b:" + k}})
				return false
			}
		}
		return true
	})
	for o, pos := range decoded {
		if !used[o] {
			evs = append(evs, ev{pos, []string{"v:_"}})
		}
	}
	sort.SliceStable(evs, func(i, j int) bool { return evs[i].pos < evs[j].pos })
	var out []string
	for _, e := range evs {
		out = append(out, e.toks...)
	}
	return out
}

func c32Method(p *Prog, pkg, recv, name string) (*c32W, bool) {
	fd, pk := p.FuncDecl(pkg, recv, name)
	if fd == nil || fd.Recv == nil || len(fd.Recv.List) != 1 {
		return nil, false
	}
	w := &c32W{p: p, pk: pk, fd: fd}
	if len(fd.Recv.List[0].Names) == 1 {
		w.recv = pk.TypesInfo.Defs[fd.Recv.List[0].Names[0]]
	}
	return w, true
}

func multisetEq(a, b []string) bool { return sameStrings(sortedCopy(a), sortedCopy(b)) }

func setOf(a []string) []string {
	m := map[string]bool{}
	for _, s := range a {
		m[s] = true
	}
	return sortedKeys(m)
}

func dropAnon(a []string) []string {
	var o []string
	for _, s := range a {
		if s != "v:_" {
			o = append(o, s)
		}
	}
	return o
}

func c32Wire(c *Ctx, p *Prog) {
	type st struct {
		pkg, typ         string
		sizeM, writeM    string
		decM             string // "" = no order rule
		full             bool   // compare anonymous varints too
		message          bool   // framed control message: header stripped, payload-size rule
		containerNoOrder string // reason when decM == ""
	}
	cm := "internal/protocols/moq/controlmessage"
	structs := []st{
		{cm, "Publish", "marshalSize", "marshalTo", "unmarshal", true, true, ""},
		{cm, "PublishOk", "marshalSize", "marshalTo", "unmarshal", true, true, ""},
		{cm, "RequestError", "marshalSize", "marshalTo", "unmarshal", true, true, ""},
		{cm, "RequestOk", "marshalSize", "marshalTo", "unmarshal", true, true, ""},
		{cm, "Subscribe", "marshalSize", "marshalTo", "unmarshal", true, true, ""},
		{cm, "SubscribeOk", "marshalSize", "marshalTo", "unmarshal", true, true, ""},
		{cm, "Setup", "marshalSize", "marshalTo", "", false, false, "option list decoded by a generic loop (option table rule instead)"},
		{"internal/protocols/moq/parameter", "AuthorizationToken", "marshalSize", "marshalTo", "unmarshal", true, false, ""},
		{"internal/protocols/moq/parameter", "Parameters", "MarshalSize", "MarshalTo", "", false, false, "delta-typed list of interface values"},
		{"internal/protocols/moq/property", "Properties", "MarshalSize", "MarshalTo", "", false, false, "delta-typed list of interface values"},
		{"internal/protocols/moq/property", "Timestamp", "marshalSize", "marshalTo", "unmarshal", true, false, ""},
		{"internal/protocols/moq/namespace", "Namespace", "MarshalSize", "MarshalTo", "", false, false, "element loop"},
		{"internal/protocols/moq/subgroup", "Header", "marshalSize", "marshalTo", "read", true, false, ""},
		{"internal/protocols/moq/subgroup", "Object", "marshalSize", "marshalTo", "read", false, false, ""},
		{"internal/protocols/moq/subgroup", "SubGroup", "marshalSize", "marshalTo", "", false, false, "single-object reader"},
	}
	for _, s := range structs {
		name := shortPkgStr(s.pkg) + "." + s.typ
		ws, ok1 := c32Method(p, s.pkg, s.typ, s.sizeM)
		ww, ok2 := c32Method(p, s.pkg, s.typ, s.writeM)
		if !ok1 || !ok2 {
			c.Undecided("UNRESOLVED ANCHOR " + name + "." + s.sizeM + "/" + s.writeM)
			continue
		}
		sizeT, lits, if1 := ws.scan(ws.fd.Body, false)
		writeT, _, if2 := ww.scan(ww.fd.Body, true)
		// raw byte stores correspond to integer literals in the size
		var writeN []string
		raws := int64(0)
		for _, t := range writeT {
			if t == "raw" || strings.HasPrefix(t, "raw:") {
				raws++
				continue
			}
			writeN = append(writeN, t)
		}
		var okSize bool
		if if1 || if2 {
			okSize = sameStrings(setOf(sizeT), setOf(writeN)) && (raws > 0) == (lits > 0)
		} else {
			okSize = multisetEq(sizeT, writeN) && raws == lits
		}
		c.Check("C32.wire.size", name+": "+s.sizeM+" terms == "+s.writeM+" operations", okSize, p.Pos(ws.fd.Pos()),
			sprintf("size %v + %d literal byte(s); writes %v + %d raw byte(s)", sizeT, lits, writeN, raws))
		if s.message {
			// payload size computed inside marshalTo = size terms without the header (type + 2 length bytes)
			payT, _, _ := ww.scan(ww.fd.Body, false)
			var want []string
			for _, t := range sizeT {
				if t != "v:const" {
					want = append(want, t)
				}
			}
			c.Check("C32.wire.payload_size", name+": payload length written = size terms without the header", multisetEq(payT, want), p.Pos(ww.fd.Pos()), sprintf("payload %v; size %v", payT, want))
			// the two length bytes: big-endian
			var rawX []string
			for _, t := range writeT {
				if strings.HasPrefix(t, "raw:") {
					rawX = append(rawX, strings.TrimPrefix(t, "raw:"))
				}
			}
			okLen := len(rawX) == 2 && strings.HasPrefix(rawX[0], "byte(") && strings.HasSuffix(rawX[0], " >> 8)") &&
				rawX[1] == strings.TrimSuffix(rawX[0], " >> 8)")+")"
			c.Check("C32.msgtype.length", name+": 16-bit payload length written big-endian", okLen, p.Pos(ww.fd.Pos()), sprintf("%v", rawX))
		}
		if s.decM == "" {
			continue
		}
		wd, ok := c32Method(p, s.pkg, s.typ, s.decM)
		if !ok {
			c.Undecided("UNRESOLVED ANCHOR " + name + "." + s.decM)
			continue
		}
		decT := wd.decTokens(wd.fd.Body)
		// encoder sequence without framing; a literal byte is an anonymous varint
		var encT []string
		for _, t := range writeT {
			switch {
			case t == "v:const" && s.message, strings.HasPrefix(t, "raw:"):
				continue
			case t == "raw":
				encT = append(encT, "v:_")
			default:
				encT = append(encT, t)
			}
		}
		a, b := encT, decT
		if !s.full {
			a, b = dropAnon(a), dropAnon(b)
		}
		if os.Getenv("C32_DEBUG") != "" {
			println("C32 order", name, strings.Join(a, " "), "|", strings.Join(b, " "), "| size:", strings.Join(sizeT, " "))
		}
		c.Check("C32.wire.order", name+": "+s.writeM+" field sequence == "+s.decM+" field sequence", sameStrings(a, b), p.Pos(wd.fd.Pos()), sprintf("written %v; read %v", a, b))
	}

	// ---- Setup option table
	c32SetupOptions(c, p)
	// ---- subgroup header flag bits
	c32HeaderFlags(c, p)
	// ---- message type table and length framing of Read
	c32MsgTypes(c, p)
}

func shortPkgStr(s string) string { return strings.TrimPrefix(s, "internal/protocols/moq/") }

// c32SetupOptions: option constant -> field, in marshalTo/marshalSize (if m.F != "" { delta := K - previousType ...}) and in unmarshal (switch case K: m.F = value).
func c32SetupOptions(c *Ctx, p *Prog) {
	cm := "internal/protocols/moq/controlmessage"
	table := func(method string) (map[string]string, *c32W) {
		w, ok := c32Method(p, cm, "Setup", method)
		if !ok {
			return nil, nil
		}
		out := map[string]string{}
		ast.Inspect(w.fd.Body, func(n ast.Node) bool {
			switch x := n.(type) {
			case *ast.IfStmt: // encoder side
				be, ok := x.Cond.(*ast.BinaryExpr)
				if !ok || be.Op != token.NEQ {
					return true
				}
				f := w.key(be.X, false)
				ast.Inspect(x.Body, func(m ast.Node) bool {
					if sub, ok := m.(*ast.BinaryExpr); ok && sub.Op == token.SUB {
						if id, ok := sub.X.(*ast.Ident); ok {
							if cn, ok := w.pk.TypesInfo.Uses[id].(*types.Const); ok {
								out[cn.Name()+"="+cn.Val().ExactString()] = f
							}
						}
					}
					return true
				})
			case *ast.CaseClause: // decoder side
				for _, e := range x.List {
					id, ok := e.(*ast.Ident)
					if !ok {
						continue
					}
					cn, ok := w.pk.TypesInfo.Uses[id].(*types.Const)
					if !ok {
						continue
					}
					for _, st := range x.Body {
						if as, ok := st.(*ast.AssignStmt); ok && len(as.Lhs) == 1 {
							out[cn.Name()+"="+cn.Val().ExactString()] = w.key(as.Lhs[0], false)
						}
					}
				}
			}
			return true
		})
		return out, w
	}
	render := func(m map[string]string) []string {
		var o []string
		for k, v := range m {
			o = append(o, k+"→"+v)
		}
		sort.Strings(o)
		return o
	}
	enc, w1 := table("marshalTo")
	siz, _ := table("marshalSize")
	dec, _ := table("unmarshal")
	if w1 == nil || siz == nil || dec == nil {
		c.Undecided("UNRESOLVED ANCHOR controlmessage.Setup methods")
		return
	}
	c.Check("C32.wire.options", "controlmessage.Setup: option table of marshalTo == unmarshal", len(enc) >= 2 && sameStrings(render(enc), render(dec)), p.Pos(w1.fd.Pos()), sprintf("written %v; read %v", render(enc), render(dec)))
	c.Check("C32.wire.options", "controlmessage.Setup: option table of marshalSize == marshalTo", sameStrings(render(enc), render(siz)), p.Pos(w1.fd.Pos()), sprintf("size %v; written %v", render(siz), render(enc)))
	// option types are odd (length-prefixed byte fields in the decoder)
	odd := true
	for k := range enc {
		v := k[strings.Index(k, "=")+1:]
		if len(v) == 0 || (v[len(v)-1]-'0')%2 == 0 {
			odd = false
		}
	}
	c.Check("C32.wire.options", "controlmessage.Setup: written option types are odd (length-prefixed in the decoder)", odd, p.Pos(w1.fd.Pos()), sprintf("%v", render(enc)))
}

// c32HeaderFlags: field -> flag mask in Header.marshalTo/marshalSize (if h.F { st |= C }) and Header.read (h.F = (b[0] & C) != 0).
func c32HeaderFlags(c *Ctx, p *Prog) {
	sg := "internal/protocols/moq/subgroup"
	table := func(method string) (map[string]string, *c32W) {
		w, ok := c32Method(p, sg, "Header", method)
		if !ok {
			return nil, nil
		}
		out := map[string]string{}
		val := func(e ast.Expr) string {
			if tv, ok := w.pk.TypesInfo.Types[e]; ok && tv.Value != nil {
				return tv.Value.ExactString()
			}
			return "?" + exprStr(e)
		}
		ast.Inspect(w.fd.Body, func(n ast.Node) bool {
			switch x := n.(type) {
			case *ast.IfStmt:
				f := w.key(x.Cond, false)
				for _, st := range x.Body.List {
					if as, ok := st.(*ast.AssignStmt); ok && as.Tok == token.OR_ASSIGN {
						out[f] = val(as.Rhs[0])
					}
				}
			case *ast.AssignStmt:
				if len(x.Lhs) == 1 && x.Tok == token.ASSIGN {
					if be, ok := unparen(x.Rhs[0]).(*ast.BinaryExpr); ok && be.Op == token.NEQ {
						if and, ok := unparen(be.X).(*ast.BinaryExpr); ok && and.Op == token.AND {
							out[w.key(x.Lhs[0], false)] = val(and.Y)
						}
					}
				}
			}
			return true
		})
		return out, w
	}
	render := func(m map[string]string) []string {
		var o []string
		for k, v := range m {
			o = append(o, k+"="+v)
		}
		sort.Strings(o)
		return o
	}
	enc, w1 := table("marshalTo")
	siz, _ := table("marshalSize")
	dec, _ := table("read")
	if w1 == nil || siz == nil || dec == nil {
		c.Undecided("UNRESOLVED ANCHOR subgroup.Header methods")
		return
	}
	c.Check("C32.wire.flags", "subgroup.Header: flag bits of marshalTo == read", len(enc) >= 2 && sameStrings(render(enc), render(dec)), p.Pos(w1.fd.Pos()), sprintf("written %v; read %v", render(enc), render(dec)))
	c.Check("C32.wire.flags", "subgroup.Header: flag bits of marshalSize == marshalTo", sameStrings(render(enc), render(siz)), p.Pos(w1.fd.Pos()), sprintf("size %v; written %v", render(siz), render(enc)))
}

// c32MsgTypes: controlmessage.Read maps type constant K to &T{}; T's encoder
// writes exactly K; the frame length is read big-endian from two bytes.
func c32MsgTypes(c *Ctx, p *Prog) {
	cm := "internal/protocols/moq/controlmessage"
	fd, pk := p.FuncDecl(cm, "", "Read")
	if fd == nil {
		c.Undecided("UNRESOLVED ANCHOR controlmessage.Read")
		return
	}
	caseOf := map[string]*types.Const{} // message type name -> constant
	n := 0
	ast.Inspect(fd.Body, func(nd ast.Node) bool {
		cc, ok := nd.(*ast.CaseClause)
		if !ok || len(cc.List) != 1 {
			return true
		}
		id, ok := cc.List[0].(*ast.Ident)
		if !ok {
			return true
		}
		cn, ok := pk.TypesInfo.Uses[id].(*types.Const)
		if !ok {
			return true
		}
		for _, st := range cc.Body {
			as, ok := st.(*ast.AssignStmt)
			if !ok || len(as.Rhs) != 1 {
				continue
			}
			if t := pk.TypesInfo.Types[as.Rhs[0]].Type; t != nil {
				if nm := namedOf(t); nm != nil {
					n++
					if prev, dup := caseOf[nm.Obj().Name()]; dup {
						c.Check("C32.msgtype.table", "controlmessage.Read: "+nm.Obj().Name()+" is produced by one type constant", false, p.Pos(cc.Pos()), prev.Name()+" and "+cn.Name())
					}
					caseOf[nm.Obj().Name()] = cn
				}
			}
		}
		return true
	})
	c.Floor("C32.msgtype.table", n, 9)
	var names []string
	for k := range caseOf {
		names = append(names, k)
	}
	sort.Strings(names)
	for _, tn := range names {
		want := caseOf[tn]
		// constants of type Varint used by T.Marshal and T.marshalTo
		got := map[string]bool{}
		for _, m := range []string{"Marshal", "marshalTo"} {
			f2, pk2 := p.FuncDecl(cm, tn, m)
			if f2 == nil {
				continue
			}
			ast.Inspect(f2.Body, func(nd ast.Node) bool {
				if id, ok := nd.(*ast.Ident); ok {
					if cn, ok := pk2.TypesInfo.Uses[id].(*types.Const); ok && cn.Parent() == pk2.Types.Scope() && isNamed(cn.Type(), "internal/protocols/moq/varint", "Varint") {
						if _, isType := caseConst(caseOf, cn); isType {
							got[cn.Name()] = true
						}
					}
				}
				return true
			})
		}
		c.Check("C32.msgtype.table", "controlmessage."+tn+": encoder writes the type constant Read maps to it", len(got) == 1 && got[want.Name()], p.Pos(fd.Pos()),
			sprintf("Read: %s; encoder uses %v", want.Name(), sortedKeys(got)))
	}
	// frame length
	rd := c.fn(p, cm, "", "Read")
	if rd != nil {
		ok := false
		eachInstr(rd, func(i ssa.Instruction) {
			if ms, isM := i.(*ssa.MakeSlice); isM && desc(ms.Len) == "((new([2]byte)[0] << 8) | new([2]byte)[1])" {
				ok = true
			}
		})
		c.Check("C32.msgtype.length", "controlmessage.Read: payload length = lenBuf[0]<<8 | lenBuf[1]", ok, p.Pos(rd.Pos()), "")
	}
}

func caseConst(m map[string]*types.Const, cn *types.Const) (string, bool) {
	for k, v := range m {
		if v == cn {
			return k, true
		}
	}
	return "", false
}
