package main

import (
	"strings"

	"golang.org/x/tools/go/ssa"
)

// C16, C18, C19, C20 - rules over internal/core/path.go (the path actor) and
// the hook holders of the servers.

func init() {
	register(Property{ID: "C16", Level: "other", Run: runC16,
		Technique: "static analysis: who-may-store on path.source / Stream.subStream, must-pass-through path conditions on doAddPublisher and SubStream.WriteUnit, acquire/rollback pairing walk after setAvailable (go/ssa)",
		Text:      "Decides the structural skeleton of 'one publisher, replaced publishers are cut off': path.source is written only by doAddPublisher (req.Author), executeRemovePublisher (nil) and run (static/redirect source); in doAddPublisher the store is reached only if source == nil or overridePublisher with the previous publisher Close()d and executeRemovePublisher()ed first, and only for source 'publisher'; every call of executeRemovePublisher in the module (the only place that clears the source) is either the answer to a remove request of the current source itself (source == req.Author) or preceded by Close() of the detached publisher, so no live publisher is detached silently; after a successful setAvailable every error reply of doAddPublisher/doSourceStaticSetReady is preceded by setNotAvailable (rollback); SubStream.WriteUnit forwards a unit only under Stream.mutex.RLock and only while Stream.subStream == ss; Stream.subStream is stored only in SubStream.Initialize under the write lock. It does not decide interleavings of a replaced publisher's in-flight writes beyond that guard.",
		Note:      "trusted: go/ssa CFG; the path fields are owned by the path goroutine (single writer), which C40's channel rules support"})
	register(Property{ID: "C18", Level: "other", Run: runC18,
		Technique: "static analysis: who-may-write on path.readers / path.stream, must-pass-through path conditions on addReaderPost and setNotAvailable (go/ssa)",
		Text:      "path.readers is written only in initialize (make) and addReaderPost (insert); a reader is removed from it (a delete instruction, or a call of a method that deletes the reader it is given, such as executeRemoveReader) only in answer to that reader's own remove request or by a teardown loop that also Close()s it; the insert is reached only with the author absent and not(maxReaders != 0 and len(readers) >= maxReaders); setNotAvailable removes and Close()s every reader on every path before it returns; path.stream is cleared only by setNotAvailable and set only by setAvailable; the limit survives a configuration reload: a living path receives a new configuration only through the chain store-of-a-parameter / channel / sender / call site, each call site dominated by pathConfCanBeUpdated(old, new) being true (directly or through a local set filled only under it), and pathConfCanBeUpdated can be true only with an unchanged MaxReaders (MaxReaders is not among the fields it overwrites in the clone it compares) unless doReloadConf re-establishes len(readers) <= MaxReaders. This is the counting and teardown skeleton; it does not decide reader behaviour after Close().",
		Note:      "trusted: single-goroutine ownership of path fields"})
	register(Property{ID: "C19", Level: "other", Run: runC19,
		Technique: "static analysis: exactly-once typestate over all CFG paths of the request handlers (answer | hold | answering call), drain rules on the on-hold lists, on-demand state-transition table (go/ssa)",
		Text:      "On every path of each path / path-manager request handler exactly one of {send on req.Res, close(req.Res), append to an on-hold list, call of an answering function} happens; the on-hold lists are appended to only by doDescribe/doAddReader; every `list = nil` is preceded by a loop answering every element, the drain sites are exactly source ready / publisher added (consumeOnHoldRequests), both start-timeout timers, and the teardown of run answers both lists; requesters receive from req.Res after a successful send on an unbuffered channel created by the wrapper; stores to the on-demand state fields form exactly the documented transition table and Start is called only from state initial; inside a handler no onDemand*ScheduleClose (arming of the close timer) follows a call that attaches readers (consumeOnHoldRequests / addReaderPost) unless len(readers) == 0 was re-tested, and the two on-ready handlers arm it before their success reply when the source arrived on demand; the handler of a reader's remove request arms it on every path that can end with len(readers) == 0, the kind configured and the state ready - in particular also when the author had already been detached by the path itself (publisher gone first), because that request is then the only event left that stops the on-demand source. Interleavings with timer expiry are not decided.",
		Note:      "trusted: Go channel semantics; single-goroutine ownership of path fields"})
	register(Property{ID: "C20", Level: "other", Run: runC20,
		Technique: "static analysis: per-holder pairing idioms for the closures returned by hooks.On* (defer / nil-guarded field / resource-paired field), who-may-store and who-may-call on holder fields, guarded-caller tables (go/ssa)",
		Text:      "Every closure returned by hooks.On* (13 sites) is held by one of three idioms, and each idiom is checked: locals are deferred or called on every path to return; path.onOfflineHook is stored only in setOnline after setOffline and called only nil-guarded in setOffline followed by = nil; path.onUnDemandHook is stored only in onDemandPublisherStart (entered only from state initial), called and cleared only in onDemandPublisherStop and the run teardown; path.onUnavailableHook is stored only in setAvailable after the stream initialised and called only in setNotAvailable, whose callers are each dominated by a literal implying the stream is held (frozen table) and which clears the stream on all paths; after a successful setAvailable every error exit rolls back; server-side field holders (rtsp conn/session, hls session) are stored and called only in their paired functions under the paired state literal; conversely (closed_when_open) in every closing function of the table - for path.run: after the event loop returned - every path to a return runs the stop closure unless it passes the edge on which the 'pair is open' literal is false (holder == nil, state != play, stream == nil for the stream-paired hook closed through setNotAvailable), i.e. the stop closure is not put under any additional condition. This decides that every transition function preserves 'hook open <=> resource held', not alternation over arbitrary lifecycles. closed_sessions_forgotten (prop_r4_c20_hls.go): a session an HLS muxer closes from one of its holders (range over the session map, the CDN session field) is removed from that holder in the same critical section, before or after the close, so that nothing can find and close it a second time. demand.initial_after_stop: path.onDemandPublisherState is set back to initial (the state in which the next demand starts a new runOnDemand pair) only in runs of the storing function that also call the closure held in onUnDemandHook (before or after the store; for a helper that does not call it, the same at every call site).",
		Note:      "trusted: gortsplib session state machine (PrePlay->Play), hooks constructors launch the start command and return the closing closure"})
	addMutants(
		// C16
		Mutant{"C16", "override-without-close", "internal/core/path.go",
			"		pa.source.(defs.Publisher).Close()\n		pa.executeRemovePublisher()\n", "", "C16.add_publisher"},
		Mutant{"C16", "substream-guard-dropped", "internal/stream/sub_stream.go",
			"	if ss.Stream.subStream != ss {\n		return\n	}\n", "", "C16.write_unit"},
		Mutant{"C16", "source-assigned-in-describe", "internal/core/path.go",
			"	if pa.conf.Fallback != nil {\n		req.Res <- defs.PathDescribeRes{Redirect: *pa.conf.Fallback}", "	if pa.conf.Fallback != nil {\n		pa.source = nil\n		req.Res <- defs.PathDescribeRes{Redirect: *pa.conf.Fallback}", "C16.who_may_store"},
		Mutant{"C16", "rollback-removed", "internal/core/path.go",
			"		if !pa.conf.AlwaysAvailable {\n			pa.setNotAvailable()\n		}\n		req.Res <- defs.PathAddPublisherRes{Err: err}", "		req.Res <- defs.PathAddPublisherRes{Err: err}", "C16.rollback"},
		Mutant{"C16", "publish-to-static-source-path", "internal/core/path.go",
			"	if pa.conf.Source != \"publisher\" {\n		req.Res <- defs.PathAddPublisherRes{\n			Err: fmt.Errorf(\"can't publish to path '%s' since 'source' is not 'publisher'\", pa.name),\n		}\n		return\n	}\n", "	_ = fmt.Sprint\n", "C16.add_publisher"},
		Mutant{"C16", "removed-publisher-stays-current", "internal/core/path.go",
			"		err := pa.stream.StartOfflineSubStream()\n		if err != nil {\n			panic(\"should not happen\")\n		}\n	}\n	pa.source = nil", "		if pa.conf.SourceOnDemand {\n			err := pa.stream.StartOfflineSubStream()\n			if err != nil {\n				panic(\"should not happen\")\n			}\n		}\n	}\n	pa.source = nil", "C16.remove_publisher.cut_off"},
		Mutant{"C16", "close-timer-detaches-live-publisher", "internal/core/path.go",
			"func (pa *path) doOnDemandPublisherCloseTimer() {\n	pa.onDemandPublisherStop(\"not needed by anyone\")", "func (pa *path) doOnDemandPublisherCloseTimer() {\n	pa.onDemandPublisherStop(\"not needed by anyone\")\n	if pa.source != nil {\n		pa.executeRemovePublisher()\n	}", "C16.detach_closed"},
		Mutant{"C16", "reload-detaches-live-publisher", "internal/core/path.go",
			"	pa.forwardManager.ReloadConf(newConf.Forward)\n", "	pa.forwardManager.ReloadConf(newConf.Forward)\n	if _, ok := pa.source.(defs.Publisher); ok && newConf.MaxReaders != oldConf.MaxReaders {\n		pa.executeRemovePublisher()\n	}\n", "C16.detach_closed"},
		// C18
		Mutant{"C18", "attached-reader-refused-when-full", "internal/core/path.go",
			"	if _, ok := pa.readers[req.Author]; ok {\n		req.Res <- defs.PathAddReaderRes{Stream: pa.stream}\n		return\n	}\n\n	if pa.conf.MaxReaders != 0 && len(pa.readers) >= pa.conf.MaxReaders {\n		req.Res <- defs.PathAddReaderRes{Err: fmt.Errorf(\"maximum reader count reached\")}\n		return\n	}\n",
			"	if pa.conf.MaxReaders != 0 && len(pa.readers) >= pa.conf.MaxReaders {\n		req.Res <- defs.PathAddReaderRes{Err: fmt.Errorf(\"maximum reader count reached\")}\n		return\n	}\n\n	if _, ok := pa.readers[req.Author]; ok {\n		req.Res <- defs.PathAddReaderRes{Stream: pa.stream}\n		return\n	}\n", "C18.no_double_count"},
		Mutant{"C18", "limit-test-dropped", "internal/core/path.go",
			"	if pa.conf.MaxReaders != 0 && len(pa.readers) >= pa.conf.MaxReaders {\n		req.Res <- defs.PathAddReaderRes{Err: fmt.Errorf(\"maximum reader count reached\")}\n		return\n	}\n", "	_ = fmt.Sprint\n", "C18.limit"},
		Mutant{"C18", "limit-off-by-one", "internal/core/path.go",
			"len(pa.readers) >= pa.conf.MaxReaders {", "len(pa.readers) > pa.conf.MaxReaders {", "C18.limit"},
		Mutant{"C18", "teardown-does-not-close-readers", "internal/core/path.go",
			"		pa.executeRemoveReader(r)\n		r.Close()\n", "		pa.executeRemoveReader(r)\n", "C18.teardown"},
		Mutant{"C18", "teardown-closes-readers-conditionally", "internal/core/path.go",
			"		pa.executeRemoveReader(r)\n		r.Close()\n", "		pa.executeRemoveReader(r)\n		if pa.conf.SourceOnDemand {\n			r.Close()\n		}\n", "C18.teardown"},
		Mutant{"C18", "reader-dropped-silently-on-reload", "internal/core/path.go",
			"	pa.forwardManager.ReloadConf(newConf.Forward)\n", "	pa.forwardManager.ReloadConf(newConf.Forward)\n	if newConf.MaxReaders != 0 {\n		for r := range pa.readers {\n			if len(pa.readers) > newConf.MaxReaders {\n				pa.executeRemoveReader(r)\n			}\n		}\n	}\n", "C18.who_may_write"},
		Mutant{"C18", "reader-inserted-on-hold-path", "internal/core/path.go",
			"		pa.readerAddRequestsOnHold = append(pa.readerAddRequestsOnHold, req)\n		return\n	}\n\n	if pa.conf.HasOnDemandPublisher() {\n		if pa.onDemandPublisherState == pathOnDemandStateInitial {\n			pa.onDemandPublisherStart(req.AccessRequest.Query)\n		}\n		pa.readerAddRequestsOnHold",
			"		pa.readers[req.Author] = struct{}{}\n		pa.readerAddRequestsOnHold = append(pa.readerAddRequestsOnHold, req)\n		return\n	}\n\n	if pa.conf.HasOnDemandPublisher() {\n		if pa.onDemandPublisherState == pathOnDemandStateInitial {\n			pa.onDemandPublisherStart(req.AccessRequest.Query)\n		}\n		pa.readerAddRequestsOnHold", "C18.who_may_write"},
		Mutant{"C18", "stream-cleared-elsewhere", "internal/core/path.go",
			"func (pa *path) executeRemoveReader(r defs.Reader) {\n	delete(pa.readers, r)", "func (pa *path) executeRemoveReader(r defs.Reader) {\n	delete(pa.readers, r)\n	if len(pa.readers) == 0 && pa.conf.SourceOnDemand {\n		pa.stream = nil\n	}", "C18.who_may_write"},
		// C19
		Mutant{"C19", "fallback-branch-not-answered", "internal/core/path.go",
			"	if pa.conf.Fallback != nil {\n		req.Res <- defs.PathDescribeRes{Redirect: *pa.conf.Fallback}\n		return\n	}", "	if pa.conf.Fallback != nil {\n		return\n	}", "C19.handler"},
		Mutant{"C19", "answered-and-held", "internal/core/path.go",
			"		pa.readerAddRequestsOnHold = append(pa.readerAddRequestsOnHold, req)\n		return\n	}\n\n	req.Res <- defs.PathAddReaderRes{Err: &defs.PathNoStreamAvailableError{PathName: pa.name}}",
			"		pa.readerAddRequestsOnHold = append(pa.readerAddRequestsOnHold, req)\n	}\n\n	req.Res <- defs.PathAddReaderRes{Err: &defs.PathNoStreamAvailableError{PathName: pa.name}}", "C19.handler"},
		Mutant{"C19", "drain-without-reset", "internal/core/path.go",
			"			Stream: pa.stream,\n		}\n	}\n	pa.describeRequestsOnHold = nil\n", "			Stream: pa.stream,\n		}\n	}\n", "C19.drain"},
		Mutant{"C19", "teardown-drain-removed", "internal/core/path.go",
			"	for _, req := range pa.readerAddRequestsOnHold {\n		req.Res <- defs.PathAddReaderRes{Err: fmt.Errorf(\"terminated\")}\n	}\n", "", "C19.drain"},
		Mutant{"C19", "timeout-clears-without-answer", "internal/core/path.go",
			"func (pa *path) doOnDemandPublisherReadyTimer() {\n	for _, req := range pa.describeRequestsOnHold {\n		req.Res <- defs.PathDescribeRes{Err: fmt.Errorf(\"source of path '%s' has timed out\", pa.name)}\n	}\n	pa.describeRequestsOnHold = nil",
			"func (pa *path) doOnDemandPublisherReadyTimer() {\n	pa.describeRequestsOnHold = nil", "C19.drain"},
		Mutant{"C19", "start-from-any-state", "internal/core/path.go",
			"		if pa.onDemandPublisherState == pathOnDemandStateInitial {\n			pa.onDemandPublisherStart(req.AccessRequest.Query)\n		}\n		pa.describeRequestsOnHold", "		pa.onDemandPublisherStart(req.AccessRequest.Query)\n		pa.describeRequestsOnHold", "C19.state"},
		Mutant{"C19", "manager-double-reply", "internal/core/path_manager.go",
			"	if !ok {\n		req.res <- pathAPIPathsGetRes{err: conf.ErrPathNotFound}\n		return\n	}\n\n	req.res <- pathAPIPathsGetRes{path: pa}", "	if !ok {\n		req.res <- pathAPIPathsGetRes{err: conf.ErrPathNotFound}\n	}\n\n	req.res <- pathAPIPathsGetRes{path: pa}", "C19.handler"},
		Mutant{"C19", "held-readers-attached-before-close-is-scheduled", "internal/core/path.go",
			"	if pa.conf.HasOnDemandPublisher() && pa.onDemandPublisherState != pathOnDemandStateInitial {\n		pa.onDemandPublisherReadyTimer.Stop()\n		pa.onDemandPublisherReadyTimer = emptyTimer()\n		pa.onDemandPublisherScheduleClose()\n	}\n\n	pa.consumeOnHoldRequests()\n",
			"	pa.consumeOnHoldRequests()\n\n	if pa.conf.HasOnDemandPublisher() && pa.onDemandPublisherState != pathOnDemandStateInitial {\n		pa.onDemandPublisherReadyTimer.Stop()\n		pa.onDemandPublisherReadyTimer = emptyTimer()\n		pa.onDemandPublisherScheduleClose()\n	}\n", "C19.close_timer.no_reader"},
		Mutant{"C19", "held-readers-attached-before-close-is-scheduled-static", "internal/core/path.go",
			"	if pa.conf.HasOnDemandStaticSource() {\n		pa.onDemandStaticSourceReadyTimer.Stop()\n		pa.onDemandStaticSourceReadyTimer = emptyTimer()\n		pa.onDemandStaticSourceScheduleClose()\n	}\n\n	pa.consumeOnHoldRequests()\n",
			"	pa.consumeOnHoldRequests()\n\n	if pa.conf.HasOnDemandStaticSource() {\n		pa.onDemandStaticSourceReadyTimer.Stop()\n		pa.onDemandStaticSourceReadyTimer = emptyTimer()\n		pa.onDemandStaticSourceScheduleClose()\n	}\n", "C19.close_timer.no_reader"},
		Mutant{"C19", "close-never-scheduled-on-ready", "internal/core/path.go",
			"		pa.onDemandPublisherReadyTimer = emptyTimer()\n		pa.onDemandPublisherScheduleClose()\n", "		pa.onDemandPublisherReadyTimer = emptyTimer()\n", "C19.close_timer.armed_on_ready"},
		// C20
		Mutant{"C20", "unread-hook-not-deferred", "internal/servers/srt/conn.go",
			"	defer onUnreadHook()\n", "	_ = onUnreadHook\n", "C20.local_holder"},
		Mutant{"C20", "setonline-does-not-close-previous", "internal/core/path.go",
			"func (pa *path) setOnline(sourceDesc *defs.APIPathSource, publisherQuery string) {\n	pa.setOffline()\n", "func (pa *path) setOnline(sourceDesc *defs.APIPathSource, publisherQuery string) {\n", "C20.online"},
		Mutant{"C20", "undemand-hook-not-cleared", "internal/core/path.go",
			"	pa.onUnDemandHook(reason)\n	pa.onUnDemandHook = nil\n", "	pa.onUnDemandHook(reason)\n", "C20.demand"},
		Mutant{"C20", "setnotavailable-unguarded-caller", "internal/core/path.go",
			"func (pa *path) doOnDemandPublisherCloseTimer() {\n	pa.onDemandPublisherStop(\"not needed by anyone\")", "func (pa *path) doOnDemandPublisherCloseTimer() {\n	pa.setNotAvailable()\n	pa.onDemandPublisherStop(\"not needed by anyone\")", "C20.available"},
		Mutant{"C20", "teardown-without-stream-test", "internal/core/path.go",
			"	if pa.stream != nil {\n		pa.setNotAvailable()\n	}\n\n	pa.Log(logger.Debug, \"destroyed: %v\", err)", "	pa.setNotAvailable()\n\n	pa.Log(logger.Debug, \"destroyed: %v\", err)", "C20.available"},
		Mutant{"C20", "rtsp-unread-on-any-state", "internal/servers/rtsp/session.go",
			"	if s.rsession.State() == gortsplib.ServerSessionStatePlay {\n		s.onUnreadHook()\n	}\n\n	if s.mpegtsDemuxer != nil {", "	if s.onUnreadHook != nil {\n		s.onUnreadHook()\n	}\n	if s.rsession.State() == gortsplib.ServerSessionStatePlay {\n		s.onUnreadHook()\n	}\n\n	if s.mpegtsDemuxer != nil {", "C20.server_holder"},
		Mutant{"C20", "rollback-removed-static", "internal/core/path.go",
			"		if !pa.conf.AlwaysAvailable {\n			pa.setNotAvailable()\n		}\n		req.Res <- defs.PathSourceStaticSetReadyRes{Err: err}", "		req.Res <- defs.PathSourceStaticSetReadyRes{Err: err}", "C20.rollback"},
		Mutant{"C20", "hook-result-dropped", "internal/servers/rtsp/conn.go",
			"	c.onDisconnectHook = hooks.OnConnect(hooks.OnConnectParams{", "	c.onDisconnectHook = func() {}\n	hooks.OnConnect(hooks.OnConnectParams{", "C20.result_used"},
	)
}

const corePath = "(*internal/core.path)."

func pathFn(c *Ctx, p *Prog, name string) *ssa.Function {
	return c.fn(p, "internal/core", "path", name)
}

func isErrReply(i ssa.Instruction) bool {
	s, ok := i.(*ssa.Send)
	if !ok {
		return false
	}
	_, has := sentFields(s)["Err"]
	return has
}

// succOnLit returns the block entered when the first If carrying atom has the given polarity.
func succOnLit(fn *ssa.Function, atom string, pos bool) *ssa.BasicBlock {
	for _, b := range fn.Blocks {
		if len(b.Instrs) == 0 {
			continue
		}
		ifi, ok := b.Instrs[len(b.Instrs)-1].(*ssa.If)
		if !ok {
			continue
		}
		for k := 0; k < 2; k++ {
			l := litOf(ifi.Cond, k == 0)
			if l.Pos == pos && atomMatch(atom, l.Atom) {
				return b.Succs[k]
			}
		}
	}
	return nil
}

// rollbackAfterSetAvailable: from the nil-error edge of pa.setAvailable(...),
// every error reply is preceded by setNotAvailable.
func (c *Ctx) rollbackAfterSetAvailable(p *Prog, rule string) {
	for _, name := range []string{"doAddPublisher", "doSourceStaticSetReady"} {
		fn := pathFn(c, p, name)
		if fn == nil {
			continue
		}
		calls := callsIn(fn, "(*core.path).setAvailable")
		if len(calls) != 1 {
			c.Check(rule, fnName(fn)+": exactly one setAvailable call", false, p.Pos(fn.Pos()), "")
			continue
		}
		atom := "(" + desc(calls[0].(ssa.Value)) + " == nil)"
		start := succOnLit(fn, atom, true)
		if start == nil {
			c.Check(rule, fnName(fn)+": the result of setAvailable is tested against nil", false, p.Pos(calls[0].Pos()), "")
			continue
		}
		// on the path that skipped setAvailable (AlwaysAvailable) nothing was acquired:
		// forbid entering the walk through that edge by starting at the nil-error successor
		// and not following edges that imply AlwaysAvailable.
		c.MustFollow(p, fn, rule, "after a successful setAvailable every error reply is preceded by setNotAvailable (rollback)",
			Point{start, 0}, isErrReply, callTo("(*core.path).setNotAvailable"),
			func(l Lit) bool { return !(l.Pos && l.Atom == "$0.conf.AlwaysAvailable") })
	}
}

// ---------------------------------------------------------------- C16

func runC16(c *Ctx) {
	p := c.Main()
	if p == nil {
		return
	}
	c.Explain = "E2: stores to path.source ∈ {doAddPublisher, executeRemovePublisher, run}; E1 on doAddPublisher (store of req.Author ⇒ conf.Source == publisher ∧ (source == nil ∨ override ∧ Close ∧ executeRemovePublisher before)); E4 rollback after setAvailable; E1 on SubStream.WriteUnit (forward ⇒ RLock held ∧ Stream.subStream == ss); E2: Stream.subStream stored only in SubStream.Initialize after mutex.Lock. C16.detach_closed: every executeRemovePublisher call site ⇒ (remove request ∧ source == req.Author) ∨ source.(Publisher).Close() before. Not decided: concurrent in-flight writes of a replaced publisher beyond that guard."
	c.Assume = []string{"path fields are touched only by the path goroutine"}

	who := map[string]bool{corePath + "doAddPublisher": true, corePath + "executeRemovePublisher": true, corePath + "run": true}
	n := 0
	for _, fn := range p.ModFuncs() {
		for _, st := range fieldStores(fn, "core.path", "source") {
			n++
			c.Check("C16.who_may_store", "store to path.source in "+fnName(fn), who[fnName(fn)], p.Pos(st.Pos()), "only doAddPublisher, executeRemovePublisher and run may change the source")
		}
	}
	c.Floor("C16.who_may_store", n, 4)

	ap := pathFn(c, p, "doAddPublisher")
	if ap != nil {
		isStore := func(i ssa.Instruction) bool {
			st, ok := i.(*ssa.Store)
			if !ok {
				return false
			}
			fa, ok := st.Addr.(*ssa.FieldAddr)
			return ok && fieldAddrIs(fa, "core.path", "source")
		}
		for _, st := range fieldStores(ap, "core.path", "source") {
			c.Check("C16.add_publisher", fnName(ap)+": the new source is the request's author", desc(st.Val) == "$1.Author", p.Pos(st.Pos()), desc(st.Val))
		}
		c.MustPass(p, ap, "C16.add_publisher", "pa.source = req.Author", isStore, T(`($0.conf.Source == "publisher")`))
		// either no source, or the previous one was removed first
		w := (&Walker{
			Visit: func(i ssa.Instruction) int {
				if isCallTo(i, "(*core.path).executeRemovePublisher") {
					return wStop
				}
				if isStore(i) {
					return wHit
				}
				return wContinue
			},
			Edge: func(l Lit) bool { return !(l.Pos && atomMatch("($0.source == nil)", l.Atom)) },
		}).Run(entry(ap))
		c.Check("C16.add_publisher", fnName(ap)+": pa.source = req.Author ⇒ source == nil ∨ executeRemovePublisher() before", w == nil, p.Pos(ap.Pos()), w.String(p))
		c.MustPass(p, ap, "C16.add_publisher", "executeRemovePublisher (override)", callTo("(*core.path).executeRemovePublisher"), T("$0.conf.OverridePublisher"))
		c.MustPrecede(p, ap, "C16.add_publisher", "executeRemovePublisher (override)", "Close() of the previous publisher", callTo("(*core.path).executeRemovePublisher"),
			func(i ssa.Instruction) bool {
				return isCallTo(i, "(defs.Publisher).Close") && desc(argN(callCommon(i), 0)) == "$0.source.(defs.Publisher)"
			})
		// rejected while another is active and override is off
		c.MustPass(p, ap, "C16.add_publisher", "success reply", func(i ssa.Instruction) bool { s, ok := i.(*ssa.Send); return ok && !isErrReply(s) }, T("($0.source == nil)"), T("$0.conf.OverridePublisher"))
	}
	if er := pathFn(c, p, "executeRemovePublisher"); er != nil {
		ok := false
		for _, st := range fieldStores(er, "core.path", "source") {
			if isNilConst(st.Val) {
				ok = true
			}
		}
		c.Check("C16.remove_publisher", fnName(er)+": clears path.source", ok, p.Pos(er.Pos()), "")
		c.MustPrecede(p, er, "C16.remove_publisher", "return", "setNotAvailable or setOffline (readers are cut off / stream goes offline)", anyReturn, callTo("(*core.path).setNotAvailable", "(*core.path).setOffline"))
		// the removed publisher's sub stream stops being the current one on EVERY path:
		// either the stream is torn down, or the offline sub stream takes over
		// (Stream.subStream is replaced, so SubStream.WriteUnit of the old publisher is a no-op)
		c.MustPrecede(p, er, "C16.remove_publisher.cut_off", "return", "setNotAvailable() or stream.StartOfflineSubStream() (the removed publisher's sub stream is no longer current)", anyReturn,
			callTo("(*core.path).setNotAvailable", "(*stream.Stream).StartOfflineSubStream"))
	}
	if rp := pathFn(c, p, "doRemovePublisher"); rp != nil {
		c.MustPass(p, rp, "C16.remove_publisher", "executeRemovePublisher", callTo("(*core.path).executeRemovePublisher"), T("($0.source == $1.Author)"))
	}
	// Every detachment of a publisher (call of executeRemovePublisher, the only
	// function that clears path.source) happens either at the request of that very
	// publisher (remove-publisher request whose author is the current source: it is
	// going away by itself) or after the path Close()d it. A publisher that is
	// detached without being told keeps its session in state 'publish' while the
	// path admits another one: two publishers on one path name.
	nDet := 0
	closePrev := func(i ssa.Instruction) bool {
		return isCallTo(i, "(defs.Publisher).Close") && desc(argN(callCommon(i), 0)) == "$0.source.(defs.Publisher)"
	}
	for _, fn := range p.ModFuncs() {
		for _, cl := range callsIn(fn, "(*core.path).executeRemovePublisher") {
			nDet++
			ccl := cl
			isCl := func(i ssa.Instruction) bool { return i == ccl }
			self := false
			if len(fn.Params) == 2 && strings.HasSuffix(typeStr(fn.Params[1].Type()), "defs.PathRemovePublisherReq") {
				self = reachWithout(entry(fn), isCl, []LitPat{T("($0.source == $1.Author)")}) == nil
			}
			w := reachAvoiding(entry(fn), isCl, closePrev)
			c.Check("C16.detach_closed", "executeRemovePublisher in "+fnName(fn)+": the detached publisher asked for it (source == req.Author of a remove request) or was Close()d before", self || w == nil, p.Pos(cl.Pos()),
				"a publisher detached without being closed stays connected while the path accepts a new one; "+w.String(p))
		}
	}
	c.Floor("C16.detach_closed", nDet, 2)

	c.rollbackAfterSetAvailable(p, "C16.rollback")

	// SubStream.WriteUnit
	wu := c.fn(p, "internal/stream", "SubStream", "WriteUnit")
	if wu != nil {
		fwd := callTo("(*stream.subStreamFormat).writeUnit")
		c.MustPass(p, wu, "C16.write_unit", "forward the unit (writeUnit)", fwd, T("($0.Stream.subStream == $0)"))
		c.MustPrecede(p, wu, "C16.write_unit", "forward the unit (writeUnit)", "Stream.mutex.RLock", fwd, func(i ssa.Instruction) bool {
			return isCallTo(i, "(*sync.RWMutex).RLock", "(*sync.RWMutex).Lock") && desc(callCommon(i).Args[0]) == "$0.Stream.mutex"
		})
		c.MustPrecede(p, wu, "C16.write_unit", "read of Stream.subStream", "Stream.mutex.RLock", func(i ssa.Instruction) bool {
			fa, ok := i.(*ssa.FieldAddr)
			return ok && fieldAddrIs(fa, "stream.Stream", "subStream")
		}, callTo("(*sync.RWMutex).RLock", "(*sync.RWMutex).Lock"))
	}
	n = 0
	for _, fn := range p.ModFuncs() {
		for _, st := range fieldStores(fn, "stream.Stream", "subStream") {
			n++
			ok := fnName(fn) == "(*internal/stream.SubStream).Initialize"
			c.Check("C16.who_may_store", "store to Stream.subStream in "+fnName(fn), ok, p.Pos(st.Pos()), "")
			if ok {
				sst := st
				c.MustPrecede(p, fn, "C16.write_unit", "Stream.subStream = ss", "Stream.mutex.Lock", func(i ssa.Instruction) bool { return i == ssa.Instruction(sst) },
					func(i ssa.Instruction) bool {
						return isCallTo(i, "(*sync.RWMutex).Lock") && desc(callCommon(i).Args[0]) == "$0.Stream.mutex"
					})
			}
		}
	}
	c.Floor("C16.who_may_store(subStream)", n, 1)
}

// ---------------------------------------------------------------- C18

func runC18(c *Ctx) {
	p := c.Main()
	if p == nil {
		return
	}
	c.Explain = "E2: path.readers written only by initialize (make), addReaderPost (insert); every detach (delete(path.readers, k) directly or through a remover method = a path method that deletes one of its parameters, computed) has k = Author of the function's PathRemoveReaderReq or k = the ranged reader of a loop over path.readers that Close()s it in every iteration; path.stream cleared only in setNotAvailable, set only in setAvailable. E1 addReaderPost: insert ⇒ author absent ∧ (MaxReaders == 0 ∨ len(readers) < MaxReaders). E1 setNotAvailable: every return is after the reader loop has finished, and every path through one iteration of the loop detaches and closes the ranged reader. limit_reload (prop_r4_c18.go): the invariant len(readers) <= conf.MaxReaders also depends on conf: .vetted = who-may-store on path.conf (a parameter of a path method) → its call sites pass a value received from a path channel → senders on that channel pass their parameter → every call/go of the sender is dominated by pathConfCanBeUpdated(_, X) == true for the X passed, or by a hit in a local set whose inserts are all dominated by such a test; .unchanged = every possibly-true return of pathConfCanBeUpdated is P.Equal(Q.Clone()+overwrites) without an overwrite of MaxReaders (or passes (old.MaxReaders == new.MaxReaders)), else doReloadConf must pass a literal implying the bound on every path after the store."
	c.Assume = []string{"path fields are touched only by the path goroutine", "conf.Path.Equal is reflect.DeepEqual and conf.Path.Clone a deep copy (C11)"}

	nW := 0
	for _, fn := range p.ModFuncs() {
		if !strings.HasSuffix(funcPkgPath(fn), "/internal/core") {
			continue
		}
		name := fnName(fn)
		eachInstr(fn, func(i ssa.Instruction) {
			switch x := i.(type) {
			case *ssa.MapUpdate:
				if d := desc(x.Map); strings.HasSuffix(d, ".readers") && isPathTyped(x.Map) {
					nW++
					c.Check("C18.who_may_write", "insert into path.readers in "+name, name == corePath+"addReaderPost", p.Pos(posOf(i, fn)), "")
				}
			case *ssa.Store:
				if fa, ok := x.Addr.(*ssa.FieldAddr); ok && fieldAddrIs(fa, "core.path", "readers") {
					nW++
					c.Check("C18.who_may_write", "store to path.readers in "+name, name == corePath+"initialize", p.Pos(posOf(i, fn)), "")
				}
				if fa, ok := x.Addr.(*ssa.FieldAddr); ok && fieldAddrIs(fa, "core.path", "stream") {
					nW++
					if isNilConst(x.Val) {
						c.Check("C18.who_may_write", "path.stream = nil in "+name, name == corePath+"setNotAvailable", p.Pos(posOf(i, fn)), "the stream goes away only through setNotAvailable, which detaches the readers")
					} else {
						c.Check("C18.who_may_write", "path.stream set in "+name, name == corePath+"setAvailable", p.Pos(posOf(i, fn)), "")
					}
				}
			}
		})
	}
	// removal of a reader: judged per (function, reader removed), wherever the
	// delete instruction lives (prop_gen_c18.go)
	removers := c18Removers(p)
	var viaRemover []c18detach
	for _, fn := range p.ModFuncs() {
		if strings.HasSuffix(funcPkgPath(fn), "/internal/core") {
			for _, d := range c18Detaches(fn, removers) {
				if d.via != nil {
					viaRemover = append(viaRemover, d)
				}
			}
		}
	}
	for _, fn := range p.ModFuncs() {
		if !strings.HasSuffix(funcPkgPath(fn), "/internal/core") {
			continue
		}
		name := fnName(fn)
		for _, d := range c18Detaches(fn, removers) {
			if d.via != nil {
				continue
			}
			nW++
			ok, why := false, ""
			if k, isRem := removers[fn]; isRem && stripConv(d.key) == ssa.Value(fn.Params[k]) {
				// the function removes the reader it is given: its callers decide which
				ok, why = true, "removes its parameter; callers:"
				for _, cs := range viaRemover {
					if cs.via != fn || removers[cs.fn] > 0 && stripConv(cs.key) == ssa.Value(cs.fn.Params[removers[cs.fn]]) {
						continue // (a remover forwarding its own parameter is judged at its callers)
					}
					cok, cwhy := c18DetachAllowed(cs, removers)
					ok = ok && cok
					why += " " + fnName(cs.fn) + ": " + cwhy + ";"
				}
			} else {
				ok, why = c18DetachAllowed(d, removers)
			}
			c.Check("C18.who_may_write", "delete from path.readers in "+name, ok, p.Pos(d.at.Pos()), why)
		}
	}
	c.Floor("C18.who_may_write", nW, 5)

	arp := pathFn(c, p, "addReaderPost")
	if arp != nil {
		ins := func(i ssa.Instruction) bool { _, ok := i.(*ssa.MapUpdate); return ok }
		c.MustPass(p, arp, "C18.no_double_count", "insert into readers", ins, F("$0.readers[$1.Author]#1"))
		c.MustPass(p, arp, "C18.limit", "insert into readers", ins, T("($0.conf.MaxReaders == 0)"), T("(len($0.readers) < $0.conf.MaxReaders)"))
		// an author that is already attached is not counted a second time: it is
		// never refused (the limit error is reached only with the author absent)
		// and gets the stream back
		if countTargets(arp, isErrReply) > 0 {
			c.MustPass(p, arp, "C18.no_double_count", "error reply (limit reached)", isErrReply, F("$0.readers[$1.Author]#1"))
		}
		c.MustPass(p, arp, "C18.no_double_count", "return", anyReturn, T("$0.readers[$1.Author]#1"), F("$0.readers[$1.Author]#1"))
		eachInstr(arp, func(i ssa.Instruction) {
			if mu, ok := i.(*ssa.MapUpdate); ok {
				c.Check("C18.no_double_count", fnName(arp)+": the inserted key is the request's author", desc(mu.Map) == "$0.readers" && desc(mu.Key) == "$1.Author", p.Pos(posOf(i, arp)), "")
			}
		})
		// success reply with a stream for a new reader only after the insert
		c.Check("C18.limit", fnName(arp)+": one insert site", countTargets(arp, ins) == 1, p.Pos(arp.Pos()), "")
	}
	sna := pathFn(c, p, "setNotAvailable")
	if sna != nil {
		c.MustPass(p, sna, "C18.teardown", "return", anyReturn, F("next(range($0.readers))#0"))
		// the loop over the readers detaches and closes the ranged reader in every
		// iteration (direct delete, a remover method or a new helper: prop_gen_c18.go)
		var loop *rangeLoop
		for _, l := range rangeLoopsOf(sna) {
			if desc(l.Range.X) == "$0.readers" {
				loop = l
			}
		}
		rmW, clW := "no range over $0.readers", "no range over $0.readers"
		if loop != nil {
			rmW, clW = "", ""
			if w := c18EveryIteration(loop, c18DetachesReader(loop, removers)); w != nil {
				rmW = w.String(p)
			}
			if w := c18EveryIteration(loop, c18ClosesReader(loop)); w != nil {
				clW = w.String(p)
			}
		}
		c.Check("C18.teardown", fnName(sna)+": every reader is detached (executeRemoveReader) in the loop", rmW == "", p.Pos(sna.Pos()), rmW)
		c.Check("C18.teardown", fnName(sna)+": every reader is closed in the same loop iteration", clW == "", p.Pos(sna.Pos()), clW)
		// the stream is cleared on all paths
		c.MustPass(p, sna, "C18.teardown", "return", anyReturn, T("($0.stream == nil)"), F("($0.stream == nil)"))
		w := (&Walker{Visit: func(i ssa.Instruction) int {
			if st, ok := i.(*ssa.Store); ok {
				if fa, ok := st.Addr.(*ssa.FieldAddr); ok && fieldAddrIs(fa, "core.path", "stream") && isNilConst(st.Val) {
					return wStop
				}
			}
			if anyReturn(i) {
				return wHit
			}
			return wContinue
		}, Edge: func(l Lit) bool { return !(l.Pos && l.Atom == "($0.stream == nil)") }}).Run(entry(sna))
		c.Check("C18.teardown", fnName(sna)+": stream is nil on return (cleared unless already nil)", w == nil, p.Pos(sna.Pos()), w.String(p))
	}
	// a remover method, where one exists, deletes the reader it is given (when the
	// helper was inlined into its callers there is nothing to say here: the callers'
	// own deletes are judged above)
	for er, k := range removers {
		c.Check("C18.teardown", fnName(er)+": deletes the given reader", k > 0, p.Pos(er.Pos()), "")
	}
	// the limit also holds across a configuration reload (prop_r4_c18.go)
	c18r4LimitSurvivesReload(c, p)
}

func isPathTyped(v ssa.Value) bool {
	// value is a field of *core.path
	if u, ok := v.(*ssa.UnOp); ok {
		if fa, ok := u.X.(*ssa.FieldAddr); ok {
			return strings.HasSuffix(typeStr(fa.X.Type()), "core.path")
		}
	}
	return false
}

// ---------------------------------------------------------------- C19

func runC19(c *Ctx) {
	p := c.Main()
	if p == nil {
		return
	}
	c.Explain = "E4 exactly-once over all CFG paths of the handlers (events: send on / close of the request's reply channel, append of the request to an on-hold list, call of an answering function with the request); E2 who-may-append to the on-hold lists; drain rule per `list = nil`; teardown drain in path.run; requester-side receive after send; on-demand state stores against the transition table; C19.close_timer.*: no ScheduleClose after a reader-attaching call without len(readers)==0, ScheduleClose before the success reply of the on-ready handlers; C19.close_timer.armed_when_empty (prop_r4_c19.go): in doRemoveReader every entry→return path calls onDemand<K>ScheduleClose/Stop or passes ¬(len(readers)==0) / ¬HasOnDemand<K> / ¬(state<K>==ready) (K=Publisher: or HasOnDemandStaticSource). Not decided: interleavings with timer expiry, fairness."
	c.Assume = []string{"path fields are touched only by the path goroutine", "reply channels are unbuffered and each request value is handled by one handler invocation"}

	holdLists := []string{"describeRequestsOnHold", "readerAddRequestsOnHold"}
	isHold := func(i ssa.Instruction) bool {
		st, ok := i.(*ssa.Store)
		if !ok {
			return false
		}
		fa, ok := st.Addr.(*ssa.FieldAddr)
		if !ok {
			return false
		}
		for _, l := range holdLists {
			if fieldAddrIs(fa, "core.path", l) && strings.HasPrefix(desc(st.Val), "append($0."+l+",") {
				return true
			}
		}
		return false
	}
	answerVia := map[string]bool{"(*core.path).addReaderPost": true}
	ev := func(resField string) func(ssa.Instruction) bool {
		return func(i ssa.Instruction) bool {
			switch x := i.(type) {
			case *ssa.Send:
				return desc(x.Chan) == "$1."+resField
			case *ssa.Call:
				if isCallTo(i, "close") && desc(x.Call.Args[0]) == "$1."+resField {
					return true
				}
				if answerVia[calleeName(&x.Call)] && len(x.Call.Args) == 2 && desc(x.Call.Args[1]) == "$1" {
					return true
				}
			}
			return isHold(i)
		}
	}
	nH := 0
	for _, h := range []string{"doDescribe", "doAddReader", "addReaderPost", "doAddPublisher", "doSourceStaticSetReady", "doSourceStaticSetNotReady", "doRemovePublisher", "doRemoveReader"} {
		if fn := pathFn(c, p, h); fn != nil {
			nH++
			c.ExactlyOnce(p, fn, "C19.handler", "an answer (reply / close / hold) for the request", ev("Res"))
		}
	}
	if fn := pathFn(c, p, "doAPIPathsGet"); fn != nil {
		nH++
		c.ExactlyOnce(p, fn, "C19.handler", "an answer for the request", ev("res"))
	}
	for _, h := range []string{"doFindPathConf", "doDescribe", "doAddReader", "doAddPublisher"} {
		if fn := c.fn(p, "internal/core", "pathManager", h); fn != nil {
			nH++
			c.ExactlyOnce(p, fn, "C19.handler", "an answer for the request", ev("Res"))
		}
	}
	for _, h := range []string{"doAPIPathsList", "doAPIPathsGet", "doAPIForwardDestList", "doAPIForwardDestGet"} {
		if fn := c.fn(p, "internal/core", "pathManager", h); fn != nil {
			nH++
			c.ExactlyOnce(p, fn, "C19.handler", "an answer for the request", ev("res"))
		}
	}
	c.Floor("C19.handler", nH, 17)

	// who may append / clear the on-hold lists; drain rule
	drainFns := map[string]bool{corePath + "doOnDemandStaticSourceReadyTimer": true, corePath + "doOnDemandPublisherReadyTimer": true, corePath + "consumeOnHoldRequests": true}
	holdFns := map[string]string{"describeRequestsOnHold": corePath + "doDescribe", "readerAddRequestsOnHold": corePath + "doAddReader"}
	nDrain := 0
	for _, fn := range p.ModFuncs() {
		if !strings.HasSuffix(funcPkgPath(fn), "/internal/core") {
			continue
		}
		for _, l := range holdLists {
			for _, st := range fieldStores(fn, "core.path", l) {
				if isNilConst(st.Val) {
					nDrain++
					c.Check("C19.drain.sites", l+" = nil in "+fnName(fn), drainFns[fnName(fn)], p.Pos(st.Pos()), "the list may be cleared only where every element was answered")
					sst := st
					// preceded by the exit edge of a range loop over the same list
					c.MustPass(p, fn, "C19.drain.answered", l+" = nil", func(i ssa.Instruction) bool { return i == ssa.Instruction(sst) }, F("*< len($0."+l+"))"))
					// and the loop body answers the element
					ans := false
					eachInstr(fn, func(i ssa.Instruction) {
						switch x := i.(type) {
						case *ssa.Send:
							if desc(x.Chan) == "$0."+l+"[_].Res" && i.Block().Comment == "rangeindex.body" {
								ans = true
							}
						case *ssa.Call:
							if answerVia[calleeName(&x.Call)] && len(x.Call.Args) == 2 && desc(x.Call.Args[1]) == "$0."+l+"[_]" && i.Block().Comment == "rangeindex.body" {
								ans = true
							}
						}
					})
					c.Check("C19.drain.answered", fnName(fn)+": the loop before "+l+" = nil answers each held request", ans, p.Pos(st.Pos()), "")
				} else if strings.HasPrefix(desc(st.Val), "append(") {
					c.Check("C19.drain.who_may_hold", "append to "+l+" in "+fnName(fn), fnName(fn) == holdFns[l], p.Pos(st.Pos()), "")
				} else {
					c.Check("C19.drain.who_may_hold", "unexpected store to "+l+" in "+fnName(fn), false, p.Pos(st.Pos()), desc(st.Val))
				}
			}
		}
	}
	c.Floor("C19.drain.sites", nDrain, 6)
	// every drain function clears both lists after answering
	for name := range drainFns {
		fn := pathFn(c, p, strings.TrimPrefix(name, corePath))
		if fn == nil {
			continue
		}
		for _, l := range holdLists {
			cleared := false
			for _, st := range fieldStores(fn, "core.path", l) {
				if isNilConst(st.Val) {
					cleared = true
				}
			}
			c.Check("C19.drain.reset", fnName(fn)+": "+l+" is reset to nil after the drain (no second answer later)", cleared, p.Pos(fn.Pos()), "")
			if cleared {
				c.MustPrecede(p, fn, "C19.drain.reset", "return", l+" = nil", anyReturn, func(i ssa.Instruction) bool {
					st, ok := i.(*ssa.Store)
					if !ok {
						return false
					}
					fa, ok := st.Addr.(*ssa.FieldAddr)
					return ok && fieldAddrIs(fa, "core.path", l) && isNilConst(st.Val)
				})
			}
		}
	}
	// the three outcomes have a drain: source ready / publisher added
	for _, h := range []string{"doSourceStaticSetReady", "doAddPublisher"} {
		if fn := pathFn(c, p, h); fn != nil {
			c.MustPrecede(p, fn, "C19.drain.on_ready", "success reply", "consumeOnHoldRequests", func(i ssa.Instruction) bool {
				s, ok := i.(*ssa.Send)
				return ok && !isErrReply(s) && desc(s.Chan) == "$1.Res"
			}, callTo("(*core.path).consumeOnHoldRequests"))
		}
	}
	// teardown in run: both lists answered with an error after runInner returned
	if run := pathFn(c, p, "run"); run != nil {
		for _, l := range holdLists {
			ok := false
			eachInstr(run, func(i ssa.Instruction) {
				if s, isS := i.(*ssa.Send); isS && desc(s.Chan) == "$0."+l+"[_].Res" && isErrReply(s) {
					ok = true
				}
			})
			c.Check("C19.drain.teardown", fnName(run)+": held "+l+" are answered with an error when the path closes", ok, p.Pos(run.Pos()), "")
			// the loop is not skippable: every return passes its exit edge
			c.MustPass(p, run, "C19.drain.teardown", "return", anyReturn, F("*< len($0."+l+"))"))
		}
	}
	// timers: ready-timer handlers stop the on-demand source after answering
	// requester side
	for _, w := range []string{"describe", "addReader", "addPublisher"} {
		fn := pathFn(c, p, w)
		if fn == nil {
			continue
		}
		recv := false
		eachInstr(fn, func(i ssa.Instruction) {
			if u, ok := i.(*ssa.UnOp); ok && desc(u) == "<-$1.Res" && i.Block().Comment == "select.body" {
				recv = true
			}
		})
		c.Check("C19.requester", fnName(fn)+": after the send was accepted the requester receives from req.Res", recv, p.Pos(fn.Pos()), "")
	}
	for _, w := range []string{"Describe", "AddReader", "AddPublisher", "FindPathConf"} {
		fn := c.fn(p, "internal/core", "pathManager", w)
		if fn == nil {
			continue
		}
		unbuf := false
		for _, st := range allFieldStores(fn) {
			if st.field == "Res" {
				if mc, ok := st.val.(*ssa.MakeChan); ok && desc(mc.Size) == "0" {
					unbuf = true
				}
			}
		}
		c.Check("C19.requester", fnName(fn)+": creates an unbuffered req.Res before sending the request", unbuf, p.Pos(fn.Pos()), "")
	}

	// on-demand state machine
	type tr struct {
		fn  string
		val string
	}
	for _, kind := range []string{"Publisher", "StaticSource"} {
		field := "onDemand" + kind + "State"
		accepted := map[tr]string{
			{corePath + "onDemand" + kind + "Start", "1"}:         "initial → waitingReady",
			{corePath + "onDemand" + kind + "ScheduleClose", "3"}: "waitingReady/ready → closing",
			{corePath + "onDemand" + kind + "Stop", "0"}:          "* → initial",
			{corePath + "addReaderPost", "2"}:                     "closing → ready",
		}
		n := 0
		for _, fn := range p.ModFuncs() {
			for _, st := range fieldStores(fn, "core.path", field) {
				n++
				_, ok := accepted[tr{fnName(fn), desc(st.Val)}]
				c.Check("C19.state.table", field+" ← "+desc(st.Val)+" in "+fnName(fn), ok, p.Pos(st.Pos()), "transition not in the table initial→waitingReady→closing↔ready→initial")
			}
		}
		c.Floor("C19.state.table:"+field, n, 4)
		if arp := pathFn(c, p, "addReaderPost"); arp != nil {
			for _, st := range fieldStores(arp, "core.path", field) {
				sst := st
				c.MustPass(p, arp, "C19.state.guard", field+" ← ready", func(i ssa.Instruction) bool { return i == ssa.Instruction(sst) }, T("($0."+field+" == 3)"))
			}
		}
		// Start only from initial
		for _, fn := range p.ModFuncs() {
			for _, cl := range callsIn(fn, "(*core.path).onDemand"+kind+"Start") {
				ccl := cl
				c.MustPass(p, fn, "C19.state.guard", "onDemand"+kind+"Start", func(i ssa.Instruction) bool { return i == ccl }, T("($0."+field+" == 0)"))
			}
		}
	}

	// "stop after the close delay once NO READER REMAINS": the close timer is armed
	// (onDemand*ScheduleClose: state <- closing, timer started) only while no reader is
	// attached. addReaderPost disarms it only when it finds the state closing, so a
	// handler that first attaches readers (directly or by draining the on-hold list) and
	// arms the timer afterwards, without re-testing len(readers) == 0, lets the timer
	// expire with a reader attached: the on-demand source / command is stopped under it.
	attach := []string{"(*core.path).consumeOnHoldRequests", "(*core.path).addReaderPost"}
	sched := callTo("(*core.path).onDemandPublisherScheduleClose", "(*core.path).onDemandStaticSourceScheduleClose")
	nAtt := 0
	for _, fn := range p.ModFuncs() {
		if !strings.HasSuffix(funcPkgPath(fn), "/internal/core") {
			continue
		}
		for _, a := range callsIn(fn, attach...) {
			nAtt++
			w := (&Walker{
				Visit: func(i ssa.Instruction) int {
					if sched(i) {
						return wHit
					}
					return wContinue
				},
				Edge: func(l Lit) bool { return !(l.Pos && atomMatch("(len($0.readers) == 0)", l.Atom)) },
			}).Run(after(a))
			c.Check("C19.close_timer.no_reader", fnName(fn)+": after "+calleeName(callCommon(a))+" attached readers the close timer is armed only under len(readers) == 0", w == nil, p.Pos(posOf(a, fn)),
				"ScheduleClose after the held readers were attached leaves the state closing with a reader attached; the timer then stops the source under it. "+w.String(p))
		}
	}
	c.Floor("C19.close_timer.no_reader", nAtt, 4)
	// ... and when the awaited source / publisher arrives on demand, the close timer IS
	// armed (before the success reply): otherwise the state never leaves waitingReady and
	// the source is never stopped after the last reader left (doRemoveReader arms it only from ready).
	for _, h := range []struct{ fn, kind string }{{"doAddPublisher", "Publisher"}, {"doSourceStaticSetReady", "StaticSource"}} {
		fn := pathFn(c, p, h.fn)
		if fn == nil {
			continue
		}
		has := "(conf.Path).HasOnDemand" + h.kind + "($0.conf)"
		st0 := "($0.onDemand" + h.kind + "State == 0)"
		w := (&Walker{
			Visit: func(i ssa.Instruction) int {
				if isCallTo(i, "(*core.path).onDemand"+h.kind+"ScheduleClose") {
					return wStop
				}
				if s, ok := i.(*ssa.Send); ok && !isErrReply(s) && desc(s.Chan) == "$1.Res" {
					return wHit
				}
				return wContinue
			},
			Edge: func(l Lit) bool {
				return !(!l.Pos && atomMatch(has, l.Atom)) && !(l.Pos && atomMatch(st0, l.Atom))
			},
		}).Run(entry(fn))
		c.Check("C19.close_timer.armed_on_ready", fnName(fn)+": on demand (HasOnDemand"+h.kind+" ∧ state != initial) the success reply is preceded by onDemand"+h.kind+"ScheduleClose", w == nil, p.Pos(fn.Pos()), w.String(p))
	}
	// ... and the remove-reader handler arms it from the state it finds, also for
	// readers that the path had already detached itself (prop_r4_c19.go)
	c19r4ArmedWhenEmpty(c, p)
}

// ---------------------------------------------------------------- C20

func runC20(c *Ctx) {
	p := c.Main()
	if p == nil {
		return
	}
	c.Explain = "Per hooks.On* call site (13): the returned closure is stored in a holder field, deferred, or called (never dropped). Local holders: every return after the call passes a defer/call of the closure. path.onOfflineHook / onUnDemandHook / onUnavailableHook and the server-side fields: frozen who-may-store / who-may-call tables plus the guard literal each site must be dominated by. Rollback after setAvailable shared with C16. closed_when_open (prop_r4_c20.go): per (closing function, holder) of the table a walk from the entry (path.run: from after the runInner call) to every return with the call of the held closure as barrier and the negated table literal as the only excusing edge. Not decided: alternation over arbitrary lifecycles (only that each transition function preserves 'hook open ⇔ resource held')."
	c.Assume = []string{"gortsplib: a session is in state Play only after onPlay ran in state PrePlay", "static sources call SetNotReady only after a successful SetReady"}
	c20r4ClosedSessionsForgotten(c, p) // prop_r4_c20_hls.go

	// ---- every hooks.On* result is used; classify holders
	nSites := 0
	localSites := 0
	for _, fn := range p.ModFuncs() {
		eachInstr(fn, func(i ssa.Instruction) {
			call, ok := i.(*ssa.Call)
			if !ok {
				return
			}
			n := calleeName(&call.Call)
			if !strings.HasPrefix(n, "hooks.On") {
				return
			}
			nSites++
			key := n + " in " + fnName(fn)
			refs := *call.Referrers()
			stored, deferred, called := false, false, false
			for _, r := range refs {
				switch x := r.(type) {
				case *ssa.Store:
					if x.Val == ssa.Value(call) {
						if _, ok := x.Addr.(*ssa.FieldAddr); ok {
							stored = true
						}
					}
				case *ssa.Defer:
					if x.Call.Value == ssa.Value(call) {
						deferred = true
					}
				case *ssa.Call:
					if x.Call.Value == ssa.Value(call) {
						called = true
					}
				}
			}
			c.Check("C20.result_used", key+": the stop closure is stored in a holder field, deferred or called", stored || deferred || called, p.Pos(call.Pos()), "a dropped closure means the stop hook never runs")
			if stored {
				return
			}
			localSites++
			// local holder: no return without running (or having deferred) it
			w := (&Walker{Visit: func(j ssa.Instruction) int {
				switch x := j.(type) {
				case *ssa.Defer:
					if x.Call.Value == ssa.Value(call) {
						return wStop
					}
				case *ssa.Call:
					if x.Call.Value == ssa.Value(call) {
						return wStop
					}
				case *ssa.Return:
					return wHit
				}
				return wContinue
			}}).Run(after(call))
			c.Check("C20.local_holder", key+": every return after the start hook runs the stop closure (defer or call)", w == nil, p.Pos(call.Pos()), w.String(p))
		})
	}
	c.Floor("C20.result_used", nSites, 12)
	c.Floor("C20.local_holder", localSites, 6)

	// ---- generic field-holder table
	type holder struct {
		strct, field string
		storeIn      map[string]string // function -> required literal ("" none); prefix "!" = negative literal
		callIn       map[string]string
	}
	const rtspSess = "(*internal/servers/rtsp.session)."
	const stAtom = "((*github.com/bluenviron/gortsplib/v5.ServerSession).State($0.rsession) == "
	holders := []holder{
		{"core.path", "onOfflineHook", map[string]string{corePath + "setOnline": ""}, map[string]string{corePath + "setOffline": "!($0.onOfflineHook == nil)"}},
		{"core.path", "onUnDemandHook", map[string]string{corePath + "onDemandPublisherStart": ""}, map[string]string{corePath + "onDemandPublisherStop": "", corePath + "run": "!($0.onUnDemandHook == nil)"}},
		{"core.path", "onUnavailableHook", map[string]string{corePath + "setAvailable": "((*stream.Stream).Initialize($0.stream) == nil)"}, map[string]string{corePath + "setNotAvailable": ""}},
		{"servers/rtsp.session", "onUnreadHook", map[string]string{rtspSess + "onPlay": stAtom + "1)"}, map[string]string{rtspSess + "onClose": stAtom + "2)", rtspSess + "onPause": stAtom + "2)"}},
		{"servers/rtsp.conn", "onDisconnectHook", map[string]string{"(*internal/servers/rtsp.conn).initialize": ""}, map[string]string{"(*internal/servers/rtsp.conn).onClose": ""}},
		{"servers/hls.session", "onUnreadHook", map[string]string{"(*internal/servers/hls.session).initialize": "((*servers/hls.muxer).addSession($0.muxer, $0)#1 == nil)"}, map[string]string{"(*internal/servers/hls.session).close2": ""}},
	}
	lit := func(s string) LitPat {
		if strings.HasPrefix(s, "!") {
			return F(s[1:])
		}
		return T(s)
	}
	nClosing := 0
	for _, h := range holders {
		rule := "C20.server_holder"
		switch h.field {
		case "onOfflineHook":
			rule = "C20.online"
		case "onUnDemandHook":
			rule = "C20.demand"
		case "onUnavailableHook":
			rule = "C20.available"
		}
		nSt, nCl := 0, 0
		for _, fn := range p.ModFuncs() {
			name := fnName(fn)
			for _, st := range fieldStores(fn, h.strct, h.field) {
				if isNilConst(st.Val) {
					// clearing is allowed only where the hook is called
					_, ok := h.callIn[name]
					c.Check(rule+".who_may_clear", h.strct+"."+h.field+" = nil in "+name, ok, p.Pos(st.Pos()), "")
					continue
				}
				nSt++
				req, ok := h.storeIn[name]
				c.Check(rule+".who_may_store", h.strct+"."+h.field+" stored in "+name, ok && strings.HasPrefix(desc(st.Val), "hooks.On"), p.Pos(st.Pos()), "holder idiom table: the start hook may be opened only in the function that acquires the resource")
				if ok && req != "" {
					sst := st
					c.MustPass(p, fn, rule+".store_guard", h.field+" = hooks.On…", func(i ssa.Instruction) bool { return i == ssa.Instruction(sst) }, lit(req))
				}
			}
			eachInstr(fn, func(i ssa.Instruction) {
				cc := callCommon(i)
				if cc == nil || cc.IsInvoke() {
					return
				}
				u, ok := cc.Value.(*ssa.UnOp)
				if !ok {
					return
				}
				fa, ok := u.X.(*ssa.FieldAddr)
				if !ok || !fieldAddrIs(fa, h.strct, h.field) {
					return
				}
				nCl++
				req, ok := h.callIn[name]
				c.Check(rule+".who_may_call", h.strct+"."+h.field+"() called in "+name, ok, p.Pos(i.Pos()), "holder idiom table: the stop hook may run only in the function that releases the resource")
				if ok && req != "" {
					ii := i
					c.MustPass(p, fn, rule+".call_guard", h.field+"()", func(j ssa.Instruction) bool { return j == ii }, lit(req))
				}
			})
			// the converse (prop_r4_c20.go): in a closing function the stop closure is
			// skipped only when the pair is not open
			if req, ok := h.callIn[name]; ok && !isNewHelper(fn) {
				nClosing++
				var open *LitPat
				if req != "" {
					l := lit(req)
					open = &l
				}
				from, closes := entry(fn), c20r4FieldCall(h.strct, h.field)
				if name == corePath+"run" {
					from = c20r4TeardownStart(fn)
					direct := closes
					closes = func(i ssa.Instruction) bool {
						return direct(i) || h.field == "onUnDemandHook" && isCallTo(i, "(*core.path).onDemandPublisherStop")
					}
				}
				c20r4ClosedWhenOpen(c, p, fn, from, rule+".closed_when_open", h.strct+"."+h.field, closes, open)
			}
		}
		c.Floor(rule+".stores:"+h.field, nSt, 1)
		c.Floor(rule+".calls:"+h.field, nCl, 1)
	}
	c.Floor("C20.closed_when_open", nClosing, 8)
	// the stream-paired holder at path teardown: closed through setNotAvailable unless no stream is held
	if run := pathFn(c, p, "run"); run != nil {
		open := F("($0.stream == nil)")
		c20r4ClosedWhenOpen(c, p, run, c20r4TeardownStart(run), "C20.available.closed_when_open", "core.path.onUnavailableHook (setNotAvailable)", callTo("(*core.path).setNotAvailable"), &open)
	}

	// ---- path.onOfflineHook details
	if so := pathFn(c, p, "setOnline"); so != nil {
		c.MustPrecede(p, so, "C20.online.close_before_open", "onOfflineHook = hooks.OnOnline(…)", "setOffline()", func(i ssa.Instruction) bool {
			st, ok := i.(*ssa.Store)
			if !ok {
				return false
			}
			fa, ok := st.Addr.(*ssa.FieldAddr)
			return ok && fieldAddrIs(fa, "core.path", "onOfflineHook")
		}, callTo("(*core.path).setOffline"))
	}
	if sf := pathFn(c, p, "setOffline"); sf != nil {
		c.callThenClear(p, sf, "C20.online.call_then_clear", "onOfflineHook")
	}
	// ---- path.onUnDemandHook details
	if st := pathFn(c, p, "onDemandPublisherStop"); st != nil {
		c.callThenClear(p, st, "C20.demand.call_then_clear", "onUnDemandHook")
	}
	c20InitialAfterStop(c, p)
	// onDemandPublisherStop is reached only from the two timer handlers (armed only while the hook is open)
	stopCallers := map[string]bool{corePath + "doOnDemandPublisherReadyTimer": true, corePath + "doOnDemandPublisherCloseTimer": true}
	timerArm := map[string]string{"onDemandPublisherReadyTimer": corePath + "onDemandPublisherStart", "onDemandPublisherCloseTimer": corePath + "onDemandPublisherScheduleClose"}
	for _, fn := range p.ModFuncs() {
		if !strings.HasSuffix(funcPkgPath(fn), "/internal/core") {
			continue
		}
		for _, cl := range callsIn(fn, "(*core.path).onDemandPublisherStop") {
			c.Check("C20.demand.stop_callers", "onDemandPublisherStop called from "+fnName(fn), stopCallers[fnName(fn)], p.Pos(cl.Pos()), "the stop hook runs only from the two on-demand timers, which are armed only while the hook is open")
		}
		for f, owner := range timerArm {
			for _, st := range fieldStores(fn, "core.path", f) {
				if strings.HasPrefix(desc(st.Val), "time.NewTimer(") {
					c.Check("C20.demand.timer_arming", f+" armed in "+fnName(fn), fnName(fn) == owner, p.Pos(st.Pos()), "")
				}
			}
		}
		for _, cl := range callsIn(fn, "(*core.path).onDemandPublisherScheduleClose") {
			ccl := cl
			w := reachWithout(entry(fn), func(i ssa.Instruction) bool { return i == ccl }, []LitPat{F("($0.onDemandPublisherState == 0)"), T("($0.onDemandPublisherState == 2)")})
			c.Check("C20.demand.timer_arming", "onDemandPublisherScheduleClose in "+fnName(fn)+" ⇒ state != initial", w == nil, p.Pos(cl.Pos()), w.String(p))
		}
	}

	// ---- path.onUnavailableHook ↔ path.stream
	callerGuard := map[string][]LitPat{
		corePath + "run":                              {F("($0.stream == nil)")},
		corePath + "executeRemovePublisher":           {F("$0.conf.AlwaysAvailable")},
		corePath + "doSourceStaticSetNotReady":        {F("$0.conf.AlwaysAvailable")},
		corePath + "doOnDemandStaticSourceCloseTimer": {F("$0.conf.AlwaysAvailable")},
		corePath + "doAddPublisher":                   nil, // rollback, checked below
		corePath + "doSourceStaticSetReady":           nil,
	}
	nCallers := 0
	for _, fn := range p.ModFuncs() {
		if !strings.HasSuffix(funcPkgPath(fn), "/internal/core") {
			continue
		}
		for _, cl := range callsIn(fn, "(*core.path).setNotAvailable") {
			nCallers++
			g, ok := callerGuard[fnName(fn)]
			c.Check("C20.available.callers", "setNotAvailable called from "+fnName(fn), ok, p.Pos(cl.Pos()), "frozen caller table: each caller is dominated by a literal implying the stream (and its open hook) is held")
			if ok && g != nil {
				ccl := cl
				w := reachWithout(entry(fn), func(i ssa.Instruction) bool { return i == ccl }, g)
				c.Check("C20.available.callers", "setNotAvailable in "+fnName(fn)+" ⇒ "+altsStr(g), w == nil, p.Pos(cl.Pos()), w.String(p))
			}
			if ok && g == nil {
				// rollback call: dominated by a successful setAvailable
				ccl := cl
				sa := callsIn(fn, "(*core.path).setAvailable")
				if len(sa) == 1 {
					// pa.conf is replaced only by doReloadConf (checked below), so
					// conf.AlwaysAvailable cannot change while this handler runs
					w := reachWithoutStable(entry(fn), func(i ssa.Instruction) bool { return i == ccl }, []LitPat{T("(" + desc(sa[0].(ssa.Value)) + " == nil)")}, []string{"$0.conf.AlwaysAvailable"})
					c.Check("C20.available.callers", "setNotAvailable in "+fnName(fn)+" ⇒ setAvailable succeeded before", w == nil, p.Pos(cl.Pos()), w.String(p))
				}
			}
		}
	}
	c.Floor("C20.available.callers", nCallers, 6)
	for _, fn := range p.ModFuncs() {
		for _, st := range fieldStores(fn, "core.path", "conf") {
			if _, fresh := st.Addr.(*ssa.FieldAddr).X.(*ssa.Alloc); fresh {
				continue // object under construction (createPath)
			}
			c.Check("C20.available.conf_stable", "path.conf stored in "+fnName(fn), fnName(fn) == corePath+"doReloadConf", p.Pos(st.Pos()), "the guards on conf.AlwaysAvailable assume the configuration does not change inside a handler")
		}
	}
	// executeRemovePublisher's own callers hold a source
	for _, fn := range p.ModFuncs() {
		for _, cl := range callsIn(fn, "(*core.path).executeRemovePublisher") {
			ccl := cl
			w := reachWithout(entry(fn), func(i ssa.Instruction) bool { return i == ccl }, []LitPat{T("($0.source == $1.Author)"), F("($0.source == nil)")})
			c.Check("C20.available.callers", "executeRemovePublisher in "+fnName(fn)+" ⇒ a source is attached", w == nil, p.Pos(cl.Pos()), w.String(p))
		}
	}
	if sna := pathFn(c, p, "setNotAvailable"); sna != nil {
		// calls the hook exactly once on every path
		c.ExactlyOnce(p, sna, "C20.available.close_once", "a call of onUnavailableHook", func(i ssa.Instruction) bool {
			cc := callCommon(i)
			return cc != nil && !cc.IsInvoke() && desc(cc.Value) == "$0.onUnavailableHook"
		})
		c.MustPrecede(p, sna, "C20.available.close_once", "return", "setOffline (closes an open online pair)", anyReturn, callTo("(*core.path).setOffline"))
	}
	if sa := pathFn(c, p, "setAvailable"); sa != nil {
		// a nil return opened the hook
		c.MustPrecede(p, sa, "C20.available.open_on_success", "return nil", "onUnavailableHook = hooks.OnAvailable(…)", retNil(0), func(i ssa.Instruction) bool {
			st, ok := i.(*ssa.Store)
			if !ok {
				return false
			}
			fa, ok := st.Addr.(*ssa.FieldAddr)
			return ok && fieldAddrIs(fa, "core.path", "onUnavailableHook")
		})
	}
	c.rollbackAfterSetAvailable(p, "C20.rollback")

	// ---- hook constructors: start iff configured; closure stops it iff started, then launches the stop command iff configured
	type hk struct{ fn, on, off string }
	for _, h := range []hk{{"OnAvailable", "RunOnAvailable", "RunOnUnavailable"}, {"OnOnline", "RunOnOnline", "RunOnOffline"}, {"OnDemand", "RunOnDemand", "RunOnUnDemand"}, {"OnRead", "RunOnRead", "RunOnUnread"}} {
		fn := c.fn(p, "internal/hooks", "", h.fn)
		if fn == nil {
			continue
		}
		starts := callsIn(fn, "(*externalcmd.Cmd).Start")
		c.Check("C20.constructor", "hooks."+h.fn+": launches the start command once", len(starts) == 1, p.Pos(fn.Pos()), "")
		if len(starts) == 1 {
			c.MustPass(p, fn, "C20.constructor", "start command launched", func(i ssa.Instruction) bool { return i == starts[0] }, F(`($0.Conf.`+h.on+` == "")`))
		}
		var clo *ssa.Function
		for _, a := range fn.AnonFuncs {
			clo = a
		}
		if clo == nil {
			c.Check("C20.constructor", "hooks."+h.fn+": returns a closure", false, p.Pos(fn.Pos()), "")
			continue
		}
		closes := callsIn(clo, "(*externalcmd.Cmd).Close")
		c.Check("C20.constructor", "hooks."+h.fn+" closure: closes the start command", len(closes) >= 1, p.Pos(clo.Pos()), "")
		if len(closes) >= 1 {
			c.MustPass(p, clo, "C20.constructor", "start command closed", callTo("(*externalcmd.Cmd).Close"), F("*Cmd == nil)"))
		}
		stopStarts := callsIn(clo, "(*externalcmd.Cmd).Start")
		c.Check("C20.constructor", "hooks."+h.fn+" closure: launches the stop command", len(stopStarts) == 1, p.Pos(clo.Pos()), "")
		if len(stopStarts) == 1 {
			c.MustPass(p, clo, "C20.constructor", "stop command launched", func(i ssa.Instruction) bool { return i == stopStarts[0] }, F(`(free:params.Conf.`+h.off+` == "")`))
		}
	}
}

// callThenClear: the holder is called and then set to nil on every path that calls it.
func (c *Ctx) callThenClear(p *Prog, fn *ssa.Function, rule, field string) {
	var call ssa.Instruction
	eachInstr(fn, func(i ssa.Instruction) {
		cc := callCommon(i)
		if cc != nil && !cc.IsInvoke() && desc(cc.Value) == "$0."+field {
			call = i
		}
	})
	if call == nil {
		c.Check(rule, fnName(fn)+": calls "+field, false, p.Pos(fn.Pos()), "")
		return
	}
	c.MustFollow(p, fn, rule, field+"() is followed by "+field+" = nil on every path to return", after(call), anyReturn, func(i ssa.Instruction) bool {
		st, ok := i.(*ssa.Store)
		if !ok {
			return false
		}
		fa, ok := st.Addr.(*ssa.FieldAddr)
		return ok && fieldAddrIs(fa, "core.path", field) && isNilConst(st.Val)
	}, nil)
}
