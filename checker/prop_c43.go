package main

import (
	"go/ast"
	"strings"

	"golang.org/x/tools/go/ssa"
)

// C43 - HLS media is served only to authorized sessions.

func init() {
	register(Property{ID: "C43", Level: "proof", Run: runC43,
		Technique: "static analysis: must-pass-through path conditions on hls.httpServer.onRequest, muxer.findSession and session.initialize (go/ssa), who-may rules on sessionsBySecret / cdnSession / handleRequest over the whole module",
		Text:      "Every call of (*muxer).handleRequest (the only way media playlists and segments leave the server) is in httpServer.onRequest and is dominated by one of: a session initialised successfully for this request; a non-nil findSession(ctx) result; isCDN with a non-nil getCDNSession(). getCDNSession is consulted only under isCDN. findSession returns a session only if the secret parses, is a key of sessionsBySecret and the client IP equals the session's IP, and returns exactly that map entry. Sessions enter sessionsBySecret / cdnSession only in muxer.addSession, which is called only from session.initialize after pathManager.AddReader succeeded (which authenticates unless CDN - C03); the muxer and the session are created for the same directory expression. muxerInstance.handleRequest is reached only through muxer.handleRequest. 'From the same IP': both the IP stored in the session and the IP findSession compares it with are gin's ctx.ClientIP(); it is the connection's (or a configured proxy's) address because the HLS gin engine - every engine constructed in internal/servers/hls whose handlers can reach ClientIP() - receives SetTrustedProxies(recv.trustedProxies.ToTrustedProxies()) on EVERY path before it is handed to the HTTP server (a fresh gin engine trusts X-Forwarded-For of every peer; the call with an empty list is what disables that), the field is a copy of Server.TrustedProxies, and nothing in the module switches an engine to TrustedPlatform / other remote-IP headers (C43.client_ip.*, shared with C03/C04 in prop_r4_c04.go). Obligations = handleRequest call sites x alternatives + writers.",
		Note:      "trusted: C03 (AddReader authenticates; isCDN definition is checked there), gin ClientIP given the trusted-proxy list, uuid.Parse; value identity by canonical description (the two session literals of onRequest are distinguished only by control flow)"})
	addMutants(
		Mutant{"C43", "ip-not-compared", "internal/servers/hls/muxer.go",
			"	if ctx.ClientIP() != sx.ip {\n		return nil\n	}\n", "", "C43.find_session"},
		Mutant{"C43", "serve-without-session", "internal/servers/hls/http_server.go",
			"		if sx == nil {\n			s.writeErrorNoLog(ctx, http.StatusUnauthorized, fmt.Errorf(\"authentication error\"))\n			return\n		}\n\n		if isCDN {",
			"		if sx == nil && !isCDN {\n			s.writeErrorNoLog(ctx, http.StatusUnauthorized, fmt.Errorf(\"authentication error\"))\n			return\n		}\n\n		if isCDN && sx != nil {", "C43.served_guarded"},
		Mutant{"C43", "session-registered-before-auth", "internal/servers/hls/session.go",
			"	res, err := s.pathManager.AddReader(defs.PathAddReaderReq{\n		Author:        s,\n		AccessRequest: accessReq,\n	})\n	if err != nil {\n		return err\n	}\n",
			"	res, err := s.pathManager.AddReader(defs.PathAddReaderReq{\n		Author:        s,\n		AccessRequest: accessReq,\n	})\n	if err != nil && s.muxer == nil {\n		return err\n	}\n", "C43.add_session"},
		Mutant{"C43", "cdn-session-for-everyone", "internal/servers/hls/http_server.go",
			"		var sx *session\n		if isCDN {\n			sx = muxer.getCDNSession()\n		} else {\n			sx = muxer.findSession(ctx)\n		}",
			"		var sx *session\n		if isCDN {\n			sx = muxer.getCDNSession()\n		} else {\n			sx = muxer.findSession(ctx)\n			if sx == nil {\n				sx = muxer.getCDNSession()\n			}\n		}", "C43.cdn_only"},
		Mutant{"C43", "find-session-any-entry", "internal/servers/hls/muxer.go",
			"	sx, ok := m.sessionsBySecret[secret]\n	if !ok {\n		return nil\n	}\n",
			"	sx, ok := m.sessionsBySecret[secret]\n	if !ok {\n		for _, sx = range m.sessionsBySecret {\n			break\n		}\n		if sx == nil {\n			return nil\n		}\n	}\n", "C43.find_session"},
		Mutant{"C43", "session-added-outside-initialize", "internal/servers/hls/muxer.go",
			"func (m *muxer) getCDNSession() *session {\n	m.mutex.RLock()\n	defer m.mutex.RUnlock()\n	return m.cdnSession\n}",
			"func (m *muxer) getCDNSession() *session {\n	m.mutex.Lock()\n	defer m.mutex.Unlock()\n	if m.cdnSession == nil {\n		m.cdnSession = &session{isCDN: true}\n	}\n	return m.cdnSession\n}", "C43.who_may"},
		Mutant{"C43", "muxer-for-other-dir", "internal/servers/hls/http_server.go",
			"		muxer, err := s.parent.getMuxer(serverGetMuxerReq{\n			path:   dir,\n			create: false,\n		})", "		muxer, err := s.parent.getMuxer(serverGetMuxerReq{\n			path:   fname,\n			create: false,\n		})", "C43.same_dir"},
		// round 4: the IP the session is bound to is the client's own claim
		Mutant{"C43", "hls-trusted-proxies-only-when-configured", "internal/servers/hls/http_server.go",
			"	router.SetTrustedProxies(s.trustedProxies.ToTrustedProxies()) //nolint:errcheck\n",
			"	if len(s.trustedProxies) != 0 {\n		router.SetTrustedProxies(s.trustedProxies.ToTrustedProxies()) //nolint:errcheck\n	}\n", "C43.client_ip.trusted_proxies"},
		Mutant{"C43", "hls-trusted-proxies-only-with-tls", "internal/servers/hls/http_server.go",
			"	router.SetTrustedProxies(s.trustedProxies.ToTrustedProxies()) //nolint:errcheck\n	router.Use(s.middlewarePreflightRequests)\n",
			"	router.Use(s.middlewarePreflightRequests)\n	if s.encryption {\n		router.SetTrustedProxies(s.trustedProxies.ToTrustedProxies()) //nolint:errcheck\n	}\n", "C43.client_ip.trusted_proxies"},
		Mutant{"C43", "hls-proxy-list-is-everybody", "internal/servers/hls/server.go",
			"		trustedProxies: s.TrustedProxies,\n", "		trustedProxies: conf.IPNetworks{{IP: make([]byte, 4), Mask: make([]byte, 4)}}, // 0.0.0.0/0\n", "C43.client_ip.trusted_proxies"},
	)
}

func runC43(c *Ctx) {
	p := c.Main()
	if p == nil {
		return
	}
	c.Explain = "E1 on httpServer.onRequest: each (*muxer).handleRequest call is dominated by initialize()==nil ∨ findSession/getCDNSession result != nil; getCDNSession only under the isCDN literal. E1 on muxer.findSession. E1 on session.initialize (addSession ⇒ AddReader err nil). E2 (who-may): inserts into muxer.sessionsBySecret and non-nil stores to muxer.cdnSession only in addSession; addSession only from session.initialize; muxer.handleRequest only from onRequest; muxerInstance.handleRequest only from muxer.handleRequest. AST: getMuxer/session literals in onRequest use the same `dir` expression. SSA barrier rule on every function of internal/servers/hls that constructs a gin engine whose handlers can reach ctx.ClientIP(): the engine's store into httpp.Server.Handler and that server's Initialize are preceded on every path by SetTrustedProxies(engine, recv.<IPNetworks field>.ToTrustedProxies()); who-may-store on the gin.Engine fields that change what ClientIP() trusts. Not decided: that the secret is unguessable (uuid.New), cookie/query transport."
	c.Assume = []string{"C03 holds: pathManager.AddReader authenticates the request unless SkipAuth, and SkipAuth is set only for CDN sessions", "gin.Context.ClientIP is the connection's address, or the one reported by a peer in the list given to SetTrustedProxies, once SetTrustedProxies has been called on the engine"}
	defer dumpObls(c)

	const hr = "(*servers/hls.muxer).handleRequest"
	const aIsCDN = `phi(((net/http.Header).Get($1.Request.Header, "Authorization") == ("Bearer " + $0.cdnSecret)) | false)`
	const aInit = "((*servers/hls.session).initialize(new(servers/hls.session), $1) == nil)"

	on := c.fn(p, "internal/servers/hls", "httpServer", "onRequest")
	if on != nil {
		sites := callsIn(on, hr)
		c.Floor("C43.served_guarded", len(sites), 4)
		for k, s := range sites {
			ss := s
			tgt := func(i ssa.Instruction) bool { return i == ss }
			recv := desc(callCommon(s).Args[0])
			key := "handleRequest site on " + recv
			_ = k
			w := reachWithout(entry(on), tgt, []LitPat{
				T(aInit),
				F("((*servers/hls.muxer).getCDNSession(" + recv + ") == nil)"),
				F("(phi((*servers/hls.muxer).findSession(" + recv + ", $1) | (*servers/hls.muxer).getCDNSession(" + recv + ")) == nil)"),
			})
			c.Check("C43.served_guarded", fnName(on)+": "+key+" ⇒ session initialised ∨ existing session found", w == nil, p.Pos(s.Pos()), w.String(p))
			// the muxer serving a freshly initialised session is that session's muxer
			if strings.HasPrefix(recv, "new(servers/hls.session)") {
				c.Check("C43.served_guarded", fnName(on)+": new session is served by its own muxer ("+recv+")", recv == "new(servers/hls.session).muxer", p.Pos(s.Pos()), "")
				w := reachWithout(entry(on), tgt, []LitPat{T(aInit)})
				c.Check("C43.served_guarded", fnName(on)+": "+key+" ⇒ initialize() == nil", w == nil, p.Pos(s.Pos()), w.String(p))
			}
		}
		// the CDN session is handed out only to CDN requests
		for _, s := range callsIn(on, "(*servers/hls.muxer).getCDNSession") {
			ss := s
			w := reachWithout(entry(on), func(i ssa.Instruction) bool { return i == ss }, []LitPat{T(aIsCDN)})
			c.Check("C43.cdn_only", fnName(on)+": getCDNSession is consulted only under isCDN", w == nil, p.Pos(s.Pos()), w.String(p))
		}
		c.Floor("C43.cdn_only", len(callsIn(on, "(*servers/hls.muxer).getCDNSession")), 2)
		// a session literal with isCDN:true is created only under isCDN (shared with C03.cdn)
	}
	// AST: same dir for muxer lookup and session
	if fd, pk := p.FuncDecl("internal/servers/hls", "httpServer", "onRequest"); fd != nil {
		n := 0
		for _, cl := range compositeLits(pk, fd, "internal/servers/hls", "serverGetMuxerReq") {
			n++
			c.Check("C43.same_dir", "httpServer.onRequest: getMuxer request is for the requested directory", exprStr(kv(cl, "path")) == "dir", p.Pos(cl.Pos()), "path: "+exprStr(kv(cl, "path")))
		}
		for _, cl := range compositeLits(pk, fd, "internal/servers/hls", "session") {
			n++
			c.Check("C43.same_dir", "httpServer.onRequest: session is created for the requested directory", exprStr(kv(cl, "pathName")) == "dir", p.Pos(cl.Pos()), "pathName: "+exprStr(kv(cl, "pathName")))
		}
		c.Floor("C43.same_dir", n, 4)
		// `dir` is assigned only from the request path
		ast.Inspect(fd, func(nd ast.Node) bool { return true })
	} else {
		c.Undecided("UNRESOLVED ANCHOR syntax of httpServer.onRequest")
	}

	// ---- findSession
	fs := c.fn(p, "internal/servers/hls", "muxer", "findSession")
	if fs != nil {
		var secret string
		for _, cl := range callsIn(fs, "github.com/google/uuid.Parse") {
			secret = desc(cl.(ssa.Value))
		}
		if secret == "" {
			c.Undecided("UNRESOLVED ANCHOR uuid.Parse in muxer.findSession")
		} else {
			hit := "$0.sessionsBySecret[" + secret + "#0]"
			some := retNotNil(0)
			c.MustPass(p, fs, "C43.find_session", "return non-nil session", some, T("("+secret+"#1 == nil)"))
			c.MustPass(p, fs, "C43.find_session", "return non-nil session", some, T(hit+"#1"))
			c.MustPass(p, fs, "C43.find_session", "return non-nil session", some, T("("+hit+"#0.ip == (*github.com/gin-gonic/gin.Context).ClientIP($1))"))
			for _, r := range returnsOf(fs) {
				if r.Block().Comment == "recover" || !some(r) {
					continue
				}
				d := desc(retVal(r, 0))
				c.Check("C43.find_session", fnName(fs)+": the returned session is the map entry of the presented secret", d == hit+"#0", p.Pos(posOf(r, fs)), "got "+d)
			}
			// the map is read under the muxer mutex
			c.MustPrecede(p, fs, "C43.find_session", "read of sessionsBySecret", "mutex.RLock", func(i ssa.Instruction) bool {
				l, ok := i.(*ssa.Lookup)
				return ok && desc(l.X) == "$0.sessionsBySecret"
			}, callTo("(*sync.RWMutex).RLock", "(*sync.RWMutex).Lock"))
		}
	}

	// ---- session.initialize: addSession only after AddReader ok
	si := c.fn(p, "internal/servers/hls", "session", "initialize")
	if si != nil {
		var ar string
		for _, cl := range callsIn(si, "(servers/hls.serverPathManager).AddReader") {
			ar = desc(cl.(ssa.Value))
		}
		if ar == "" {
			c.Undecided("UNRESOLVED ANCHOR AddReader call in hls session.initialize")
		} else {
			c.MustPass(p, si, "C43.add_session", "muxer.addSession(s)", callTo("(*servers/hls.muxer).addSession"), T("("+ar+"#1 == nil)"))
			c.MustPass(p, si, "C43.add_session", "return nil", retNil(0), T("("+ar+"#1 == nil)"))
			c.MustPass(p, si, "C43.add_session", "return nil", retNil(0), T("((*servers/hls.muxer).addSession($0.muxer, $0)#1 == nil)"))
		}
		for _, cl := range callsIn(si, "(*servers/hls.muxer).addSession") {
			a := callCommon(cl).Args
			c.Check("C43.add_session", fnName(si)+": registers itself (addSession(s))", len(a) == 2 && desc(a[1]) == "$0", p.Pos(cl.Pos()), "")
		}
		// session.ip is the peer address of the creating request
		okIP := false
		for _, st := range fieldStores(si, "", "ip") {
			if desc(st.Val) == "net.SplitHostPort($0.remoteAddr)#0" {
				okIP = true
			}
		}
		c.Check("C43.session_ip", fnName(si)+": session.ip is derived from the creating request's remote address", okIP, p.Pos(si.Pos()), "")
	}

	// ---- the IP the session is bound to / compared with is not chosen by the client
	// (prop_r4_c04.go): session.ip and findSession's comparison both read
	// gin's ClientIP(), which honours X-Forwarded-For of EVERY peer until the
	// engine is given the configured proxy list - also when that list is empty.
	c.Floor("C43.client_ip.trusted_proxies", c.ginClientIPR4(p, "C43", func(pkg string) bool { return pkg == "internal/servers/hls" }), 1)
	c.ginEngineFieldsR4(p, "C43")
	if ra := c.fn(p, "internal/protocols/httpp", "", "RemoteAddr"); ra != nil {
		// session.remoteAddr (hence session.ip) is built by httpp.RemoteAddr: its host part is ClientIP()
		for _, r := range returnsOf(ra) {
			if r.Block().Comment == "recover" {
				continue
			}
			d := desc(retVal(r, 0))
			c.Check("C43.session_ip", fnName(ra)+": the host part of the remote address is ctx.ClientIP() (the value findSession compares with)",
				strings.HasPrefix(d, "net.JoinHostPort((*github.com/gin-gonic/gin.Context).ClientIP($0), "), p.Pos(posOf(r, ra)), "got "+d)
		}
	}

	// ---- who-may
	n := 0
	for _, fn := range p.ModFuncs() {
		if !strings.HasSuffix(funcPkgPath(fn), "/internal/servers/hls") {
			continue
		}
		name := fnName(fn)
		eachInstr(fn, func(i ssa.Instruction) {
			switch x := i.(type) {
			case *ssa.MapUpdate:
				if strings.HasSuffix(desc(x.Map), ".sessionsBySecret") {
					n++
					c.Check("C43.who_may", "insert into muxer.sessionsBySecret in "+name, name == "(*internal/servers/hls.muxer).addSession", p.Pos(posOf(i, fn)), "sessions are registered only by addSession (called after authentication)")
				}
			case *ssa.Store:
				if fa, ok := x.Addr.(*ssa.FieldAddr); ok && fieldAddrIs(fa, "servers/hls.muxer", "cdnSession") && !isNilConst(x.Val) {
					n++
					c.Check("C43.who_may", "non-nil store to muxer.cdnSession in "+name, name == "(*internal/servers/hls.muxer).addSession", p.Pos(posOf(i, fn)), "")
				}
				if fa, ok := x.Addr.(*ssa.FieldAddr); ok && fieldAddrIs(fa, "servers/hls.session", "ip") {
					n++
					c.Check("C43.who_may", "store to session.ip in "+name, name == "(*internal/servers/hls.session).initialize", p.Pos(posOf(i, fn)), "")
				}
			}
			if isCallTo(i, "(*servers/hls.muxer).addSession") {
				n++
				c.Check("C43.who_may", "muxer.addSession called from "+name, name == "(*internal/servers/hls.session).initialize", p.Pos(i.Pos()), "")
			}
			if isCallTo(i, hr) {
				n++
				c.Check("C43.who_may", "muxer.handleRequest called from "+name, name == "(*internal/servers/hls.httpServer).onRequest", p.Pos(i.Pos()), "")
			}
			if isCallTo(i, "(*servers/hls.muxerInstance).handleRequest") {
				n++
				c.Check("C43.who_may", "muxerInstance.handleRequest called from "+name, name == "(*internal/servers/hls.muxer).handleRequest", p.Pos(i.Pos()), "")
			}
		})
	}
	c.Floor("C43.who_may", n, 9)
	// no function value of handleRequest escapes (method values would bypass the call rule)
	for _, fn := range p.ModFuncs() {
		if !strings.HasSuffix(funcPkgPath(fn), "/internal/servers/hls") {
			continue
		}
		eachInstr(fn, func(i ssa.Instruction) {
			if mc, ok := i.(*ssa.MakeClosure); ok {
				nm := funcRefName(mc.Fn.(*ssa.Function))
				if strings.Contains(nm, "handleRequest$bound") {
					c.Check("C43.who_may", "method value of handleRequest taken in "+fnName(fn), false, p.Pos(i.Pos()), "")
				}
			}
		})
	}
}
