package main

// C18 - removal of a reader, stated over the EFFECT `delete(path.readers, k)`
// instead of over the function that happens to contain it.
//
// A "detach" of reader k by function F is
//   * a `delete(pa.readers, k)` instruction in F, or
//   * a call in F of a REMOVER: a method of core.path whose body detaches one of its
//     own parameters (executeRemoveReader today; computed, not named - to a fixed
//     point, so a remover may call a remover). The reader detached by the call is the
//     argument in that position.
// (New helpers need no case: eachInstr already yields their instructions as part of
// their callers, with parameters described by the arguments.)
//
// Whether the helper exists, was inlined into its callers, or a second one was
// extracted makes no difference to the set of (F, k) pairs, and the rules speak
// about those pairs only:
//
//   who_may_write   every detach is either the answer to the reader's own remove
//                   request (k is the Author of F's PathRemoveReaderReq parameter) or
//                   part of a teardown loop over path.readers that also Close()s k
//                   before the next iteration - nobody else drops a reader.
//   teardown        in setNotAvailable, on every path from the start of an iteration
//                   of the loop over path.readers to the next iteration (or out of
//                   the function) the ranged reader is detached and Close()d.

import (
	"strings"

	"golang.org/x/tools/go/ssa"
)

type c18detach struct {
	fn  *ssa.Function   // function the effect is attributed to
	at  ssa.Instruction // the delete, or the call of a remover
	key ssa.Value       // the reader removed
	via *ssa.Function   // the remover called, nil for a direct delete
}

func c18isReadersMap(v ssa.Value) bool {
	return strings.HasSuffix(desc(v), ".readers") && isPathTyped(v)
}

// c18directDelete: `delete(<path>.readers, k)`.
func c18directDelete(i ssa.Instruction) (ssa.Value, bool) {
	if !isCallTo(i, "delete") {
		return nil, false
	}
	a := callCommon(i).Args
	if len(a) == 2 && c18isReadersMap(a[0]) {
		return a[1], true
	}
	return nil, false
}

// c18Removers: methods of core.path that detach one of their parameters from
// their own receiver's readers; value = parameter index.
func c18Removers(p *Prog) map[*ssa.Function]int {
	rem := map[*ssa.Function]int{}
	var cands []*ssa.Function
	for _, fn := range p.ModFuncs() {
		if !strings.HasSuffix(funcPkgPath(fn), "/internal/core") || fn.Signature.Recv() == nil || len(fn.Params) < 2 {
			continue
		}
		if !strings.HasSuffix(typeStr(fn.Params[0].Type()), "core.path") {
			continue
		}
		cands = append(cands, fn)
	}
	paramOf := func(fn *ssa.Function, v ssa.Value) int {
		for k, pa := range fn.Params {
			if k > 0 && stripConv(v) == ssa.Value(pa) {
				return k
			}
		}
		return 0
	}
	for changed := true; changed; {
		changed = false
		for _, fn := range cands {
			if _, done := rem[fn]; done {
				continue
			}
			for _, b := range fn.Blocks {
				for _, i := range b.Instrs {
					if k, ok := c18directDelete(i); ok && desc(callCommon(i).Args[0]) == "$0.readers" {
						if n := paramOf(fn, k); n > 0 {
							rem[fn], changed = n, true
						}
					}
					if cc := callCommon(i); cc != nil && !cc.IsInvoke() {
						if callee := cc.StaticCallee(); callee != nil {
							if n, ok := rem[callee]; ok && n < len(cc.Args) && desc(cc.Args[0]) == "$0" {
								if m := paramOf(fn, cc.Args[n]); m > 0 {
									rem[fn], changed = m, true
								}
							}
						}
					}
				}
			}
		}
	}
	return rem
}

// c18Detaches lists the detach effects of fn (direct deletes and remover calls).
func c18Detaches(fn *ssa.Function, rem map[*ssa.Function]int) []c18detach {
	var out []c18detach
	eachInstr(fn, func(i ssa.Instruction) {
		if k, ok := c18directDelete(i); ok {
			out = append(out, c18detach{fn: fn, at: i, key: k})
			return
		}
		if cc := callCommon(i); cc != nil && !cc.IsInvoke() {
			if callee := cc.StaticCallee(); callee != nil {
				if n, ok := rem[callee]; ok && n < len(cc.Args) {
					out = append(out, c18detach{fn: fn, at: i, key: cc.Args[n], via: callee})
				}
			}
		}
	})
	return out
}

// c18ReadersLoop: the range loop of fn over <recv>.readers whose ranged key is v.
func c18ReadersLoop(fn *ssa.Function, v ssa.Value) *rangeLoop {
	for _, l := range rangeLoopsOf(fn) {
		if !c18isReadersMap(l.Range.X) {
			continue
		}
		if ex, ok := stripConv(v).(*ssa.Extract); ok && ex.Tuple == ssa.Value(l.Next) && ex.Index == 1 {
			return l
		}
	}
	return nil
}

// c18EveryIteration: every path from the start of an iteration of l to the next
// iteration, or to a return, executes an instruction satisfying barrier.
func c18EveryIteration(l *rangeLoop, barrier func(ssa.Instruction) bool) *Witness {
	return reachAvoiding(Point{l.Header.Succs[0], 0}, func(i ssa.Instruction) bool {
		return i == ssa.Instruction(l.Next) || anyReturn(i)
	}, barrier)
}

func c18ClosesReader(l *rangeLoop) func(ssa.Instruction) bool {
	return func(i ssa.Instruction) bool {
		if !isCallTo(i, "(defs.Reader).Close") {
			return false
		}
		ex, ok := stripConv(argN(callCommon(i), 0)).(*ssa.Extract)
		return ok && ex.Tuple == ssa.Value(l.Next) && ex.Index == 1
	}
}

func c18DetachesReader(l *rangeLoop, rem map[*ssa.Function]int) func(ssa.Instruction) bool {
	return func(i ssa.Instruction) bool {
		var k ssa.Value
		if d, ok := c18directDelete(i); ok {
			k = d
		} else if cc := callCommon(i); cc != nil && !cc.IsInvoke() && cc.StaticCallee() != nil {
			if n, ok := rem[cc.StaticCallee()]; ok && n < len(cc.Args) {
				k = cc.Args[n]
			}
		}
		if k == nil {
			return false
		}
		ex, ok := stripConv(k).(*ssa.Extract)
		return ok && ex.Tuple == ssa.Value(l.Next) && ex.Index == 1
	}
}

// c18DetachAllowed: the reader asked for it, or it is closed by the same
// teardown iteration.
func c18DetachAllowed(d c18detach, rem map[*ssa.Function]int) (bool, string) {
	// k = <request parameter>.Author of a PathRemoveReaderReq
	for k, pa := range d.fn.Params {
		if k > 0 && strings.HasSuffix(typeStr(pa.Type()), "defs.PathRemoveReaderReq") && desc(d.key) == "$"+itoa(k)+".Author" {
			return true, "the reader's own remove request"
		}
	}
	if l := c18ReadersLoop(d.fn, d.key); l != nil {
		if w := c18EveryIteration(l, c18ClosesReader(l)); w == nil {
			return true, "teardown loop that closes the reader"
		}
		return false, "ranged reader " + desc(d.key) + " is removed but not closed in every iteration"
	}
	return false, "reader " + desc(d.key) + " is neither the author of a remove request nor a reader closed by a teardown loop"
}
