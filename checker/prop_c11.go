package main

import (
	"go/ast"
	"go/types"
	"sort"
	"strings"

	"golang.org/x/tools/go/ssa"
)

// C11 - configuration copies are independent.
// E3: walk the static type graph that conf.deepClone meets at run time and
// require that every reachable kind is copied deeply by one of deepClone's
// cases; E1 (shape) on deepClone's switch; E2 on the Clone methods.

func init() {
	register(Property{ID: "C11", Level: "proof", Run: runC11,
		Technique: "static analysis: type-graph walk (go/types) from conf.Conf and conf.Path against the kinds conf.deepClone compares rv.Kind() with; per kind, evaluation of deepClone on SSA under the assumption rv.Kind() == K (feasible returns, allocation, recursion; prop_gen_c11.go); SSA rule on the Clone methods",
		Text:      "Every type reachable from conf.Conf and conf.Path (all fields, including json:\"-\" ones) is of a kind for which conf.deepClone has a case that allocates a fresh container and recurses into every element (pointer, struct, slice, map, interface), or is a value kind; reference kinds without a case (func, chan, unsafe pointer), module-defined structs with unexported fields (silently dropped by CanSet) and opaque third-party structs outside a one-row table are violations. Each case of deepClone allocates, recurses, and returns the input unchanged only under IsNil. Conf.Clone/Path.Clone call deepClone on the receiver value - the whole, unmodified receiver: no receiver field is overwritten before the call, no field of the result is assigned afterwards (except from a deepClone of the receiver's same field), and the method contains no map update, store through a reference or call other than reflect.ValueOf → deepClone → Interface. Together: a clone shares no mutable storage with the original. Obligations = reachable types + switch cases + Clone methods.",
		Note:      "trusted: reflect semantics (New/MakeSlice/MakeMap/Set, CanSet false for unexported fields); the dynamic values behind interface-typed fields (OptionalPath.Values, built with reflect.StructOf from Path's own fields) consist of kinds in the same graph; table exception: Path.Regexp *regexp.Regexp is re-allocated with zeroed unexported fields - not shared, hence independent (its usability is C12/C15's concern)"})
	addMutants(
		Mutant{"C11", "slice-returned-shallow", "internal/conf/conf.go",
			"		newSlice := reflect.MakeSlice(rv.Type(), rv.Len(), rv.Cap())\n		for i := range rv.Len() {\n			newSlice.Index(i).Set(deepClone(rv.Index(i)))\n		}\n		return newSlice",
			"		return rv", "C11.case_shape"},
		Mutant{"C11", "interface-case-removed", "internal/conf/conf.go",
			"	case reflect.Interface:\n		if rv.IsNil() {\n			return rv\n		}\n		newIface := reflect.New(rv.Type()).Elem()\n		newIface.Set(deepClone(rv.Elem()))\n		return newIface\n\n", "", "C11.kind_handled"},
		Mutant{"C11", "map-values-not-recursed", "internal/conf/conf.go",
			"newMap.SetMapIndex(key, deepClone(rv.MapIndex(key)))", "newMap.SetMapIndex(key, rv.MapIndex(key))", "C11.case_shape"},
		Mutant{"C11", "unexported-field-in-user", "internal/conf/auth_internal_user.go",
			"type AuthInternalUser struct {\n", "type AuthInternalUser struct {\n	cache map[string]bool\n", "C11.kind_handled"},
		Mutant{"C11", "func-field-in-path", "internal/conf/path.go",
			"type Path struct {\n", "type Path struct {\n	OnChange func() `json:\"-\"`\n", "C11.kind_handled"},
		Mutant{"C11", "clone-is-shallow-copy", "internal/conf/path.go",
			"	cloned := deepClone(reflect.ValueOf(pconf)).Interface().(Path)\n	return &cloned", "	cloned := pconf\n	return &cloned", "C11.clone_method"},
		Mutant{"C11", "clone-paths-map-copied-shallowly", "internal/conf/conf.go",
			"	cloned := deepClone(reflect.ValueOf(conf)).Interface().(Conf)\n	return &cloned",
			"	paths := conf.Paths\n	conf.Paths = nil\n	cloned := deepClone(reflect.ValueOf(conf)).Interface().(Conf)\n	cloned.Paths = make(map[string]*Path, len(paths))\n	for name, pa := range paths {\n		cloned.Paths[name] = pa\n	}\n	return &cloned", "C11.clone_method.whole"},
		Mutant{"C11", "clone-field-reassigned-from-original", "internal/conf/path.go",
			"	cloned := deepClone(reflect.ValueOf(pconf)).Interface().(Path)\n	return &cloned",
			"	cloned := deepClone(reflect.ValueOf(pconf)).Interface().(Path)\n	cloned.AlwaysAvailableTracks = pconf.AlwaysAvailableTracks\n	return &cloned", "C11.clone_method.whole"},
		Mutant{"C11", "pointer-shared", "internal/conf/conf.go",
			"		newPtr := reflect.New(rv.Elem().Type())\n		newPtr.Elem().Set(deepClone(rv.Elem()))\n		return newPtr", "		return rv", "C11.case_shape"},
	)
}

// opaque third-party/stdlib struct types with unexported fields that may be
// reached: re-allocated zeroed by deepClone, therefore not shared.
var c11opaque = map[string]string{
	"regexp.Regexp": "Path.Regexp: the clone gets a fresh zeroed Regexp (unexported fields are skipped), nothing is shared; it is rebuilt by Validate / overwritten before use",
}

func runC11(c *Ctx) {
	p := c.Main()
	if p == nil {
		return
	}
	c.Explain = "Type-graph walk from conf.Conf and conf.Path over all struct fields; per reachable type the kind must be one deepClone compares rv.Kind() with (pointer, struct, slice, map, interface; any spelling of the dispatch: one or several switches, if-chains, per-kind helpers) or be a value kind (bool, numbers, string, arrays of value kinds); func/chan/unsafe.Pointer, module structs with unexported fields and untabled opaque structs are violations. For each handled kind K, under the assumption rv.Kind() == K and rv.IsNil() == false, every feasible return of deepClone is a fresh reflect.New / MakeSlice / MakeMap container (or its Elem()), a deepClone result is stored into that container with Set / SetMapIndex, and rv itself is not returned. Clone methods must return the address of deepClone(reflect.ValueOf(receiver)); clone_method.whole: stores in a Clone method are whole-variable initialisations of locals only - a store into a field of the receiver copy (masking) needs a store of deepClone(reflect.ValueOf($0.F)) into the same field of the result, a store into a result field needs that shape too; MapUpdate, stores through non-local addresses and calls outside {reflect.ValueOf, conf.deepClone, reflect.Value.Interface/Elem/Addr, reflect.Indirect} are violations. Not decided: reflect's own behaviour; value equality of the copy (C08)."
	c.Assume = []string{"reflect behaves as documented", "values stored behind interface-typed conf fields are built from kinds in the same graph (reflect.StructOf over Path/Conf fields)"}

	pk := p.Pkg("internal/conf")
	fd, _ := p.FuncDecl("internal/conf", "", "deepClone")
	if pk == nil || fd == nil {
		c.Undecided("UNRESOLVED ANCHOR conf.deepClone")
		return
	}
	c.Analysed("internal/conf.deepClone")

	// ---- kinds handled by deepClone and the shape of each kind's copy: decided on
	// SSA under the assumption rv.Kind() == K (prop_gen_c11.go), independent of
	// how the kind dispatch is written (one switch, two switches, if-chain, helpers)
	dc := c.fn(p, "internal/conf", "", "deepClone")
	if dc == nil {
		return
	}
	handledKinds := c11CaseShapes(c, p, dc)
	handled := map[string]*bool{}
	yes := true
	for k, v := range handledKinds {
		if v {
			handled[k] = &yes
		}
	}

	// ---- type graph
	seen := map[string]bool{}
	nTypes := 0
	var walkT func(t types.Type, path string)
	report := func(t types.Type, path, kind string, ok bool, why string) {
		c.Check("C11.kind_handled", "type "+typeStr(t)+" ("+kind+") reachable from conf."+firstSeg(path), ok, "", "first reached at "+path+"; "+why)
	}
	walkT = func(t types.Type, path string) {
		key := typeStr(t)
		if seen[key] {
			return
		}
		seen[key] = true
		nTypes++
		named, _ := types.Unalias(t).(*types.Named)
		switch u := t.Underlying().(type) {
		case *types.Basic:
			if u.Kind() == types.UnsafePointer {
				report(t, path, "unsafe.Pointer", false, "shared by a clone")
				return
			}
			report(t, path, "value", true, "copied by value")
		case *types.Pointer:
			report(t, path, "pointer", handled["Pointer"] != nil, "needs deepClone case reflect.Pointer")
			walkT(u.Elem(), path+".*")
		case *types.Slice:
			report(t, path, "slice", handled["Slice"] != nil, "needs deepClone case reflect.Slice")
			walkT(u.Elem(), path+"[]")
		case *types.Map:
			report(t, path, "map", handled["Map"] != nil, "needs deepClone case reflect.Map")
			walkT(u.Key(), path+"[key]")
			walkT(u.Elem(), path+"[]")
		case *types.Array:
			// arrays are copied by value by the default case: fine only for value elements
			ok := isValueOnly(u.Elem(), map[types.Type]bool{})
			report(t, path, "array", ok || handled["Array"] != nil, "array elements holding references need a reflect.Array case")
			walkT(u.Elem(), path+"[i]")
		case *types.Interface:
			report(t, path, "interface", handled["Interface"] != nil, "an interface-typed field is shared with the original unless deepClone has a reflect.Interface case cloning rv.Elem()")
		case *types.Signature:
			report(t, path, "func", false, "function values are shared by a clone (no deep copy possible)")
		case *types.Chan:
			report(t, path, "chan", false, "channels are shared by a clone")
		case *types.Struct:
			inModule := named != nil && named.Obj().Pkg() != nil && strings.HasPrefix(named.Obj().Pkg().Path(), modPath)
			unexp := ""
			for i := 0; i < u.NumFields(); i++ {
				if !u.Field(i).Exported() {
					unexp = u.Field(i).Name()
					break
				}
			}
			switch {
			case unexp == "":
				report(t, path, "struct", handled["Struct"] != nil, "needs deepClone case reflect.Struct")
			case inModule || named == nil:
				report(t, path, "struct with unexported field "+unexp, false, "deepClone skips fields that are not settable: the clone silently loses "+unexp)
			default:
				why, ok := c11opaque[key]
				report(t, path, "opaque struct", ok, "opaque third-party struct (unexported fields are zeroed in the clone); accepted only from the table: "+why)
			}
			if unexp == "" || inModule {
				for i := 0; i < u.NumFields(); i++ {
					f := u.Field(i)
					if f.Exported() {
						walkT(f.Type(), path+"."+f.Name())
					}
				}
			}
		default:
			report(t, path, "unknown", false, "unrecognised type kind")
		}
	}
	for _, root := range []string{"Conf", "Path"} {
		nt := p.NamedType("internal/conf", root)
		if nt == nil {
			c.Undecided("UNRESOLVED ANCHOR conf." + root)
			continue
		}
		walkT(nt, root)
	}
	c.Floor("C11.types", nTypes, 30)

	// ---- Clone methods
	for _, recv := range []string{"Conf", "Path"} {
		fn := c.fn(p, "internal/conf", recv, "Clone")
		if fn == nil {
			continue
		}
		rets := returnsOf(fn)
		ok := len(rets) > 0
		got := ""
		for _, r := range rets {
			got = desc(r.Results[0])
			// &cloned where cloned := deepClone(reflect.ValueOf(recv)).Interface().(T)
			if !strings.HasPrefix(got, "(reflect.Value).Interface(conf.deepClone(reflect.ValueOf($0))).(") {
				ok = false
			}
		}
		c.Check("C11.clone_method", "conf."+recv+".Clone returns deepClone(reflect.ValueOf(receiver))", ok, p.Pos(fn.Pos()), "got "+got)
		// ... of the WHOLE, unmodified receiver, and nothing is attached to the result afterwards (prop_r3_c11.go)
		c11CloneOnlyDeepClone(c, p, recv, fn)
	}
	// every other Clone-like method on conf types reachable from Conf must not exist silently
	_ = ssa.Function{}
	_ = sort.Strings
}

func selIdent(e ast.Expr) *ast.Ident {
	switch x := unparen(e).(type) {
	case *ast.SelectorExpr:
		return x.Sel
	case *ast.Ident:
		return x
	}
	return nil
}

func firstSeg(path string) string {
	if i := strings.IndexAny(path, ".["); i > 0 {
		return path[:i]
	}
	return path
}

// isValueOnly: the type contains no pointers, slices, maps, chans, funcs,
// interfaces.
func isValueOnly(t types.Type, seen map[types.Type]bool) bool {
	if seen[t] {
		return true
	}
	seen[t] = true
	switch u := t.Underlying().(type) {
	case *types.Basic:
		return u.Kind() != types.UnsafePointer
	case *types.Array:
		return isValueOnly(u.Elem(), seen)
	case *types.Struct:
		for i := 0; i < u.NumFields(); i++ {
			if !isValueOnly(u.Field(i).Type(), seen) {
				return false
			}
		}
		return true
	}
	return false
}
