package main

import (
	"go/types"
	"reflect"
	"sort"
	"strings"

	"golang.org/x/tools/go/ssa"
)

// C02 - HTTP and JWT authentication admit only what the authority grants.
// Decides the shape of the two decision procedures, the POST body, the JWT
// parser wiring (token, claims object, key function, issuer/audience options),
// the token-source precedence and the claim decoding on all paths. Does not
// decide signature / expiry arithmetic inside golang-jwt and keyfunc.

const jwtPkg = "github.com/golang-jwt/jwt/v5"

func init() {
	register(Property{ID: "C02", Level: "other", Run: runC02,
		Technique: "static analysis: must-pass-through path conditions on the SSA control-flow graph of the HTTP/JWT authenticators, field coverage of the POST body, origin of the JWT parser arguments and options",
		Text:      "Decides on all paths of auth.(*Manager).authenticateHTTP / authenticateJWT / pullJWTJWKS / Authenticate, auth.getToken, auth.isHTTP and (*jwtClaims).UnmarshalJSON: an admitting return is reached only when the request is excluded or the POST succeeded with 200<=status<=299 (HTTP), respectively the JWKS were obtained, a token is present, jwt.ParseWithClaims succeeded on that token with the key function of the JWKS and the permission claim grants the request (JWT); a rejecting return follows a failed test; the POST body carries ip,user,password,token,action,path,protocol,query from the like-named request fields; issuer/audience options are installed whenever configured and no validation-weakening parser option is used; registered claims (exp, iss, aud) are decoded and their accessors not overridden; token precedence is token field, password, then query (token before jwt) with the query source guarded by RTSP/RTMP or (flag and HTTP-carried protocol); a missing permission claim is an error; Manager.jwksLastRefresh (which makes the cached key set count as the authority's for one period) is written only as the zero time, or by pullJWTJWKS with time.Now() at a point reached only through a successful GET, decode and NewJWKSetJSON. Not decided: signature verification, alg handling and exp arithmetic inside golang-jwt/keyfunc, url.ParseQuery.",
		Note:      "trusted: go/types+go/ssa construction; net/http, encoding/json, golang-jwt/jwt/v5 (validates exp/iss/aud of the decoded RegisteredClaims, rejects alg none without the unsafe key), MicahParks/keyfunc"})
	addMutants(
		Mutant{"C02", "status-widened-to-399", "internal/auth/manager.go",
			"res.StatusCode > 299", "res.StatusCode > 399", "C02.http.admit"},
		Mutant{"C02", "post-error-ignored", "internal/auth/manager.go",
			"	if err != nil {\n		return \"\", fmt.Errorf(\"HTTP request failed: %w\", err)\n	}\n	defer res.Body.Close()",
			"	if err != nil && res == nil {\n		return \"\", fmt.Errorf(\"HTTP request failed: %w\", err)\n	}\n	defer res.Body.Close()", "C02.http"},
		Mutant{"C02", "body-omits-token", "internal/auth/manager.go",
			"		Token:     token,\n", "", "C02.http.body"},
		Mutant{"C02", "body-password-from-user", "internal/auth/manager.go",
			"Password:  req.Credentials.Pass,", "Password:  req.Credentials.User,", "C02.http.body"},
		Mutant{"C02", "jwt-permission-claim-not-checked", "internal/auth/manager.go",
			"	if !matchesPermission(cc.permissions, req) {\n		return \"\", fmt.Errorf(\"user doesn't have permission to perform action\")\n	}\n", "", "C02.jwt"},
		Mutant{"C02", "jwt-permission-test-inverted-guard", "internal/auth/manager.go",
			"	if !matchesPermission(cc.permissions, req) {", "	if !matchesPermission(cc.permissions, req) && cc.Subject == \"\" {", "C02.jwt.admit"},
		Mutant{"C02", "jwt-issuer-not-installed", "internal/auth/manager.go",
			"	if m.JWTIssuer != \"\" {\n		opts = append(opts, jwt.WithIssuer(m.JWTIssuer))\n	}\n", "", "C02.jwt.issuer"},
		Mutant{"C02", "jwt-audience-checked-against-issuer", "internal/auth/manager.go",
			"jwt.WithAudience(m.JWTAudience)", "jwt.WithAudience(m.JWTIssuer)", "C02.jwt.audience"},
		Mutant{"C02", "jwt-claims-validation-disabled", "internal/auth/manager.go",
			"	var cc jwtClaims\n", "	opts = append(opts, jwt.WithoutClaimsValidation())\n	var cc jwtClaims\n", "C02.jwt.options"},
		Mutant{"C02", "jwt-unverified-keyfunc", "internal/auth/manager.go",
			"_, err = jwt.ParseWithClaims(token, &cc, keyfunc, opts...)",
			"_, err = jwt.ParseWithClaims(token, &cc, func(t *jwt.Token) (any, error) { _, _ = keyfunc(t); return jwt.UnsafeAllowNoneSignatureType, nil }, opts...)", "C02.jwt"},
		Mutant{"C02", "query-token-before-password", "internal/auth/manager.go",
			"	case req.Credentials.Pass != \"\":\n		return req.Credentials.Pass\n\n",
			"", "C02.get_token"},
		Mutant{"C02", "query-token-for-any-protocol", "internal/auth/manager.go",
			"	case req.Protocol == ProtocolRTSP || req.Protocol == ProtocolRTMP ||\n		(tokenInHTTPQuery && isHTTP(req)):",
			"	case req.Protocol == ProtocolRTSP || req.Protocol == ProtocolRTMP ||\n		tokenInHTTPQuery || isHTTP(req):", "C02.get_token.query_guard"},
		Mutant{"C02", "missing-claim-accepted", "internal/auth/jwt_claims.go",
			"	if !ok {\n		return fmt.Errorf(\"claim '%s' not found inside JWT\", c.permissionsKey)\n	}\n",
			"	if !ok && len(claimMap) == 0 {\n		return fmt.Errorf(\"claim '%s' not found inside JWT\", c.permissionsKey)\n	}\n", "C02.claims"},
		Mutant{"C02", "registered-claims-not-decoded", "internal/auth/jwt_claims.go",
			"	err := json.Unmarshal(b, &c.RegisteredClaims)\n	if err != nil {\n		return err\n	}\n\n	var claimMap map[string]json.RawMessage\n	err = json.Unmarshal(b, &claimMap)",
			"	var claimMap map[string]json.RawMessage\n	err := json.Unmarshal(b, &claimMap)", "C02.claims"},
		Mutant{"C02", "jwt-gets-empty-token", "internal/auth/manager.go",
			"user, err = m.authenticateJWT(req, token)", "user, err = m.authenticateJWT(req, req.Credentials.Token)", "C02.dispatch"},
		Mutant{"C02", "jwks-decode-error-ignored", "internal/auth/manager.go",
			"		tmp, err := keyfunc.NewJWKSetJSON(raw)\n		if err != nil {\n			return nil, err\n		}\n",
			"		tmp, _ := keyfunc.NewJWKSetJSON(raw)\n", "C02.jwks"},
		Mutant{"C02", "jwks-marked-fresh-before-download", "internal/auth/manager.go",
			"		tr := &http.Transport{\n			TLSClientConfig: tls.MakeConfig(m.JWTJWKSFingerprint),",
			"		m.jwksLastRefresh = now\n		tr := &http.Transport{\n			TLSClientConfig: tls.MakeConfig(m.JWTJWKSFingerprint),", "C02.jwks.fresh"},
		Mutant{"C02", "jwks-marked-fresh-on-get-failure", "internal/auth/manager.go",
			"		res, err := httpClient.Get(m.JWTJWKS)\n		if err != nil {\n			return nil, err",
			"		res, err := httpClient.Get(m.JWTJWKS)\n		if err != nil {\n			m.jwksLastRefresh = now\n			return nil, err", "C02.jwks.fresh"},
		Mutant{"C02", "jwks-marked-fresh-by-reload", "internal/auth/manager.go",
			"	m.jwksLastRefresh = time.Time{}\n", "	m.jwksLastRefresh = time.Now().Add(-jwksRefreshPeriod / 2)\n", "C02.jwks.fresh"},
	)
}

func litAny(alts ...LitPat) func(Lit) bool {
	return func(l Lit) bool {
		for _, a := range alts {
			if a.match(l) {
				return true
			}
		}
		return false
	}
}

func successRet(idx int) target { return retNil(idx) }

func errorRet(idx int) target {
	nn := retNotNil(idx)
	return func(i ssa.Instruction) bool {
		r, ok := i.(*ssa.Return)
		if !ok || r.Block().Comment == "recover" {
			return false
		}
		return nn(i)
	}
}

func runC02(c *Ctx) {
	p := c.Main()
	if p == nil {
		return
	}
	c.Explain = "E1 must-pass-through rules over auth.(*Manager).authenticateHTTP/authenticateJWT/pullJWTJWKS/Authenticate, auth.getToken, auth.isHTTP, (*auth.jwtClaims).UnmarshalJSON; E3 coverage of the POST body struct (fields, json tags, sources); E5 origin of the arguments and options of jwt.ParseWithClaims; type-level rule that jwtClaims does not override the registered-claims accessors; module-wide absence of jwt.UnsafeAllowNoneSignatureType; who-may-write Manager.jwtKeyFunc and Manager.jwksLastRefresh (a refresh time is recorded only after a successful download on every path). " +
		"Not decided: signature verification, alg selection and exp/nbf arithmetic in golang-jwt and keyfunc, url.ParseQuery, the HTTP client."
	c.Assume = []string{
		"golang-jwt/jwt/v5 ParseWithClaims verifies the signature with the supplied key function and validates exp/iss/aud of the claims object",
		"MicahParks/keyfunc returns only keys of the downloaded JWKS",
		"net/http Client.Post reports transport failures through its error result",
	}
	c.c02HTTP(p)
	c.c02JWT(p)
	c.c02JWKS(p)
	c.c02GetToken(p)
	c.c02Dispatch(p)
	c.c02Claims(p)
}

// ---------------- HTTP ----------------

func (c *Ctx) c02HTTP(p *Prog) {
	fn := c.fn(p, "internal/auth", "Manager", "authenticateHTTP")
	if fn == nil {
		return
	}
	post := uniqueCall(fn, "(*net/http.Client).Post")
	if post == nil {
		c.Undecided("UNRESOLVED ANCHOR single (*http.Client).Post call in authenticateHTTP")
		return
	}
	pv := post.(*ssa.Call)
	name := fnName(fn)
	excl := T("auth.matchesPermission($0.HTTPExclude, $1)")
	okErr := T(errNilAtom(pv, 1))
	st := desc(pv) + "#0.StatusCode"
	lo, hi := "("+st+" < 200)", "(299 < "+st+")"

	c.mustPassPred(p, fn, "C02.http.admit", name+": success ⇒ excluded ∨ POST error is nil", successRet(1), litAny(excl, okErr))
	c.mustPassPred(p, fn, "C02.http.admit", name+": success ⇒ excluded ∨ ¬(status < 200)", successRet(1), litAny(excl, F(lo)))
	c.mustPassPred(p, fn, "C02.http.admit", name+": success ⇒ excluded ∨ ¬(status > 299)", successRet(1), litAny(excl, F(hi)))
	c.mustPassPred(p, fn, "C02.http.reject", name+": error ⇒ not excluded", errorRet(1), litAny(F(excl.Atom)))
	c.mustPassPred(p, fn, "C02.http.reject", name+": error ⇒ POST failed ∨ status outside 200..299", errorRet(1), litAny(F(okErr.Atom), T(lo), T(hi)))

	// the request: POST to the configured address with the JSON body
	args := pv.Call.Args
	c.Check("C02.http.request", name+": POST url is Manager.HTTPAddress", len(args) == 4 && desc(args[1]) == "$0.HTTPAddress", p.Pos(pv.Pos()), "")
	var body *ssa.Alloc
	if len(args) == 4 {
		if rd := asCall(args[3]); rd != nil && isCallTo(rd, "bytes.NewReader") {
			if ex, ok := rd.Call.Args[0].(*ssa.Extract); ok && ex.Index == 0 {
				if mc, ok := ex.Tuple.(*ssa.Call); ok && isCallTo(mc, "encoding/json.Marshal") {
					if mi, ok := mc.Call.Args[0].(*ssa.MakeInterface); ok {
						if ld, ok := mi.X.(*ssa.UnOp); ok {
							body, _ = ld.X.(*ssa.Alloc)
						}
					}
				}
			}
		}
	}
	if !c.Check("C02.http.request", name+": POST body is json.Marshal of the request struct", body != nil, p.Pos(pv.Pos()), "") {
		return
	}
	want := []struct{ field, tag, src string }{
		{"IP", "ip", "(net.IP).String($1.IP)"},
		{"User", "user", "$1.Credentials.User"},
		{"Password", "password", "$1.Credentials.Pass"},
		{"Token", "token", "$2"},
		{"Action", "action", "$1.Action"},
		{"Path", "path", "$1.Path"},
		{"Protocol", "protocol", "$1.Protocol"},
		{"Query", "query", "$1.Query"},
	}
	stt, _ := body.Type().(*types.Pointer).Elem().Underlying().(*types.Struct)
	tags := map[string]string{}
	if stt != nil {
		for i := 0; i < stt.NumFields(); i++ {
			tags[stt.Field(i).Name()] = strings.Split(reflect.StructTag(stt.Tag(i)).Get("json"), ",")[0]
		}
	}
	stores := structFieldStores(body)
	seenTag := map[string]int{}
	for _, t := range tags {
		seenTag[t]++
	}
	for _, w := range want {
		got := ""
		if vs := stores[w.field]; len(vs) == 1 {
			got = desc(vs[0])
		}
		c.Check("C02.http.body", name+": body."+w.tag+" ← "+w.src, got == w.src && tags[w.field] == w.tag && seenTag[w.tag] == 1, p.Pos(body.Pos()),
			"field "+w.field+" json:"+tags[w.field]+" value "+got)
	}
}

// ---------------- JWT ----------------

// optLeaves collects the option-constructor calls that flow into the
// variadic options argument (through append / phi); unknown origins are
// returned as raw descriptions.
func optLeaves(v ssa.Value, calls map[*ssa.Call]bool, raw map[string]bool, seen map[ssa.Value]bool) {
	if v == nil || seen[v] {
		return
	}
	seen[v] = true
	switch x := v.(type) {
	case *ssa.Const:
		return
	case *ssa.Phi:
		for _, e := range x.Edges {
			optLeaves(e, calls, raw, seen)
		}
		return
	case *ssa.UnOp:
		if a, ok := x.X.(*ssa.Alloc); ok {
			for _, r := range *a.Referrers() {
				if st, ok := r.(*ssa.Store); ok && st.Addr == a {
					optLeaves(st.Val, calls, raw, seen)
				}
			}
			return
		}
	case *ssa.Slice:
		if _, ok := x.X.(*ssa.Alloc); ok {
			for _, e := range variadicElems(x) {
				optLeaves(e, calls, raw, seen)
			}
			return
		}
		optLeaves(x.X, calls, raw, seen)
		return
	case *ssa.Call:
		if b, ok := x.Call.Value.(*ssa.Builtin); ok && b.Name() == "append" {
			for _, a := range x.Call.Args {
				optLeaves(a, calls, raw, seen)
			}
			return
		}
		calls[x] = true
		return
	}
	raw[desc(v)] = true
}

func (c *Ctx) c02JWT(p *Prog) {
	fn := c.fn(p, "internal/auth", "Manager", "authenticateJWT")
	if fn == nil {
		return
	}
	name := fnName(fn)
	pullI := uniqueCall(fn, "(*auth.Manager).pullJWTJWKS")
	parseI := uniqueCall(fn, jwtPkg+".ParseWithClaims")
	if pullI == nil || parseI == nil {
		c.Undecided("UNRESOLVED ANCHOR pullJWTJWKS / jwt.ParseWithClaims call in authenticateJWT")
		return
	}
	pull, parse := pullI.(*ssa.Call), parseI.(*ssa.Call)
	pargs := parse.Call.Args
	var claims *ssa.Alloc
	if len(pargs) >= 2 {
		if mi, ok := pargs[1].(*ssa.MakeInterface); ok {
			claims, _ = mi.X.(*ssa.Alloc)
		} else {
			claims, _ = pargs[1].(*ssa.Alloc)
		}
	}
	okClaims := claims != nil && typeStr(claims.Type()) == "*auth.jwtClaims"
	c.Check("C02.jwt.parse_binding", name+": ParseWithClaims parses the supplied token", len(pargs) == 4 && isParam(pargs[0], 2), p.Pos(parse.Pos()), desc(parse))
	c.Check("C02.jwt.parse_binding", name+": ParseWithClaims decodes into a local jwtClaims", okClaims, p.Pos(parse.Pos()), "")
	kfOK := false
	if len(pargs) == 4 {
		if ex, ok := deref(pargs[2]).(*ssa.Extract); ok && ex.Tuple == ssa.Value(pull) && ex.Index == 0 {
			kfOK = true
		}
	}
	c.Check("C02.jwt.keyfunc", name+": ParseWithClaims key function is the result of pullJWTJWKS", kfOK, p.Pos(parse.Pos()), func() string {
		if len(pargs) == 4 {
			return desc(pargs[2])
		}
		return ""
	}())
	if !okClaims || len(pargs) != 4 {
		return
	}
	// permission test on the same claims object
	var permCall *ssa.Call
	for _, ci := range callsIn(fn, "auth.matchesPermission") {
		cc := ci.(*ssa.Call)
		if ld, ok := cc.Call.Args[0].(*ssa.UnOp); ok {
			if fa, ok := ld.X.(*ssa.FieldAddr); ok && fa.X == ssa.Value(claims) && fieldAddrIs(fa, "", "permissions") && isParam(cc.Call.Args[1], 1) {
				permCall = cc
			}
		}
	}
	if !c.Check("C02.jwt.parse_binding", name+": matchesPermission is applied to the permissions of the parsed claims and the request", permCall != nil, p.Pos(fn.Pos()), "") {
		return
	}
	keyStores := structFieldStores(claims)["permissionsKey"]
	c.Check("C02.jwt.parse_binding", name+": claims.permissionsKey ← Manager.JWTClaimKey", len(keyStores) == 1 && desc(keyStores[0]) == "$0.JWTClaimKey", p.Pos(claims.Pos()), "")

	excl := T("auth.matchesPermission($0.JWTExclude, $1)")
	pullOK := T(errNilAtom(pull, 1))
	tokEmpty := `($2 == "")`
	parseOK := T(errNilAtom(parse, 1))
	permOK := T(desc(permCall))
	c.mustPassPred(p, fn, "C02.jwt.admit", name+": success ⇒ excluded ∨ JWKS obtained", successRet(1), litAny(excl, pullOK))
	c.mustPassPred(p, fn, "C02.jwt.admit", name+": success ⇒ excluded ∨ token not empty", successRet(1), litAny(excl, F(tokEmpty)))
	c.mustPassPred(p, fn, "C02.jwt.admit", name+": success ⇒ excluded ∨ ParseWithClaims error is nil", successRet(1), litAny(excl, parseOK))
	c.mustPassPred(p, fn, "C02.jwt.admit", name+": success ⇒ excluded ∨ permission claim grants the request", successRet(1), litAny(excl, permOK))
	c.mustPassPred(p, fn, "C02.jwt.reject", name+": error ⇒ not excluded", errorRet(1), litAny(F(excl.Atom)))
	c.mustPassPred(p, fn, "C02.jwt.reject", name+": error ⇒ a verification step failed", errorRet(1),
		litAny(F(pullOK.Atom), T(tokEmpty), F(parseOK.Atom), F(permOK.Atom)))

	// options
	calls, raw := map[*ssa.Call]bool{}, map[string]bool{}
	optLeaves(pargs[3], calls, raw, map[ssa.Value]bool{})
	weakening := map[string]bool{jwtPkg + ".WithoutClaimsValidation": true, jwtPkg + ".WithTimeFunc": true}
	var bad []string
	for r := range raw {
		bad = append(bad, "unknown origin "+r)
	}
	var issuer, audience *ssa.Call
	for cl := range calls {
		n := calleeName(&cl.Call)
		switch {
		case weakening[n]:
			bad = append(bad, n)
		case !strings.HasPrefix(n, jwtPkg+".With"):
			bad = append(bad, "not a jwt option constructor: "+n)
		case n == jwtPkg+".WithIssuer":
			issuer = cl
		case n == jwtPkg+".WithAudience":
			audience = cl
		}
	}
	sort.Strings(bad)
	c.Check("C02.jwt.options", name+": parser options are jwt option constructors, none weakens claims validation", len(bad) == 0, p.Pos(parse.Pos()), joinS(bad))

	optArg := func(cl *ssa.Call) string {
		if cl == nil || len(cl.Call.Args) != 1 {
			return ""
		}
		if es := variadicElems(cl.Call.Args[0]); len(es) == 1 {
			return desc(es[0])
		}
		return desc(cl.Call.Args[0])
	}
	for _, o := range []struct {
		rule, what, field string
		call              *ssa.Call
	}{{"C02.jwt.issuer", "WithIssuer", "$0.JWTIssuer", issuer}, {"C02.jwt.audience", "WithAudience", "$0.JWTAudience", audience}} {
		ok := o.call != nil && optArg(o.call) == o.field
		c.Check(o.rule, name+": jwt."+o.what+"("+o.field+") flows into the parser options", ok, p.Pos(parse.Pos()), "got "+optArg(o.call))
		if !ok {
			continue
		}
		oc := o.call
		emptyAtom := "(" + o.field + ` == "")`
		w := (&Walker{
			Visit: func(i ssa.Instruction) int {
				if i == ssa.Instruction(oc) {
					return wStop
				}
				if i == ssa.Instruction(parse) {
					return wHit
				}
				return wContinue
			},
			Edge: func(l Lit) bool { return !(l.Pos && atomMatch(emptyAtom, l.Atom)) },
		}).Run(entry(fn))
		c.Check(o.rule, name+": whenever "+o.field+` != "" the `+o.what+" option is installed before parsing", w == nil, p.Pos(parse.Pos()), w.String(p))
	}
}

// ---------------- JWKS ----------------

func (c *Ctx) c02JWKS(p *Prog) {
	fn := c.fn(p, "internal/auth", "Manager", "pullJWTJWKS")
	if fn == nil {
		return
	}
	name := fnName(fn)
	getI := uniqueCall(fn, "(*net/http.Client).Get")
	decI := uniqueCall(fn, "(*encoding/json.Decoder).Decode")
	njI := uniqueCall(fn, "github.com/MicahParks/keyfunc/v3.NewJWKSetJSON")
	if getI == nil || decI == nil || njI == nil {
		c.Undecided("UNRESOLVED ANCHOR Get / Decode / NewJWKSetJSON call in pullJWTJWKS")
		return
	}
	get, dec, nj := getI.(*ssa.Call), decI.(*ssa.Call), njI.(*ssa.Call)
	c.Check("C02.jwks.source", name+": JWKS are fetched from Manager.JWTJWKS", len(get.Call.Args) == 2 && desc(get.Call.Args[1]) == "$0.JWTJWKS", p.Pos(get.Pos()), "")
	// decoder reads the response body of that GET; NewJWKSetJSON gets what was decoded
	flowOK := false
	if nd := asCall(dec.Call.Args[0]); nd != nil && isCallTo(nd, "encoding/json.NewDecoder") {
		if mi, ok := nd.Call.Args[0].(*ssa.MakeInterface); ok {
			if lr, ok := mi.X.(*ssa.Alloc); ok {
				if vs := structFieldStores(lr)["r"]; len(vs) == 1 && desc(vs[0]) == desc(get)+"#0.Body" {
					flowOK = true
				}
			}
		}
	}
	var rawAlloc ssa.Value
	if mi, ok := dec.Call.Args[1].(*ssa.MakeInterface); ok {
		rawAlloc = mi.X
	}
	if ld, ok := nj.Call.Args[0].(*ssa.UnOp); !ok || rawAlloc == nil || ld.X != rawAlloc {
		flowOK = false
	}
	c.Check("C02.jwks.source", name+": key set is built from the decoded body of that response", flowOK, p.Pos(nj.Pos()), "")

	cached := func(l Lit) bool {
		return l.Pos && strings.HasPrefix(l.Atom, "((time.Time).Sub(") && strings.Contains(l.Atom, "$0.jwksLastRefresh") && strings.Contains(l.Atom, " < ")
	}
	for _, st := range []struct {
		what string
		atom string
	}{{"GET error is nil", errNilAtom(get, 1)}, {"body decoded", "(" + desc(dec) + " == nil)"}, {"NewJWKSetJSON error is nil", errNilAtom(nj, 1)}} {
		a := T(st.atom)
		// decided per feasible path (prop_gen_c44.go): when the download sits in
		// a new helper returning (keyset, error), pullJWTJWKS's own `err != nil`
		// is a test of the error that helper returned on the path taken - the
		// GET error, the decode error or NewJWKSetJSON's - also when the helper
		// has defers (results spilled through slots)
		c.mustPassPredG4(p, fn, "C02.jwks.refresh", name+": success ⇒ cached key set still fresh ∨ "+st.what, successRet(1),
			func(l Lit) bool { return cached(l) || a.match(l) })
	}
	// the returned key function is the Keyfunc method of Manager.jwtKeyFunc
	for _, r := range returnsOf(fn) {
		if !retNil(1)(r) {
			continue
		}
		ok := false
		if mc, isMC := deref(retVal(r, 0)).(*ssa.MakeClosure); isMC && len(mc.Bindings) == 1 {
			f := mc.Fn.(*ssa.Function)
			ok = desc(mc.Bindings[0]) == "$0.jwtKeyFunc" && strings.HasPrefix(f.Name(), "Keyfunc")
		}
		c.Check("C02.jwks.keyfunc", name+": returns the Keyfunc method value of Manager.jwtKeyFunc", ok, p.Pos(posOf(r, fn)), desc(retVal(r, 0)))
	}
	// who may write Manager.jwtKeyFunc
	n := 0
	for _, f := range p.ModFuncs() {
		for _, st := range fieldStores(f, "auth.Manager", "jwtKeyFunc") {
			n++
			ok := f == fn && desc(st.Val) == desc(nj)+"#0"
			if f == fn && !ok {
				// the stored value on every feasible path that executes the store:
				// result #0 of that NewJWKSetJSON call (handed back by a new helper,
				// possibly through the result slots of a function with defers)
				if vals, decided := valuesAtG4(fn, st, st.Val); decided && len(vals) > 0 {
					ok = true
					for _, v := range vals {
						ex, isEx := v.v.(*ssa.Extract)
						ok = ok && isEx && ex.Index == 0 && ex.Tuple == ssa.Value(nj)
					}
				}
			}
			c.Check("C02.jwks.keyfunc", "store to Manager.jwtKeyFunc in "+fnName(f)+" is the freshly downloaded key set", ok, p.Pos(st.Pos()), desc(st.Val))
		}
	}
	c.Floor("C02.jwks.keyfunc.stores", n, 1)
	// who may write Manager.jwksLastRefresh: the refresh time decides for one
	// period that the cached key set IS the authority's key set. It may be
	// reset to the zero time anywhere (forces a download); any other value
	// marks the cache fresh and is therefore legitimate only at a point that
	// every path reaches through a successful download, decode and parse -
	// otherwise a failed refresh (after a key rotation) leaves the withdrawn
	// keys in force for a whole period.
	nFresh := 0
	for _, f := range p.ModFuncs() {
		for _, st := range fieldStores(f, "auth.Manager", "jwksLastRefresh") {
			d := desc(st.Val)
			if cst, isC := st.Val.(*ssa.Const); isC && cst.Value == nil {
				c.Check("C02.jwks.fresh", "store of the zero time to Manager.jwksLastRefresh in "+fnName(f)+" (forces a download)", true, p.Pos(st.Pos()), d)
				continue
			}
			nFresh++
			site := "store of a refresh time to Manager.jwksLastRefresh in " + fnName(f)
			if !c.Check("C02.jwks.fresh", site+" is made by pullJWTJWKS", f == fn, p.Pos(st.Pos()), "only the function that downloads the key set may declare it fresh") {
				continue
			}
			c.Check("C02.jwks.fresh", site+" records the current time", d == "time.Now()", p.Pos(st.Pos()), "got "+d+"; a later time keeps a key set in force beyond the refresh period")
			sto := st
			tgt := func(i ssa.Instruction) bool { return i == ssa.Instruction(sto) }
			for _, s := range []struct{ what, atom string }{
				{"GET error is nil", errNilAtom(get, 1)},
				{"body decoded", "(" + desc(dec) + " == nil)"},
				{"NewJWKSetJSON error is nil", errNilAtom(nj, 1)},
			} {
				c.mustPassPredG4(p, fn, "C02.jwks.fresh", site+" ⇒ "+s.what, tgt, litAny(T(s.atom)))
			}
		}
	}
	c.Floor("C02.jwks.fresh.stores", nFresh, 1)
	// alg none requires this constant as key; nothing in the module may mention it
	uses := 0
	var where string
	for _, pk := range p.Pkgs {
		for id, o := range pk.TypesInfo.Uses {
			if o.Name() == "UnsafeAllowNoneSignatureType" && o.Pkg() != nil && o.Pkg().Path() == jwtPkg {
				uses++
				where = p.Pos(id.Pos())
			}
		}
	}
	c.Check("C02.jwt.none", "module never references jwt.UnsafeAllowNoneSignatureType", uses == 0, where, "")
}

// ---------------- getToken / isHTTP ----------------

func (c *Ctx) c02GetToken(p *Prog) {
	fn := c.fn(p, "internal/auth", "", "getToken")
	if fn == nil {
		return
	}
	name := fnName(fn)
	const (
		tokE   = `($1.Credentials.Token == "")`
		passE  = `($1.Credentials.Pass == "")`
		q      = "net/url.ParseQuery($1.Query)"
		qOK    = "(" + q + "#1 == nil)"
		qTok   = q + `#0["token"]`
		qJWT   = q + `#0["jwt"]`
		oneTok = "(len(" + qTok + ") == 1)"
		oneJWT = "(len(" + qJWT + ") == 1)"
	)
	ret := func(d string) target {
		return func(i ssa.Instruction) bool {
			r, ok := i.(*ssa.Return)
			return ok && len(r.Results) == 1 && desc(r.Results[0]) == d
		}
	}
	rTok, rPass, rQT, rQJ := ret("$1.Credentials.Token"), ret("$1.Credentials.Pass"), ret(qTok+"[0]"), ret(qJWT+"[0]")
	allowed := map[string]bool{"$1.Credentials.Token": true, "$1.Credentials.Pass": true, qTok + "[0]": true, qJWT + "[0]": true, `""`: true}
	seen := map[string]bool{}
	for _, d := range retDescs(fn, 0) {
		seen[d] = true
		c.Check("C02.get_token.sources", name+": returns "+d, allowed[d], p.Pos(fn.Pos()), "token sources are the token field, the password, the token/jwt query parameters")
	}
	for d := range allowed {
		c.Check("C02.get_token.sources", name+": source present "+d, seen[d], p.Pos(fn.Pos()), "")
	}
	if !(seen["$1.Credentials.Token"] && seen["$1.Credentials.Pass"] && seen[qTok+"[0]"] && seen[qJWT+"[0]"]) {
		return
	}
	c.MustPass(p, fn, "C02.get_token.order", "return token field", rTok, F(tokE))
	c.MustPass(p, fn, "C02.get_token.order", "return password", rPass, T(tokE))
	c.MustPass(p, fn, "C02.get_token.order", "return password", rPass, F(passE))
	for _, r := range []struct {
		what string
		t    target
	}{{"return query token", rQT}, {"return query jwt", rQJ}} {
		c.MustPass(p, fn, "C02.get_token.order", r.what, r.t, T(tokE))
		c.MustPass(p, fn, "C02.get_token.order", r.what, r.t, T(passE))
		c.MustPass(p, fn, "C02.get_token.query_guard", r.what, r.t, T(`($1.Protocol == "rtsp")`), T(`($1.Protocol == "rtmp")`), T("$0"))
		c.MustPass(p, fn, "C02.get_token.query_guard", r.what, r.t, T(`($1.Protocol == "rtsp")`), T(`($1.Protocol == "rtmp")`), T("auth.isHTTP($1)"))
		c.MustPass(p, fn, "C02.get_token.query_parse", r.what, r.t, T(qOK))
	}
	c.MustPass(p, fn, "C02.get_token.order", "return query token", rQT, T(oneTok))
	c.MustPass(p, fn, "C02.get_token.order", "return query jwt", rQJ, T(oneJWT))
	c.MustPass(p, fn, "C02.get_token.order", "return query jwt", rQJ, F(oneTok))

	// isHTTP compares only HTTP-carried protocols / actions
	ih := c.fn(p, "internal/auth", "", "isHTTP")
	if ih == nil {
		return
	}
	httpCarried := map[string]bool{"hls": true, "webrtc": true, "playback": true, "api": true, "metrics": true, "pprof": true}
	n := 0
	eachInstr(ih, func(i ssa.Instruction) {
		b, ok := i.(*ssa.BinOp)
		if !ok {
			return
		}
		n++
		s, isC := constString(b.Y)
		l := desc(b.X)
		c.Check("C02.get_token.is_http", fnName(ih)+": compares "+l+" with "+desc(b.Y), isC && httpCarried[s] && (l == "$0.Protocol" || l == "$0.Action") && b.Op.String() == "==", p.Pos(b.Pos()),
			"isHTTP may be true only for protocols/actions served over HTTP (hls, webrtc, playback, api, metrics, pprof)")
	})
	c.Floor("C02.get_token.is_http", n, 2)
	for _, d := range retDescs(ih, 0) {
		okd := strings.HasPrefix(d, "phi(") || strings.HasPrefix(d, "(") || d == "true" || d == "false"
		c.Check("C02.get_token.is_http", fnName(ih)+": result is the disjunction of the comparisons", okd && !strings.Contains(d, "!"), p.Pos(ih.Pos()), d)
	}
}

// ---------------- Authenticate dispatch ----------------

func (c *Ctx) c02Dispatch(p *Prog) {
	fn := c.fn(p, "internal/auth", "Manager", "Authenticate")
	if fn == nil {
		return
	}
	name := fnName(fn)
	gtI := uniqueCall(fn, "auth.getToken")
	if gtI == nil {
		c.Undecided("UNRESOLVED ANCHOR single getToken call in Manager.Authenticate")
		return
	}
	gt := gtI.(*ssa.Call)
	c.Check("C02.dispatch.token", name+": getToken is applied to the request", len(gt.Call.Args) == 2 && isParam(gt.Call.Args[1], 1), p.Pos(gt.Pos()), "")
	// flag: false or the configured *JWTInHTTPQuery
	flagOK, sawConf := true, false
	var leaves func(v ssa.Value, seen map[ssa.Value]bool)
	leaves = func(v ssa.Value, seen map[ssa.Value]bool) {
		if seen[v] {
			return
		}
		seen[v] = true
		if ph, ok := v.(*ssa.Phi); ok {
			for _, e := range ph.Edges {
				leaves(e, seen)
			}
			return
		}
		if b, isC := constBool(v); isC {
			if b {
				flagOK = false
			}
			return
		}
		if desc(v) == "$0.JWTInHTTPQuery" {
			if _, isLoad := v.(*ssa.UnOp); isLoad {
				sawConf = true
				return
			}
		}
		flagOK = false
	}
	leaves(gt.Call.Args[0], map[ssa.Value]bool{})
	c.Check("C02.dispatch.token", name+": query tokens on HTTP protocols are enabled only by Manager.JWTInHTTPQuery", flagOK && sawConf, p.Pos(gt.Pos()), desc(gt.Call.Args[0]))

	for _, m := range []struct{ method, callee string }{{"http", "(*auth.Manager).authenticateHTTP"}, {"jwt", "(*auth.Manager).authenticateJWT"}} {
		ci := uniqueCall(fn, m.callee)
		if ci == nil {
			c.Undecided("UNRESOLVED ANCHOR single call of " + m.callee + " in Manager.Authenticate")
			continue
		}
		cc := ci.(*ssa.Call)
		// the token argument is getToken's result (or "" when getToken was skipped)
		ok := len(cc.Call.Args) == 3 && isParam(cc.Call.Args[1], 1)
		if ok {
			switch x := cc.Call.Args[2].(type) {
			case *ssa.Phi:
				for _, e := range x.Edges {
					if e == ssa.Value(gt) {
						continue
					}
					if s, isC := constString(e); !isC || s != "" {
						ok = false
					}
				}
			default:
				ok = x == ssa.Value(gt)
			}
		}
		c.Check("C02.dispatch.token", name+": "+m.callee+" receives the request and getToken's result", ok, p.Pos(cc.Pos()), desc(cc))
		// with Method == m.method, getToken has run before the authenticator
		methodAtom := `($0.Method == "` + m.method + `")`
		w := (&Walker{
			Visit: func(i ssa.Instruction) int {
				if i == ssa.Instruction(gt) {
					return wStop
				}
				if i == ci {
					return wHit
				}
				return wContinue
			},
			Edge: func(l Lit) bool { return !(!l.Pos && atomMatch(methodAtom, l.Atom)) },
		}).Run(entry(fn))
		c.Check("C02.dispatch.token", name+": with Method == "+m.method+" the token is extracted before "+m.callee, w == nil, p.Pos(cc.Pos()), w.String(p))
	}
	c.MustPass(p, fn, "C02.dispatch.method", "call authenticateHTTP", callTo("(*auth.Manager).authenticateHTTP"), T(`($0.Method == "http")`))
	c.MustPass(p, fn, "C02.dispatch.method", "call authenticateJWT", callTo("(*auth.Manager).authenticateJWT"), F(`($0.Method == "http")`))
	c.MustPass(p, fn, "C02.dispatch.method", "call authenticateJWT", callTo("(*auth.Manager).authenticateJWT"), F(`($0.Method == "internal")`))
	c.MustPass(p, fn, "C02.dispatch.success", "return nil error", retNil(1),
		T("*(*auth.Manager).authenticateHTTP($0, $1, *"))
}

// ---------------- claims ----------------

func (c *Ctx) c02Claims(p *Prog) {
	fn := c.fn(p, "internal/auth", "jwtClaims", "UnmarshalJSON")
	if fn == nil {
		return
	}
	name := fnName(fn)
	var lookup *ssa.Lookup
	eachInstr(fn, func(i ssa.Instruction) {
		if lk, ok := i.(*ssa.Lookup); ok && lk.CommaOk && desc(lk.Index) == "$0.permissionsKey" {
			lookup = lk
		}
	})
	if !c.Check("C02.claims.lookup", name+": the claim is looked up under jwtClaims.permissionsKey with presence test", lookup != nil, p.Pos(fn.Pos()), "") {
		return
	}
	ok0 := retNil(0)
	c.mustPassPred(p, fn, "C02.claims.missing_is_error", name+": success ⇒ claim key present", ok0, litAny(T(desc(lookup)+"#1")))
	c.mustPassPred(p, fn, "C02.claims.registered", name+": success ⇒ registered claims (exp, iss, aud, ...) decoded from the same bytes", ok0,
		litAny(T("(encoding/json.Unmarshal($1, $0.RegisteredClaims) == nil)")))
	// the map the claim is looked up in was decoded from the same bytes
	var mapAlloc ssa.Value
	if ld, ok := lookup.X.(*ssa.UnOp); ok {
		mapAlloc = ld.X
	}
	mapOK := false
	for _, ci := range callsIn(fn, "encoding/json.Unmarshal") {
		cc := ci.(*ssa.Call)
		if isParam(cc.Call.Args[0], 1) {
			if mi, ok := cc.Call.Args[1].(*ssa.MakeInterface); ok && mapAlloc != nil && mi.X == mapAlloc {
				mapOK = true
				c.mustPassPred(p, fn, "C02.claims.lookup", name+": success ⇒ claim map decoded from the token payload", ok0, litAny(T("("+desc(cc)+" == nil)")))
			}
		}
	}
	c.Check("C02.claims.lookup", name+": claim map is json.Unmarshal of the payload bytes", mapOK, p.Pos(lookup.Pos()), "")
	// permissions decoded from the claim (directly or from its string form)
	rawDesc := desc(lookup) + "#0"
	nPerm := 0
	for _, ci := range callsIn(fn, "conf/jsonwrapper.Unmarshal") {
		cc := ci.(*ssa.Call)
		nPerm++
		src := deref(cc.Call.Args[0])
		ok := desc(cc.Call.Args[0]) == rawDesc
		if !ok {
			// []byte(str) where str was filled by json.Unmarshal(raw, &str)
			var strAlloc ssa.Value
			if ld, isLd := src.(*ssa.UnOp); isLd {
				strAlloc = ld.X
			}
			for _, ui := range callsIn(fn, "encoding/json.Unmarshal") {
				uc := ui.(*ssa.Call)
				if mi, isMI := uc.Call.Args[1].(*ssa.MakeInterface); isMI && strAlloc != nil && mi.X == strAlloc && desc(uc.Call.Args[0]) == rawDesc {
					ok = true
				}
			}
		}
		dst := len(cc.Call.Args) == 2 && desc(cc.Call.Args[1]) == "$0.permissions"
		c.Check("C02.claims.permissions", name+": permissions decoded from the claim value ("+itoa(nPerm)+")", ok && dst, p.Pos(cc.Pos()), desc(cc))
	}
	c.Floor("C02.claims.permissions", nPerm, 1)
	c.mustPassPred(p, fn, "C02.claims.permissions", name+": success ⇒ permissions decoded without error", ok0, func(l Lit) bool {
		return l.Pos && strings.HasPrefix(l.Atom, "(conf/jsonwrapper.Unmarshal(") && strings.HasSuffix(l.Atom, ", $0.permissions) == nil)")
	})
	// accessors of the registered claims are the library's (not overridden)
	nt := p.NamedType("internal/auth", "jwtClaims")
	if nt == nil {
		c.Undecided("UNRESOLVED ANCHOR type auth.jwtClaims")
		return
	}
	for _, m := range []string{"GetExpirationTime", "GetNotBefore", "GetIssuedAt", "GetIssuer", "GetAudience", "GetSubject"} {
		obj, _, _ := types.LookupFieldOrMethod(types.NewPointer(nt), true, nt.Obj().Pkg(), m)
		ok := obj != nil && obj.Pkg() != nil && obj.Pkg().Path() == jwtPkg
		c.Check("C02.claims.accessors", "auth.jwtClaims."+m+" is the promoted jwt.RegisteredClaims method", ok, p.Pos(nt.Obj().Pos()), "")
	}
}
