package main

import (
	"encoding/json"
	"strings"
	"time"

	"golang.org/x/tools/go/ssa"
)

// C37 - structured log lines are valid JSON.

func init() {
	register(Property{ID: "C37", Level: "other", Run: runC37,
		Technique: "static analysis: enumeration of the write sequences of the structured branch of destinationStdout.log / destinationFile.log on the SSA CFG, static evaluation of the constant skeleton as JSON, sanitizer classification of the message value, sibling agreement",
		Text:      "Decides for both destinations and every path through the structured branch: the constant pieces written around the three values form, with placeholders, one JSON object with timestamp/level/message members followed by exactly one '\\n' written last; the timestamp is t.Format(time.RFC3339Nano) of the record's time; the level is written by writeLevel without colour, whose colourless outputs are four distinct JSON-safe constants; the message is fmt.Sprintf(format, args...) passed through a JSON string encoder (encoding/json.Marshal) — strconv.Quote and %q are Go syntax, not JSON; the buffer is reset before and written to the sink exactly once after; both destinations agree; every destination.log call (Logger.Log) hands on the record's own (format, args) parameters unchanged on every path - or a verbatim %s of fmt.Sprintf(format, args...) - and the record's level, so the text is formatted exactly once (an already formatted text passed as the format is formatted twice: '%' from arguments is re-interpreted); Logger.Initialize passes Logger.Structured to both constructors. Not decided: the syslog destination (it has no structured mode), time.Format / encoding/json internals. Calls of new helpers in the structured arm are unfolded per call site (every acyclic path of the helper, parameters bound to the arguments), so the record is the ordered list of writes that reach the buffer wherever they are spelled; a helper that cannot be unfolded (loop, defer, panic exit) and is handed the buffer counts as an unclassified write.",
		Note:      "trusted: go/types+go/ssa; time.Time.Format(RFC3339Nano) yields a JSON-safe string; encoding/json.Marshal of a string yields a JSON string with invalid UTF-8 replaced by U+FFFD"})
	addMutants(
		Mutant{"C37", "stdout-level-quote-dropped", "internal/logger/destination_stdout.go",
			"d.buf.WriteString(`\",\"level\":\"`)", "d.buf.WriteString(`\",\"level\":`)", "C37.object"},
		Mutant{"C37", "file-newline-dropped", "internal/logger/destination_file.go",
			"		d.buf.WriteString(`}`)\n		d.buf.WriteByte('\\n')\n", "		d.buf.WriteString(`}`)\n", "C37.one_line"},
		Mutant{"C37", "stdout-coloured-level", "internal/logger/destination_stdout.go",
			"writeLevel(&d.buf, level, false)", "writeLevel(&d.buf, level, d.useColor)", "C37.level"},
		Mutant{"C37", "file-lossy-timestamp", "internal/logger/destination_file.go",
			"t.Format(time.RFC3339Nano)", "t.Format(time.ANSIC)", "C37.timestamp"},
		Mutant{"C37", "stdout-message-not-formatted", "internal/logger/destination_stdout.go",
			"msg, _ := json.Marshal(fmt.Sprintf(format, args...))\n		d.buf.Write(msg)\n		d.buf.WriteString(`}`)\n		d.buf.WriteByte('\\n')\n	} else {", "msg, _ := json.Marshal(format)\n		d.buf.Write(msg)\n		d.buf.WriteString(`}`)\n		d.buf.WriteByte('\\n')\n	} else {", "C37.message.formatted"},
		Mutant{"C37", "file-buffer-not-reset", "internal/logger/destination_file.go",
			"	d.buf.Reset()\n", "", "C37.frame"},
		Mutant{"C37", "stdout-never-structured", "internal/logger/logger.go",
			"newDestionationStdout(l.Structured, l.stdout)", "newDestionationStdout(false, l.stdout)", "C37.wiring"},
		Mutant{"C37", "level-with-newline", "internal/logger/logger.go",
			"			buf.WriteString(\"WAR\")\n", "			buf.WriteString(\"WAR\\n\")\n", "C37.level"},
		Mutant{"C37", "file-structured-inverted", "internal/logger/destination_file.go",
			"	if d.structured {", "	if !d.structured {", "C37.object"},
		Mutant{"C37", "record-args-dropped", "internal/logger/logger.go",
			"dest.log(t, level, format, args...)", "dest.log(t, level, format)", "C37.record.message"},
		Mutant{"C37", "record-format-extended", "internal/logger/logger.go",
			"dest.log(t, level, format, args...)", "dest.log(t, level, format+\"\\n\", args...)", "C37.record.message"},
		Mutant{"C37", "record-level-replaced", "internal/logger/logger.go",
			"dest.log(t, level, format, args...)", "dest.log(t, l.Level, format, args...)", "C37.record.level"},
		Mutant{"C37", "stdout-trailing-text-after-object", "internal/logger/destination_stdout.go",
			"		d.buf.WriteString(`}`)\n		d.buf.WriteByte('\\n')\n", "		d.buf.WriteString(`}`)\n		d.buf.WriteByte('\\n')\n		d.buf.WriteString(format)\n", "C37.object"},
	)
}

type c37ev struct {
	kind string // const, time, level, msgjson, msgquote, other
	s    string
	call *ssa.Call
	// message events: what is encoded (described for the log method) and whether
	// it is fmt.Sprintf(format, args...) of the log method's own parameters
	msgDesc string
	fmtOK   bool
}

// c37Event classifies one instruction as a write into the destination's
// buffer. Operands are resolved through new helpers (c37Res) and compared by
// their description relative to the log method ($0 = d, $1 = t, $2 = level,
// $3 = format, $4 = args), so the instruction may sit in log itself or in a
// helper that is currently bound to its call (prop_gen_c37.go).
func (c *Ctx) c37Event(i ssa.Instruction) (c37ev, bool) {
	isBuf := func(v ssa.Value) bool { return desc(v) == "$0.buf" }
	cc, ok := i.(*ssa.Call)
	if !ok {
		return c37ev{}, false
	}
	touches, dest := false, false
	for _, a := range cc.Call.Args {
		if isBuf(a) || isBuf(deref(a)) {
			touches = true
		}
		if desc(a) == "$0" {
			dest = true
		}
	}
	n := calleeName(&cc.Call)
	if !touches {
		if dest {
			// the destination itself is handed to a function that was not unfolded: it can reach the buffer
			return c37ev{kind: "other", s: n, call: cc}, true
		}
		return c37ev{}, false
	}
	args := cc.Call.Args
	msgEvent := func(kind, s string, m ssa.Value) c37ev {
		m = c37Res(m)
		ev := c37ev{kind: kind, s: s, call: cc, msgDesc: desc(m)}
		if sp, ok := m.(*ssa.Call); ok && isCallTo(sp, "fmt.Sprintf") && len(sp.Call.Args) == 2 {
			ev.fmtOK = desc(sp.Call.Args[0]) == "$3" && desc(sp.Call.Args[1]) == "$4"
		}
		return ev
	}
	switch n {
	case "(*bytes.Buffer).WriteString", "(*bytes.Buffer).Write":
		x := c37Res(args[1])
		if s, ok := constString(x); ok {
			return c37ev{kind: "const", s: s, call: cc}, true
		}
		if tc, ok := x.(*ssa.Call); ok {
			switch calleeName(&tc.Call) {
			case "(time.Time).Format":
				lay, _ := constString(c37Res(tc.Call.Args[1]))
				ev := c37ev{kind: "time", s: lay, call: tc}
				if desc(tc.Call.Args[0]) != "$1" {
					ev.s = "!" + lay
				}
				return ev, true
			case "strconv.Quote", "strconv.QuoteToASCII", "strconv.QuoteToGraphic":
				return msgEvent("msgquote", calleeName(&tc.Call), tc.Call.Args[0]), true
			}
		}
		// json.Marshal(msg)#0, possibly converted to string
		if ex, ok := x.(*ssa.Extract); ok && ex.Index == 0 {
			if mc, ok := ex.Tuple.(*ssa.Call); ok && isCallTo(mc, "encoding/json.Marshal") {
				return msgEvent("msgjson", "", mc.Call.Args[0]), true
			}
		}
		return c37ev{kind: "other", s: desc(x), call: cc}, true
	case "(*bytes.Buffer).WriteByte", "(*bytes.Buffer).WriteRune":
		if b, ok := constInt(c37Res(args[1])); ok {
			return c37ev{kind: "const", s: string(rune(b)), call: cc}, true
		}
		return c37ev{kind: "other", s: desc(args[1]), call: cc}, true
	case "logger.writeLevel":
		s := ""
		if b, isC := constBool(c37Res(args[2])); !isC || b || desc(args[1]) != "$2" {
			s = "bad"
		}
		return c37ev{kind: "level", s: s, call: cc}, true
	case "(*bytes.Buffer).Bytes", "(*bytes.Buffer).String", "(*bytes.Buffer).Len":
		return c37ev{}, false // reads
	}
	return c37ev{kind: "other", s: n, call: cc}, true
}

func runC37(c *Ctx) {
	p := c.Main()
	if p == nil {
		return
	}
	c.Explain = "Per destination: locate the branch on d.structured, enumerate every acyclic path of the structured arm up to the sink block, turn each path into the ordered list of buffer writes (constants / time / level / message / other), and decide: JSON skeleton validity by evaluating the constants with placeholders (encoding/json in the checker, no /repo code is run), newline placement, timestamp layout and operand, level call, message encoder and operand; Reset-before / single sink write after; equality of the two destinations' skeletons; at each destination.log call site the format/args/level operands are the caller's parameters (C37.record); writeLevel's colourless constants; wiring of Logger.Structured."
	c.Assume = []string{
		"encoding/json.Marshal(string) is the JSON string encoder (invalid UTF-8 → U+FFFD)",
		"time.Format(RFC3339Nano) output needs no JSON escaping and round-trips the instant",
	}
	c37Serialized(c, p)
	c37Record(c, p)
	skeletons := map[string]string{}
	for _, d := range []string{"destinationStdout", "destinationFile"} {
		fn := c.fn(p, "internal/logger", d, "log")
		if fn == nil {
			continue
		}
		skeletons[d] = c.c37Dest(p, fn, d)
	}
	if len(skeletons) == 2 {
		c.Check("C37.siblings", "destinationStdout.log and destinationFile.log write the same structured record", skeletons["destinationStdout"] == skeletons["destinationFile"] && skeletons["destinationFile"] != "", "-",
			"stdout: "+skeletons["destinationStdout"]+" file: "+skeletons["destinationFile"])
	}
	c.c37Level(p)
	c.c37Wiring(p)
}

func (c *Ctx) c37Dest(p *Prog, fn *ssa.Function, d string) string {
	name := "logger." + d + ".log"
	// the structured branch
	var start *ssa.BasicBlock
	var ifBlock *ssa.BasicBlock
	eachInstr(fn, func(i ssa.Instruction) {
		ifi, ok := i.(*ssa.If)
		if !ok {
			return
		}
		l := litOf(ifi.Cond, true)
		if l.Atom != "$0.structured" {
			return
		}
		ifBlock = ifi.Block()
		if l.Pos {
			start = ifBlock.Succs[0]
		} else {
			start = ifBlock.Succs[1]
		}
	})
	if start == nil {
		c.Undecided("UNRESOLVED ANCHOR branch on structured in " + name)
		return ""
	}
	// the sink: X.Write(buf.Bytes())
	var sinks []*ssa.Call
	eachInstr(fn, func(i ssa.Instruction) {
		cc, ok := i.(*ssa.Call)
		if !ok {
			return
		}
		for _, a := range callCommon(cc).Args {
			if bc := asCall(a); bc != nil && isCallTo(bc, "(*bytes.Buffer).Bytes", "(*bytes.Buffer).String") && desc(bc.Call.Args[0]) == "$0.buf" {
				sinks = append(sinks, cc)
			}
		}
	})
	if !c.Check("C37.frame", name+": the buffer is handed to the sink exactly once", len(sinks) == 1, p.Pos(fn.Pos()), "") {
		return ""
	}
	sink := sinks[0]
	sd := desc(sink.Call.Value)
	if !sink.Call.IsInvoke() && len(sink.Call.Args) > 0 {
		sd = desc(sink.Call.Args[0])
	}
	c.Check("C37.frame", name+": the sink is the destination's writer", (sd == "$0.stdout" || sd == "$0.file") && strings.HasSuffix(calleeName(&sink.Call), ".Write"), p.Pos(sink.Pos()), calleeName(&sink.Call)+" on "+sd)
	// Reset before any write
	isWrite := func(i ssa.Instruction) bool {
		cc, ok := i.(*ssa.Call)
		if !ok || i == ssa.Instruction(sink) {
			return false
		}
		n := calleeName(&cc.Call)
		if n == "(*bytes.Buffer).Reset" || n == "(*bytes.Buffer).Bytes" || n == "(*bytes.Buffer).String" {
			return false
		}
		for _, a := range cc.Call.Args {
			if desc(a) == "$0.buf" {
				return true
			}
		}
		return false
	}
	w := reachAvoiding(entry(fn), isWrite, func(i ssa.Instruction) bool {
		cc, ok := i.(*ssa.Call)
		return ok && isCallTo(cc, "(*bytes.Buffer).Reset") && desc(cc.Call.Args[0]) == "$0.buf"
	})
	c.Check("C37.frame", name+": the buffer is reset before the record is written", w == nil, p.Pos(fn.Pos()), w.String(p))
	// nothing is appended between the structured arm and the sink
	for _, i := range sink.Block().Instrs {
		if i == ssa.Instruction(sink) {
			break
		}
		appended := isWrite(i)
		if !appended && newHelperCallee(i) != nil {
			// a new helper called here is unfolded: it appends iff one of its paths holds a buffer event
			alts, aok := c.c37EventAlts([]ssa.Instruction{i}, 64, 0)
			appended = !aok
			for _, a := range alts {
				appended = appended || len(a) > 0
			}
		}
		if appended {
			c.Check("C37.frame", name+": nothing is appended after the structured record", false, p.Pos(i.Pos()), i.String())
		}
	}

	paths, ok := regionPaths(start, sink.Block(), 64)
	if !ok || len(paths) == 0 {
		c.Undecided("structured branch of " + name + ": path enumeration failed (cap 64)")
		return ""
	}
	c.Count("structured_paths:"+d, len(paths))
	skel := ""
	// a call to a new helper stands for the helper's own paths (prop_gen_c37.go)
	var alts [][]c37ev
	for _, path := range paths {
		a, aok := c.c37EventAlts(path, 64, 0)
		if !aok {
			c.Undecided("structured branch of " + name + ": path enumeration through helpers failed (cap 64)")
			return ""
		}
		alts = append(alts, a...)
	}
	for _, evs := range alts {
		var sb strings.Builder
		var others []string
		nNL, lastNL := 0, false
		var msgEv, timeEv, levelEv *c37ev
		nMsg := 0
		for k := range evs {
			e := &evs[k]
			lastNL = false
			switch e.kind {
			case "const":
				sb.WriteString(e.s)
				nNL += strings.Count(e.s, "\n")
				lastNL = strings.HasSuffix(e.s, "\n")
			case "time":
				sb.WriteString("2006-01-02T15:04:05Z")
				timeEv = e
			case "level":
				sb.WriteString("INF")
				levelEv = e
			case "msgjson", "msgquote":
				sb.WriteString(`"m"`)
				msgEv = e
				nMsg++
			default:
				sb.WriteString("\x00")
				others = append(others, e.s)
			}
		}
		s := sb.String()
		skel = s
		pos := p.Pos(start.Instrs[0].Pos())
		// one line, newline last
		c.Check("C37.one_line", name+": exactly one '\\n', written last", nNL == 1 && lastNL, pos, "skeleton "+strq(s))
		// JSON object with the three members
		var m map[string]any
		body := strings.TrimSuffix(s, "\n")
		err := json.Unmarshal([]byte(body), &m)
		okObj := err == nil && len(others) == 0 && m["timestamp"] == "2006-01-02T15:04:05Z" && m["level"] == "INF" && m["message"] == "m" && nMsg == 1
		detail := "skeleton " + strq(s)
		if err != nil {
			detail += " : " + err.Error()
		}
		if len(others) > 0 {
			detail += " ; unclassified writes " + joinS(others)
		}
		c.Check("C37.object", name+": constants and values form one JSON object with timestamp, level, message", okObj, pos, detail)
		// timestamp
		c.Check("C37.timestamp", name+": timestamp is t.Format(time.RFC3339Nano) of the record's time", timeEv != nil && timeEv.s == time.RFC3339Nano, pos, func() string {
			if timeEv != nil {
				return "layout " + timeEv.s
			}
			return "no time.Format write"
		}())
		// level
		c.Check("C37.level.call", name+": level is written by writeLevel(buf, level, false)", levelEv != nil && levelEv.s == "", pos, "")
		// message
		if !c.Check("C37.message.present", name+": the message is written once", msgEv != nil && nMsg == 1, pos, "") {
			continue
		}
		c.Check("C37.message.formatted", name+": the message is fmt.Sprintf(format, args...)", msgEv.fmtOK, p.Pos(msgEv.call.Pos()), msgEv.msgDesc)
		c.Check("C37.message.encoded", name+": the message passes through a JSON string encoder", msgEv.kind == "msgjson", p.Pos(msgEv.call.Pos()),
			msgEv.s+" produces Go string syntax (\\x00, \\a, \\v, \\U0010ffff ...), which is not JSON: control characters and invalid UTF-8 in a message make the line undecodable")
	}
	return skel
}

func strq(s string) string {
	b, _ := json.Marshal(s)
	return string(b)
}

func (c *Ctx) c37Level(p *Prog) {
	fn := c.fn(p, "internal/logger", "", "writeLevel")
	if fn == nil {
		return
	}
	seen := map[string]int{}
	n := 0
	(&Walker{
		Visit: func(i ssa.Instruction) int {
			cc, ok := i.(*ssa.Call)
			if !ok {
				return wContinue
			}
			for k, a := range cc.Call.Args {
				if k == 0 || !isParam(cc.Call.Args[0], 0) {
					continue
				}
				n++
				s, isC := constString(a)
				safe := isC && s != ""
				for _, r := range s {
					if r < 0x20 || r == '"' || r == '\\' || r > 0x7e {
						safe = false
					}
				}
				seen[s]++
				c.Check("C37.level.constants", "logger.writeLevel: colourless output "+desc(a)+" is a JSON-safe constant", safe && calleeName(&cc.Call) == "(*bytes.Buffer).WriteString", p.Pos(cc.Pos()), "")
			}
			return wContinue
		},
		Edge: func(l Lit) bool { return !(l.Pos && l.Atom == "$2") },
	}).Run(entry(fn))
	c.Floor("C37.level.constants", n, 4)
	dup := false
	for _, k := range seen {
		if k > 1 {
			dup = true
		}
	}
	c.Check("C37.level.constants", "logger.writeLevel: the colourless outputs are pairwise distinct", !dup && len(seen) >= 4, p.Pos(fn.Pos()), "")
	// each output is selected by a test of the level parameter
	eachInstr(fn, func(i ssa.Instruction) {
		cc, ok := i.(*ssa.Call)
		if !ok || !isCallTo(cc, "(*bytes.Buffer).WriteString") || !isParam(cc.Call.Args[0], 0) {
			return
		}
		if _, isC := constString(cc.Call.Args[1]); !isC {
			return
		}
		lits := controlLits(cc.Block())
		ok = false
		for _, l := range lits {
			if l.Pos && strings.HasPrefix(l.Atom, "($1 == ") {
				ok = true
			}
		}
		c.Check("C37.level.constants", "logger.writeLevel: output "+desc(cc.Call.Args[1])+" is selected by the level", ok, p.Pos(cc.Pos()), "")
	})
}

func (c *Ctx) c37Wiring(p *Prog) {
	ini := c.fn(p, "internal/logger", "Logger", "Initialize")
	if ini != nil {
		for _, ctor := range []string{"logger.newDestionationStdout", "logger.newDestinationFile"} {
			ci := uniqueCall(ini, ctor)
			if ci == nil {
				c.Undecided("UNRESOLVED ANCHOR call of " + ctor + " in Logger.Initialize")
				continue
			}
			a := callCommon(ci).Args
			c.Check("C37.wiring", fnName(ini)+": "+ctor+" receives Logger.Structured", len(a) >= 1 && desc(a[0]) == "$0.Structured", p.Pos(ci.Pos()), desc(a[0]))
		}
	}
	for _, ct := range []struct{ fn, typ string }{{"newDestionationStdout", "logger.destinationStdout"}, {"newDestinationFile", "logger.destinationFile"}} {
		fn := c.fn(p, "internal/logger", "", ct.fn)
		if fn == nil {
			continue
		}
		n := 0
		for _, st := range fieldStores(fn, ct.typ, "structured") {
			n++
			c.Check("C37.wiring", "logger."+ct.fn+": structured ← first parameter", isParam(st.Val, 0), p.Pos(st.Pos()), desc(st.Val))
		}
		c.Check("C37.wiring", "logger."+ct.fn+": sets the structured field", n == 1, p.Pos(fn.Pos()), "")
	}
	// who else writes the structured fields
	for _, fn := range p.ModFuncs() {
		for _, typ := range []string{"logger.destinationStdout", "logger.destinationFile"} {
			for _, st := range fieldStores(fn, typ, "structured") {
				okf := fn.Name() == "newDestionationStdout" || fn.Name() == "newDestinationFile"
				if !okf {
					c.Check("C37.wiring", fnName(fn)+": writes "+typ+".structured", false, p.Pos(st.Pos()), "")
				}
			}
		}
	}
}
