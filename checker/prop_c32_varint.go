package main

import (
	"fmt"
	"go/token"
	"math/bits"
	"sort"

	"golang.org/x/tools/go/ssa"
)

// C32 (varint part): the prefix / payload-mask / shift / size / threshold
// tables of varint.Read, Unmarshal, MarshalSize and MarshalTo are extracted
// from the SSA and cross-checked for sizes 1..9.

type c32Term struct {
	byteIdx int    // index of the wire byte (0 = first byte)
	mask    uint64 // mask applied to the byte (0xFF when none)
	shift   uint64
}

type c32DecRow struct {
	size      int
	mask, val uint64 // prefix test (b & mask) == val
	terms     []c32Term
	haveTerms bool
}

type c32EncRow struct {
	size      int
	threshold uint64 // v < threshold (0 for the default case)
	deflt     bool
	prefix    map[int]uint64 // byte index -> OR-ed constant
	shift     map[int]int64  // byte index -> shift of v (-1: no value bits)
	ret       int
}

// c32ByteIndex: v is the load of wire byte k. base = the first-byte source
// (array of 1 in Read, buf in Unmarshal); rest = slice of the remaining bytes
// (Read only, index j is wire byte j+1).
func c32ByteIndex(v ssa.Value, fn *ssa.Function) (int, bool) {
	ia, ok := loadOf(v).(*ssa.IndexAddr)
	if !ok {
		return 0, false
	}
	k, ok := constInt64(ia.Index)
	if !ok {
		return 0, false
	}
	switch x := ia.X.(type) {
	case *ssa.Parameter: // buf[k]
		return int(k), true
	case *ssa.Alloc: // first[0]
		_ = x
		return int(k), k == 0
	case *ssa.MakeSlice: // rest[k]
		return int(k) + 1, true
	}
	return 0, false
}

func c32OrTerms(v ssa.Value, fn *ssa.Function, out *[]c32Term) bool {
	v = stripConv(v)
	if b, ok := v.(*ssa.BinOp); ok && b.Op == token.OR {
		return c32OrTerms(b.X, fn, out) && c32OrTerms(b.Y, fn, out)
	}
	var sh uint64
	if b, ok := v.(*ssa.BinOp); ok && b.Op == token.SHL {
		k, ok := constUint64(b.Y)
		if !ok {
			return false
		}
		sh = k
		v = stripConv(b.X)
	}
	mask := uint64(0xFF)
	if b, ok := v.(*ssa.BinOp); ok && b.Op == token.AND {
		k, ok := constUint64(b.Y)
		if !ok {
			return false
		}
		mask = k
		v = stripConv(b.X)
	}
	idx, ok := c32ByteIndex(v, fn)
	if !ok {
		return false
	}
	*out = append(*out, c32Term{idx, mask, sh})
	return true
}

// c32DecodeTable extracts the rows of Read / Unmarshal.
func c32DecodeTable(fn *ssa.Function) ([]c32DecRow, string) {
	rows := map[int]*c32DecRow{}
	var sizePhi *ssa.Phi
	// prefix tests
	var err string
	eachInstr(fn, func(i ssa.Instruction) {
		ifi, ok := i.(*ssa.If)
		if !ok {
			return
		}
		eq, ok := ifi.Cond.(*ssa.BinOp)
		if !ok || eq.Op != token.EQL {
			return
		}
		val, ok := constUint64(eq.Y)
		if !ok {
			return
		}
		lhs := stripConv(eq.X)
		mask := uint64(0xFF)
		if and, ok := lhs.(*ssa.BinOp); ok && and.Op == token.AND {
			m, ok := constUint64(and.Y)
			if !ok {
				return
			}
			mask = m
			lhs = stripConv(and.X)
		}
		if idx, ok := c32ByteIndex(lhs, fn); !ok || idx != 0 {
			// maybe the size switch: phi == const
			if ph, ok := lhs.(*ssa.Phi); ok {
				sizePhi = ph
				tb := ifi.Block().Succs[0]
				r := rows[int(val)]
				if r == nil {
					err = fmt.Sprintf("size switch case %d has no prefix test", val)
					return
				}
				c32StoreTerms(tb, fn, r)
			}
			return
		}
		// size of this prefix: constant flowing into the size phi from the true successor, or 1 when it returns
		tb := ifi.Block().Succs[0]
		size := 0
		if len(tb.Succs) == 1 {
			join := tb.Succs[0]
			for _, ins := range join.Instrs {
				ph, ok := ins.(*ssa.Phi)
				if !ok {
					break
				}
				for k, pr := range join.Preds {
					if pr == tb {
						if s, ok := constInt64(ph.Edges[k]); ok {
							size = int(s)
						}
					}
				}
			}
		} else if len(tb.Succs) == 0 {
			size = 1
			r := &c32DecRow{size: 1, mask: mask, val: val}
			c32StoreTerms(tb, fn, r)
			rows[1] = r
			return
		}
		if size == 0 {
			err = "prefix test without a size"
			return
		}
		rows[size] = &c32DecRow{size: size, mask: mask, val: val}
	})
	if err != "" {
		return nil, err
	}
	// default case of the size switch: the block storing the value that is the false successor of the last size test
	if sizePhi != nil {
		// assign default: exactly one row without terms, block = last false successor
		var last *ssa.BasicBlock
		eachInstr(fn, func(i ssa.Instruction) {
			ifi, ok := i.(*ssa.If)
			if !ok {
				return
			}
			eq, ok := ifi.Cond.(*ssa.BinOp)
			if ok && eq.Op == token.EQL && stripConv(eq.X) == ssa.Value(sizePhi) {
				fb := ifi.Block().Succs[1]
				if _, isIf := fb.Instrs[len(fb.Instrs)-1].(*ssa.If); !isIf {
					last = fb
				}
			}
		})
		var missing []*c32DecRow
		for _, r := range rows {
			if !r.haveTerms {
				missing = append(missing, r)
			}
		}
		if len(missing) == 1 && last != nil {
			c32StoreTerms(last, fn, missing[0])
		}
	}
	var out []c32DecRow
	for _, r := range rows {
		out = append(out, *r)
	}
	sort.Slice(out, func(i, j int) bool { return out[i].size < out[j].size })
	return out, ""
}

// c32StoreTerms reads the OR-tree stored to *v ($0) in block b.
func c32StoreTerms(b *ssa.BasicBlock, fn *ssa.Function, r *c32DecRow) {
	for _, ins := range b.Instrs {
		st, ok := ins.(*ssa.Store)
		if !ok {
			continue
		}
		if pr, ok := st.Addr.(*ssa.Parameter); !ok || paramIndex(pr) != 0 {
			continue
		}
		var ts []c32Term
		if c32OrTerms(st.Val, fn, &ts) {
			r.terms = ts
			r.haveTerms = true
		}
	}
}

// c32EncodeTable extracts the rows of MarshalTo (withStores) or MarshalSize.
func c32EncodeTable(fn *ssa.Function, withStores bool) ([]c32EncRow, string) {
	var rows []c32EncRow
	readBlock := func(b *ssa.BasicBlock, r *c32EncRow) string {
		r.prefix, r.shift = map[int]uint64{}, map[int]int64{}
		for _, ins := range b.Instrs {
			switch y := ins.(type) {
			case *ssa.Store:
				ia, ok := y.Addr.(*ssa.IndexAddr)
				if !ok {
					continue
				}
				k, ok := constInt64(ia.Index)
				if !ok {
					return "non-constant buffer index"
				}
				v := stripConv(y.Val)
				r.shift[int(k)] = -1
				if or, ok := v.(*ssa.BinOp); ok && or.Op == token.OR {
					c, ok := constUint64(or.X)
					if !ok {
						return "prefix is not a constant"
					}
					r.prefix[int(k)] = c
					v = stripConv(or.Y)
				}
				if c, ok := constUint64(v); ok {
					r.prefix[int(k)] = c
					continue
				}
				if sh, ok := v.(*ssa.BinOp); ok && sh.Op == token.SHR {
					s, ok := constUint64(sh.Y)
					if !ok {
						return "non-constant shift"
					}
					if pr, ok := stripConv(sh.X).(*ssa.Parameter); !ok || paramIndex(pr) != 0 {
						return "shifted value is not v"
					}
					r.shift[int(k)] = int64(s)
					continue
				}
				if pr, ok := v.(*ssa.Parameter); ok && paramIndex(pr) == 0 {
					r.shift[int(k)] = 0
					continue
				}
				return "unrecognised byte expression " + desc(y.Val)
			case *ssa.Return:
				s, ok := constInt64(y.Results[0])
				if !ok {
					return "non-constant size returned"
				}
				r.ret = int(s)
			}
		}
		return ""
	}
	var lastFalse *ssa.BasicBlock
	var err string
	eachInstr(fn, func(i ssa.Instruction) {
		ifi, ok := i.(*ssa.If)
		if !ok {
			return
		}
		lt, ok := ifi.Cond.(*ssa.BinOp)
		if !ok || lt.Op != token.LSS {
			return
		}
		if pr, ok := stripConv(lt.X).(*ssa.Parameter); !ok || paramIndex(pr) != 0 {
			return
		}
		t, ok := constUint64(lt.Y)
		if !ok {
			return
		}
		r := c32EncRow{threshold: t}
		if e := readBlock(ifi.Block().Succs[0], &r); e != "" {
			err = e
		}
		r.size = r.ret
		rows = append(rows, r)
		fb := ifi.Block().Succs[1]
		if len(fb.Instrs) > 0 {
			if _, isIf := fb.Instrs[len(fb.Instrs)-1].(*ssa.If); !isIf {
				lastFalse = fb
			}
		}
	})
	if lastFalse != nil {
		r := c32EncRow{deflt: true}
		if e := readBlock(lastFalse, &r); e != "" {
			err = e
		}
		r.size = r.ret
		rows = append(rows, r)
	}
	sort.Slice(rows, func(i, j int) bool { return rows[i].size < rows[j].size })
	_ = withStores
	return rows, err
}

func c32Varint(c *Ctx, p *Prog) {
	rd := c.fn(p, "internal/protocols/moq/varint", "Varint", "Read")
	um := c.fn(p, "internal/protocols/moq/varint", "Varint", "Unmarshal")
	ms := c.fn(p, "internal/protocols/moq/varint", "Varint", "MarshalSize")
	mt := c.fn(p, "internal/protocols/moq/varint", "Varint", "MarshalTo")
	if rd == nil || um == nil || ms == nil || mt == nil {
		return
	}
	enc, e1 := c32EncodeTable(mt, true)
	siz, e2 := c32EncodeTable(ms, false)
	c.Check("C32.varint.extract", fnName(mt)+": encoder table extracted (9 sizes)", e1 == "" && len(enc) == 9, p.Pos(mt.Pos()), sprintf("%d rows %s", len(enc), e1))
	c.Check("C32.varint.extract", fnName(ms)+": size table extracted (9 sizes)", e2 == "" && len(siz) == 9, p.Pos(ms.Pos()), sprintf("%d rows %s", len(siz), e2))
	decs := map[string][]c32DecRow{}
	for _, d := range []*ssa.Function{rd, um} {
		rows, e := c32DecodeTable(d)
		c.Check("C32.varint.extract", fnName(d)+": decoder table extracted (9 sizes)", e == "" && len(rows) == 9, p.Pos(d.Pos()), sprintf("%d rows %s", len(rows), e))
		decs[fnName(d)] = rows
	}
	if len(enc) != 9 || len(siz) != 9 {
		return
	}
	for s := 1; s <= 9; s++ {
		er, sr := enc[s-1], siz[s-1]
		key := sprintf("varint size %d", s)
		// MarshalSize and MarshalTo agree on size and threshold
		c.Check("C32.varint.size_agreement", key+": MarshalSize and MarshalTo share the threshold", er.size == s && sr.size == s && er.threshold == sr.threshold && er.deflt == sr.deflt,
			p.Pos(mt.Pos()), sprintf("MarshalTo: size %d v<%d default=%v; MarshalSize: size %d v<%d default=%v", er.size, er.threshold, er.deflt, sr.size, sr.threshold, sr.deflt))
		// encoder writes bytes 0..s-1 exactly
		okBytes := len(er.shift) == s
		for k := 0; k < s; k++ {
			if _, ok := er.shift[k]; !ok {
				okBytes = false
			}
		}
		c.Check("C32.varint.encoder_bytes", key+": MarshalTo writes bytes 0.."+itoa(s-1)+" and returns "+itoa(s), okBytes && er.ret == s, p.Pos(mt.Pos()), sprintf("wrote %d byte(s), returns %d", len(er.shift), er.ret))
		if !okBytes {
			continue
		}
		// value bits covered exactly: bytes k>=1 carry 8 bits at shift_k, byte 0 carries w bits at shift_0
		var cover uint64
		overlap := false
		addBits := func(shift int64, width int) {
			for b := 0; b < width; b++ {
				bit := uint64(1) << uint(int(shift)+b)
				if cover&bit != 0 {
					overlap = true
				}
				cover |= bit
			}
		}
		for k := 1; k < s; k++ {
			if er.shift[k] < 0 || er.shift[k] > 56 {
				overlap = true
				continue
			}
			addBits(er.shift[k], 8)
		}
		p0 := er.prefix[0]
		w0 := 0
		if er.shift[0] >= 0 {
			// free bits of byte 0 = bits not fixed by any decoder prefix mask; derived below from the decoder
		}
		for name, rows := range decs {
			if len(rows) != 9 {
				continue
			}
			dr := rows[s-1]
			dk := key + " / " + name
			// the encoder's first byte satisfies this decoder test and no earlier one
			okPrefix := dr.size == s && (p0&dr.mask) == dr.val
			if s == 1 {
				okPrefix = dr.size == 1 && dr.val == 0 && er.threshold == (^dr.mask&0xFF)+1
			}
			for j := 0; j < s-1 && okPrefix; j++ {
				if (dr.val & rows[j].mask) == rows[j].val {
					okPrefix = false
				}
			}
			c.Check("C32.varint.prefix", dk+": encoder prefix matches the decoder test (b & mask == val) and no earlier test", okPrefix, p.Pos(mt.Pos()),
				sprintf("encoder first byte 0x%02X|bits, decoder mask 0x%02X val 0x%02X", p0, dr.mask, dr.val))
			// terms agree with the encoder's shifts
			okTerms := dr.haveTerms
			seen := map[int]bool{}
			for _, t := range dr.terms {
				if seen[t.byteIdx] {
					okTerms = false
				}
				seen[t.byteIdx] = true
				if t.byteIdx == 0 {
					free := ^dr.mask & 0xFF
					if s == 1 {
						free = 0xFF // b itself; the prefix test guarantees the top bit is clear
					}
					if er.shift[0] < 0 || uint64(er.shift[0]) != t.shift || (s != 1 && t.mask != free) || p0&t.mask != 0 {
						okTerms = false
					}
					continue
				}
				if t.byteIdx >= s || t.mask != 0xFF || er.shift[t.byteIdx] < 0 || uint64(er.shift[t.byteIdx]) != t.shift {
					okTerms = false
				}
			}
			for k := 1; k < s; k++ {
				if !seen[k] {
					okTerms = false
				}
			}
			if (er.shift[0] >= 0) != seen[0] {
				okTerms = false
			}
			c.Check("C32.varint.shifts", dk+": every wire byte is read with the shift it was written with; first-byte payload mask is the complement of the prefix mask", okTerms, p.Pos(mt.Pos()),
				sprintf("decoder terms %v, encoder shifts %v", dr.terms, er.shift))
			if s > 1 && er.shift[0] >= 0 {
				w0 = bits.OnesCount64(^dr.mask & 0xFF)
			}
		}
		if s == 1 {
			w0 = 7
		}
		if er.shift[0] >= 0 {
			addBits(er.shift[0], w0)
		}
		nbits := bits.OnesCount64(cover)
		contiguous := !overlap && (cover == ^uint64(0) || cover == (uint64(1)<<uint(nbits))-1)
		okThr := er.deflt && nbits == 64 || !er.deflt && nbits < 64 && er.threshold == uint64(1)<<uint(nbits)
		c.Check("C32.varint.coverage", key+": written bits are contiguous from bit 0 without overlap and the threshold is 2^bits", contiguous && okThr, p.Pos(mt.Pos()),
			sprintf("covered bits %d, threshold %d, default %v", nbits, er.threshold, er.deflt))
	}
	// consumed-count contract of Unmarshal: size is returned only after len(buf) >= size
	c.MustPass(p, um, "C32.varint.count_contract", "return (size >= 2, nil)", func(i ssa.Instruction) bool {
		r, ok := i.(*ssa.Return)
		if !ok || !isNilConst(retVal(r, 1)) {
			return false
		}
		_, isPhi := retVal(r, 0).(*ssa.Phi)
		return isPhi
	}, F("(len($1) < phi(2 | 3 | 4 | 5 | 6 | 7 | 8 | 9))"))
	c.MustPass(p, um, "C32.varint.count_contract", "return with nil error", retNil(1), F("(len($1) == 0)"))
	for _, r := range returnsOf(um) {
		if !isNilConst(retVal(r, 1)) {
			continue
		}
		d := desc(retVal(r, 0))
		c.Check("C32.varint.count_contract", fnName(um)+": success returns a positive size", d == "1" || d == "phi(2 | 3 | 4 | 5 | 6 | 7 | 8 | 9)", p.Pos(posOf(r, um)), "returns "+d)
	}
	// Read: the rest buffer has size-1 bytes and is filled before use
	var mk *ssa.MakeSlice
	eachInstr(rd, func(i ssa.Instruction) {
		if m, ok := i.(*ssa.MakeSlice); ok {
			mk = m
		}
	})
	if c.Check("C32.varint.read_rest", fnName(rd)+": rest = make([]byte, size-1)", mk != nil && desc(mk.Len) == "(phi(2 | 3 | 4 | 5 | 6 | 7 | 8 | 9) - 1)", p.Pos(rd.Pos()), "") {
		full := "io.ReadFull($1, makeslice([]byte, (phi(2 | 3 | 4 | 5 | 6 | 7 | 8 | 9) - 1)))"
		c.MustPass(p, rd, "C32.varint.read_rest", "store of a multi-byte value", func(i ssa.Instruction) bool {
			st, ok := i.(*ssa.Store)
			if !ok {
				return false
			}
			pr, ok := st.Addr.(*ssa.Parameter)
			return ok && paramIndex(pr) == 0 && st.Block().Comment == "switch.body" && len(st.Block().Succs) == 1
		}, T("("+full+"#1 == nil)"))
	}
}
