package main

// C38.relevant_notifies: "the event's operation does not include Write / Create"
// recognised by MEANING. fsnotify.Op is a bit set; the tests that say something
// about bit(s) k of event.Op are
//
//	(event.Op & M) == M          all bits of M present      (the spelling in the tree)
//	(event.Op & M) != 0          some bit of M present;  == 0: all bits of M absent
//	event.Has(M), event.Op.Has(M) fsnotify's own accessors: Event.Has(op) is
//	                             e.Op.Has(op), Op.Has(h) is o&h == h  (fsnotify.go) -
//	                             the same predicate as the first form
//
// in either operand order, under either polarity. A literal makes an event with
// operation k IRRELEVANT when it implies "not all bits of k are present":
//
//	!((Op & M) == M)  with M == k        !Has(k)
//	 ((Op & M) == 0)  with k's bits in M (premise: k != 0, checked)
//
// The callee names are the ones resolved through the type checker (desc prints the
// package-qualified method), so a method of another type that happens to be called
// Has does not match.

import (
	"regexp"
	"strconv"
	"strings"
)

var c38MaskRe = regexp.MustCompile(`^\((.+) == (.+)\)$`)

// c38OpFact parses an atom into (mask M, kind) where kind is "all" (the atom is
// true iff all bits of M are present in the event's Op) or "none" (true iff no
// bit of M is present).
func c38OpFact(atom, evD string) (m int64, kind string, ok bool) {
	op := evD + ".Op"
	for _, pre := range []string{
		"(github.com/fsnotify/fsnotify.Event).Has(" + evD + ", ",
		"(github.com/fsnotify/fsnotify.Op).Has(" + op + ", ",
	} {
		if strings.HasPrefix(atom, pre) && strings.HasSuffix(atom, ")") {
			if n, err := strconv.ParseInt(atom[len(pre):len(atom)-1], 10, 64); err == nil {
				return n, "all", true
			}
		}
	}
	sm := c38MaskRe.FindStringSubmatch(atom)
	if sm == nil {
		return 0, "", false
	}
	maskOf := func(s string) (int64, bool) {
		for _, f := range []struct{ pre, suf string }{{"(" + op + " & ", ")"}, {"(", " & " + op + ")"}} {
			if strings.HasPrefix(s, f.pre) && strings.HasSuffix(s, f.suf) && len(s) > len(f.pre)+len(f.suf) {
				if n, err := strconv.ParseInt(s[len(f.pre):len(s)-len(f.suf)], 10, 64); err == nil {
					return n, true
				}
			}
		}
		return 0, false
	}
	for _, pr := range [][2]string{{sm[1], sm[2]}, {sm[2], sm[1]}} {
		mk, ok1 := maskOf(pr[0])
		v, err := strconv.ParseInt(pr[1], 10, 64)
		if !ok1 || err != nil || mk == 0 {
			continue
		}
		switch v {
		case mk:
			return mk, "all", true
		case 0:
			return mk, "none", true
		}
	}
	return 0, "", false
}

// c38OpAbsent: the literal implies that an event whose operation is k does not
// take this edge (not all bits of k are present).
func c38OpAbsent(l Lit, evD string, k int64) bool {
	m, kind, ok := c38OpFact(l.Atom, evD)
	if !ok || k == 0 {
		return false
	}
	switch kind {
	case "all":
		return !l.Pos && m == k
	case "none":
		return l.Pos && m&k == k
	}
	return false
}

// c38OpMentioned: the literal tests bit(s) of k at all.
func c38OpMentioned(l Lit, evD string, k int64) bool {
	m, _, ok := c38OpFact(l.Atom, evD)
	return ok && m&k != 0
}
