package main

import (
	"fmt"
	"go/token"
	"go/types"
	"math/big"
	"strings"

	"golang.org/x/tools/go/ssa"
)

// C44 - API list pagination partitions results.

func init() {
	register(Property{ID: "C44", Level: "other", Run: runC44,
		Technique: "static analysis: must-pass-through path conditions on api.paginate, who-may-call of paginate2, interval propagation (seeded by the strconv.ParseUint bit size, the default constants and the zero rejection) through paginate2's bound arithmetic for each released int width, structural shape of the Slice bounds and of the page count (go/ssa)",
		Text:      "Decides: (1) api.paginate reaches paginate2 only when each supplied parameter parsed without error and itemsPerPage is non-zero, and returns a nil error only with paginate2's result; (2) paginate2 is called only from there, so its parameters range over itemsPerPage in [1, 2^31-1], page in [0, 2^31-1]; (3) for every released int width (64 bit: amd64/arm64, 32 bit: arm) every +,* of paginate2's bound arithmetic and every conversion in paginate stays inside its type, and every divisor excludes zero; (4) the slice set back is ritems.Slice(min(page*ipp, len), min((page+1)*ipp, len)) of the same reflect value whose Len was taken, with page>=0, ipp>=1 (which gives consecutive, at most ipp long, in-range, empty-past-the-end pages when (3) holds); (5) the page count is len/ipp, plus one exactly when len%ipp != 0, and 0 for the empty list; (6) every caller passes a pointer to a slice and writes its 200 response only after paginate returned a nil error; (7) every caller hands the request's query parameter named itemsPerPage to the paginate parameter that becomes the page size and the one named page to the one that becomes the page index (both are strings, only the data flow distinguishes them). Not decided: the concatenation identity as a value-level statement beyond these bounds; reflect's own behaviour.",
		Note:      "trusted: go/types+go/ssa, strconv.ParseUint's documented range for a bit size, reflect.Value.{Len,Slice,Set} semantics, types.SizesFor(gc, GOARCH) for the released architectures listed in scripts/binaries.mk"})
	addMutants(
		Mutant{"C44", "zero-items-per-page-accepted", "internal/api/paginate.go",
			"		if itemsPerPage == 0 {\n			return 0, fmt.Errorf(\"invalid items per page\")\n		}\n", "		_ = fmt.Errorf\n", "C44.reject.zero_items"},
		Mutant{"C44", "page-parse-error-ignored", "internal/api/paginate.go",
			"		tmp, err := strconv.ParseUint(pageStr, 10, 31)\n		if err != nil {\n			return 0, err\n		}\n", "		tmp, _ := strconv.ParseUint(pageStr, 10, 31)\n", "C44.reject.parse_error"},
		Mutant{"C44", "bitsize-63", "internal/api/paginate.go",
			"tmp, err := strconv.ParseUint(pageStr, 10, 31)", "tmp, err := strconv.ParseUint(pageStr, 10, 63)", "C44.no_overflow.int64"},
		Mutant{"C44", "upper-bound-off", "internal/api/paginate.go",
			"maxVal := int(min((int64(page)+1)*int64(itemsPerPage), int64(itemsLen)))", "maxVal := int(min(int64(page)*int64(itemsPerPage)+1, int64(itemsLen)))", "C44.slice.upper"},
		Mutant{"C44", "lower-bound-unclamped", "internal/api/paginate.go",
			"minVal := int(min(int64(page)*int64(itemsPerPage), int64(itemsLen)))", "minVal := page * itemsPerPage", "C44.slice.lower"},
		Mutant{"C44", "args-swapped", "internal/api/paginate.go",
			"return paginate2(itemsPtr, itemsPerPage, page), nil", "return paginate2(itemsPtr, page, itemsPerPage), nil", "C44."},
		// the pre-fix code: bounds computed in int overflow on the 32-bit releases
		Mutant{"C44", "bounds-in-int", "internal/api/paginate.go",
			"minVal := int(min(int64(page)*int64(itemsPerPage), int64(itemsLen)))", "minVal := min(page*itemsPerPage, itemsLen)", "C44.no_overflow.int32"},
		Mutant{"C44", "page-count-floor", "internal/api/paginate.go",
			"if (itemsLen % itemsPerPage) != 0 {", "if (itemsLen % itemsPerPage) == 0 {", "C44.page_count"},
		Mutant{"C44", "error-swallowed-in-handler", "internal/api/api_recordings.go",
			"	pageCount, err := paginate(&pathNames, ctx.Query(\"itemsPerPage\"), ctx.Query(\"page\"))\n	if err != nil {\n		a.writeError(ctx, http.StatusBadRequest, err)\n		return\n	}",
			"	pageCount, err := paginate(&pathNames, ctx.Query(\"itemsPerPage\"), ctx.Query(\"page\"))\n	if err != nil {\n		a.writeError(ctx, http.StatusBadRequest, err)\n	}", "C44.caller.reject"},
		Mutant{"C44", "parse-error-returns-nil", "internal/api/paginate.go",
			"		tmp, err := strconv.ParseUint(itemsPerPageStr, 10, 31)\n		if err != nil {\n			return 0, err\n		}", "		tmp, err := strconv.ParseUint(itemsPerPageStr, 10, 31)\n		if err != nil {\n			return 0, nil\n		}", "C44.reject.nil_error_only_with_result"},
		// round 3: one of the fifteen handlers hands the two query strings over in the wrong order / reads the same one twice
		Mutant{"C44", "handler-query-strings-swapped", "internal/api/api_recordings.go",
			"paginate(&pathNames, ctx.Query(\"itemsPerPage\"), ctx.Query(\"page\"))", "paginate(&pathNames, ctx.Query(\"page\"), ctx.Query(\"itemsPerPage\"))", "C44.caller.query_role"},
		Mutant{"C44", "handler-same-query-twice", "internal/api/api_srt.go",
			"paginate(&data.Items, ctx.Query(\"itemsPerPage\"), ctx.Query(\"page\"))", "paginate(&data.Items, ctx.Query(\"itemsPerPage\"), ctx.Query(\"itemsPerPage\"))", "C44.caller.query_role"},
	)
}

// queryKeysR3c44 resolves a string value to the names of the gin query
// parameters it is read from: (*gin.Context).Query(key), DefaultQuery(key, _),
// GetQuery(key)#0, through phis and through the parameters of new helpers
// (resolved at their call sites). ok is false when some source is anything else.
func queryKeysR3c44(v ssa.Value, depth int) (keys []string, ok bool) {
	if depth > 6 {
		return nil, false
	}
	v = stripConv(v)
	if u, isU := v.(*ssa.UnOp); isU && u.Op == token.MUL {
		if a, isA := u.X.(*ssa.Alloc); isA {
			if sv := singleStore(a); sv != nil {
				return queryKeysR3c44(sv, depth+1)
			}
		}
		return nil, false
	}
	switch x := v.(type) {
	case *ssa.Phi:
		ok = true
		for _, e := range x.Edges {
			ks, o := queryKeysR3c44(e, depth+1)
			keys = append(keys, ks...)
			ok = ok && o
		}
		return keys, ok
	case *ssa.Parameter:
		info := helperIdx[x.Parent()]
		k := paramIndex(x)
		if info == nil || k < 0 {
			return nil, false
		}
		ok = len(info.sites) > 0
		for _, site := range info.sites {
			if k >= len(site.Call.Args) {
				return nil, false
			}
			ks, o := queryKeysR3c44(site.Call.Args[k], depth+1)
			keys = append(keys, ks...)
			ok = ok && o
		}
		return keys, ok
	case *ssa.Extract:
		cl, isCall := x.Tuple.(*ssa.Call)
		if !isCall || x.Index != 0 || calleeName(&cl.Call) != "(*github.com/gin-gonic/gin.Context).GetQuery" || len(cl.Call.Args) != 2 {
			return nil, false
		}
		s, isS := constString(cl.Call.Args[1])
		return []string{s}, isS
	case *ssa.Call:
		switch calleeName(&x.Call) {
		case "(*github.com/gin-gonic/gin.Context).Query", "(*github.com/gin-gonic/gin.Context).DefaultQuery":
			if len(x.Call.Args) < 2 {
				return nil, false
			}
			s, isS := constString(x.Call.Args[1])
			return []string{s}, isS
		}
	}
	return nil, false
}

func runC44(c *Ctx) {
	defer dumpObls(c)
	p := c.Main()
	if p == nil {
		return
	}
	c.Explain = "C44.reject.* / C44.seed.arg_source: decided on every feasible path of api.paginate, new helpers entered, values resolved per path (prop_gen_c44.go): a parse error / zero itemsPerPage never reaches paginate2; nil error only with paginate2's result. " +
		"C44.seed.*: paginate2 has exactly one call site and is not used as a value, its arguments are int(ParseUint(itemsPerPageStr))|const and int(ParseUint(pageStr))|const. " +
		"C44.no_overflow / C44.divisor_nonzero: E8 interval propagation through every integer +,-,*,conversion,/,% of paginate and paginate2 for int = 64 and 32 bits. " +
		"C44.slice.*: the reflect Slice bounds are min(page*ipp, L), min((page+1)*ipp | page*ipp+ipp, L) with L = Len of the very value sliced and Set. " +
		"C44.page_count: L/ipp (+1 iff L%ipp != 0), 0 iff L == 0. C44.caller.*: 15 handlers pass &slice and answer 200 only after a nil error. C44.caller.query_role: at each of them paginate's itemsPerPage/page string arguments are (*gin.Context).Query/DefaultQuery/GetQuery of the constant keys itemsPerPage / page respectively (through locals, phis and new helpers). " +
		"Values are compared through conversions, named locals and new helpers (parameters = arguments, results = returned values); the callers of paginate are its logical call sites (a forwarding helper counts once per call site of the helper). " +
		"Not decided: value-level concatenation identity, reflect internals."
	c.Assume = []string{
		"strconv.ParseUint(s, 10, b) returns a value in [0, 2^b-1] when err == nil",
		"reflect.Value.Slice(i, j) panics iff not 0 <= i <= j <= cap; Len() >= 0",
		"released int widths are those of types.SizesFor(gc, {amd64, arm64, arm}) (scripts/binaries.mk)",
	}

	pg := c.fn(p, "internal/api", "", "paginate")
	p2 := c.fn(p, "internal/api", "", "paginate2")
	if pg == nil || p2 == nil {
		return
	}
	if f := fileOfFunc(p, p2); f == nil || fileHasBuildConstraint(p, f) {
		c.Undecided("paginate.go carries a build constraint: the width table no longer applies")
		return
	}

	// ---- (2) only caller: one call instruction, and it belongs to paginate
	// (written in paginate itself or in a new helper only paginate reaches)
	sites, escapes := callSitesOf(p, p2)
	owned := false
	if len(sites) == 1 {
		ow := ownersG4(sites[0])
		owned = len(ow) == 1 && ow[0] == pg
	}
	c.Check("C44.seed.only_caller", "paginate2: single static call site in api.paginate, never used as a value",
		len(sites) == 1 && len(escapes) == 0 && owned, p.Pos(p2.Pos()), fmt.Sprintf("%d call sites, %d value uses", len(sites), len(escapes)))
	if len(sites) != 1 || !owned {
		return
	}
	pcall, isCall := sites[0].(*ssa.Call)
	if !isCall || len(pcall.Call.Args) != 3 || len(pg.Params) != 3 || len(p2.Params) != 3 {
		c.Undecided("UNRESOLVED ANCHOR paginate/paginate2 arity")
		return
	}

	// ---- (1) argument sources and rejections, decided per feasible path of
	// paginate (prop_gen_c44.go): at every execution of the paginate2 call the
	// argument IS a constant or ParseUint(<its string parameter>)#0, every
	// ParseUint of that parameter executed before it returned a nil error, it
	// ran only for a non-empty string, and a parsed itemsPerPage was tested
	// non-zero. Where the statements sit (paginate, a new helper returning
	// (value, error), locals, early returns) does not matter.
	paths, why := enumPathsG4(pg)
	if why != "" {
		c.Undecided("paginate cannot be decided path by path: " + why)
		return
	}
	type execG4 struct {
		pi  *pathG4
		idx int
		env *envG4
	}
	var execs []execG4
	for _, pi := range paths {
		for idx, k := range pi.calls {
			if k.v == ssa.Value(pcall) {
				execs = append(execs, execG4{pi, idx, k.env})
			}
		}
	}
	if len(execs) == 0 {
		c.Undecided("UNRESOLVED ANCHOR no feasible path of paginate reaches paginate2")
		return
	}
	// asPU: the resolved value is strconv.ParseUint(s, _, const bits)#0
	asPU := func(pi *pathG4, x rvalG4) (call *ssa.Call, bits int64, ok bool) {
		ex, isEx := x.v.(*ssa.Extract)
		if !isEx || ex.Index != 0 {
			return nil, 0, false
		}
		cl, isC := ex.Tuple.(*ssa.Call)
		if !isC || calleeName(&cl.Call) != "strconv.ParseUint" || len(cl.Call.Args) != 3 {
			return nil, 0, false
		}
		b, isK := constBig(pi.resolve(rvalG4{cl.Call.Args[2], x.env}).v)
		if !isK {
			return nil, 0, false
		}
		return cl, b.Int64(), true
	}
	errKey := func(pi *pathG4, cl *ssa.Call, env *envG4) string {
		return eqKeyG4("ext("+pi.key(rvalG4{cl, env})+")#1", "c:nil")
	}
	type argInfo struct {
		name   string
		strPar *ssa.Parameter
	}
	args := []*argInfo{{name: "itemsPerPage", strPar: pg.Params[1]}, {name: "page", strPar: pg.Params[2]}}
	for k, ai := range args {
		srcOK, nPU := true, 0
		got := map[string]bool{}
		errOK := map[string]bool{}  // description of a ParseUint call -> its error was tested nil before every paginate2
		usedOK := map[string]bool{} // -> it ran only for a supplied (non-empty) string
		zeroOK := map[string]bool{}
		strEmptyKey := func(pi *pathG4) string { return eqKeyG4(pi.key(rvalG4{ai.strPar, nil}), `c:""`) }
		for _, ex := range execs {
			a := ex.pi.resolve(rvalG4{pcall.Call.Args[k+1], ex.env})
			got[descG4(a)] = true
			if _, isC := constBig(a.v); !isC {
				cl, _, isPU := asPU(ex.pi, a)
				if !isPU || ex.pi.resolve(rvalG4{cl.Call.Args[0], a.env}).v != ssa.Value(ai.strPar) {
					srcOK = false
				} else {
					nPU++
					if k == 0 {
						d := descG4(a)
						if _, seen := zeroOK[d]; !seen {
							zeroOK[d] = true
						}
						if !ex.pi.nonZero(a, ex.idx) {
							zeroOK[d] = false
						}
					}
				}
			}
			// every ParseUint of this parameter that ran before paginate2
			for j, q := range ex.pi.calls[:ex.idx] {
				cl := q.v.(*ssa.Call)
				if calleeName(&cl.Call) != "strconv.ParseUint" || len(cl.Call.Args) != 3 || ex.pi.resolve(rvalG4{cl.Call.Args[0], q.env}).v != ssa.Value(ai.strPar) {
					continue
				}
				d := descG4(rvalG4{cl, q.env})
				if _, seen := errOK[d]; !seen {
					errOK[d], usedOK[d] = true, true
				}
				if !ex.pi.holds(errKey(ex.pi, cl, q.env), true, ex.idx) {
					errOK[d] = false
				}
				if !ex.pi.holds(strEmptyKey(ex.pi), false, j) {
					usedOK[d] = false
				}
			}
		}
		// ParseUint executions on paths that never reach paginate2 must be guarded too
		for _, pi := range paths {
			for j, q := range pi.calls {
				cl := q.v.(*ssa.Call)
				if calleeName(&cl.Call) != "strconv.ParseUint" || len(cl.Call.Args) != 3 || pi.resolve(rvalG4{cl.Call.Args[0], q.env}).v != ssa.Value(ai.strPar) {
					continue
				}
				d := descG4(rvalG4{cl, q.env})
				if _, seen := usedOK[d]; !seen {
					usedOK[d] = true
				}
				if !pi.holds(strEmptyKey(pi), false, j) {
					usedOK[d] = false
				}
			}
		}
		c.Check("C44.seed.arg_source", fmt.Sprintf("paginate: paginate2 argument %d (%s) is a constant or int(strconv.ParseUint($%d, _, const)#0)", k+1, ai.name, k+1),
			srcOK && nPU >= 1, p.Pos(pcall.Pos()), "got "+strings.Join(sortedKeys(got), " | ")+" on the feasible paths")
		strEmpty := "(" + desc(ai.strPar) + ` == "")`
		for _, d := range sortedKeys(errOK) {
			c.Check("C44.reject.parse_error", fnName(pg)+": call paginate2 ("+ai.name+") ⇒ "+altsStr([]LitPat{T(strEmpty), T("(" + d + "#1 == nil)")}), errOK[d], p.Pos(pcall.Pos()),
				"on every feasible path the error of every "+d+" executed before paginate2 was tested nil")
		}
		for _, d := range sortedKeys(usedOK) {
			c.Check("C44.reject.parse_error", fnName(pg)+": call strconv.ParseUint ("+ai.name+") ⇒ "+altsStr([]LitPat{F(strEmpty)}), usedOK[d], p.Pos(pg.Pos()),
				d+" runs only after the string was tested non-empty")
		}
		for _, d := range sortedKeys(zeroOK) {
			c.Check("C44.reject.zero_items", fnName(pg)+": call paginate2 ⇒ "+altsStr([]LitPat{T(strEmpty), F("(" + d + " == 0)")}), zeroOK[d], p.Pos(pcall.Pos()),
				"on every feasible path a parsed itemsPerPage was tested non-zero before paginate2")
		}
	}
	// a return with a nil error (the constant, or a value tested nil on the
	// path) carries the result of the paginate2 call executed on that path
	{
		type retAgg struct {
			ok     bool
			detail string
		}
		agg := map[*ssa.Return]*retAgg{}
		var order []*ssa.Return
		for _, pi := range paths {
			r := pi.end
			if r == nil || r.Block().Comment == "recover" || len(r.Results) != 2 {
				continue
			}
			e := pi.resolve(rvalG4{retVal(r, 1), nil})
			if !isNilConst(e.v) && !pi.holds(eqKeyG4(pi.key(e), "c:nil"), true, -1) {
				continue
			}
			if agg[r] == nil {
				agg[r] = &retAgg{ok: true}
				order = append(order, r)
			}
			res := pi.resolve(rvalG4{retVal(r, 0), nil})
			ran := false
			for _, k := range pi.calls {
				ran = ran || k.v == ssa.Value(pcall)
			}
			if res.v != ssa.Value(pcall) || !ran {
				agg[r].ok = false
				agg[r].detail = "got " + descG4(res)
			}
		}
		for _, r := range order {
			c.Check("C44.reject.nil_error_only_with_result", "paginate: return with nil error carries paginate2's result", agg[r].ok, p.Pos(posOf(r, pg)), agg[r].detail)
		}
	}

	// ---- (3) intervals per released int width
	archs := []string{"amd64", "arm64", "arm"}
	_, pesc := callSitesOf(p, pg)
	// The callers of paginate are its LOGICAL call sites: a call written in a
	// new forwarding helper (`func (a *API) paginateQuery(ctx, itemsPtr any)`)
	// counts once per call site of the helper, with the helper's parameters
	// standing for that site's arguments.
	psites := ctxSitesOfG4(p, pg)
	// Len() of a slice with elements of size s is at most maxInt/s: the
	// smallest element size over all callers bounds paginate2's Len.
	minElemSize := func(sz types.Sizes) int64 {
		m := int64(-1)
		for _, s := range psites {
			cc := callCommon(s.call)
			if cc == nil || len(cc.Args) == 0 {
				return 1
			}
			pt, ok := peelG4(rvalG4{cc.Args[0], s.env}).v.Type().Underlying().(*types.Pointer)
			if !ok {
				return 1
			}
			sl, ok := pt.Elem().Underlying().(*types.Slice)
			if !ok {
				return 1
			}
			es := sz.Sizeof(sl.Elem())
			if es < 1 {
				es = 1
			}
			if m < 0 || es < m {
				m = es
			}
		}
		if m < 1 {
			m = 1
		}
		return m
	}
	seenW := map[int]bool{}
	// the reflect calls of paginate2, in paginate2 itself or in a new helper
	// extracted from it (then with the call sites they are interpreted for)
	var lenCall, sliceCall, setCall *ssa.Call
	var lenEnv, sliceEnv, setEnv *envG4
	eachInstrCtxG4(p2, nil, func(i ssa.Instruction, env *envG4) {
		if cl, ok := i.(*ssa.Call); ok {
			switch calleeName(&cl.Call) {
			case "(reflect.Value).Len":
				lenCall, lenEnv = cl, env
			case "(reflect.Value).Slice":
				sliceCall, sliceEnv = cl, env
			case "(reflect.Value).Set":
				setCall, setEnv = cl, env
			}
		}
	})
	if lenCall == nil || sliceCall == nil || setCall == nil {
		c.Undecided("UNRESOLVED ANCHOR paginate2: reflect Len/Slice/Set calls")
		return
	}
	var seedIPP, seedPage ival
	for _, arch := range archs {
		sz := types.SizesFor("gc", arch)
		if sz == nil {
			c.Undecided("no sizes for " + arch)
			continue
		}
		W := int(sz.Sizeof(types.Typ[types.Int])) * 8
		if seenW[W] {
			continue
		}
		seenW[W] = true
		wname := fmt.Sprintf("int%d", W)
		// caller side: ranges of the two arguments
		// Evaluated on every feasible path that executes the call and joined: a
		// ParseUint(_, _, b)#0 is in [0, 2^b-1], and in [1, 2^b-1] on a path that
		// tested it non-zero before the call; every conversion on the way (in
		// paginate or in a new helper it calls) must stay inside its type.
		type ovObl struct {
			ok          bool
			pos, detail string
		}
		ovs := map[string]*ovObl{}
		var ovOrder []string
		note := func(env *envG4, v ssa.Value, ok bool, detail string) {
			key := fnName(pg) + ": " + descG4(rvalG4{v, env}) + " stays within " + typeStr(v.Type()) + " (" + wname + ")"
			o := ovs[key]
			if o == nil {
				o = &ovObl{ok: true, pos: p.Pos(posOf(v.(ssa.Instruction), pg))}
				ovs[key] = o
				ovOrder = append(ovOrder, key)
			}
			if !ok || o.detail == "" {
				o.detail = detail
			}
			o.ok = o.ok && ok
		}
		mkPg := func(env *envG4, ops map[ssa.Value]ival) *ivEval {
			return &ivEval{intBits: W, env: ops,
				overflow: func(v ssa.Value, exact, typ ival) {
					note(env, v, false, "exact range "+exact.String()+" exceeds "+typ.String())
				},
				fits: func(v ssa.Value, exact, typ ival) { note(env, v, true, "range "+exact.String()) }}
		}
		var rIPP, rPage ival
		var unknown []rvalG4
		for _, ex := range execs {
			ex := ex
			seed := func(x rvalG4) (ival, bool) {
				_, bits, ok := asPU(ex.pi, x)
				if !ok || bits < 0 || bits > 64 {
					return ival{}, false
				}
				if bits == 0 {
					bits = int64(W) // strconv: bitSize 0 means int
				}
				hi := new(big.Int).Lsh(big.NewInt(1), uint(bits))
				hi.Sub(hi, big.NewInt(1))
				lo := big.NewInt(0)
				if ex.pi.nonZero(x, ex.idx) {
					lo = big.NewInt(1)
				}
				return ival{lo, hi}, true
			}
			a := ivOnPathG4(ex.pi, rvalG4{pcall.Call.Args[1], ex.env}, seed, mkPg, &unknown)
			b := ivOnPathG4(ex.pi, rvalG4{pcall.Call.Args[2], ex.env}, seed, mkPg, &unknown)
			if rIPP.lo == nil {
				rIPP, rPage = a, b
			} else {
				rIPP, rPage = ivUnion(rIPP, a), ivUnion(rPage, b)
			}
		}
		for _, k := range ovOrder {
			c.Check("C44.no_overflow."+wname, k, ovs[k].ok, ovs[k].pos, ovs[k].detail)
		}
		if len(unknown) > 0 {
			c.Undecided("paginate: argument of paginate2 has an unbounded component: " + descG4(unknown[0]))
		}
		seedIPP, seedPage = rIPP, rPage
		c.Check("C44.seed.range", "paginate: itemsPerPage passed to paginate2 is >= 1 ("+wname+")", rIPP.lo.Sign() > 0, p.Pos(pcall.Pos()), "range "+rIPP.String())
		c.Check("C44.seed.range", "paginate: page passed to paginate2 is >= 0 ("+wname+")", rPage.lo.Sign() >= 0, p.Pos(pcall.Pos()), "range "+rPage.String())

		// callee side
		maxInt, _ := intRange(types.Typ[types.Int], W)
		// Every integer +,-,* (and the conversions under them) of paginate2 and of
		// the new helpers it calls, each helper parameter standing for the
		// argument of the call site it is evaluated for.
		lenIv := ival{big.NewInt(0), new(big.Int).Quo(maxInt.hi, big.NewInt(minElemSize(sz)))}
		seed2 := func(x rvalG4) (ival, bool) {
			switch x.v {
			case ssa.Value(p2.Params[1]):
				return rIPP, true
			case ssa.Value(p2.Params[2]):
				return rPage, true
			case ssa.Value(lenCall):
				return lenIv, true
			}
			return ival{}, false
		}
		mk2 := func(env *envG4, ops map[ssa.Value]ival) *ivEval {
			key := func(v ssa.Value) string {
				return fnName(p2) + ": " + descG4(rvalG4{v, env}) + " stays within " + typeStr(v.Type()) + " (" + wname + ")"
			}
			return &ivEval{intBits: W, env: ops,
				overflow: func(v ssa.Value, exact, typ ival) {
					c.Check("C44.no_overflow."+wname, key(v), false, p.Pos(posOf(v.(ssa.Instruction), p2)), "exact range "+exact.String()+" exceeds "+typ.String())
				},
				fits: func(v ssa.Value, exact, typ ival) {
					c.Check("C44.no_overflow."+wname, key(v), true, p.Pos(posOf(v.(ssa.Instruction), p2)), "range "+exact.String())
				}}
		}
		memo2 := map[string]*ival{}
		var unknown2 []rvalG4
		eachInstrCtxG4(p2, nil, func(i ssa.Instruction, env *envG4) {
			b, ok := i.(*ssa.BinOp)
			if !ok {
				return
			}
			if _, isInt := intRange(b.Type(), W); !isInt {
				return
			}
			switch b.Op {
			case token.ADD, token.SUB, token.MUL:
				ivStaticG4(rvalG4{b, env}, seed2, mk2, memo2, &unknown2)
			case token.QUO, token.REM:
				d := ivStaticG4(rvalG4{b.Y, env}, seed2, mk2, memo2, &unknown2)
				c.Check("C44.divisor_nonzero", fnName(p2)+": divisor of "+descG4(rvalG4{b, env})+" excludes 0 ("+wname+")", !d.contains(0), p.Pos(b.Pos()), "divisor range "+d.String())
			}
		})
	}

	// ---- (4) shape of the slice
	// Values are compared after peeling (prop_gen_c42.go): conversions, named
	// locals, parameters of new helpers (-> the argument of their call) and
	// results of new helpers (-> the value they return). Lossless
	// widening/narrowing conversions around the operands (the bound arithmetic
	// may be done in int64) are transparent for the shape; their ranges are
	// decided by the interval rules above.
	pv := func(v ssa.Value, env *envG4) rvalG4 { return peelG4(rvalG4{v, env}) }
	recv := pv(lenCall.Call.Args[0], lenEnv)
	c.Check("C44.slice.recv", "paginate2: Len, Slice and Set act on the same reflect value, Set stores the Slice result",
		sameG4(pv(sliceCall.Call.Args[0], sliceEnv), recv) && sameG4(pv(setCall.Call.Args[0], setEnv), recv) && pv(setCall.Call.Args[1], setEnv).v == ssa.Value(sliceCall), p.Pos(sliceCall.Pos()), "")
	c.Check("C44.slice.recv", "paginate2: the reflect value is Elem(ValueOf(items pointer parameter))",
		descG4(recv) == "(reflect.Value).Elem(reflect.ValueOf($0))", p.Pos(sliceCall.Pos()), descG4(recv))
	ipp, page := ssa.Value(p2.Params[1]), ssa.Value(p2.Params[2])
	isV := func(w ssa.Value) func(rvalG4) bool { return func(x rvalG4) bool { return peelG4(x).v == w } }
	minWithLen := func(x rvalG4) (rvalG4, bool) { // min(X, L) -> X
		x = peelG4(x)
		cl, ok := x.v.(*ssa.Call)
		if !ok {
			return x, false
		}
		bi, ok := cl.Call.Value.(*ssa.Builtin)
		if !ok || bi.Name() != "min" || len(cl.Call.Args) != 2 {
			return x, false
		}
		a0, a1 := pv(cl.Call.Args[0], x.env), pv(cl.Call.Args[1], x.env)
		if a1.v == ssa.Value(lenCall) {
			return a0, true
		}
		if a0.v == ssa.Value(lenCall) {
			return a1, true
		}
		return x, false
	}
	isMul := func(x rvalG4, a, b func(rvalG4) bool) bool {
		x = peelG4(x)
		m, ok := x.v.(*ssa.BinOp)
		if !ok || m.Op != token.MUL {
			return false
		}
		mx, my := rvalG4{m.X, x.env}, rvalG4{m.Y, x.env}
		return (a(mx) && b(my)) || (a(my) && b(mx))
	}
	oneG := func(x rvalG4) bool { n, ok := constBig(peelG4(x).v); return ok && n.Cmp(big.NewInt(1)) == 0 }
	isPagePlus1 := func(x rvalG4) bool {
		x = peelG4(x)
		a, ok := x.v.(*ssa.BinOp)
		if !ok || a.Op != token.ADD {
			return false
		}
		ax, ay := rvalG4{a.X, x.env}, rvalG4{a.Y, x.env}
		return (isV(page)(ax) && oneG(ay)) || (isV(page)(ay) && oneG(ax))
	}
	lo, loIs := minWithLen(rvalG4{sliceCall.Call.Args[1], sliceEnv})
	hi, hiIs := minWithLen(rvalG4{sliceCall.Call.Args[2], sliceEnv})
	loOK := loIs && isMul(lo, isV(page), isV(ipp))
	c.Check("C44.slice.lower", "paginate2: Slice lower bound is min(page*itemsPerPage, Len)", loOK, p.Pos(sliceCall.Pos()), "got "+descG4(rvalG4{sliceCall.Call.Args[1], sliceEnv}))
	hiOK := false
	if hiIs {
		if isMul(hi, isPagePlus1, isV(ipp)) {
			hiOK = true
		} else if a, ok := hi.v.(*ssa.BinOp); ok && a.Op == token.ADD {
			pq := func(x rvalG4) bool { return isMul(x, isV(page), isV(ipp)) }
			ax, ay := rvalG4{a.X, hi.env}, rvalG4{a.Y, hi.env}
			hiOK = (pq(ax) && isV(ipp)(ay)) || (pq(ay) && isV(ipp)(ax))
			// lower + ipp with the clamped lower bound itself, lower = min(page*ipp, L)
			// (C44.slice.lower): if page*ipp <= L this is page*ipp+ipp; otherwise
			// lower = L and min(L+ipp, L) = L = min((page+1)*ipp, L) because ipp >= 1
			// (C44.slice.nonneg). The sum's range is decided by the interval rule.
			if !hiOK && loOK {
				lowArg := pv(sliceCall.Call.Args[1], sliceEnv)
				isLow := func(x rvalG4) bool { y := peelG4(x); return y.v == lowArg.v && sameG4(y, lowArg) }
				hiOK = (isLow(ax) && isV(ipp)(ay)) || (isLow(ay) && isV(ipp)(ax))
			}
		}
	}
	c.Check("C44.slice.upper", "paginate2: Slice upper bound is min((page+1)*itemsPerPage, Len)", hiOK, p.Pos(sliceCall.Pos()), "got "+descG4(rvalG4{sliceCall.Call.Args[2], sliceEnv}))
	if seedIPP.lo != nil {
		c.Check("C44.slice.nonneg", "paginate2: page >= 0 and itemsPerPage >= 1 at the Slice (so lower <= upper and both in [0, Len] absent overflow)",
			seedPage.lo.Sign() >= 0 && seedIPP.lo.Sign() > 0, p.Pos(sliceCall.Pos()), "page "+seedPage.String()+" itemsPerPage "+seedIPP.String())
	}

	// ---- (5) page count
	L := ssa.Value(lenCall)
	// Len/ipp over the very Len() result and the page-size parameter, wherever
	// the division is written (paginate2 or a new helper it hands them to).
	// No conversion may sit between: peelInt only follows names and helpers.
	peelInt := func(x rvalG4) rvalG4 {
		for n := 0; n < 64; n++ {
			if ct, ok := x.v.(*ssa.ChangeType); ok {
				x.v = ct.X
				continue
			}
			y, ok := stepG4(x)
			if !ok {
				break
			}
			x = y
		}
		return x
	}
	isQuo := func(x rvalG4) bool {
		x = peelInt(x)
		b, ok := x.v.(*ssa.BinOp)
		return ok && b.Op == token.QUO && peelInt(rvalG4{b.X, x.env}).v == L && peelInt(rvalG4{b.Y, x.env}).v == ipp
	}
	isQuoPlus1 := func(x rvalG4) bool {
		x = peelInt(x)
		a, ok := x.v.(*ssa.BinOp)
		if !ok || a.Op != token.ADD {
			return false
		}
		n, isC := constBig(peelInt(rvalG4{a.Y, x.env}).v)
		return isC && n.Cmp(big.NewInt(1)) == 0 && isQuo(rvalG4{a.X, x.env})
	}
	remD := "(" + desc(L) + " % " + desc(ipp) + ")"
	remAtom := "(" + remD + " == 0)"
	// the remainder of a non-negative dividend (Len() >= 0) is non-negative:
	// rem != 0, rem > 0 and rem >= 1 are the same test
	remNonZero := func(l Lit) bool {
		return (!l.Pos && atomMatch(remAtom, l.Atom)) || (l.Pos && l.Atom == "(0 < "+remD+")") || (!l.Pos && l.Atom == "("+remD+" < 1)")
	}
	emptyAtom := "(" + desc(L) + " == 0)"
	// The computed page count may be selected by a phi (`n++` under a test), by
	// several returns (`if rem != 0 { return q + 1 }; return q`), in paginate2 or
	// in a new helper it calls: every alternative is a leaf with the branch
	// literal it is selected under.
	type pcLeaf struct {
		v   rvalG4
		lit Lit
		has bool
	}
	closestGuard := func(b *ssa.BasicBlock) (Lit, bool) {
		if gs := guardsOfBlock(b); len(gs) > 0 {
			return gs[0].Lit, true
		}
		return Lit{}, false
	}
	var leaves func(x rvalG4, lit Lit, has bool, d int) []pcLeaf
	leaves = func(x rvalG4, lit Lit, has bool, d int) []pcLeaf {
		x = peelInt(x)
		if d < 4 {
			if ph, ok := x.v.(*ssa.Phi); ok && len(ph.Edges) == 2 {
				var out []pcLeaf
				for k, e := range ph.Edges {
					pred := ph.Block().Preds[k]
					l, h := edgeLit(pred, ph.Block())
					if !h && len(pred.Preds) == 1 {
						l, h = edgeLit(pred.Preds[0], pred)
					}
					out = append(out, leaves(rvalG4{e, x.env}, l, h, d+1)...)
				}
				return out
			}
			if cl, ok := x.v.(*ssa.Call); ok {
				if h := newHelperCallee(cl); h != nil && h.Signature.Results().Len() == 1 {
					if rs := helperReturnsG4(h); len(rs) >= 2 {
						var out []pcLeaf
						for _, ret := range rs {
							l, hh := closestGuard(ret.Block())
							out = append(out, leaves(rvalG4{retVal(ret, 0), &envG4{h, cl, x.env}}, l, hh, d+1)...)
						}
						return out
					}
				}
			}
		}
		return []pcLeaf{{x, lit, has}}
	}
	nRet := 0
	var computed []*ssa.Return
	var all []pcLeaf
	for _, r := range returnsOf(p2) {
		if r.Block().Comment == "recover" || len(r.Results) != 1 {
			continue
		}
		nRet++
		v := retVal(r, 0)
		if n, isC := constBig(v); isC {
			rr := r
			ok := n.Sign() == 0 && mustPassPred(p2, func(i ssa.Instruction) bool { return i == ssa.Instruction(rr) }, func(l Lit) bool { return l.Pos && atomMatch(emptyAtom, l.Atom) }) == nil
			c.Check("C44.page_count", "paginate2: constant page count is 0 and returned only for the empty list", ok, p.Pos(posOf(r, p2)), "return "+desc(v))
			continue
		}
		computed = append(computed, r)
		l, h := closestGuard(r.Block())
		all = append(all, leaves(rvalG4{v, nil}, l, h, 0)...)
	}
	if len(computed) > 0 {
		okAll := len(all) == 2
		detail := ""
		sawPlus, sawPlain := false, false
		for _, lf := range all {
			switch {
			case isQuoPlus1(lf.v):
				sawPlus = true
				if !(lf.has && remNonZero(lf.lit)) {
					okAll = false
					detail += "Len/ipp+1 selected under " + lf.lit.String() + "; "
				}
			case isQuo(lf.v):
				sawPlain = true
				if !(lf.has && remNonZero(Lit{lf.lit.Atom, !lf.lit.Pos})) {
					okAll = false
					detail += "Len/ipp selected under " + lf.lit.String() + "; "
				}
			default:
				okAll = false
				detail += "unrecognised alternative " + descG4(lf.v) + "; "
			}
		}
		c.Check("C44.page_count", "paginate2: page count is Len/ipp, +1 iff Len%ipp != 0", okAll && sawPlus && sawPlain, p.Pos(posOf(computed[0], p2)), detail)
		// the non-empty result is returned only for a non-empty list
		c.checkMustPassPred(p, p2, "C44.page_count", "paginate2: Slice/Set and the computed page count only for a non-empty list",
			func(i ssa.Instruction) bool {
				for _, rr := range computed {
					if i == ssa.Instruction(rr) {
						return true
					}
				}
				return i == ssa.Instruction(sliceCall)
			},
			func(l Lit) bool { return !l.Pos && atomMatch(emptyAtom, l.Atom) })
	}
	c.Floor("C44.page_count", nRet, 2)

	// ---- (6) callers of paginate
	c.Check("C44.caller.static", "paginate: never used as a function value", len(pesc) == 0, p.Pos(pg.Pos()), "")
	for _, s := range psites {
		fn := s.root
		c.Analysed(fnName(fn))
		cl, ok := s.call.(*ssa.Call)
		if !ok {
			c.Check("C44.caller.static", fnName(fn)+": paginate is called synchronously", false, p.Pos(s.call.Pos()), "go/defer call")
			continue
		}
		a0 := peelG4(rvalG4{cl.Call.Args[0], s.env}).v
		isPS := false
		if pt, ok := a0.Type().Underlying().(*types.Pointer); ok {
			_, isPS = pt.Elem().Underlying().(*types.Slice)
		}
		c.Check("C44.caller.ptr_to_slice", fnName(fn)+": paginate receives a pointer to a slice", isPS, p.Pos(cl.Pos()), typeStr(a0.Type()))
		// the error is described for this logical site: the handler's test of the
		// error a forwarding helper hands back is a test of paginate's error
		errNil := "(" + descG4(rvalG4{cl, s.env}) + "#1 == nil)"
		// (RunG4: a helper that answers the error itself and hands back
		// (pageCount, ok) is followed with the `ok` it returned on each path)
		c.checkMustPassPredG4(p, fn, "C44.caller.reject", fnName(fn)+": (*gin.Context).JSON response only after paginate returned a nil error",
			callTo("(*github.com/gin-gonic/gin.Context).JSON"),
			func(l Lit) bool { return l.Pos && atomMatch(errNil, l.Atom) })
		// (7) the request parameter named itemsPerPage is the one that reaches
		// the page size (paginate's parameter that C44.seed.arg_source ties to
		// paginate2's divisor / slice stride), the one named page reaches the
		// page index. Both are plain strings: only the data flow tells them apart.
		for k, ai := range args {
			if k+1 >= len(cl.Call.Args) {
				continue
			}
			keys, ok := queryKeysR3c44(peelG4(rvalG4{cl.Call.Args[k+1], s.env}).v, 0)
			good := ok && len(keys) > 0
			for _, q := range keys {
				if q != ai.name {
					good = false
				}
			}
			c.Check("C44.caller.query_role", fmt.Sprintf("%s: paginate argument %d (%s) is the request's query parameter %q", fnName(fn), k+1, ai.name, ai.name),
				good, p.Pos(cl.Pos()), fmt.Sprintf("got %s (query parameters %q, resolved=%v): the value a client sends as %q must be the one parsed as %s", descG4(rvalG4{cl.Call.Args[k+1], s.env}), keys, ok, ai.name, ai.name))
		}
	}
	c.Floor("C44.caller.query_role", 2*len(psites), 30)
	c.Floor("C44.caller", len(psites), 15)
}
