package main

import (
	"fmt"
	"go/token"
	"go/types"
	"math/big"

	"golang.org/x/tools/go/ssa"
)

// C44 - API list pagination partitions results.

func init() {
	register(Property{ID: "C44", Level: "other", Run: runC44,
		Technique: "static analysis: must-pass-through path conditions on api.paginate, who-may-call of paginate2, interval propagation (seeded by the strconv.ParseUint bit size, the default constants and the zero rejection) through paginate2's bound arithmetic for each released int width, structural shape of the Slice bounds and of the page count (go/ssa)",
		Text:      "Decides: (1) api.paginate reaches paginate2 only when each supplied parameter parsed without error and itemsPerPage is non-zero, and returns a nil error only with paginate2's result; (2) paginate2 is called only from there, so its parameters range over itemsPerPage in [1, 2^31-1], page in [0, 2^31-1]; (3) for every released int width (64 bit: amd64/arm64, 32 bit: arm) every +,* of paginate2's bound arithmetic and every conversion in paginate stays inside its type, and every divisor excludes zero; (4) the slice set back is ritems.Slice(min(page*ipp, len), min((page+1)*ipp, len)) of the same reflect value whose Len was taken, with page>=0, ipp>=1 (which gives consecutive, at most ipp long, in-range, empty-past-the-end pages when (3) holds); (5) the page count is len/ipp, plus one exactly when len%ipp != 0, and 0 for the empty list; (6) every caller passes a pointer to a slice and writes its 200 response only after paginate returned a nil error; (7) every caller hands the request's query parameter named itemsPerPage to the paginate parameter that becomes the page size and the one named page to the one that becomes the page index (both are strings, only the data flow distinguishes them). Not decided: the concatenation identity as a value-level statement beyond these bounds; reflect's own behaviour.",
		Note:      "trusted: go/types+go/ssa, strconv.ParseUint's documented range for a bit size, reflect.Value.{Len,Slice,Set} semantics, types.SizesFor(gc, GOARCH) for the released architectures listed in scripts/binaries.mk"})
	addMutants(
		Mutant{"C44", "zero-items-per-page-accepted", "internal/api/paginate.go",
			"		if itemsPerPage == 0 {\n			return 0, fmt.Errorf(\"invalid items per page\")\n		}\n", "		_ = fmt.Errorf\n", "C44.reject.zero_items"},
		Mutant{"C44", "page-parse-error-ignored", "internal/api/paginate.go",
			"		tmp, err := strconv.ParseUint(pageStr, 10, 31)\n		if err != nil {\n			return 0, err\n		}\n", "		tmp, _ := strconv.ParseUint(pageStr, 10, 31)\n", "C44.reject.parse_error"},
		Mutant{"C44", "bitsize-63", "internal/api/paginate.go",
			"tmp, err := strconv.ParseUint(pageStr, 10, 31)", "tmp, err := strconv.ParseUint(pageStr, 10, 63)", "C44.no_overflow.int64"},
		Mutant{"C44", "upper-bound-off", "internal/api/paginate.go",
			"maxVal := int(min((int64(page)+1)*int64(itemsPerPage), int64(itemsLen)))", "maxVal := int(min(int64(page)*int64(itemsPerPage)+1, int64(itemsLen)))", "C44.slice.upper"},
		Mutant{"C44", "lower-bound-unclamped", "internal/api/paginate.go",
			"minVal := int(min(int64(page)*int64(itemsPerPage), int64(itemsLen)))", "minVal := page * itemsPerPage", "C44.slice.lower"},
		Mutant{"C44", "args-swapped", "internal/api/paginate.go",
			"return paginate2(itemsPtr, itemsPerPage, page), nil", "return paginate2(itemsPtr, page, itemsPerPage), nil", "C44."},
		// the pre-fix code: bounds computed in int overflow on the 32-bit releases
		Mutant{"C44", "bounds-in-int", "internal/api/paginate.go",
			"minVal := int(min(int64(page)*int64(itemsPerPage), int64(itemsLen)))", "minVal := min(page*itemsPerPage, itemsLen)", "C44.no_overflow.int32"},
		Mutant{"C44", "page-count-floor", "internal/api/paginate.go",
			"if (itemsLen % itemsPerPage) != 0 {", "if (itemsLen % itemsPerPage) == 0 {", "C44.page_count"},
		Mutant{"C44", "error-swallowed-in-handler", "internal/api/api_recordings.go",
			"	pageCount, err := paginate(&pathNames, ctx.Query(\"itemsPerPage\"), ctx.Query(\"page\"))\n	if err != nil {\n		a.writeError(ctx, http.StatusBadRequest, err)\n		return\n	}",
			"	pageCount, err := paginate(&pathNames, ctx.Query(\"itemsPerPage\"), ctx.Query(\"page\"))\n	if err != nil {\n		a.writeError(ctx, http.StatusBadRequest, err)\n	}", "C44.caller.reject"},
		Mutant{"C44", "parse-error-returns-nil", "internal/api/paginate.go",
			"		tmp, err := strconv.ParseUint(itemsPerPageStr, 10, 31)\n		if err != nil {\n			return 0, err\n		}", "		tmp, err := strconv.ParseUint(itemsPerPageStr, 10, 31)\n		if err != nil {\n			return 0, nil\n		}", "C44.reject.nil_error_only_with_result"},
		// round 3: one of the fifteen handlers hands the two query strings over in the wrong order / reads the same one twice
		Mutant{"C44", "handler-query-strings-swapped", "internal/api/api_recordings.go",
			"paginate(&pathNames, ctx.Query(\"itemsPerPage\"), ctx.Query(\"page\"))", "paginate(&pathNames, ctx.Query(\"page\"), ctx.Query(\"itemsPerPage\"))", "C44.caller.query_role"},
		Mutant{"C44", "handler-same-query-twice", "internal/api/api_srt.go",
			"paginate(&data.Items, ctx.Query(\"itemsPerPage\"), ctx.Query(\"page\"))", "paginate(&data.Items, ctx.Query(\"itemsPerPage\"), ctx.Query(\"itemsPerPage\"))", "C44.caller.query_role"},
	)
}

// parseUintEdge describes one non-constant source of a paginate2 argument:
// int(strconv.ParseUint(str, base, bits)#0).
type parseUintEdge struct {
	call    *ssa.Call
	extract ssa.Value
	strArg  ssa.Value
	bits    int64
}

func asParseUint(v ssa.Value) *parseUintEdge {
	ex, ok := stripConv(v).(*ssa.Extract)
	if !ok || ex.Index != 0 {
		return nil
	}
	call, ok := ex.Tuple.(*ssa.Call)
	if !ok || calleeName(&call.Call) != "strconv.ParseUint" || len(call.Call.Args) != 3 {
		return nil
	}
	b, ok := constBig(call.Call.Args[2])
	if !ok {
		return nil
	}
	return &parseUintEdge{call, ex, call.Call.Args[0], b.Int64()}
}

// queryKeysR3c44 resolves a string value to the names of the gin query
// parameters it is read from: (*gin.Context).Query(key), DefaultQuery(key, _),
// GetQuery(key)#0, through phis and through the parameters of new helpers
// (resolved at their call sites). ok is false when some source is anything else.
func queryKeysR3c44(v ssa.Value, depth int) (keys []string, ok bool) {
	if depth > 6 {
		return nil, false
	}
	v = stripConv(v)
	if u, isU := v.(*ssa.UnOp); isU && u.Op == token.MUL {
		if a, isA := u.X.(*ssa.Alloc); isA {
			if sv := singleStore(a); sv != nil {
				return queryKeysR3c44(sv, depth+1)
			}
		}
		return nil, false
	}
	switch x := v.(type) {
	case *ssa.Phi:
		ok = true
		for _, e := range x.Edges {
			ks, o := queryKeysR3c44(e, depth+1)
			keys = append(keys, ks...)
			ok = ok && o
		}
		return keys, ok
	case *ssa.Parameter:
		info := helperIdx[x.Parent()]
		k := paramIndex(x)
		if info == nil || k < 0 {
			return nil, false
		}
		ok = len(info.sites) > 0
		for _, site := range info.sites {
			if k >= len(site.Call.Args) {
				return nil, false
			}
			ks, o := queryKeysR3c44(site.Call.Args[k], depth+1)
			keys = append(keys, ks...)
			ok = ok && o
		}
		return keys, ok
	case *ssa.Extract:
		cl, isCall := x.Tuple.(*ssa.Call)
		if !isCall || x.Index != 0 || calleeName(&cl.Call) != "(*github.com/gin-gonic/gin.Context).GetQuery" || len(cl.Call.Args) != 2 {
			return nil, false
		}
		s, isS := constString(cl.Call.Args[1])
		return []string{s}, isS
	case *ssa.Call:
		switch calleeName(&x.Call) {
		case "(*github.com/gin-gonic/gin.Context).Query", "(*github.com/gin-gonic/gin.Context).DefaultQuery":
			if len(x.Call.Args) < 2 {
				return nil, false
			}
			s, isS := constString(x.Call.Args[1])
			return []string{s}, isS
		}
	}
	return nil, false
}

func phiEdges(v ssa.Value) []ssa.Value {
	if ph, ok := v.(*ssa.Phi); ok {
		return ph.Edges
	}
	return []ssa.Value{v}
}

func runC44(c *Ctx) {
	p := c.Main()
	if p == nil {
		return
	}
	c.Explain = "C44.reject.*: E1 must-pass on api.paginate (parse error / zero itemsPerPage never reach paginate2; nil error only with paginate2's result). " +
		"C44.seed.*: paginate2 has exactly one call site and is not used as a value, its arguments are int(ParseUint(itemsPerPageStr))|const and int(ParseUint(pageStr))|const. " +
		"C44.no_overflow / C44.divisor_nonzero: E8 interval propagation through every integer +,-,*,conversion,/,% of paginate and paginate2 for int = 64 and 32 bits. " +
		"C44.slice.*: the reflect Slice bounds are min(page*ipp, L), min((page+1)*ipp | page*ipp+ipp, L) with L = Len of the very value sliced and Set. " +
		"C44.page_count: L/ipp (+1 iff L%ipp != 0), 0 iff L == 0. C44.caller.*: 15 handlers pass &slice and answer 200 only after a nil error. C44.caller.query_role: at each of them paginate's itemsPerPage/page string arguments are (*gin.Context).Query/DefaultQuery/GetQuery of the constant keys itemsPerPage / page respectively (through locals, phis and new helpers). " +
		"Not decided: value-level concatenation identity, reflect internals."
	c.Assume = []string{
		"strconv.ParseUint(s, 10, b) returns a value in [0, 2^b-1] when err == nil",
		"reflect.Value.Slice(i, j) panics iff not 0 <= i <= j <= cap; Len() >= 0",
		"released int widths are those of types.SizesFor(gc, {amd64, arm64, arm}) (scripts/binaries.mk)",
	}

	pg := c.fn(p, "internal/api", "", "paginate")
	p2 := c.fn(p, "internal/api", "", "paginate2")
	if pg == nil || p2 == nil {
		return
	}
	if f := fileOfFunc(p, p2); f == nil || fileHasBuildConstraint(p, f) {
		c.Undecided("paginate.go carries a build constraint: the width table no longer applies")
		return
	}

	// ---- (2) only caller
	sites, escapes := callSitesOf(p, p2)
	c.Check("C44.seed.only_caller", "paginate2: single static call site in api.paginate, never used as a value",
		len(sites) == 1 && len(escapes) == 0 && sites[0].Parent() == pg, p.Pos(p2.Pos()), fmt.Sprintf("%d call sites, %d value uses", len(sites), len(escapes)))
	if len(sites) != 1 || sites[0].Parent() != pg {
		return
	}
	pcall := sites[0].(*ssa.Call)
	isPcall := func(i ssa.Instruction) bool { return i == ssa.Instruction(pcall) }
	if len(pcall.Call.Args) != 3 || len(pg.Params) != 3 || len(p2.Params) != 3 {
		c.Undecided("UNRESOLVED ANCHOR paginate/paginate2 arity")
		return
	}

	// ---- (1) argument sources and rejections
	type argInfo struct {
		name   string
		strPar *ssa.Parameter
		pus    []*parseUintEdge
		ok     bool
	}
	args := []*argInfo{{name: "itemsPerPage", strPar: pg.Params[1]}, {name: "page", strPar: pg.Params[2]}}
	for k, ai := range args {
		v := pcall.Call.Args[k+1]
		ai.ok = true
		nPU := 0
		for _, e := range phiEdges(v) {
			if _, isC := constBig(e); isC {
				continue
			}
			pu := asParseUint(e)
			if pu == nil || pu.strArg != ssa.Value(ai.strPar) {
				ai.ok = false
				continue
			}
			nPU++
			ai.pus = append(ai.pus, pu)
		}
		c.Check("C44.seed.arg_source", fmt.Sprintf("paginate: paginate2 argument %d (%s) is a constant or int(strconv.ParseUint($%d, _, const)#0)", k+1, ai.name, k+1),
			ai.ok && nPU >= 1, p.Pos(pcall.Pos()), "got "+desc(v))
		strEmpty := "(" + desc(ai.strPar) + ` == "")`
		for _, pu := range ai.pus {
			errNil := "(" + desc(pu.call) + "#1 == nil)"
			c.MustPass(p, pg, "C44.reject.parse_error", "call paginate2 ("+ai.name+")", isPcall, T(strEmpty), T(errNil))
			// a parsed value is used only when the string was supplied
			c.MustPass(p, pg, "C44.reject.parse_error", "call strconv.ParseUint ("+ai.name+")", func(i ssa.Instruction) bool { return i == ssa.Instruction(pu.call) }, F(strEmpty))
		}
	}
	zeroGuard := false
	if len(args[0].pus) == 1 {
		pu := args[0].pus[0]
		zeroGuard = c.MustPass(p, pg, "C44.reject.zero_items", "call paginate2", isPcall,
			T("("+desc(args[0].strPar)+` == "")`), F("("+desc(pu.extract)+" == 0)"))
	}
	for _, r := range returnsOf(pg) {
		if r.Block().Comment == "recover" || len(r.Results) != 2 {
			continue
		}
		if isNilConst(retVal(r, 1)) {
			c.Check("C44.reject.nil_error_only_with_result", "paginate: return with nil error carries paginate2's result", retVal(r, 0) == ssa.Value(pcall),
				p.Pos(posOf(r, pg)), "got "+desc(retVal(r, 0)))
		}
	}

	// ---- (3) intervals per released int width
	archs := []string{"amd64", "arm64", "arm"}
	psites, pesc := callSitesOf(p, pg)
	// Len() of a slice with elements of size s is at most maxInt/s: the
	// smallest element size over all callers bounds paginate2's Len.
	minElemSize := func(sz types.Sizes) int64 {
		m := int64(-1)
		for _, s := range psites {
			cc := callCommon(s)
			if cc == nil || len(cc.Args) == 0 {
				return 1
			}
			pt, ok := stripConv(cc.Args[0]).Type().Underlying().(*types.Pointer)
			if !ok {
				return 1
			}
			sl, ok := pt.Elem().Underlying().(*types.Slice)
			if !ok {
				return 1
			}
			es := sz.Sizeof(sl.Elem())
			if es < 1 {
				es = 1
			}
			if m < 0 || es < m {
				m = es
			}
		}
		if m < 1 {
			m = 1
		}
		return m
	}
	seenW := map[int]bool{}
	var lenCall, sliceCall, setCall *ssa.Call
	eachInstr(p2, func(i ssa.Instruction) {
		if cl, ok := i.(*ssa.Call); ok {
			switch calleeName(&cl.Call) {
			case "(reflect.Value).Len":
				lenCall = cl
			case "(reflect.Value).Slice":
				sliceCall = cl
			case "(reflect.Value).Set":
				setCall = cl
			}
		}
	})
	if lenCall == nil || sliceCall == nil || setCall == nil {
		c.Undecided("UNRESOLVED ANCHOR paginate2: reflect Len/Slice/Set calls")
		return
	}
	var seedIPP, seedPage ival
	for _, arch := range archs {
		sz := types.SizesFor("gc", arch)
		if sz == nil {
			c.Undecided("no sizes for " + arch)
			continue
		}
		W := int(sz.Sizeof(types.Typ[types.Int])) * 8
		if seenW[W] {
			continue
		}
		seenW[W] = true
		wname := fmt.Sprintf("int%d", W)
		mk := func(fn *ssa.Function, env map[ssa.Value]ival) *ivEval {
			return &ivEval{intBits: W, env: env,
				overflow: func(v ssa.Value, exact, typ ival) {
					c.Check("C44.no_overflow."+wname, fnName(fn)+": "+desc(v)+" stays within "+typeStr(v.Type())+" ("+wname+")", false, p.Pos(posOf(v.(ssa.Instruction), fn)),
						"exact range "+exact.String()+" exceeds "+typ.String())
				},
				fits: func(v ssa.Value, exact, typ ival) {
					c.Check("C44.no_overflow."+wname, fnName(fn)+": "+desc(v)+" stays within "+typeStr(v.Type())+" ("+wname+")", true, p.Pos(posOf(v.(ssa.Instruction), fn)), "range "+exact.String())
				}}
		}
		// caller side: ranges of the two arguments
		envPg := map[ssa.Value]ival{}
		for k, ai := range args {
			for _, pu := range ai.pus {
				hi := new(big.Int).Lsh(big.NewInt(1), uint(pu.bits))
				hi.Sub(hi, big.NewInt(1))
				lo := big.NewInt(0)
				if k == 0 && zeroGuard {
					lo = big.NewInt(1)
				}
				envPg[pu.extract] = ival{lo, hi}
			}
		}
		evPg := mk(pg, envPg)
		rIPP := evPg.eval(pcall.Call.Args[1])
		rPage := evPg.eval(pcall.Call.Args[2])
		if len(evPg.unknown) > 0 {
			c.Undecided("paginate: argument of paginate2 has an unbounded component: " + desc(evPg.unknown[0]))
		}
		seedIPP, seedPage = rIPP, rPage
		c.Check("C44.seed.range", "paginate: itemsPerPage passed to paginate2 is >= 1 ("+wname+")", rIPP.lo.Sign() > 0, p.Pos(pcall.Pos()), "range "+rIPP.String())
		c.Check("C44.seed.range", "paginate: page passed to paginate2 is >= 0 ("+wname+")", rPage.lo.Sign() >= 0, p.Pos(pcall.Pos()), "range "+rPage.String())

		// callee side
		maxInt, _ := intRange(types.Typ[types.Int], W)
		env2 := map[ssa.Value]ival{
			p2.Params[1]: rIPP,
			p2.Params[2]: rPage,
			lenCall:      {big.NewInt(0), new(big.Int).Quo(maxInt.hi, big.NewInt(minElemSize(sz)))},
		}
		ev2 := mk(p2, env2)
		eachInstr(p2, func(i ssa.Instruction) {
			b, ok := i.(*ssa.BinOp)
			if !ok {
				return
			}
			if _, isInt := intRange(b.Type(), W); !isInt {
				return
			}
			switch b.Op {
			case token.ADD, token.SUB, token.MUL:
				ev2.eval(b)
			case token.QUO, token.REM:
				d := ev2.eval(b.Y)
				c.Check("C44.divisor_nonzero", fnName(p2)+": divisor of "+desc(b)+" excludes 0 ("+wname+")", !d.contains(0), p.Pos(b.Pos()), "divisor range "+d.String())
			}
		})
	}

	// ---- (4) shape of the slice
	recv := lenCall.Call.Args[0]
	c.Check("C44.slice.recv", "paginate2: Len, Slice and Set act on the same reflect value, Set stores the Slice result",
		sliceCall.Call.Args[0] == recv && setCall.Call.Args[0] == recv && setCall.Call.Args[1] == ssa.Value(sliceCall), p.Pos(sliceCall.Pos()), "")
	c.Check("C44.slice.recv", "paginate2: the reflect value is Elem(ValueOf(items pointer parameter))",
		desc(recv) == "(reflect.Value).Elem(reflect.ValueOf($0))", p.Pos(sliceCall.Pos()), desc(recv))
	ipp, page := ssa.Value(p2.Params[1]), ssa.Value(p2.Params[2])
	// lossless widening/narrowing conversions around the operands (the bound
	// arithmetic may be done in int64) are transparent for the shape; their
	// ranges are decided by the interval rules above.
	minWithLen := func(v ssa.Value) ssa.Value { // min(X, L) -> X
		cl, ok := stripConv(v).(*ssa.Call)
		if !ok {
			return nil
		}
		bi, ok := cl.Call.Value.(*ssa.Builtin)
		if !ok || bi.Name() != "min" || len(cl.Call.Args) != 2 {
			return nil
		}
		if stripConv(cl.Call.Args[1]) == ssa.Value(lenCall) {
			return stripConv(cl.Call.Args[0])
		}
		if stripConv(cl.Call.Args[0]) == ssa.Value(lenCall) {
			return stripConv(cl.Call.Args[1])
		}
		return nil
	}
	isMul := func(v ssa.Value, a, b func(ssa.Value) bool) bool {
		m, ok := stripConv(v).(*ssa.BinOp)
		return ok && m.Op == token.MUL && ((a(m.X) && b(m.Y)) || (a(m.Y) && b(m.X)))
	}
	is := func(w ssa.Value) func(ssa.Value) bool { return func(v ssa.Value) bool { return stripConv(v) == w } }
	isPagePlus1 := func(v ssa.Value) bool {
		a, ok := stripConv(v).(*ssa.BinOp)
		if !ok || a.Op != token.ADD {
			return false
		}
		one := func(x ssa.Value) bool { n, ok := constBig(x); return ok && n.Cmp(big.NewInt(1)) == 0 }
		return (stripConv(a.X) == page && one(a.Y)) || (stripConv(a.Y) == page && one(a.X))
	}
	lo, hi := minWithLen(sliceCall.Call.Args[1]), minWithLen(sliceCall.Call.Args[2])
	loOK := lo != nil && isMul(lo, is(page), is(ipp))
	c.Check("C44.slice.lower", "paginate2: Slice lower bound is min(page*itemsPerPage, Len)", loOK, p.Pos(sliceCall.Pos()), "got "+desc(sliceCall.Call.Args[1]))
	hiOK := false
	if hi != nil {
		if isMul(hi, isPagePlus1, is(ipp)) {
			hiOK = true
		} else if a, ok := stripConv(hi).(*ssa.BinOp); ok && a.Op == token.ADD {
			pq := func(v ssa.Value) bool { return isMul(v, is(page), is(ipp)) }
			hiOK = (pq(a.X) && stripConv(a.Y) == ipp) || (pq(a.Y) && stripConv(a.X) == ipp)
		}
	}
	c.Check("C44.slice.upper", "paginate2: Slice upper bound is min((page+1)*itemsPerPage, Len)", hiOK, p.Pos(sliceCall.Pos()), "got "+desc(sliceCall.Call.Args[2]))
	if seedIPP.lo != nil {
		c.Check("C44.slice.nonneg", "paginate2: page >= 0 and itemsPerPage >= 1 at the Slice (so lower <= upper and both in [0, Len] absent overflow)",
			seedPage.lo.Sign() >= 0 && seedIPP.lo.Sign() > 0, p.Pos(sliceCall.Pos()), "page "+seedPage.String()+" itemsPerPage "+seedIPP.String())
	}

	// ---- (5) page count
	L := ssa.Value(lenCall)
	isQuo := func(v ssa.Value) bool {
		b, ok := v.(*ssa.BinOp)
		return ok && b.Op == token.QUO && b.X == L && b.Y == ipp
	}
	isQuoPlus1 := func(v ssa.Value) bool {
		a, ok := v.(*ssa.BinOp)
		if !ok || a.Op != token.ADD {
			return false
		}
		n, isC := constBig(a.Y)
		return isC && n.Cmp(big.NewInt(1)) == 0 && isQuo(a.X)
	}
	remD := "(" + desc(L) + " % " + desc(ipp) + ")"
	remAtom := "(" + remD + " == 0)"
	// the remainder of a non-negative dividend (Len() >= 0) is non-negative:
	// rem != 0, rem > 0 and rem >= 1 are the same test
	remNonZero := func(l Lit) bool {
		return (!l.Pos && atomMatch(remAtom, l.Atom)) || (l.Pos && l.Atom == "(0 < "+remD+")") || (!l.Pos && l.Atom == "("+remD+" < 1)")
	}
	emptyAtom := "(" + desc(L) + " == 0)"
	nRet := 0
	for _, r := range returnsOf(p2) {
		if r.Block().Comment == "recover" || len(r.Results) != 1 {
			continue
		}
		nRet++
		v := retVal(r, 0)
		if n, isC := constBig(v); isC {
			rr := r
			ok := n.Sign() == 0 && mustPassPred(p2, func(i ssa.Instruction) bool { return i == ssa.Instruction(rr) }, func(l Lit) bool { return l.Pos && atomMatch(emptyAtom, l.Atom) }) == nil
			c.Check("C44.page_count", "paginate2: constant page count is 0 and returned only for the empty list", ok, p.Pos(posOf(r, p2)), "return "+desc(v))
			continue
		}
		ph, isPhi := v.(*ssa.Phi)
		if !isPhi {
			c.Check("C44.page_count", "paginate2: page count is Len/ipp, +1 iff Len%ipp != 0", false, p.Pos(posOf(r, p2)), "unrecognised shape "+desc(v))
			continue
		}
		okAll := len(ph.Edges) == 2
		detail := ""
		sawPlus, sawPlain := false, false
		for k, e := range ph.Edges {
			pred := ph.Block().Preds[k]
			lit, has := edgeLit(pred, ph.Block())
			if !has && len(pred.Preds) == 1 {
				lit, has = edgeLit(pred.Preds[0], pred)
			}
			switch {
			case isQuoPlus1(e):
				sawPlus = true
				if !(has && remNonZero(lit)) {
					okAll = false
					detail += "Len/ipp+1 selected under " + lit.String() + "; "
				}
			case isQuo(e):
				sawPlain = true
				if !(has && remNonZero(Lit{lit.Atom, !lit.Pos})) {
					okAll = false
					detail += "Len/ipp selected under " + lit.String() + "; "
				}
			default:
				okAll = false
				detail += "unrecognised edge " + desc(e) + "; "
			}
		}
		c.Check("C44.page_count", "paginate2: page count is Len/ipp, +1 iff Len%ipp != 0", okAll && sawPlus && sawPlain, p.Pos(posOf(r, p2)), detail)
		// the non-empty result is returned only for a non-empty list
		rr := r
		c.checkMustPassPred(p, p2, "C44.page_count", "paginate2: Slice/Set and the computed page count only for a non-empty list",
			func(i ssa.Instruction) bool { return i == ssa.Instruction(rr) || i == ssa.Instruction(sliceCall) },
			func(l Lit) bool { return !l.Pos && atomMatch(emptyAtom, l.Atom) })
	}
	c.Floor("C44.page_count", nRet, 2)

	// ---- (6) callers of paginate
	c.Check("C44.caller.static", "paginate: never used as a function value", len(pesc) == 0, p.Pos(pg.Pos()), "")
	for _, s := range psites {
		fn := s.Parent()
		c.Analysed(fnName(fn))
		cl, ok := s.(*ssa.Call)
		if !ok {
			c.Check("C44.caller.static", fnName(fn)+": paginate is called synchronously", false, p.Pos(s.Pos()), "go/defer call")
			continue
		}
		a0 := stripConv(cl.Call.Args[0])
		isPS := false
		if pt, ok := a0.Type().Underlying().(*types.Pointer); ok {
			_, isPS = pt.Elem().Underlying().(*types.Slice)
		}
		c.Check("C44.caller.ptr_to_slice", fnName(fn)+": paginate receives a pointer to a slice", isPS, p.Pos(cl.Pos()), typeStr(a0.Type()))
		errNil := "(" + desc(cl) + "#1 == nil)"
		c.checkMustPassPred(p, fn, "C44.caller.reject", fnName(fn)+": (*gin.Context).JSON response only after paginate returned a nil error",
			callTo("(*github.com/gin-gonic/gin.Context).JSON"),
			func(l Lit) bool { return l.Pos && atomMatch(errNil, l.Atom) })
		// (7) the request parameter named itemsPerPage is the one that reaches
		// the page size (paginate's parameter that C44.seed.arg_source ties to
		// paginate2's divisor / slice stride), the one named page reaches the
		// page index. Both are plain strings: only the data flow tells them apart.
		for k, ai := range args {
			if k+1 >= len(cl.Call.Args) {
				continue
			}
			keys, ok := queryKeysR3c44(cl.Call.Args[k+1], 0)
			good := ok && len(keys) > 0
			for _, q := range keys {
				if q != ai.name {
					good = false
				}
			}
			c.Check("C44.caller.query_role", fmt.Sprintf("%s: paginate argument %d (%s) is the request's query parameter %q", fnName(fn), k+1, ai.name, ai.name),
				good, p.Pos(cl.Pos()), fmt.Sprintf("got %s (query parameters %q, resolved=%v): the value a client sends as %q must be the one parsed as %s", desc(cl.Call.Args[k+1]), keys, ok, ai.name, ai.name))
		}
	}
	c.Floor("C44.caller.query_role", 2*len(psites), 30)
	c.Floor("C44.caller", len(psites), 15)
}
