package main

import (
	"sort"
	"strings"

	"golang.org/x/tools/go/ssa"
)

// C41 (round 4) - the fingerprint a connection is pinned to is the CONFIGURED
// one, also after a hot reload.
//
// tls.MakeConfig is exact with respect to the string it is handed. A long-lived
// component does not read that string from the configuration at dial time: it
// is copied once, at creation - conf.<F> -> literal of the component in
// Core.createResources -> component field -> MakeConfig(component.field) at
// every dial (C41.callers.arg). A reload replaces the configuration but keeps a
// component unless Core.closeResources decides to drop it (createResources then
// builds it again from the new configuration). Hence, for every component field
// whose name ends in "Fingerprint" and that is loaded from conf field F, the
// decision to drop that component must depend on a comparison of F between the
// new and the current configuration - otherwise a reload that changes only F
// (pin rotation, pin revoked because the key leaked) keeps pinning the OLD
// certificate: the connection succeeds against a certificate whose SHA-256 is
// not the configured fingerprint.
//
// Roles, on SSA (the machinery is the one of C05.config.reload, prop_r3_c05.go):
//   - component  = a struct allocated in createResources, stored into a field of
//     Core, with a field *Fingerprint loaded from a conf.Conf field F;
//   - drop site  = in closeResources, a call of a method Close on that Core field
//     or a store of nil into it;
//   - the conditions dominating the drop site, expanded through boolean phis
//     (|| / && chains, or-ed close flags), flags kept in locals, negations and
//     calls of module predicates (an extracted `authManagerConfChanged(new, cur)`
//     is looked into, including the guards of each of its returns), must contain
//     `F of one configuration compared with F of another` (==, !=, DeepEqual).
// Comparing a parameter only when its authentication method is in use is
// accepted (the comparison is still among the leaves).

type c41PinnedR4 struct {
	coreField string
	typ       string
	field     string // component field (..Fingerprint)
	confField string
	store     *ssa.Store
}

func (c *Ctx) c41ReloadR4(p *Prog) {
	cr := c.fn(p, "internal/core", "Core", "createResources")
	cl := c.fn(p, "internal/core", "Core", "closeResources")
	if cr == nil || cl == nil {
		return
	}
	const rule = "C41.reload"
	var comps []c41PinnedR4
	eachInstr(cr, func(i ssa.Instruction) {
		st, ok := i.(*ssa.Store)
		if !ok {
			return
		}
		fa, ok := st.Addr.(*ssa.FieldAddr)
		if !ok || !strings.HasSuffix(fieldAddrName(fa), "Fingerprint") {
			return
		}
		cm := c41PinnedR4{store: st, field: fieldAddrName(fa), typ: strings.TrimPrefix(typeStr(fa.X.Type()), "*")}
		if f, _, ok := c05ConfFieldLoad(st.Val); ok {
			cm.confField = f
		}
		eachInstr(cr, func(j ssa.Instruction) {
			st2, ok := j.(*ssa.Store)
			if !ok || stripConv(st2.Val) != fa.X {
				return
			}
			if fa2, ok := st2.Addr.(*ssa.FieldAddr); ok && fieldAddrIs(fa2, "core.Core", fieldAddrName(fa2)) {
				cm.coreField = fieldAddrName(fa2)
			}
		})
		comps = append(comps, cm)
	})
	c.Floor(rule+".components", len(comps), 2)
	sort.Slice(comps, func(i, j int) bool { return comps[i].typ+comps[i].field < comps[j].typ+comps[j].field })

	for _, cm := range comps {
		what := "core.createResources: " + cm.typ + "." + cm.field
		if !c.Check(rule+".source", what+" is loaded from a field of the configuration", cm.confField != "", p.Pos(cm.store.Pos()), "got "+desc(cm.store.Val)) {
			continue
		}
		if !c.Check(rule+".source", what+": the component is kept in a field of Core", cm.coreField != "", p.Pos(cm.store.Pos()), "") {
			continue
		}
		// ---- drop sites of the component
		var sites []ssa.Instruction
		eachInstr(cl, func(i ssa.Instruction) {
			switch x := i.(type) {
			case *ssa.Call:
				isClose := false
				if x.Call.IsInvoke() {
					isClose = x.Call.Method.Name() == "Close"
				} else if f := x.Call.StaticCallee(); f != nil {
					isClose = f.Name() == "Close"
				}
				if a := argN(&x.Call, 0); isClose && a != nil && desc(a) == "$0."+cm.coreField {
					sites = append(sites, i)
				}
			case *ssa.Store:
				if fa, ok := x.Addr.(*ssa.FieldAddr); ok && fieldAddrIs(fa, "core.Core", cm.coreField) && isParam(fa.X, 0) && isNilConst(x.Val) {
					sites = append(sites, i)
				}
			}
		})
		key := "core.closeResources: dropping Core." + cm.coreField + " depends on a comparison of conf." + cm.confField + " (its " + cm.field + ") between the new and the current configuration"
		if len(sites) == 0 {
			c.Check(rule+".compared", key, false, p.Pos(cl.Pos()), "Core."+cm.coreField+" is neither closed nor reset in closeResources: the component, and with it the pinned fingerprint, is never replaced on reload")
			continue
		}
		for _, site := range sites {
			var leaves []ssa.Value
			seen := map[ssa.Value]bool{}
			for _, g := range guardsOfBlock(site.Block()) {
				c05CondLeaves(g.Cond, seen, &leaves)
			}
			found := false
			var compared []string
			dup := map[string]bool{}
			for _, l := range leaves {
				if f, ok := c05Compared(l); ok {
					if f == cm.confField {
						found = true
					}
					if !dup[f] {
						dup[f] = true
						compared = append(compared, f)
					}
				}
			}
			sort.Strings(compared)
			c.Check(rule+".compared", key, found, p.Pos(posOf(site, cl)),
				"the conditions guarding this drop compare ["+strings.Join(compared, ", ")+"]; a reload changing only conf."+cm.confField+" keeps the component and the OLD fingerprint: connections keep succeeding against the previously pinned certificate, not the configured one")
		}
	}
}
