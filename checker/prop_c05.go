package main

import (
	"strings"

	"golang.org/x/tools/go/ssa"
)

// C05 - CORS allows only configured origins.

func init() {
	register(Property{ID: "C05", Level: "other", Run: runC05,
		Technique: "static analysis: must-pass-through path conditions on the SSA control-flow graph of httpp.isOriginAllowed, origin classification of the wildcard regexp pattern, who-may-write of the CORS header",
		Text:      "Decides for httpp.isOriginAllowed on all paths: every echo of the request origin is reached only under scheme equality of the origin and the allowed entry and, in the exact branch, host (with effective port) equality, in the wildcard branch a successful anchored regexp match of the origin host:port against a pattern built from the allowed host:port in which every non-'*' character is escaped literally (regexp.QuoteMeta before the '*' expansion); default ports are substituted per scheme on both URLs; '*' is returned only when '*' is configured; no other result exists; the header is written only by handlerOrigin.ServeHTTP under the ok result; the list in force follows the configuration on reload: every component of Core.createResources that takes AllowOrigins from a conf field is closed (hence rebuilt) in Core.closeResources under conditions that include a comparison of that same field between the new and the current configuration. Not decided: url.Parse and regexp semantics, the exact shape of the '*' expansion.",
		Note:      "trusted: net/url.Parse, regexp, net.JoinHostPort; go/types+go/ssa construction"})
	addMutants(
		Mutant{"C05", "exact-scheme-not-compared", "internal/protocols/httpp/handler_origin.go",
			"if allowedURL.Scheme == originURL.Scheme &&\n				allowedURL.Host == originURL.Host &&", "if allowedURL.Host == originURL.Host &&", "C05.exact.scheme"},
		Mutant{"C05", "exact-host-suffix-match", "internal/protocols/httpp/handler_origin.go",
			"allowedURL.Host == originURL.Host &&", "strings.HasSuffix(originURL.Host, allowedURL.Host) &&", "C05.exact.host"},
		Mutant{"C05", "wildcard-unanchored", "internal/protocols/httpp/handler_origin.go",
			`regexp.MatchString("^"+pattern+"$", originURL.Host)`, `regexp.MatchString(pattern, originURL.Host)`, "C05.wildcard.anchored"},
		Mutant{"C05", "wildcard-match-result-ignored", "internal/protocols/httpp/handler_origin.go",
			"if errMatched == nil && matched {", "if errMatched == nil || matched {", "C05.wildcard.matched"},
		Mutant{"C05", "wildcard-port-dropped", "internal/protocols/httpp/handler_origin.go",
			`+"$", originURL.Host)`, `+"$", originURL.Hostname())`, "C05.wildcard.port"},
		Mutant{"C05", "star-when-any-origin-configured", "internal/protocols/httpp/handler_origin.go",
			`if slices.Contains(allowOrigins, "*") {`, `if len(allowOrigins) != 0 || slices.Contains(allowOrigins, "*") {`, "C05.star"},
		Mutant{"C05", "default-port-wrong-scheme", "internal/protocols/httpp/handler_origin.go",
			`originURL.Host = net.JoinHostPort(originURL.Host, "80")`, `originURL.Host = net.JoinHostPort(originURL.Host, "443")`, "C05.port"},
		Mutant{"C05", "allowed-default-port-not-applied", "internal/protocols/httpp/handler_origin.go",
			"				case \"https\":\n					allowedURL.Host = net.JoinHostPort(allowedURL.Host, \"443\")\n", "", "C05.port"},
		Mutant{"C05", "header-written-unconditionally", "internal/protocols/httpp/handler_origin.go",
			"	if ok {\n		w.Header().Set(\"Access-Control-Allow-Origin\", origin)\n	}", "	_ = ok\n	w.Header().Set(\"Access-Control-Allow-Origin\", origin)", "C05.header"},
		Mutant{"C05", "echo-of-unvetted-origin", "internal/protocols/httpp/handler_origin.go",
			"	if slices.Contains(allowOrigins, \"*\") {\n		return \"*\", true\n	}", "	if slices.Contains(allowOrigins, \"*\") {\n		return origin, true\n	}", "C05.exact"},
		Mutant{"C05", "webrtc-reload-compares-hls-origins", "internal/core/core.go",
			"!slices.Equal(newConf.WebRTCAllowOrigins, currentConf.WebRTCAllowOrigins) ||", "!slices.Equal(newConf.HLSAllowOrigins, currentConf.HLSAllowOrigins) ||", "C05.config.reload"},
		Mutant{"C05", "api-reload-ignores-allow-origins", "internal/core/core.go",
			"		!slices.Equal(newConf.APIAllowOrigins, currentConf.APIAllowOrigins) ||\n", "", "C05.config.reload"},
		Mutant{"C05", "playback-reload-compares-list-with-itself", "internal/core/core.go",
			"!slices.Equal(newConf.PlaybackAllowOrigins, currentConf.PlaybackAllowOrigins)", "!slices.Equal(currentConf.PlaybackAllowOrigins, currentConf.PlaybackAllowOrigins)", "C05.config.reload"},
	)
}

// patParts flattens a string concatenation into ordered parts.
func patParts(v ssa.Value, out *[]ssa.Value) {
	if b, ok := v.(*ssa.BinOp); ok && b.Op.String() == "+" {
		patParts(b.X, out)
		patParts(b.Y, out)
		return
	}
	*out = append(*out, v)
}

// patLeaves classifies the non-constant leaves of a regexp pattern value:
// quoted (regexp.QuoteMeta results) and raw.
func patLeaves(v ssa.Value, quoted, raw *[]ssa.Value, badRepl *[]string, seen map[ssa.Value]bool) {
	if seen[v] {
		return
	}
	seen[v] = true
	switch x := v.(type) {
	case *ssa.Const:
		return
	case *ssa.BinOp:
		if x.Op.String() == "+" {
			patLeaves(x.X, quoted, raw, badRepl, seen)
			patLeaves(x.Y, quoted, raw, badRepl, seen)
			return
		}
	case *ssa.Phi:
		for _, e := range x.Edges {
			patLeaves(e, quoted, raw, badRepl, seen)
		}
		return
	case *ssa.Call:
		switch calleeName(&x.Call) {
		case "regexp.QuoteMeta":
			*quoted = append(*quoted, x.Call.Args[0])
			return
		case "strings.ReplaceAll":
			if !isConst(x.Call.Args[1]) || !isConst(x.Call.Args[2]) {
				*badRepl = append(*badRepl, desc(x))
			}
			patLeaves(x.Call.Args[0], quoted, raw, badRepl, seen)
			return
		}
	}
	*raw = append(*raw, v)
}

func runC05(c *Ctx) {
	p := c.Main()
	if p == nil {
		return
	}
	c.Explain = "E1 on httpp.isOriginAllowed: closed table of results; per echo site (exact / wildcard, classified by whether every path to it carries a successful regexp match) the scheme, host and match literals; E5 on the pattern argument of regexp.MatchString (anchors, QuoteMeta origin of the allowed host, subject = origin host:port); pairing of default ports with schemes on both URLs; '*' only under slices.Contains(allowOrigins, \"*\"); E1 on handlerOrigin.ServeHTTP and module-wide who-mentions the header name. " +
		"Not decided: url.Parse/regexp semantics, the shape of the '*' expansion replacements, Vary/credentials headers."
	c.Explain += " Round 3 (prop_r3_c05.go): the list the decision is taken on is the configured one after a reload - for every component of Core.createResources whose AllowOrigins field is loaded from conf field F, the conditions that dominate the Close of that component in Core.closeResources (expanded through boolean phis, or-ed flags, negations and module predicates) contain a comparison of F between two configurations (== / != / slices.Equal / reflect.DeepEqual). Not decided there: that each component hands its AllowOrigins on to httpp.Server unchanged (C13 covers use/compare sets of all parameters by name)."
	c.Assume = []string{"net/url.Parse, URL.Port, net.JoinHostPort, regexp.MatchString and regexp.QuoteMeta behave as documented",
		"a component reads its allow-list only from the AllowOrigins field of its literal in Core.createResources; closing a component in closeResources makes createResources rebuild it from the new configuration"}
	c.c05Reload(p)

	fn := c.fn(p, "internal/protocols/httpp", "", "isOriginAllowed")
	if fn == nil {
		return
	}
	name := "httpp.isOriginAllowed"
	// the two parsed URLs
	var oParse, aParse *ssa.Call
	for _, ci := range callsIn(fn, "net/url.Parse") {
		cc := ci.(*ssa.Call)
		if isParam(cc.Call.Args[0], 0) {
			oParse = cc
		} else if strings.HasPrefix(desc(cc.Call.Args[0]), "$1[") {
			aParse = cc
		}
	}
	if oParse == nil || aParse == nil || len(callsIn(fn, "net/url.Parse")) != 2 {
		c.Undecided("UNRESOLVED ANCHOR url.Parse(origin) / url.Parse(allowOrigins[i]) in isOriginAllowed")
		return
	}
	oU, aU := desc(oParse)+"#0", desc(aParse)+"#0"
	schemeEq := T(eqAtom(oU+".Scheme", aU+".Scheme", false))
	hostEq := T(eqAtom(oU+".Host", aU+".Host", false))
	hostnameEq := T(eqAtom("(*net/url.URL).Hostname("+oU+")", "(*net/url.URL).Hostname("+aU+")", false))
	portEq := T(eqAtom("(*net/url.URL).Port("+oU+")", "(*net/url.URL).Port("+aU+")", false))

	// ---- closed table of results
	var echoes []*ssa.Return
	nStar := 0
	for _, r := range returnsOf(fn) {
		d0 := desc(retVal(r, 0))
		b, isC := constBool(retVal(r, 1))
		ok := isC && ((d0 == `""` && !b) || (d0 == "$0" && b) || (d0 == `"*"` && b))
		c.Check("C05.results", name+": result ("+d0+", "+desc(retVal(r, 1))+")", ok, p.Pos(posOf(r, fn)), "results are (\"\",false), (origin,true), (\"*\",true)")
		if isC && b && d0 == "$0" {
			echoes = append(echoes, r)
		}
		if isC && b && d0 == `"*"` {
			nStar++
		}
	}
	c.Floor("C05.results.echo", len(echoes), 1)

	// ---- the regexp match
	var match *ssa.Call
	if mi := uniqueCall(fn, "regexp.MatchString"); mi != nil {
		match = mi.(*ssa.Call)
	}
	matchedLit := func(l Lit) bool { return false }
	if match != nil {
		m0 := desc(match) + "#0"
		matchedLit = func(l Lit) bool { return l.Pos && l.Atom == m0 }
	}
	isRet := func(r *ssa.Return) target { return func(i ssa.Instruction) bool { return i == ssa.Instruction(r) } }
	nExact, nWild := 0, 0
	for _, r := range echoes {
		rr := r
		wild := match != nil && reachAvoiding(entry(fn), func(i ssa.Instruction) bool { return i == ssa.Instruction(rr) },
			func(i ssa.Instruction) bool { return i == ssa.Instruction(match) }) == nil
		if !wild {
			nExact++
			site := name + ": exact echo"
			c.mustPassPred(p, fn, "C05.exact.scheme", site+" ⇒ same scheme", isRet(r), litAny(schemeEq))
			c.mustPassPred(p, fn, "C05.exact.host", site+" ⇒ same host (URL.Host, or Hostname)", isRet(r), litAny(hostEq, hostnameEq))
			c.mustPassPred(p, fn, "C05.exact.host", site+" ⇒ same effective port (URL.Host, or Port)", isRet(r), litAny(hostEq, portEq))
			continue
		}
		nWild++
		site := name + ": wildcard echo"
		c.mustPassPred(p, fn, "C05.wildcard.scheme", site+" ⇒ same scheme", isRet(r), litAny(schemeEq))
		c.mustPassPred(p, fn, "C05.wildcard.matched", site+" ⇒ regexp matched", isRet(r), matchedLit)
		c.mustPassPred(p, fn, "C05.wildcard.matched", site+" ⇒ regexp error is nil", isRet(r), litAny(T(errNilAtom(match, 1))))
		c.mustPassPred(p, fn, "C05.wildcard.matched", site+" ⇒ pattern allowed host contains '*'", isRet(r), litAny(T("strings.Contains("+aU+".Host, \"*\")")))
	}
	c.Floor("C05.exact", nExact, 1)
	if match == nil {
		c.Check("C05.wildcard.idiom", name+": wildcard origins are matched by a single regexp.MatchString call", false, p.Pos(fn.Pos()), "wildcard idiom not recognised")
	} else {
		c.Floor("C05.wildcard", nWild, 1)
		args := match.Call.Args
		c.Check("C05.wildcard.port", name+": regexp subject is the origin's Host (host:effective port)", desc(args[1]) == oU+".Host", p.Pos(match.Pos()), desc(args[1]))
		var parts []ssa.Value
		patParts(args[0], &parts)
		anch := false
		if len(parts) >= 3 {
			f, ok1 := constString(parts[0])
			l, ok2 := constString(parts[len(parts)-1])
			anch = ok1 && ok2 && strings.HasPrefix(f, "^") && strings.HasSuffix(l, "$") && !strings.HasSuffix(l, `\$`)
		}
		c.Check("C05.wildcard.anchored", name+": regexp pattern is anchored ^...$", anch, p.Pos(match.Pos()), desc(args[0]))
		var quoted, raw []ssa.Value
		var badRepl []string
		patLeaves(args[0], &quoted, &raw, &badRepl, map[ssa.Value]bool{})
		var rawD []string
		for _, r := range raw {
			rawD = append(rawD, desc(r))
		}
		c.Check("C05.wildcard.escape", name+": every non-'*' character of the allowed host matches literally (regexp.QuoteMeta before the '*' expansion)",
			len(raw) == 0 && len(quoted) >= 1 && len(badRepl) == 0, p.Pos(match.Pos()),
			"unescaped pattern source(s): "+joinS(rawD)+" — regexp metacharacters of the allowed origin (e.g. '.') keep their regexp meaning")
		src := append(append([]ssa.Value{}, quoted...), raw...)
		okSrc := len(src) >= 1
		for _, s := range src {
			if desc(s) != aU+".Host" {
				okSrc = false
			}
		}
		c.Check("C05.wildcard.port", name+": regexp pattern is built from the allowed entry's Host (host:effective port)", okSrc, p.Pos(match.Pos()), "")
	}

	// ---- default ports per scheme, on both URLs
	type pr struct{ url, port string }
	seen := map[pr]bool{}
	for _, st := range allStores(fn) {
		fa, ok := st.Addr.(*ssa.FieldAddr)
		if !ok || !fieldAddrIs(fa, "net/url.URL", "Host") {
			continue
		}
		u := desc(fa.X)
		okv := false
		port := ""
		if jc := asCall(st.Val); jc != nil && isCallTo(jc, "net.JoinHostPort") && desc(jc.Call.Args[0]) == u+".Host" {
			port, okv = constString(jc.Call.Args[1])
		}
		scheme := map[string]string{"80": "http", "443": "https"}[port]
		key := name + ": " + u + ".Host ← JoinHostPort(Host, " + port + ")"
		if !c.Check("C05.port.value", key+" is a default-port substitution", okv && scheme != "", p.Pos(st.Pos()), desc(st.Val)) {
			continue
		}
		for _, ua := range phiAlts(u) { // a new helper applied to several URLs describes its parameter as their merge
			seen[pr{ua, port}] = true
		}
		tgt := func(i ssa.Instruction) bool { return i == ssa.Instruction(st) }
		// inside a new helper applied to several URLs the walk describes the URL for the call
		// site it came through: any of the merged alternatives (and the merge itself) may appear
		var schemeLits, portLits []LitPat
		for _, ua := range append(phiAlts(u), u) {
			schemeLits = append(schemeLits, T("("+ua+`.Scheme == "`+scheme+`")`))
			portLits = append(portLits, T("((*net/url.URL).Port("+ua+`) == "")`))
		}
		c.mustPassPred(p, fn, "C05.port.scheme", key+" only for scheme "+scheme, tgt, litAny(schemeLits...))
		c.mustPassPred(p, fn, "C05.port.scheme", key+" only when no port is given", tgt, litAny(portLits...))
	}
	for _, u := range []string{oU, aU} {
		for _, port := range []string{"80", "443"} {
			c.Check("C05.port.present", name+": default port "+port+" substituted on "+u, seen[pr{u, port}], p.Pos(fn.Pos()), "")
		}
	}

	// ---- "*" only when configured
	var contains *ssa.Call
	eachInstr(fn, func(i ssa.Instruction) {
		if cc, ok := i.(*ssa.Call); ok && strings.HasPrefix(calleeName(&cc.Call), "slices.Contains") && len(cc.Call.Args) == 2 && isParam(cc.Call.Args[0], 1) {
			if s, isC := constString(cc.Call.Args[1]); isC && s == "*" {
				contains = cc
			}
		}
	})
	if nStar > 0 {
		star := func(i ssa.Instruction) bool {
			r, ok := i.(*ssa.Return)
			return ok && desc(retVal(r, 0)) == `"*"`
		}
		if c.Check("C05.star", name+": tests slices.Contains(allowOrigins, \"*\")", contains != nil, p.Pos(fn.Pos()), "") {
			c.mustPassPred(p, fn, "C05.star", name+": \"*\" ⇒ \"*\" is an allowed origin", star, litAny(T(desc(contains))))
		}
	}

	// ---- the header
	sh := c.fn(p, "internal/protocols/httpp", "handlerOrigin", "ServeHTTP")
	if sh != nil {
		ci := uniqueCall(sh, "protocols/httpp.isOriginAllowed")
		var sets []*ssa.Call
		for _, s := range callsIn(sh, "(net/http.Header).Set", "(net/http.Header).Add") {
			sc := s.(*ssa.Call)
			if k, ok := constString(sc.Call.Args[1]); ok && strings.EqualFold(k, "Access-Control-Allow-Origin") {
				sets = append(sets, sc)
			}
		}
		if ci == nil || len(sets) == 0 {
			c.Undecided("UNRESOLVED ANCHOR isOriginAllowed call / header Set in handlerOrigin.ServeHTTP")
		} else {
			call := ci.(*ssa.Call)
			a := call.Call.Args
			c.Check("C05.header.binding", fnName(sh)+": decision is taken on the request's Origin header and the handler's allowOrigins",
				desc(a[0]) == `(net/http.Header).Get($2.Header, "Origin")` && desc(a[1]) == "$0.allowOrigins", p.Pos(call.Pos()), desc(call))
			for _, s := range sets {
				ss := s
				c.Check("C05.header.binding", fnName(sh)+": header value is the first result of isOriginAllowed", desc(ss.Call.Args[2]) == desc(call)+"#0", p.Pos(ss.Pos()), desc(ss.Call.Args[2]))
				c.mustPassPred(p, sh, "C05.header.guard", fnName(sh)+": header written ⇒ isOriginAllowed returned ok", func(i ssa.Instruction) bool { return i == ssa.Instruction(ss) }, litAny(T(desc(call)+"#1")))
			}
		}
	}
	sites, poss := constStringUses(p, func(s string) bool { return strings.EqualFold(s, "Access-Control-Allow-Origin") })
	for k, s := range sites {
		c.Check("C05.header.who", "mention of Access-Control-Allow-Origin in "+s, s == "internal/protocols/httpp|handlerOrigin.ServeHTTP", p.Pos(poss[k]), "only handlerOrigin may write the header")
	}
	c.Floor("C05.header.who", len(sites), 1)
}

func allStores(fn *ssa.Function) []*ssa.Store {
	var out []*ssa.Store
	eachInstr(fn, func(i ssa.Instruction) {
		if s, ok := i.(*ssa.Store); ok {
			out = append(out, s)
		}
	})
	return out
}
