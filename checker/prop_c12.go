package main

import (
	"strings"

	"golang.org/x/tools/go/ssa"
)

// C12 - API configuration edits are exact and atomic.

func init() {
	register(Property{ID: "C12", Level: "other", Run: runC12,
		Technique: "static analysis: must-pass-through path conditions on Core.doAPIConfig*/Core.run/conf.AddPath/PatchPath/RemovePath (go/ssa), who-may-store on Core.conf, no-mutation-through-loaded-pointer rule over the module",
		Text:      "Decides the atomicity skeleton on all paths: each of the six Core.doAPIConfig* handlers edits a Clone() of the loaded configuration, returns a non-nil configuration only if the edit call and Validate returned nil, and returns that same clone; Core.run calls reloadConf only with that result under err == nil after replying exactly once; reloadConf stores the new configuration (what later reads return) and every Control API handler registered with GET under /config/ passes a call of the parent's APIConfigSnapshot() on every path to a response body it writes, so no read is answered from a copy remembered by the API across requests (the core never notifies the API of a change; any API-side invalidation races with reloadConf); Core.conf is stored only in New and reloadConf; no function of the module mutates the configuration reached through Core.conf.Load()/APIConfigSnapshot() without an intervening Clone; AddPath fails on an existing name, PatchPath/RemovePath on a missing one, ReplacePath stores exactly the given value. Field-exactness of the reflective copyStructFields is not decided (value level).",
		Note:      "trusted: conf.copyStructFields/reflect, Conf.Clone is deep (C11), Validate rebuilds Paths; aliasing is tracked by value description (no pointer analysis)"})
	addMutants(
		Mutant{"C12", "patch-live-conf-in-place", "internal/core/core.go",
			"func (p *Core) doAPIConfigGlobalPatch(in conf.OptionalGlobal) (*conf.Conf, error) {\n	newConf := p.conf.Load().Clone()",
			"func (p *Core) doAPIConfigGlobalPatch(in conf.OptionalGlobal) (*conf.Conf, error) {\n	newConf := p.conf.Load()", "C12"},
		Mutant{"C12", "reload-on-error", "internal/core/core.go",
			"			newConf, err := p.doAPIConfigPathDelete(req.name)\n			req.res <- err\n\n			if err == nil {",
			"			newConf, err := p.doAPIConfigPathDelete(req.name)\n			req.res <- err\n\n			if err == nil || newConf != nil {", "C12.run"},
		Mutant{"C12", "addpath-overwrites-existing", "internal/conf/conf.go",
			"	if _, ok := conf.OptionalPaths[name]; ok {\n		return fmt.Errorf(\"path already exists\")\n	}\n", "", "C12.add_path"},
		Mutant{"C12", "skip-validate-on-replace", "internal/core/core.go",
			"	if err := newConf.ReplacePath(name, &in); err != nil {\n		return nil, err\n	}\n\n	if err := newConf.Validate(nil); err != nil {\n		return nil, err\n	}\n",
			"	if err := newConf.ReplacePath(name, &in); err != nil {\n		return nil, err\n	}\n", "C12.handler.validated"},
		Mutant{"C12", "remove-missing-succeeds", "internal/conf/conf.go",
			"	if _, ok := conf.OptionalPaths[name]; !ok {\n		return ErrPathNotFound\n	}\n\n	delete(conf.OptionalPaths, name)", "	delete(conf.OptionalPaths, name)", "C12.remove_path"},
		Mutant{"C12", "api-mutates-snapshot", "internal/api/api_config_global.go",
			"	c := redactCredentials(a.Parent.APIConfigSnapshot())\n\n	ctx.JSON(http.StatusOK, c.Global())", "	c := a.Parent.APIConfigSnapshot()\n	c.AuthInternalUsers = nil\n\n	ctx.JSON(http.StatusOK, c.Global())", "C12.no_live_mutation"},
		Mutant{"C12", "core-deletes-live-path", "internal/core/core.go",
			"	newConf := p.conf.Load().Clone()\n\n	if err := newConf.RemovePath(name); err != nil {", "	newConf := p.conf.Load().Clone()\n	delete(p.conf.Load().OptionalPaths, name)\n\n	if err := newConf.RemovePath(name); err != nil {", "C12.no_live_mutation"},
		Mutant{"C12", "validate-error-ignored", "internal/core/core.go",
			"	if err := newConf.PatchPath(name, &in); err != nil {\n		return nil, err\n	}\n\n	if err := newConf.Validate(nil); err != nil {\n		return nil, err\n	}",
			"	if err := newConf.PatchPath(name, &in); err != nil {\n		return nil, err\n	}\n\n	if err := newConf.Validate(nil); err != nil {\n		p.Log(logger.Warn, \"%v\", err)\n	}", "C12.handler.validated"},
	)
}

const c12clone = "(conf.Conf).Clone((*sync/atomic.Pointer[conf.Conf]).Load($0.conf))"

func runC12(c *Ctx) {
	defer dumpObls(c)
	p := c.Main()
	if p == nil {
		return
	}
	c.Explain = "E1 on the six Core.doAPIConfig* handlers (non-nil result ⇒ edit nil ∧ Validate nil, on a Clone of the loaded conf, returned as is); E1 on Core.run (reloadConf(x) ⇒ x is the handler result ∧ err == nil, reply sent before); E2: Core.conf.Store callers = {New, reloadConf}; E5: no store / mutating-method call whose target derives from Core.conf.Load() or APIConfigSnapshot() without Clone, anywhere in the module; E1 on AddPath/PatchPath/RemovePath/ReplacePath; read_is_fresh: handlers = functions behind the handler arguments of (*gin.RouterGroup).GET(path, ...) / Handle(GET, path, ...) in API.Initialize with /config/ in the constant path (bound-method wrappers looked through); target = static calls of a body-writing method of *gin.Context (JSON, Data, String, ...), barrier = a call of a method named APIConfigSnapshot, walked with new helpers inlined. Not decided: which fields copyStructFields copies (reflective, value level)."
	c.Assume = []string{"Conf.Clone is a deep copy (C11)", "copyStructFields copies exactly the non-nil fields of its source"}

	// "a rejected edit leaves the running configuration unchanged" rests on Clone()
	// being a deep copy: the clone-independence obligations of C11 are therefore
	// obligations of C12 too (same rules, re-evaluated here under C12 rule ids).
	{
		sub := newCtx(c.Prop, c.Tier, c.Seed)
		sub.progs, sub.overlay, sub.quiet, sub.curCfg = c.progs, c.overlay, true, c.curCfg
		runC11(sub)
		for _, o := range sub.Obls {
			o.Rule = "C12.clone_independent." + strings.TrimPrefix(o.Rule, "C11.")
			c.Obls = append(c.Obls, o)
		}
		c.undecided = append(c.undecided, sub.undecided...)
	}

	type h struct {
		name, edit string
		hasErr     bool
	}
	hs := []h{
		{"doAPIConfigGlobalPatch", "(*conf.Conf).PatchGlobal", false},
		{"doAPIConfigPathDefaultsPatch", "(*conf.Conf).PatchPathDefaults", false},
		{"doAPIConfigPathAdd", "(*conf.Conf).AddPath", true},
		{"doAPIConfigPathPatch", "(*conf.Conf).PatchPath", true},
		{"doAPIConfigPathReplace", "(*conf.Conf).ReplacePath", true},
		{"doAPIConfigPathDelete", "(*conf.Conf).RemovePath", true},
	}
	okRet := retNotNil(0)
	for _, hd := range hs {
		fn := c.fn(p, "internal/core", "Core", hd.name)
		if fn == nil {
			continue
		}
		// returned configuration is the clone
		for _, r := range returnsOf(fn) {
			if !okRet(r) {
				continue
			}
			d := desc(retVal(r, 0))
			c.Check("C12.handler.returns_clone", fnName(fn)+": returned configuration is Clone() of the loaded one", d == c12clone, p.Pos(posOf(r, fn)), "got "+d)
		}
		c.MustPass(p, fn, "C12.handler.validated", "return non-nil configuration", okRet, T("((*conf.Conf).Validate("+c12clone+", nil) == nil)"))
		edits := callsIn(fn, hd.edit)
		c.Check("C12.handler.edit_call", fnName(fn)+": calls "+hd.edit+" exactly once", len(edits) == 1, p.Pos(fn.Pos()), "")
		for _, e := range edits {
			args := callCommon(e).Args
			c.Check("C12.handler.edits_clone", fnName(fn)+": "+hd.edit+" is applied to the clone", len(args) > 0 && desc(args[0]) == c12clone, p.Pos(e.Pos()), desc(e.(ssa.Value)))
			ev := e.(ssa.Value)
			if hd.hasErr {
				c.MustPass(p, fn, "C12.handler.edit_ok", "return non-nil configuration", okRet, T("("+desc(ev)+" == nil)"))
			} else {
				c.MustPrecede(p, fn, "C12.handler.edit_ok", "return non-nil configuration", "the edit call", okRet, func(i ssa.Instruction) bool { return i == e })
			}
			// validate after the edit
			c.MustPrecede(p, fn, "C12.handler.validate_after_edit", "Validate", "the edit call", callTo("(*conf.Conf).Validate"), func(i ssa.Instruction) bool { return i == e })
		}
		// nothing else is mutated: no store through p.conf.Load() (covered globally below)
	}

	// ---- Core.run
	run := c.fn(p, "internal/core", "Core", "run")
	if run != nil {
		n := 0
		for _, cl := range callsIn(run, "(*core.Core).reloadConf") {
			arg := desc(callCommon(cl).Args[1])
			if strings.HasPrefix(arg, "conf.Load(") {
				continue // file reload branch: handled by conf.Load's own error test below
			}
			n++
			ok := strings.HasPrefix(arg, "(*core.Core).doAPIConfig") && strings.HasSuffix(arg, "#0")
			c.Check("C12.run.reload_arg", "Core.run: reloadConf argument is the handler result ("+arg+")", ok, p.Pos(cl.Pos()), "")
			if !ok {
				continue
			}
			errAtom := "(" + strings.TrimSuffix(arg, "#0") + "#1 == nil)"
			cc := cl
			c.MustPass(p, run, "C12.run.reload_only_on_success", "reloadConf("+arg+")", func(i ssa.Instruction) bool { return i == cc }, T(errAtom))
			// the reply is sent before (exactly one Send of the error on this path)
			c.MustPrecede(p, run, "C12.run.reply_before_reload", "reloadConf("+arg+")", "req.res <- err", func(i ssa.Instruction) bool { return i == cc },
				func(i ssa.Instruction) bool {
					s, ok := i.(*ssa.Send)
					return ok && desc(s.X) == strings.TrimSuffix(arg, "#0")+"#1"
				})
		}
		c.Floor("C12.run.api_reloads", n, 6)
		// every handler call is followed by exactly one reply carrying its error
		for _, hd := range hs {
			for _, cl := range callsIn(run, "(*core.Core)."+hd.name) {
				ev := desc(cl.(ssa.Value)) + "#1"
				nSend := 0
				eachInstr(run, func(i ssa.Instruction) {
					if s, ok := i.(*ssa.Send); ok && desc(s.X) == ev && i.Block() == cl.Block() {
						nSend++
					}
				})
				c.Check("C12.run.replies_once", "Core.run: exactly one reply with the error of "+hd.name+" in the handling block", nSend == 1, p.Pos(cl.Pos()), "")
			}
		}
		for _, cl := range callsIn(run, "(*core.Core).reloadConf") {
			arg := desc(callCommon(cl).Args[1])
			if strings.HasPrefix(arg, "conf.Load(") {
				cc := cl
				c.MustPass(p, run, "C12.run.reload_only_on_success", "reloadConf(conf.Load result)", func(i ssa.Instruction) bool { return i == cc }, T("("+strings.TrimSuffix(arg, "#0")+"#2 == nil)"))
			}
		}
	}
	rc := c.fn(p, "internal/core", "Core", "reloadConf")
	if rc != nil {
		sts := callsIn(rc, "(*sync/atomic.Pointer[conf.Conf]).Store")
		ok := len(sts) == 1 && desc(callCommon(sts[0]).Args[0]) == "$0.conf" && desc(callCommon(sts[0]).Args[1]) == "$1"
		c.Check("C12.reload_publishes", "Core.reloadConf stores the new configuration in Core.conf (what later reads return)", ok, p.Pos(rc.Pos()), "")
		c.MustPrecede(p, rc, "C12.reload_publishes", "createResources", "p.conf.Store(newConf)", callTo("(*core.Core).createResources"), callTo("(*sync/atomic.Pointer[conf.Conf]).Store"))
	}
	snap := c.fn(p, "internal/core", "Core", "apiConfigSnapshot")
	if snap != nil {
		ds := retDescs(snap, 0)
		c.Check("C12.read_returns_current", "Core.apiConfigSnapshot returns Core.conf.Load()", len(ds) == 1 && ds[0] == "(*sync/atomic.Pointer[conf.Conf]).Load($0.conf)", p.Pos(snap.Pos()), joinS(ds))
	}

	// ---- the API half of "reads return the edit": every configuration read asks the core (prop_r4_c12.go)
	c12ReadFreshR4(c, p)

	// ---- who may Store Core.conf; nobody mutates the loaded configuration
	mut := mutatingConfMethods(p)
	nStore, nLoadUse := 0, 0
	for _, fn := range p.ModFuncs() {
		pkgp := funcPkgPath(fn)
		eachInstr(fn, func(i ssa.Instruction) {
			if cc0 := callCommon(i); cc0 != nil && cc0.StaticCallee() != nil && cc0.StaticCallee().Name() == "Store" &&
				isCallTo(i, "(*sync/atomic.Pointer[conf.Conf]).Store") && strings.HasSuffix(desc(cc0.Args[0]), ".conf") {
				nStore++
				name := fnName(fn)
				ok := name == "internal/core.New" || name == "(*internal/core.Core).reloadConf"
				c.Check("C12.who_may_store_conf", "Core.conf.Store in "+name, ok, p.Pos(i.Pos()), "only New and reloadConf publish a configuration")
			}
			if !strings.HasSuffix(pkgp, "/internal/core") && !strings.HasSuffix(pkgp, "/internal/api") {
				return
			}
			live := func(v ssa.Value) bool { return rootedAtLiveConf(v, 0) }
			switch x := i.(type) {
			case *ssa.Store:
				if live(x.Addr) {
					nLoadUse++
					c.Check("C12.no_live_mutation", fnName(fn)+": store to "+desc(x.Addr), false, p.Pos(posOf(i, fn)), "writes through the live configuration pointer; clone first")
				}
			case *ssa.MapUpdate:
				if live(x.Map) {
					nLoadUse++
					c.Check("C12.no_live_mutation", fnName(fn)+": map update of "+desc(x.Map), false, p.Pos(posOf(i, fn)), "writes through the live configuration pointer; clone first")
				}
			}
			if cc := callCommon(i); cc != nil && !cc.IsInvoke() && len(cc.Args) > 0 {
				if sf := cc.StaticCallee(); sf != nil && mut[sf] && live(cc.Args[0]) {
					nLoadUse++
					c.Check("C12.no_live_mutation", fnName(fn)+": "+calleeName(cc)+" on the live configuration", false, p.Pos(posOf(i, fn)), "mutating method applied to Core.conf.Load() / APIConfigSnapshot() without Clone")
				}
				if isCallTo(i, "delete") && live(cc.Args[0]) {
					nLoadUse++
					c.Check("C12.no_live_mutation", fnName(fn)+": delete on a map of the live configuration", false, p.Pos(posOf(i, fn)), "")
				}
			}
		})
	}
	c.Floor("C12.who_may_store_conf", nStore, 2)
	c.Check("C12.no_live_mutation", "no store, map update, delete or mutating conf method reaches the live configuration in core/api", nLoadUse == 0, "", "")
	c.Count("mutating_conf_methods", len(mut))
	c.Floor("C12.mutating_methods", len(mut), 6)

	// ---- conf edit primitives
	if fn := c.fn(p, "internal/conf", "Conf", "AddPath"); fn != nil {
		c.MustPass(p, fn, "C12.add_path", "return nil", retNil(0), F("$0.OptionalPaths[$1]#1"))
		c.MustPass(p, fn, "C12.add_path", "insert into OptionalPaths", func(i ssa.Instruction) bool { _, ok := i.(*ssa.MapUpdate); return ok }, F("$0.OptionalPaths[$1]#1"))
		c.mapUpdateIs(p, fn, "C12.add_path", "$0.OptionalPaths", "$1", "$2")
	}
	if fn := c.fn(p, "internal/conf", "Conf", "RemovePath"); fn != nil {
		c.MustPass(p, fn, "C12.remove_path", "return nil", retNil(0), T("$0.OptionalPaths[$1]#1"))
		c.MustPass(p, fn, "C12.remove_path", "delete", callTo("delete"), T("$0.OptionalPaths[$1]#1"))
		c.MustPrecede(p, fn, "C12.remove_path", "return nil", "delete(conf.OptionalPaths, name)", retNil(0), func(i ssa.Instruction) bool {
			return isCallTo(i, "delete") && desc(callCommon(i).Args[0]) == "$0.OptionalPaths" && desc(callCommon(i).Args[1]) == "$1"
		})
	}
	if fn := c.fn(p, "internal/conf", "Conf", "PatchPath"); fn != nil {
		c.MustPass(p, fn, "C12.patch_path", "return nil", retNil(0), T("$0.OptionalPaths[$1]#1"))
		c.MustPrecede(p, fn, "C12.patch_path", "return nil", "copyStructFields(existing.Values, given.Values)", retNil(0), func(i ssa.Instruction) bool {
			if !isCallTo(i, "conf.copyStructFields") {
				return false
			}
			a := callCommon(i).Args
			return desc(a[0]) == "$0.OptionalPaths[$1]#0.Values" && desc(a[1]) == "$2.Values"
		})
	}
	if fn := c.fn(p, "internal/conf", "Conf", "ReplacePath"); fn != nil {
		c.mapUpdateIs(p, fn, "C12.replace_path", "$0.OptionalPaths", "$1", "$2")
	}
	if fn := c.fn(p, "internal/conf", "Conf", "PatchGlobal"); fn != nil {
		cs := callsIn(fn, "conf.copyStructFields")
		ok := len(cs) == 1 && desc(callCommon(cs[0]).Args[0]) == "$0" && desc(callCommon(cs[0]).Args[1]) == "$1.Values"
		c.Check("C12.patch_global", "Conf.PatchGlobal = copyStructFields(conf, optional.Values)", ok, p.Pos(fn.Pos()), "")
	}
	if fn := c.fn(p, "internal/conf", "Conf", "PatchPathDefaults"); fn != nil {
		cs := callsIn(fn, "conf.copyStructFields")
		ok := len(cs) == 1 && desc(callCommon(cs[0]).Args[0]) == "$0.PathDefaults" && desc(callCommon(cs[0]).Args[1]) == "$1.Values"
		c.Check("C12.patch_global", "Conf.PatchPathDefaults = copyStructFields(&conf.PathDefaults, optional.Values)", ok, p.Pos(fn.Pos()), "")
	}
}

func (c *Ctx) mapUpdateIs(p *Prog, fn *ssa.Function, rule, m, k, v string) {
	n := 0
	eachInstr(fn, func(i ssa.Instruction) {
		if mu, ok := i.(*ssa.MapUpdate); ok {
			n++
			ok := desc(mu.Map) == m && desc(mu.Key) == k && desc(mu.Value) == v
			c.Check(rule, fnName(fn)+": stores exactly "+m+"["+k+"] = "+v, ok, p.Pos(posOf(i, fn)), "got "+desc(mu.Map)+"["+desc(mu.Key)+"] = "+desc(mu.Value))
		}
	})
	if n != 1 {
		c.Check(rule, fnName(fn)+": exactly one map update", false, p.Pos(fn.Pos()), "")
	}
}

// mutatingConfMethods: pointer-receiver methods of conf.Conf / conf.Path that
// write through the receiver (stores, map updates, deletes, copyStructFields
// into the receiver, or calls of another mutating method on it). Fixpoint.
func mutatingConfMethods(p *Prog) map[*ssa.Function]bool {
	mut := map[*ssa.Function]bool{}
	var cands []*ssa.Function
	for _, fn := range p.ModFuncs() {
		if fn.Signature.Recv() == nil || fn.Parent() != nil {
			continue
		}
		t := typeStr(fn.Signature.Recv().Type())
		if t == "*conf.Conf" || t == "*conf.Path" {
			cands = append(cands, fn)
		}
	}
	rooted := func(v ssa.Value) bool {
		d := desc(v)
		return d == "$0" || strings.HasPrefix(d, "$0.") || strings.HasPrefix(d, "$0[")
	}
	for changed := true; changed; {
		changed = false
		for _, fn := range cands {
			if mut[fn] {
				continue
			}
			m := false
			eachInstr(fn, func(i ssa.Instruction) {
				switch x := i.(type) {
				case *ssa.Store:
					if _, isAlloc := x.Addr.(*ssa.Alloc); !isAlloc && rooted(x.Addr) {
						m = true
					}
				case *ssa.MapUpdate:
					if rooted(x.Map) {
						m = true
					}
				}
				if cc := callCommon(i); cc != nil && len(cc.Args) > 0 {
					if isCallTo(i, "delete", "conf.copyStructFields") && rooted(cc.Args[0]) {
						m = true
					}
					if sf := cc.StaticCallee(); sf != nil && mut[sf] && rooted(cc.Args[0]) {
						m = true
					}
				}
			})
			if m {
				mut[fn] = true
				changed = true
			}
		}
	}
	return mut
}

// rootedAtLiveConf: the address/value is reached from the result of
// Core.conf.Load() / APIConfigSnapshot() purely through field, index, map
// element and load steps (no call in between - a call such as Clone() or
// FindAllPathsWithSegments returns storage of its own).
func rootedAtLiveConf(v ssa.Value, depth int) bool {
	if depth > 30 || v == nil {
		return false
	}
	switch x := v.(type) {
	case *ssa.FieldAddr:
		return rootedAtLiveConf(x.X, depth+1)
	case *ssa.Field:
		return rootedAtLiveConf(x.X, depth+1)
	case *ssa.IndexAddr:
		return rootedAtLiveConf(x.X, depth+1)
	case *ssa.Index:
		return rootedAtLiveConf(x.X, depth+1)
	case *ssa.Lookup:
		return rootedAtLiveConf(x.X, depth+1)
	case *ssa.Extract:
		return rootedAtLiveConf(x.Tuple, depth+1)
	case *ssa.UnOp:
		if a, ok := x.X.(*ssa.Alloc); ok {
			if sv := singleStore(a); sv != nil {
				return rootedAtLiveConf(sv, depth+1)
			}
			return false
		}
		return rootedAtLiveConf(x.X, depth+1)
	case *ssa.Phi:
		for _, e := range x.Edges {
			if rootedAtLiveConf(e, depth+1) {
				return true
			}
		}
		return false
	case *ssa.ChangeType:
		return rootedAtLiveConf(x.X, depth+1)
	case *ssa.Call:
		n := calleeName(&x.Call)
		return n == "(*sync/atomic.Pointer[conf.Conf]).Load" || strings.HasSuffix(n, ".APIConfigSnapshot") || strings.HasSuffix(n, ".apiConfigSnapshot")
	}
	return false
}
