package main

import (
	"fmt"
	"go/constant"
	"go/token"
	"go/types"
	"net"
	"regexp"
	"regexp/syntax"
	"sort"
	"strings"

	"golang.org/x/tools/go/ssa"
)

// C10 - loading any configuration input never panics.

func init() {
	register(Property{ID: "C10", Level: "other", Run: runC10,
		Technique: "static analysis: crash-site enumeration (explicit panics, Must* calls, unchecked type assertions, constant-bound indexing/slicing without a length guard, non-constant integer divisors) over every function of the configuration-loading packages (go/ssa, dominator guards, one-level callee summaries, constant evaluation of literals), and must-pass-through rules for the documented constraints in Conf.Validate / Path.validate",
		Text:      "Enumerates every potential crash site of the closed classes P1 (panic), P2 (Must* with a non-constant argument), P3 (x.(T) without ok), P4c (index/slice with a constant bound on a slice or string), P5 (integer / or % by a non-constant), P6r (reflect Elem() of an existing map element used as a destination without a nil test), P8 (in env.loadEnvInternal every write through prv.Elem() and every UnmarshalEnv call is reached only after the destination pointer - nil for every unset per-path setting - was tested non-nil or initialised; the map/struct branches are discharged by a type rule: conf.Path has no map- or struct-typed field) in all functions of internal/conf, conf/env, conf/decrypt, conf/jsonwrapper, conf/yamlwrapper, and requires each to be discharged by a checked structural argument (dominating length/emptiness/prefix guard, fixed length by construction, constant arguments evaluated by the checker, type fixed by the static configuration type graph, tabled third-party node contracts); plus: each documented constraint (positive timeouts, power-of-two queue, %path and full timestamp in recordPath, deleteAfter ≥ segment duration, regexp paths with static sources on demand, unique rpiCamera ids) guards every successful return of Validate/validate. Absence of a report is NOT a proof of crash freedom: reflect API misuse, third-party parsers (goccy/go-yaml, encoding/json, secretbox), nil dereferences and non-constant index arithmetic are outside the rule set.",
		Note:      "trusted: go/ssa, dominator tree; regexp.FindStringSubmatch returns 1+NumSubexp entries; strings.Split/SplitN return at least one element; goccy/go-yaml scalar nodes implement ast.MapKeyNode (tabled)"})
	addMutants(
		// the first version of the C08 nil-slice repair: the walker meets validated Paths
		// (Path.Regexp -> regexp.Regexp, unexported slice fields) and panics in Set
		Mutant{"C10", "walker-sets-unexported-fields", "internal/conf/conf.go",
			"			// skip unexported fields (they belong to opaque types like regexp.Regexp)\n			if !field.CanSet() {\n				continue\n			}\n\n", "", "C10.P7r.setAllNilSlicesToEmptyRecursive"},
		Mutant{"C10", "clone-sets-unexported-fields", "internal/conf/conf.go",
			"			if newField.CanSet() {\n				newField.Set(deepClone(field))\n			}", "			newField.Set(deepClone(field))", "C10.P7r.deepClone"},
		Mutant{"C10", "validpathname-empty-unchecked", "internal/conf/path.go",
			"	if name == \"\" {\n		return fmt.Errorf(\"cannot be empty\")\n	}\n\n	if name[0] == '/' {", "	if name[0] == '/' {", "C10.P4c.IsValidPathName"},
		Mutant{"C10", "ice-server-parts-unchecked", "internal/conf/conf.go",
			"			if len(parts) == 5 {", "			if len(parts) >= 3 || strings.Contains(server, \"@\") {", "C10.P4c.Validate"},
		Mutant{"C10", "regexp-from-config-mustcompile", "internal/conf/path.go",
			"		regexp, err := regexp.Compile(name[1:])\n		if err != nil {\n			return fmt.Errorf(\"invalid regular expression: %s\", name[1:])\n		}\n		pconf.Regexp = regexp",
			"		pconf.Regexp = regexp.MustCompile(name[1:])", "C10.P2.validate"},
		Mutant{"C10", "cidr-from-config-mustparse", "internal/conf/conf.go",
			"		if conf.AuthHTTPAddress == \"\" {\n			return fmt.Errorf(\"'authHTTPAddress' is empty\")\n		}",
			"		if conf.AuthHTTPAddress == \"\" {\n			return fmt.Errorf(\"'authHTTPAddress' is empty\")\n		}\n		_ = mustParseCIDR(conf.MulticastIPRange)", "C10.P1.mustParseCIDR"},
		Mutant{"C10", "unchecked-assertion-on-decoded-value", "internal/conf/yamlwrapper/unmarshal.go",
			"	// convert the generic map into JSON\n", "	if m := temp.(map[string]any); len(m) == 0 {\n		return fmt.Errorf(\"empty\")\n	}\n\n	// convert the generic map into JSON\n", "C10.P3.Unmarshal"},
		Mutant{"C10", "deprecated-field-name-misspelt", "internal/conf/conf.go",
			"rva.FieldByName(\"PublishIPs\").Interface().(*IPNetworks) != nil ||", "rva.FieldByName(\"PublishIps\").Interface().(*IPNetworks) != nil ||", "C10.P3.anyPathHasDeprecatedCredentials"},
		Mutant{"C10", "deprecated-field-asserted-as-other-type", "internal/conf/conf.go",
			"rva.FieldByName(\"ReadPass\").Interface().(*Credential) != nil ||", "rva.FieldByName(\"ReadPass\").Interface().(*string) != nil ||", "C10.P3.anyPathHasDeprecatedCredentials"},
		Mutant{"C10", "map-element-dereferenced-unchecked", "internal/conf/conf.go",
			"						if mapValue.Kind() == reflect.Pointer {\n							setAllNilSlicesToEmptyRecursive(mapValue)\n						}",
			"						setAllNilSlicesToEmptyRecursive(mapValue.Elem().Addr())", "C10.P6r.setAllNilSlicesToEmptyRecursive"},
		Mutant{"C10", "queue-size-modulo-config", "internal/conf/conf.go",
			"	if conf.UDPMaxPayloadSize > 1472 {", "	if 1472/conf.UDPMaxPayloadSize < 1 {", "C10.P5.Validate"},
		Mutant{"C10", "write-timeout-not-checked", "internal/conf/conf.go",
			"	if conf.WriteTimeout <= 0 {\n		return fmt.Errorf(\"'writeTimeout' must be greater than zero\")\n	}\n", "", "C10.constraint.write_timeout_positive"},
		Mutant{"C10", "delete-after-compared-with-part-duration", "internal/conf/path.go",
			"pconf.RecordDeleteAfter < pconf.RecordSegmentDuration {", "pconf.RecordDeleteAfter < pconf.RecordPartDuration {", "C10.constraint.delete_after_ge_segment"},
		Mutant{"C10", "recordpath-minutes-optional", "internal/conf/path.go",
			"			!strings.Contains(pconf.RecordPath, \"%M\") ||\n", "", "C10.constraint.record_path_timestamp"},
		Mutant{"C10", "rpicamera-duplicate-id-allowed", "internal/conf/path.go",
			"					otherPath.RPICameraCamID == pconf.RPICameraCamID &&\n					!otherPath.RPICameraSecondary {\n					return fmt.Errorf(\"'rpiCamera' with same camera ID",
			"					otherPath.RPICameraCamID == pconf.RPICameraCamID &&\n					!otherPath.RPICameraSecondary && otherName == name {\n					return fmt.Errorf(\"'rpiCamera' with same camera ID", "C10.constraint.unique_rpicamera_id"},
	)
}

var c10Pkgs = []string{"internal/conf", "internal/conf/env", "internal/conf/decrypt", "internal/conf/jsonwrapper", "internal/conf/yamlwrapper"}

type c10Site struct {
	class  string
	fn     *ssa.Function
	ins    ssa.Instruction
	what   string
	okWhy  string
	badWhy string
}

func runC10(c *Ctx) {
	defer dumpObls(c)
	p := c.Main()
	if p == nil {
		return
	}
	c.Explain = "E6 over all functions (incl. closures) of internal/conf, conf/env, conf/decrypt, conf/jsonwrapper, conf/yamlwrapper (entry points conf.Load, Conf.Validate, decrypt.Decrypt, the wrappers, env.Load, every UnmarshalJSON/UnmarshalEnv, and what Core.doAPIConfig* call, are all inside): classes P1 explicit panic (discharged only when every caller passes constants the checker itself evaluates successfully), P2 Must*(non-constant), P3 unchecked type assertion (discharged by: pass-through helper returning its own argument / reflect FieldByName(const).Interface() whose asserted type equals the pointer-ised type of that field in conf.Path / value produced by reflect.New of the asserted type / tabled yaml node contract), P4c constant index or slice bound on a slice/string (discharged by a dominating len/emptiness comparison, a dominating HasPrefix with a long enough constant (directly or via a one-line predicate method), FindStringSubmatch of a constant pattern with enough groups under a non-nil guard, index 0 of strings.Split*, or fixed length), P5 integer division by a non-constant, P6r (reflect.Value).Elem() applied to an existing map element ((reflect.Value).MapIndex result, possibly a nil pointer) and then used as a destination, without a preceding IsNil/IsZero test. " +
		"E1 constraint rules on (*Conf).Validate and (*Path).validate: the nil return passes the stated comparison for each documented constraint. NOT decided: reflect misuse, third-party parsers, nil dereference, non-constant index arithmetic, what the decoders of third-party libraries do with hostile input."
	c.Assume = []string{
		"goccy/go-yaml, encoding/json, x/crypto/nacl/secretbox, regexp, net do not panic on any input",
		"reflect calls in env.loadEnvInternal / jsonwrapper.decode / copyStructFields / deepClone meet only the static configuration type graph (C09.env_loadable, C11)",
	}
	var sites []*c10Site
	nFn := 0
	for _, fn := range p.ModFuncs() {
		pk := strings.TrimPrefix(funcPkgPath(fn), modPath+"/")
		if !contains(c10Pkgs, pk) {
			continue
		}
		nFn++
		c.Analysed(fnName(fn))
		sites = append(sites, c10Scan(p, fn)...)
	}
	c.Floor("C10.functions", nFn, 150)
	per := map[string]int{}
	for _, s := range sites {
		c10Discharge(p, s)
		per[s.class]++
		key := fnName(s.fn) + ": " + s.what
		// the rule id carries the function so that a finding in one function
		// cannot stand in for a report in another (mutant self-test)
		c.Check("C10."+s.class+"."+s.fn.Name(), key, s.badWhy == "", p.Pos(posOf(s.ins, s.fn)), s.okWhy+s.badWhy)
	}
	c.Floor("C10.P1", per["P1"], 1)
	c.Floor("C10.P2", per["P2"], 1)
	c.Floor("C10.P3", per["P3"], 8)
	c.Floor("C10.P4c", per["P4c"], 15)

	c10Constraints(c, p)
	c10WalkerSet(c, p)
	c10EnvOptional(c, p)
}

// c10WalkerSet - class P7r: a *generic recursive walker* over reflect values (a
// function that calls itself and iterates all fields of whatever struct it is
// given: rv.Field(i) with a non-constant index, or `range rv.Fields()`) must not
// call Set on such a field value without a dominating CanSet() test. The
// configuration graph contains opaque structs (Path.Regexp *regexp.Regexp,
// non-nil after Validate) whose fields are unexported: Set on them panics
// ("reflect.Value.Set using value obtained using unexported field"). Found
// the hard way: a first version of the nil-slice repair (C08) moved
// setAllNilSlicesToEmptyRecursive into Validate, where it meets validated
// Paths, and crashed every API configuration edit.
func c10WalkerSet(c *Ctx, p *Prog) {
	n := 0
	for _, fn := range p.ModFuncs() {
		pk := strings.TrimPrefix(funcPkgPath(fn), modPath+"/")
		if !contains(c10Pkgs, pk) {
			continue
		}
		// the walker is the top-level function; range-over-func bodies are synthetic children
		top := fn
		for top.Parent() != nil {
			top = top.Parent()
		}
		recursive := false
		var scan func(f *ssa.Function)
		scan = func(f *ssa.Function) {
			eachInstr(f, func(i ssa.Instruction) {
				if cc := callCommon(i); cc != nil && cc.StaticCallee() == top {
					recursive = true
				}
			})
			for _, a := range f.AnonFuncs {
				scan(a)
			}
		}
		scan(top)
		if !recursive {
			continue
		}
		eachInstr(fn, func(i ssa.Instruction) {
			cl, ok := i.(*ssa.Call)
			if !ok || !isCallTo(cl, "(reflect.Value).Set") {
				return
			}
			recv := stripConv(cl.Call.Args[0])
			// a field value: result of Field(non-constant) or the value parameter of a range-over-Fields body
			isField := false
			if fc, ok := recv.(*ssa.Call); ok && isCallTo(fc, "(reflect.Value).Field") {
				if _, isConst := stripConv(fc.Call.Args[1]).(*ssa.Const); !isConst {
					// fields of a struct the function has just created with reflect.New are its own copy
					// of the same type: still subject to unexported fields
					isField = true
				}
			}
			if u, ok := recv.(*ssa.UnOp); ok {
				if a, ok := u.X.(*ssa.Alloc); ok {
					if sv := singleStore(a); sv != nil {
						if pv, ok := sv.(*ssa.Parameter); ok && strings.HasPrefix(fn.Synthetic, "range-over-func") && typeStr(pv.Type()) == "reflect.Value" {
							isField = true
						}
					}
				}
			}
			if pv, ok := recv.(*ssa.Parameter); ok && strings.HasPrefix(fn.Synthetic, "range-over-func") && typeStr(pv.Type()) == "reflect.Value" {
				isField = true
			}
			if !isField {
				return
			}
			n++
			guard := "(reflect.Value).CanSet(" + desc(recv) + ")"
			w := reachWithout(entry(fn), func(j ssa.Instruction) bool { return j == i }, []LitPat{T(guard)})
			c.Check("C10.P7r."+top.Name(), fnName(fn)+": Set on a struct field reached by a generic recursive walk is guarded by CanSet()", w == nil, p.Pos(cl.Pos()),
				"the configuration graph contains opaque structs with unexported fields (regexp.Regexp behind Path.Regexp); Set on such a field panics. "+w.String(p))
		})
	}
	c.Floor("C10.P7r", n, 2)
}

func isRangeFuncPanic(x *ssa.Panic) bool {
	if s, ok := constStringB(x.X); ok && !x.Pos().IsValid() {
		return strings.Contains(s, "iterator call did not preserve panic") || strings.Contains(s, "yield function called after range loop exit") || strings.Contains(s, "range function")
	}
	return false
}

func c10Scan(p *Prog, fn *ssa.Function) []*c10Site {
	var out []*c10Site
	add := func(class string, ins ssa.Instruction, what string) {
		out = append(out, &c10Site{class: class, fn: fn, ins: ins, what: what})
	}
	nth := map[string]int{}
	uniq := func(s string) string {
		nth[s]++
		if nth[s] > 1 {
			return fmt.Sprintf("%s #%d", s, nth[s])
		}
		return s
	}
	eachInstr(fn, func(i ssa.Instruction) {
		switch x := i.(type) {
		case *ssa.Panic:
			if isRangeFuncPanic(x) {
				return
			}
			add("P1", i, uniq("panic("+trunc(desc(x.X), 60)+")"))
		case *ssa.TypeAssert:
			if !x.CommaOk {
				w := trunc(desc(x.X), 90)
				if ic, ok := x.X.(*ssa.Call); ok && isCallTo(ic, "(reflect.Value).Interface") {
					if fc, ok := ic.Call.Args[0].(*ssa.Call); ok && isCallTo(fc, "(reflect.Value).FieldByName") {
						if name, ok := constStringB(fc.Call.Args[1]); ok {
							w = fmt.Sprintf("FieldByName(%q).Interface()", name)
						}
					}
				}
				add("P3", i, uniq(w+".("+typeStr(x.AssertedType)+")"))
			}
		case *ssa.BinOp:
			if x.Op == token.QUO || x.Op == token.REM {
				if b, ok := x.X.Type().Underlying().(*types.Basic); ok && b.Info()&types.IsInteger != 0 {
					if _, isC := x.Y.(*ssa.Const); !isC {
						add("P5", i, uniq(trunc(desc(x.X), 40)+" "+x.Op.String()+" "+trunc(desc(x.Y), 40)))
					}
				}
			}
		case *ssa.Index:
			if k, ok := constIntB(x.Index); ok {
				if _, isArr := x.X.Type().Underlying().(*types.Array); !isArr {
					add("P4c", i, uniq(fmt.Sprintf("%s[%d]", trunc(desc(x.X), 70), k)))
				}
			}
		case *ssa.IndexAddr:
			if k, ok := constIntB(x.Index); ok {
				if _, isSlice := x.X.Type().Underlying().(*types.Slice); isSlice {
					add("P4c", i, uniq(fmt.Sprintf("%s[%d]", trunc(desc(x.X), 70), k)))
				}
			}
		case *ssa.Slice:
			switch x.X.Type().Underlying().(type) {
			case *types.Slice, *types.Basic:
			default:
				return // pointer to array: bounds are checked statically
			}
			lo, hi := int64(-1), int64(-1)
			if x.Low != nil {
				if k, ok := constIntB(x.Low); ok {
					lo = k
				}
			}
			if x.High != nil {
				if k, ok := constIntB(x.High); ok {
					hi = k
				}
			}
			if lo > 0 || hi > 0 {
				b := ""
				if lo >= 0 {
					b = fmt.Sprint(lo)
				}
				b += ":"
				if hi >= 0 {
					b += fmt.Sprint(hi)
				}
				add("P4c", i, uniq(trunc(desc(x.X), 70)+"["+b+"]"))
			}
		}
		if call, ok := i.(*ssa.Call); ok && isCallTo(call, "(reflect.Value).Elem") {
			// P6r: Elem() of an existing map element (may be a nil pointer) whose
			// result is used as a destination
			var fromMap *ssa.Call
			seenV := map[ssa.Value]bool{}
			var walk func(v ssa.Value)
			walk = func(v ssa.Value) {
				if seenV[v] {
					return
				}
				seenV[v] = true
				switch y := v.(type) {
				case *ssa.Phi:
					for _, e := range y.Edges {
						walk(e)
					}
				case *ssa.Call:
					if isCallTo(y, "(reflect.Value).MapIndex") {
						fromMap = y
					}
				}
			}
			walk(call.Call.Args[0])
			used := false
			for _, r := range *call.Referrers() {
				if rc := callCommon(r); rc != nil {
					n := calleeName(rc)
					if n != "(reflect.Value).Kind" && n != "(reflect.Value).IsValid" {
						used = true
					}
				}
			}
			if fromMap != nil && used {
				s := &c10Site{class: "P6r", fn: fn, ins: i, what: uniq("(reflect.Value).Elem() of an existing map element ((reflect.Value).MapIndex) used as destination")}
				tested := func(j ssa.Instruction) bool {
					jc, ok := j.(*ssa.Call)
					if !ok || !(isCallTo(jc, "(reflect.Value).IsNil") || isCallTo(jc, "(reflect.Value).IsZero")) {
						return false
					}
					return seenV[jc.Call.Args[0]]
				}
				// idiom `if nv == zero || nv.IsNil() { nv = reflect.New(..) }`: the
				// operand is a phi; the existing element flows in only through the
				// edge on which the IsNil/IsZero test was false
				edgeTested := false
				if ph, isPhi := call.Call.Args[0].(*ssa.Phi); isPhi {
					edgeTested = true
					for k, e := range ph.Edges {
						es := map[ssa.Value]bool{}
						var w2 func(v ssa.Value)
						w2 = func(v ssa.Value) {
							if es[v] {
								return
							}
							es[v] = true
							if y, ok := v.(*ssa.Phi); ok {
								for _, ee := range y.Edges {
									w2(ee)
								}
							}
						}
						w2(e)
						carries := false
						for v := range es {
							if v == ssa.Value(fromMap) {
								carries = true
							}
						}
						if !carries {
							continue
						}
						pred := ph.Block().Preds[k]
						ok := false
						if len(pred.Instrs) > 0 {
							if ifi, isIf := pred.Instrs[len(pred.Instrs)-1].(*ssa.If); isIf {
								for s, succ := range pred.Succs {
									if succ != ph.Block() {
										continue
									}
									l := litOf(ifi.Cond, s == 0)
									if jc, isC := ifi.Cond.(*ssa.Call); isC && !l.Pos && tested(jc) {
										ok = true
									}
								}
							}
							if !ok {
								term := pred.Instrs[len(pred.Instrs)-1]
								ok = reachAvoiding(entry(fn), func(j ssa.Instruction) bool { return j == term }, tested) == nil
							}
						}
						if !ok {
							edgeTested = false
						}
					}
				}
				if edgeTested {
					s.okWhy = "the existing element reaches Elem() only through the edge on which its IsNil/IsZero test was false"
				} else if w := reachAvoiding(entry(fn), func(j ssa.Instruction) bool { return j == i }, tested); w != nil {
					s.badWhy = "an existing map element of pointer type may be nil (a key with an empty value in the file); Elem() then yields the zero reflect.Value and the next Addr/Set/Field panics; no IsNil/IsZero test on that element precedes"
				} else {
					s.okWhy = "preceded by an IsNil/IsZero test of the element"
				}
				out = append(out, s)
			}
		}
		if cc := callCommon(i); cc != nil {
			if f := cc.StaticCallee(); f != nil {
				name := f.Name()
				if strings.HasPrefix(name, "Must") || strings.HasPrefix(name, "must") {
					allConst := len(cc.Args) > 0
					for _, a := range cc.Args {
						if _, isC := stripConv(a).(*ssa.Const); !isC {
							allConst = false
						}
					}
					if inModule(f) {
						return // module helpers are analysed at their panic site (P1)
					}
					w := calleeName(cc) + "(" + trunc(desc(cc.Args[0]), 50) + ")"
					s := &c10Site{class: "P2", fn: fn, ins: i, what: uniq(w)}
					if allConst {
						s.okWhy = c10EvalMust(calleeName(cc), cc.Args)
						if strings.HasPrefix(s.okWhy, "!") {
							s.badWhy, s.okWhy = s.okWhy[1:], ""
						}
					}
					out = append(out, s)
				}
			}
		}
	})
	return out
}

// c10EvalMust evaluates a Must* call with constant arguments in the checker.
func c10EvalMust(name string, args []ssa.Value) string {
	s, ok := constStringB(args[0])
	if !ok {
		return "constant argument"
	}
	switch name {
	case "regexp.MustCompile":
		if _, err := regexp.Compile(s); err != nil {
			return "!constant pattern does not compile: " + err.Error()
		}
		return "constant pattern compiles"
	}
	return "constant argument"
}

func c10Discharge(p *Prog, s *c10Site) {
	if s.okWhy != "" || s.badWhy != "" {
		return
	}
	switch s.class {
	case "P1":
		c10P1(p, s)
	case "P2":
		s.badWhy = "Must* call with an argument that is not a constant: a value from the configuration makes it panic"
	case "P3":
		c10P3(p, s)
	case "P4c":
		c10P4(p, s)
	case "P5":
		s.badWhy = "integer division by a value that is not a constant and is not tested against zero"
		x := s.ins.(*ssa.BinOp)
		d := desc(x.Y)
		for _, g := range guardsOf(s.ins) {
			a := g.Lit.Atom
			if (a == "("+d+" == 0)" && !g.Lit.Pos) || (a == "(0 < "+d+")" && g.Lit.Pos) {
				s.okWhy, s.badWhy = "divisor tested non-zero: "+g.Lit.String(), ""
			}
		}
	}
}

// P1: a panic in a helper whose every caller passes constants which the
// checker evaluates with the same library function.
func c10P1(p *Prog, s *c10Site) {
	fn := s.fn
	ix := p.index()
	sites := ix.callers[fn]
	if len(sites) == 0 || ix.valueUses[fn] > 0 {
		s.badWhy = "explicit panic in a function whose callers cannot all be enumerated"
		return
	}
	// the panic is guarded by err != nil of a parse of parameter 0
	parse := ""
	for _, g := range guardsOf(s.ins) {
		a := g.Lit.Atom
		if !g.Lit.Pos && strings.HasPrefix(a, "(net.ParseCIDR($0)#2 == nil)") {
			parse = "net.ParseCIDR"
		}
	}
	if parse == "" {
		s.badWhy = "explicit panic not recognised as 'parse of a constant failed': " + guardStr(s.ins)
		return
	}
	var bad []string
	for _, cs := range sites {
		a := callCommon(cs).Args[0]
		v, ok := constStringB(a)
		if !ok {
			bad = append(bad, "non-constant argument "+desc(a)+" in "+fnName(cs.Parent())+" at "+p.Pos(cs.Pos()))
			continue
		}
		if _, _, err := net.ParseCIDR(v); err != nil {
			bad = append(bad, fmt.Sprintf("constant %q does not parse (%s)", v, p.Pos(cs.Pos())))
		}
	}
	if len(bad) > 0 {
		s.badWhy = strings.Join(bad, "; ")
		return
	}
	s.okWhy = fmt.Sprintf("panics only if %s fails; all %d callers pass constants that the checker parsed successfully", parse, len(sites))
}

// tabled contracts of third-party node types (goccy/go-yaml ast): every
// scalar node implements MapKeyNode; DocumentNode is returned unchanged.
var c10YamlContract = map[string]string{
	"github.com/goccy/go-yaml/ast.MapKeyNode":    "convertLegacyBools returns its argument or an *ast.BoolNode; BoolNode implements MapKeyNode",
	"*github.com/goccy/go-yaml/ast.DocumentNode": "convertLegacyBools returns a *DocumentNode argument unchanged",
}

func c10P3(p *Prog, s *c10Site) {
	ta := s.ins.(*ssa.TypeAssert)
	want := ta.AssertedType
	x := ta.X
	// (a) reflect.New(T).Interface().(U) / reflect value of a typed thing
	if call, ok := x.(*ssa.Call); ok && isCallTo(call, "(reflect.Value).Interface") {
		recv := call.Call.Args[0]
		// deepClone(reflect.ValueOf(v)).Interface().(T) with v of static type T
		if in, ok := recv.(*ssa.Call); ok && isCallTo(in, "conf.deepClone") {
			if vo, ok := in.Call.Args[0].(*ssa.Call); ok && isCallTo(vo, "reflect.ValueOf") {
				src := stripConv(vo.Call.Args[0]).Type()
				if types.Identical(src, want) {
					s.okWhy = "deepClone returns a value of the type it was given (" + typeStr(src) + ")"
					return
				}
			}
		}
		// rva.FieldByName("X").Interface().(T): T must be the pointer-ised type of Path.X
		if in, ok := recv.(*ssa.Call); ok && isCallTo(in, "(reflect.Value).FieldByName") {
			name, isC := constStringB(in.Call.Args[1])
			pathT := p.NamedType("internal/conf", "Path")
			if isC && pathT != nil {
				st := pathT.Underlying().(*types.Struct)
				for i := 0; i < st.NumFields(); i++ {
					if st.Field(i).Name() != name {
						continue
					}
					_, _, hidden := jsonTag(st.Tag(i))
					ft := st.Field(i).Type()
					if _, isPtr := ft.Underlying().(*types.Pointer); !isPtr {
						ft = types.NewPointer(ft)
					}
					if hidden {
						s.badWhy = "field " + name + " of conf.Path is json:\"-\" and does not exist in the optional struct: FieldByName returns the zero Value and Interface() panics"
						return
					}
					if types.Identical(ft, want) {
						s.okWhy = "optional-path field " + name + " has type " + typeStr(ft) + " (derived from conf.Path)"
						return
					}
					s.badWhy = "optional-path field " + name + " has type " + typeStr(ft) + ", asserted " + typeStr(want) + ": the assertion panics whenever a path is configured"
					return
				}
				s.badWhy = "conf.Path has no field " + name + ": FieldByName returns the zero Value and Interface() panics"
				return
			}
		}
		// prv.Interface().(Unmarshaler) right after reflect.TypeAssert succeeded on the same value / a fresh pointer of the same type
		if typeStr(want) == "conf/env.Unmarshaler" {
			for _, g := range guardsOf(s.ins) {
				if g.Lit.Pos && strings.Contains(g.Lit.Atom, "reflect.TypeAssert") && strings.HasSuffix(g.Lit.Atom, "#1") {
					s.okWhy = "guarded by a successful reflect.TypeAssert[Unmarshaler] on the same reflect.Value (same dynamic type after Set(reflect.New(rt)))"
					return
				}
			}
		}
	}
	// (b) pass-through helper: f(x).(T) where f returns its argument or a value of a tabled type
	if call, ok := x.(*ssa.Call); ok {
		if f := call.Call.StaticCallee(); f != nil && inModule(f) && f.Name() == "convertLegacyBools" {
			if why, ok := c10YamlContract[types.TypeString(want, nil)]; ok {
				// the argument must already have the asserted type
				at := stripConv(call.Call.Args[0]).Type()
				if types.Identical(at, want) || types.AssignableTo(at, want) {
					s.okWhy = why
					return
				}
			}
		}
	}
	s.badWhy = "single-value type assertion whose operand type is not fixed by a recognised construction: " + desc(x)
}

// hasPrefixSummary: fn is `return strings.HasPrefix(string(recv), const)`;
// returns the constant.
func hasPrefixSummary(fn *ssa.Function) (string, bool) {
	if fn == nil || len(fn.Blocks) != 1 {
		return "", false
	}
	rs := returnsOf(fn)
	if len(rs) != 1 {
		return "", false
	}
	call, ok := rs[0].Results[0].(*ssa.Call)
	if !ok || !isCallTo(call, "strings.HasPrefix") {
		return "", false
	}
	if _, isPar := stripConv(call.Call.Args[0]).(*ssa.Parameter); !isPar {
		return "", false
	}
	return constStringB(call.Call.Args[1])
}

func c10P4(p *Prog, s *c10Site) {
	var x ssa.Value
	need := int64(0) // minimal length required
	switch i := s.ins.(type) {
	case *ssa.Index:
		x = i.X
		k, _ := constIntB(i.Index)
		need = k + 1
	case *ssa.IndexAddr:
		x = i.X
		k, _ := constIntB(i.Index)
		need = k + 1
	case *ssa.Slice:
		x = i.X
		if i.Low != nil {
			if k, ok := constIntB(i.Low); ok && k > need {
				need = k
			}
		}
		if i.High != nil {
			if k, ok := constIntB(i.High); ok && k > need {
				need = k
			}
		}
	}
	d := desc(x)
	// (1) dominating comparison on len(x) or emptiness of x
	for _, g := range guardsOf(s.ins) {
		a := g.Lit.Atom
		if strings.Contains(a, "len("+d+")") || a == "("+d+` == "")` {
			// when the guard has a recognisable shape, the length it establishes must
			// cover the access (a test against a smaller constant is not a guard:
			// seeded change C10 compared with secretbox.Overhead = 16 before enc[:24])
			if lb, known := c10LenLowerBound(g.Lit, d); known && lb < need {
				continue
			}
			s.okWhy = "dominating length/emptiness test " + g.Lit.String()
			return
		}
		// (2) dominating HasPrefix(x, const) with len(const) >= need
		if g.Lit.Pos {
			if call, ok := g.Cond.(*ssa.Call); ok {
				if isCallTo(call, "strings.HasPrefix") && desc(call.Call.Args[0]) == d {
					if pre, ok := constStringB(call.Call.Args[1]); ok && int64(len(pre)) >= need {
						s.okWhy = fmt.Sprintf("dominating strings.HasPrefix(_, %q)", pre)
						return
					}
				}
				if f := call.Call.StaticCallee(); f != nil && inModule(f) && len(call.Call.Args) == 1 && desc(call.Call.Args[0]) == d {
					if pre, ok := hasPrefixSummary(f); ok && int64(len(pre)) >= need {
						s.okWhy = fmt.Sprintf("dominating %s() = strings.HasPrefix(_, %q)", f.Name(), pre)
						return
					}
				}
			}
		}
	}
	// (3) result of FindStringSubmatch on a constant pattern, under != nil
	if call, ok := stripConv(x).(*ssa.Call); ok && isCallTo(call, "(*regexp.Regexp).FindStringSubmatch") {
		if guardNotNil(s.ins, call) {
			if g, ok := stripConv(call.Call.Args[0]).(*ssa.UnOp); ok {
				if gl, ok := g.X.(*ssa.Global); ok {
					if init, ok := p.globalInit(strings.TrimPrefix(gl.Pkg.Pkg.Path(), modPath+"/"), gl.Name()).(*ssa.Call); ok && isCallTo(init, "regexp.MustCompile") {
						if pat, ok := constStringB(init.Call.Args[0]); ok {
							if re, err := syntax.Parse(pat, syntax.Perl); err == nil && int64(re.MaxCap()+1) >= need {
								s.okWhy = fmt.Sprintf("non-nil result of FindStringSubmatch of the constant pattern %q (%d groups)", pat, re.MaxCap())
								return
							}
						}
					}
				}
			}
		}
	}
	// (4) index 0 of strings.Split / SplitN (at least one element when the separator is a non-empty constant)
	if call, ok := stripConv(x).(*ssa.Call); ok && (isCallTo(call, "strings.Split") || isCallTo(call, "strings.SplitN")) && need == 1 {
		if sep, ok := constStringB(call.Call.Args[1]); ok && sep != "" {
			s.okWhy = "first element of strings.Split (always present)"
			return
		}
	}
	// (5) fixed length by construction
	switch v := stripConv(x).(type) {
	case *ssa.MakeSlice:
		if k, ok := constIntB(v.Len); ok && k >= need {
			s.okWhy = "make with a constant length"
			return
		}
	case *ssa.Slice:
		if pa, ok := v.X.Type().Underlying().(*types.Pointer); ok {
			if arr, ok := pa.Elem().Underlying().(*types.Array); ok && arr.Len() >= need && v.Low == nil && v.High == nil {
				s.okWhy = "slice of a fixed-size array"
				return
			}
		}
	case *ssa.Const:
		if v.Value != nil && v.Value.Kind() == constant.String && int64(len(constant.StringVal(v.Value))) >= need {
			s.okWhy = "constant string"
			return
		}
	}
	s.badWhy = fmt.Sprintf("needs len ≥ %d of %s, which comes from input, and no dominating test of its length/prefix exists: %s", need, d, guardStr(s.ins))
}

// ---------------------------------------------------------------- constraints

func c10Constraints(c *Ctx, p *Prog) {
	val := c.fn(p, "internal/conf", "Conf", "Validate")
	pv := c.fn(p, "internal/conf", "Path", "validate")
	if val != nil {
		ok := retNil(0)
		c.MustPass(p, val, "C10.constraint.read_timeout_positive", "return nil", ok, T("(0 < $0.ReadTimeout)"))
		c.MustPass(p, val, "C10.constraint.write_timeout_positive", "return nil", ok, T("(0 < $0.WriteTimeout)"))
		c.MustPass(p, val, "C10.constraint.write_queue_positive", "return nil", ok, T("(0 < $0.WriteQueueSize)"))
		c.MustPass(p, val, "C10.constraint.write_queue_power_of_two", "return nil", ok, T("(($0.WriteQueueSize & ($0.WriteQueueSize - 1)) == 0)"))
		// every path configuration is validated: validate is called in a loop over sortedKeys and its error is returned
		c.MustPass(p, val, "C10.constraint.paths_validated", "return nil", ok, F("*< len(conf.sortedKeys($0.OptionalPaths)))"))
		n := 0
		for _, ci := range callsIn(val, "(*conf.Path).validate") {
			n++
			call := ci.(*ssa.Call)
			// a non-nil result is returned
			okRet := false
			for _, r := range returnsOf(val) {
				if retVal(r, 0) == ssa.Value(call) && guardNotNil(r, call) {
					okRet = true
				}
			}
			c.Check("C10.constraint.paths_validated", "(*Conf).Validate: an error of Path.validate is returned", okRet, p.Pos(call.Pos()), "")
		}
		c.Floor("C10.constraint.paths_validated", n, 1)
	}
	if pv != nil {
		ok := retNil(0)
		c.MustPass(p, pv, "C10.constraint.record_path_has_path", "return nil", ok, T(`strings.Contains($0.RecordPath, "%path")`))
		for _, el := range []string{"%Y", "%m", "%d", "%H", "%M", "%S"} {
			c.MustPass(p, pv, "C10.constraint.record_path_timestamp", "return nil", ok, T(`strings.Contains($0.RecordPath, "%s")`), T(`strings.Contains($0.RecordPath, "`+el+`")`))
		}
		c.MustPass(p, pv, "C10.constraint.delete_after_ge_segment", "return nil", ok, T("($0.RecordDeleteAfter == 0)"), F("($0.RecordDeleteAfter < $0.RecordSegmentDuration)"))
		c.MustPass(p, pv, "C10.constraint.regexp_static_source_on_demand", "return nil", ok,
			T("$0.SourceOnDemand"), T(`($0.Source == "publisher")`), T(`($0.Source == "redirect")`), T("($0.Regexp == nil)"))
		c10UniqueCam(c, p, pv)
	}
}

// c10UniqueCam: in the loop over conf.Paths that runs for a primary rpiCamera
// path, once another non-nil, non-secondary rpiCamera path with the same
// camera id is seen, the function cannot go on (next iteration or success).
func c10UniqueCam(c *Ctx, p *Prog, fn *ssa.Function) {
	key := fnName(fn) + ": a second primary rpiCamera path with the same camera id is rejected"
	var loops []*rangeLoop
	for _, l := range rangeLoopsOf(fn) {
		if desc(l.Range.X) != "$1.Paths" {
			continue
		}
		// the primary branch: dominated by !pconf.RPICameraSecondary
		prim := false
		for _, g := range guardsOfBlock(l.Header) {
			if g.Lit.Atom == "$0.RPICameraSecondary" && !g.Lit.Pos {
				prim = true
			}
		}
		if prim {
			loops = append(loops, l)
		}
	}
	if len(loops) != 1 {
		c.Check("C10.constraint.unique_rpicamera_id", key, false, p.Pos(fn.Pos()), fmt.Sprintf("%d loops over conf.Paths on the primary branch", len(loops)))
		return
	}
	l := loops[0]
	other := desc(l.Next) + "#2"
	escapes := []LitPat{
		T("(" + other + " == $0)"), T("($0 == " + other + ")"),
		T("(" + other + " == nil)"),
		F("(" + other + `.Source == "rpiCamera")`),
		F("(" + other + ".RPICameraCamID == $0.RPICameraCamID)"), F("($0.RPICameraCamID == " + other + ".RPICameraCamID)"),
		T(other + ".RPICameraSecondary"),
	}
	// all five conjuncts must exist as branches in the loop body
	var missing []string
	for _, want := range []string{"(" + other + " == $0)", "(" + other + " == nil)", "(" + other + `.Source == "rpiCamera")`, "(" + other + ".RPICameraCamID == $0.RPICameraCamID)", other + ".RPICameraSecondary"} {
		found := false
		for b := range l.Body {
			if ifi, ok := b.Instrs[len(b.Instrs)-1].(*ssa.If); ok {
				if atomMatch(want, litOf(ifi.Cond, true).Atom) {
					found = true
				}
			}
		}
		if !found {
			missing = append(missing, want)
		}
	}
	start := Point{l.Header.Succs[0], 0}
	w := (&Walker{
		Visit: func(i ssa.Instruction) int {
			if i == ssa.Instruction(l.Next) {
				return wHit
			}
			if r, ok := i.(*ssa.Return); ok && isNilConst(retVal(r, 0)) {
				return wHit
			}
			if _, ok := i.(*ssa.Return); ok {
				return wStop
			}
			return wContinue
		},
		Edge: func(lit Lit) bool {
			for _, e := range escapes {
				if e.match(lit) {
					return false
				}
			}
			return true
		},
	}).Run(start)
	detail := ""
	if w != nil {
		detail = "the loop continues although all conditions of a duplicate hold: " + w.String(p)
	}
	if len(missing) > 0 {
		detail += " missing tests: " + strings.Join(missing, ", ")
	}
	sort.Strings(missing)
	c.Check("C10.constraint.unique_rpicamera_id", key, w == nil && len(missing) == 0, p.Pos(l.Range.Pos()), detail)
}
