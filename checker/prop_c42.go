package main

import (
	"fmt"
	"go/token"
	"go/types"
	"regexp/syntax"
	"sort"
	"strings"

	"golang.org/x/tools/go/ssa"
)

// C42 - source and destination templates substitute placeholders exactly.

func init() {
	register(Property{ID: "C42", Level: "other", Run: runC42,
		Technique: "static analysis: structural rules on the SSA of staticsources.resolveSource and forward.resolveDest (substitution chain, induction variable of the group loop, operand bindings), sibling agreement of the two resolvers, module-wide field-store provenance of the name/groups/query operands, constant evaluation of the path-name charset",
		Text:      "Decides for both resolvers: every substitution is strings.ReplaceAll (all occurrences) chained on the template; the group loop starts at len(matches)-1, steps by -1 and stops below 1, so $G10 is substituted before $G1; the placeholder is \"$G\"+FormatInt(i,10) and the replacement is matches[i] for the same i; $MTX_PATH is replaced by the path-name parameter and $MTX_QUERY by the query parameter; the query - the only operand with arbitrary client characters - is substituted last and its result is returned without further substitution; names and groups cannot contain '$' because the path-name charset excludes it; the operands handed to the resolvers are the path's own name, the capture groups FindPathConf returned for that very name, and the on-demand request query; the string handed to the connector (StaticSourceRunParams.ResolvedSource, the Dest field of every forwarder) originates on every path from a resolver call evaluated for the current run, or from a cache field whose every store is a resolver result or \"\" and which is reset after every store to a field the resolution reads (Conf, Matches, query, PathName). Does not decide strings.ReplaceAll/strconv semantics or templates that splice a placeholder out of a group value and adjacent literal text.",
		Note:      "trusted: strings.ReplaceAll, strconv.FormatInt, regexp group numbering (FindStringSubmatch index n = group n); path names are validated (C06); configuration templates are operator-controlled"})
	addMutants(
		Mutant{"C42", "source-groups-ascending", "internal/staticsources/handler.go",
			"for i := len(matches) - 1; i >= 1; i-- {", "for i := 1; i < len(matches); i++ {", "C42.group.order"},
		Mutant{"C42", "dest-groups-ascending", "internal/forward/dest_handler.go",
			"for i := len(matches) - 1; i >= 1; i-- {", "for i := 1; i < len(matches); i++ {", "C42.group.order"},
		Mutant{"C42", "source-skips-group-1", "internal/staticsources/handler.go",
			"for i := len(matches) - 1; i >= 1; i-- {", "for i := len(matches) - 1; i > 1; i-- {", "C42.group.order"},
		Mutant{"C42", "query-substituted-first", "internal/staticsources/handler.go",
			"	for i := len(matches) - 1; i >= 1; i-- {\n		s = strings.ReplaceAll(s, \"$G\"+strconv.FormatInt(int64(i), 10), matches[i])\n	}\n\n	s = strings.ReplaceAll(s, \"$MTX_QUERY\", query)\n",
			"	s = strings.ReplaceAll(s, \"$MTX_QUERY\", query)\n\n	for i := len(matches) - 1; i >= 1; i-- {\n		s = strings.ReplaceAll(s, \"$G\"+strconv.FormatInt(int64(i), 10), matches[i])\n	}\n", "C42.query_last"},
		Mutant{"C42", "dest-group-off-by-one", "internal/forward/dest_handler.go",
			"strconv.FormatInt(int64(i), 10), matches[i])", "strconv.FormatInt(int64(i), 10), matches[i-1])", "C42.group.binding"},
		Mutant{"C42", "source-index-in-hex", "internal/staticsources/handler.go",
			"strconv.FormatInt(int64(i), 10), matches[i])", "strconv.FormatInt(int64(i), 16), matches[i])", "C42.group.binding"},
		Mutant{"C42", "query-first-occurrence-only", "internal/staticsources/handler.go",
			"s = strings.ReplaceAll(s, \"$MTX_QUERY\", query)", "s = strings.Replace(s, \"$MTX_QUERY\", query, 1)", "C42.all_occurrences"},
		Mutant{"C42", "dest-path-replaced-by-template", "internal/forward/dest_handler.go",
			"out := strings.ReplaceAll(dest, \"$MTX_PATH\", pathName)", "out := strings.ReplaceAll(dest, \"$MTX_PATH\", dest)", "C42.operand"},
		Mutant{"C42", "resolved-source-cached-across-starts", "internal/staticsources/handler.go",
			"func (s *Handler) run() {\n	defer close(s.done)\n\n	var runCtx context.Context\n	var runCtxCancel func()\n	runErr := make(chan error)\n	runReloadConf := make(chan *conf.Path)\n\n	recreate := func() {\n		resolvedSource := resolveSource(s.Conf.Source, s.Matches, s.query)\n",
			"var resolvedOf = map[*Handler]string{}\n\nfunc (s *Handler) run() {\n	defer close(s.done)\n\n	var runCtx context.Context\n	var runCtxCancel func()\n	runErr := make(chan error)\n	runReloadConf := make(chan *conf.Path)\n\n	recreate := func() {\n		if resolvedOf[s] == \"\" {\n			resolvedOf[s] = resolveSource(s.Conf.Source, s.Matches, s.query)\n		}\n		resolvedSource := resolvedOf[s]\n", "C42.delivered"},
		Mutant{"C42", "dest-connects-to-raw-template-on-retry", "internal/forward/dest_handler.go",
			"	resolvedDest := resolveDest(h.Conf.Dest, h.PathName, h.Matches)\n", "	resolvedDest := h.Conf.Dest\n	if h.lastError == \"\" {\n		resolvedDest = resolveDest(h.Conf.Dest, h.PathName, h.Matches)\n	}\n", "C42.delivered"},
		Mutant{"C42", "static-source-without-groups", "internal/core/path.go",
			"			Matches:           pa.matches,\n			PathManager:       pa.parent,", "			PathManager:       pa.parent,", "C42.provenance"},
		Mutant{"C42", "forward-gets-conf-name", "internal/core/path.go",
			"		PathName:          pa.name,\n		Matches:           pa.matches,\n		Forward:           pa.conf.Forward,", "		PathName:          pa.confName,\n		Matches:           pa.matches,\n		Forward:           pa.conf.Forward,", "C42.provenance"},
	)
}

// c42Subst is one substitution site. The operands are context-sensitive values
// (prop_gen_c42.go): a placeholder, an index or a whole substitution that was
// moved into a new helper is the same operand as when it was written in place.
type c42Subst struct {
	call    *ssa.Call
	env     *envG4 // call sites of the new helpers around the call (nil: in the resolver itself)
	kind    string // "group" | "$MTX_PATH" | "$MTX_QUERY" | other constant
	idx     rvalG4
	base    int64
	repl    rvalG4
	subject rvalG4
}

func (s *c42Subst) is(x rvalG4) bool {
	return x.v == ssa.Value(s.call) && (!isNewHelper(s.call.Parent()) || sameEnvG4(x.env, s.env))
}

func runC42(c *Ctx) {
	defer dumpObls(c)
	p := c.Main()
	if p == nil {
		return
	}
	c.Explain = "E1/E7 on staticsources.resolveSource(s, matches, query) and forward.resolveDest(dest, pathName, matches): all_occurrences (only strings.ReplaceAll), chain (each substitution works on the template or on the previous result; the returned value is the end of the chain), group.order (induction variable = phi(len(matches)-1, i-1), loop guard i >= 1), group.binding (\"$G\"+strconv.FormatInt(int64(i),10) ↦ matches[i]), operand ($MTX_PATH ↦ pathName, $MTX_QUERY ↦ query), query_last (the $MTX_QUERY result only flows to the return), placeholders (exact placeholder set per resolver), dollar_free (conf.rePathName admits no '$'), provenance (E2 over all stores of Handler.Matches/.query, DestHandler/Manager.PathName/.Matches, path.name/.matches and the createPath call sites: groups are FindPathConf(_, name)#1 for the same name), delivered (value-origin trace of every store to StaticSourceRunParams.ResolvedSource and forward/*.Dest.Dest through locals, captured variables and phis: leaves must be resolver calls; a struct-field leaf is a cache and must satisfy delivered.cache: fills are resolver results or \"\", operand-field stores are followed by a reset). " +
		"Operands are compared as context-sensitive values (prop_gen_c42.go): conversions, named locals, parameters and results of new helpers are looked through, substitution sites are counted per call site of a forwarding helper, the group index may be counter+constant, the numeral may be FormatInt/FormatUint/Itoa/Sprintf(\"$G%d\"). " +
		"The group loop may also be a range-over-func loop `for i, g := range slices.Backward(matches)` (prop_gen_c42_rangefunc.go): start/step follow from the iterator contract for the index itself, the index test may be i != 0 (a slice index is >= 0), the body must continue (yield true) unless index < 1, the replacement is the yielded element or matches[i]; the template variable then lives in a memory cell shared with the loop body: its loads stand for any stored value, every load must be consumed at once (no stale copy) and nothing but returned reads may follow the $MTX_QUERY assignment. " +
		"NOT decided: library semantics; a template that splices '$G<n>' out of a group value and neighbouring literal characters."
	c.Assume = []string{
		"strings.ReplaceAll replaces every non-overlapping occurrence; strconv.FormatInt(i,10) is the decimal numeral",
		"path names and capture groups are substrings of a validated path name (C06)",
	}

	src := c.fn(p, "internal/staticsources", "", "resolveSource")
	dst := c.fn(p, "internal/forward", "", "resolveDest")
	if src != nil {
		c42Resolver(c, p, src, 0, 1, map[string]int{"$MTX_QUERY": 2})
	}
	if dst != nil {
		c42Resolver(c, p, dst, 0, 2, map[string]int{"$MTX_PATH": 1})
	}
	c42DollarFree(c, p)
	c42Provenance(c, p, src, dst)
	c42Delivered(c, p, src, dst)
}

// c42Variadic returns the elements of the slice go/ssa builds for the variadic
// arguments of a call (`new [n]T (varargs)`, one store per element, `slice`).
func c42Variadic(v ssa.Value) ([]ssa.Value, bool) {
	sl, ok := v.(*ssa.Slice)
	if !ok {
		return nil, false
	}
	a, ok := sl.X.(*ssa.Alloc)
	if !ok || a.Comment != "varargs" {
		return nil, false
	}
	var out []ssa.Value
	for _, r := range *a.Referrers() {
		ia, ok := r.(*ssa.IndexAddr)
		if !ok {
			continue
		}
		k, isK := constIntB(ia.Index)
		if !isK || ia.Referrers() == nil {
			return nil, false
		}
		for _, rr := range *ia.Referrers() {
			if st, ok := rr.(*ssa.Store); ok && st.Addr == ssa.Value(ia) {
				for int64(len(out)) <= k {
					out = append(out, nil)
				}
				out[k] = st.Val
			}
		}
	}
	for _, e := range out {
		if e == nil {
			return nil, false
		}
	}
	return out, true
}

func c42IsInteger(v ssa.Value) bool {
	b, ok := v.Type().Underlying().(*types.Basic)
	return ok && b.Info()&types.IsInteger != 0
}

// c42Classify names what a substitution replaces. The group placeholder is
// "$G" followed by the decimal numeral of an integer, however that is spelled:
// "$G"+strconv.FormatInt(int64(i), 10), "$G"+strconv.Itoa(i),
// "$G"+strconv.FormatUint(uint64(i), 10), fmt.Sprintf("$G%d", i) - in place,
// through a named local, or computed by a new helper.
func c42Classify(call *ssa.Call, env *envG4) *c42Subst {
	args := call.Call.Args
	s := &c42Subst{call: call, env: env, subject: rvalG4{args[0], env}, repl: peelG4(rvalG4{args[2], env})}
	ph := peelG4(rvalG4{args[1], env})
	if k, ok := constStringB(ph.v); ok {
		s.kind = k
		return s
	}
	numeral := func(y rvalG4) {
		fc, ok := y.v.(*ssa.Call)
		if !ok {
			return
		}
		switch {
		case (isCallTo(fc, "strconv.FormatInt") || isCallTo(fc, "strconv.FormatUint")) && len(fc.Call.Args) == 2:
			if b, isK := constIntB(peelG4(rvalG4{fc.Call.Args[1], y.env}).v); isK {
				s.kind = "group"
				s.idx = peelG4(rvalG4{fc.Call.Args[0], y.env})
				s.base = b
			}
		case isCallTo(fc, "strconv.Itoa") && len(fc.Call.Args) == 1:
			s.kind = "group"
			s.idx = peelG4(rvalG4{fc.Call.Args[0], y.env})
			s.base = 10
		}
	}
	switch x := ph.v.(type) {
	case *ssa.BinOp:
		if x.Op == token.ADD {
			if pre, ok := constStringB(peelG4(rvalG4{x.X, ph.env}).v); ok && pre == "$G" {
				numeral(peelG4(rvalG4{x.Y, ph.env}))
			}
		}
	case *ssa.Call:
		// fmt.Sprintf("$G%d", i) with an integer i is the same string
		if isCallTo(x, "fmt.Sprintf") && len(x.Call.Args) == 2 {
			if f, ok := constStringB(peelG4(rvalG4{x.Call.Args[0], ph.env}).v); ok && f == "$G%d" {
				if va, ok := c42Variadic(x.Call.Args[1]); ok && len(va) == 1 {
					if i := peelG4(rvalG4{va[0], ph.env}); c42IsInteger(i.v) {
						s.kind, s.idx, s.base = "group", i, 10
					}
				}
			}
		}
	}
	if s.kind == "" {
		s.kind = "?" + descG4(rvalG4{args[1], env})
	}
	return s
}

// c42Returns: the resolver's own returns (a `return helper(..)` is looked
// through at value level by altsG4).
func c42Returns(fn *ssa.Function) []*ssa.Return {
	var out []*ssa.Return
	for _, b := range fn.Blocks {
		if b.Comment == "recover" {
			continue
		}
		for _, i := range b.Instrs {
			if r, ok := i.(*ssa.Return); ok {
				out = append(out, r)
			}
		}
	}
	return out
}

// c42Resolver checks one resolver. tmpl/matches are parameter indices;
// named maps constant placeholders to the parameter that replaces them.
func c42Resolver(c *Ctx, p *Prog, fn *ssa.Function, tmpl, matches int, named map[string]int) {
	key := fnName(fn) + ": "
	// only ReplaceAll
	// The substitution sites are enumerated per call site of the new helpers
	// around them: `subst(s, "$MTX_PATH", name)` and `subst(s, "$G"+.., m[i])`
	// through one forwarding helper are two substitutions, not one.
	var substs []*c42Subst
	isParam := func(x rvalG4, k int) bool {
		par, ok := x.v.(*ssa.Parameter)
		return ok && par.Parent() == fn && paramIndex(par) == k
	}
	cellLoadsSeenG4 = map[*ssa.UnOp]*ssa.Alloc{}
	defer func() { cellLoadsSeenG4 = nil }()
	// The body of a range-over-func loop (`for i, g := range slices.Backward(m)`)
	// is a synthetic closure of the resolver: its instructions belong to the
	// resolver like those of an ordinary loop body (prop_gen_c42_rangefunc.go).
	var visit func(i ssa.Instruction, env *envG4)
	eachWithLoops := func(f func(ssa.Instruction, *envG4)) {
		eachInstrCtxG4(fn, nil, f)
		done := map[*ssa.Function]bool{}
		var bodies func(g *ssa.Function, d int)
		bodies = func(g *ssa.Function, d int) {
			for _, yc := range yieldLoopsG4(g) {
				if done[yc.y] || d > 4 {
					continue
				}
				done[yc.y] = true
				eachInstrCtxG4(yc.y, nil, f)
				bodies(yc.y, d+1)
			}
		}
		bodies(fn, 0)
	}
	visit = func(i ssa.Instruction, env *envG4) {
		cc := callCommon(i)
		if cc == nil {
			return
		}
		n := calleeName(cc)
		if strings.HasPrefix(n, "strings.Replace") || strings.HasPrefix(n, "(*strings.Replacer)") || strings.HasPrefix(n, "strings.NewReplacer") || strings.HasPrefix(n, "(*regexp.Regexp).Replace") {
			ok := n == "strings.ReplaceAll"
			if !ok && n == "strings.Replace" && len(cc.Args) == 4 {
				if k, isC := constIntB(peelG4(rvalG4{cc.Args[3], env}).v); isC && k < 0 {
					ok = true
				}
			}
			ph := ""
			if len(cc.Args) > 1 {
				ph = descG4(rvalG4{cc.Args[1], env})
			}
			c.Check("C42.all_occurrences", key+"substitution of "+ph+" replaces every occurrence (strings.ReplaceAll)", ok, p.Pos(i.Pos()), n)
			if call, isCall := i.(*ssa.Call); isCall && ok && len(cc.Args) >= 3 {
				substs = append(substs, c42Classify(call, env))
			}
		}
	}
	eachWithLoops(visit)
	c.Floor("C42.substitutions:"+fnName(fn), len(substs), 2)
	substOf := func(x rvalG4) *c42Subst {
		for _, s := range substs {
			if s.is(x) {
				return s
			}
		}
		return nil
	}

	// placeholder set
	seen := map[string]int{}
	for _, s := range substs {
		seen[s.kind]++
	}
	want := map[string]bool{"group": true}
	for k := range named {
		want[k] = true
	}
	for k := range want {
		c.Check("C42.placeholders", key+"substitutes "+k+" exactly once in the code", seen[k] == 1, p.Pos(fn.Pos()), fmt.Sprintf("%d substitution sites", seen[k]))
	}
	for k := range seen {
		if !want[k] {
			c.Check("C42.placeholders", key+"unexpected placeholder "+k, false, p.Pos(fn.Pos()), "not a placeholder of this template kind")
		}
	}

	// chain: subject is the template, a previous result, or a phi of those; result is used
	// every alternative a value stands for (phi edges, returns of a new helper)
	// is the resolver's template parameter or the result of a substitution
	isChain := func(x rvalG4) bool {
		alts := altsG4(x)
		for _, a := range alts {
			if !isParam(a, tmpl) && substOf(a) == nil {
				return false
			}
		}
		return len(alts) > 0
	}
	for _, s := range substs {
		c.Check("C42.chain", key+"substitution of "+s.kind+" works on the template or on the previous result", isChain(s.subject), p.Pos(s.call.Pos()), descG4(s.subject))
		c.Check("C42.chain", key+"result of substituting "+s.kind+" is not dropped", len(*s.call.Referrers()) > 0, p.Pos(s.call.Pos()), "")
	}
	for _, r := range c42Returns(fn) {
		v := rvalG4{retVal(r, 0), nil}
		good := isChain(v)
		if isParam(peelG4(v), tmpl) {
			good = false
		}
		// every substitution must be upstream of the returned value
		up := map[*c42Subst]bool{}
		var collect func(x rvalG4)
		collect = func(x rvalG4) {
			for _, a := range altsG4(x) {
				if s := substOf(a); s != nil && !up[s] {
					up[s] = true
					collect(s.subject)
				}
			}
		}
		collect(v)
		for _, s := range substs {
			if !up[s] {
				good = false
			}
		}
		c.Check("C42.chain", key+"the returned string is the end of the substitution chain", good, p.Pos(posOf(r, fn)), desc(v.v))
	}
	// where the chain runs through a variable that is a memory cell (assigned in
	// the body of a range-over-func loop), every read of it is the current content
	{
		cells := map[*ssa.Alloc]bool{}
		var order []*ssa.Alloc
		for _, a := range cellLoadsSeenG4 {
			if !cells[a] {
				cells[a] = true
				order = append(order, a)
			}
		}
		sort.Slice(order, func(i, j int) bool { return order[i].Pos() < order[j].Pos() })
		for _, a := range order {
			why := c42CellDiscipline(a)
			c.Check("C42.chain", key+"the variable "+a.Comment+" assigned in a range-over-func loop body is read and consumed at once, and only the loop bodies share it", why == "", p.Pos(a.Pos()), why)
		}
	}

	// named operands
	for _, s := range substs {
		if want, ok := named[s.kind]; ok {
			c.Check("C42.operand", key+s.kind+" is replaced by parameter #"+itoa(want), isParam(s.repl, want), p.Pos(s.call.Pos()), descG4(s.repl))
		}
	}

	// group loop
	for _, s := range substs {
		if s.kind != "group" {
			continue
		}
		// The group index is counter+off for a loop counter (a phi of an initial
		// value and counter-1) and a constant off: `for i := len(m)-1; i >= 1; i--`
		// uses i itself, `for n := len(m); n > 1; n-- { i := n-1 ..` uses n-1; both
		// enumerate len(m)-1, ..., 1. All three obligations are stated on the
		// index, i.e. after adding off.
		ctr, off := c42Affine(s.idx)
		ph, isPhi := ctr.v.(*ssa.Phi)
		okInit, okStep := false, false
		if isPhi && len(ph.Edges) == 2 {
			for _, e := range ph.Edges {
				b, d := c42Affine(rvalG4{e, ctr.env})
				if sameG4(b, ctr) {
					okStep = okStep || d == -1
					continue
				}
				if l, ok := b.v.(*ssa.Call); ok && len(l.Call.Args) == 1 {
					if bi, isB := l.Call.Value.(*ssa.Builtin); isB && bi.Name() == "len" && isParam(peelG4(rvalG4{l.Call.Args[0], b.env}), matches) {
						okInit = okInit || d+off == -1
					}
				}
			}
		}
		// The same loop as a range-over-func loop: the index is the first
		// parameter of the yield closure of `range slices.Backward(matches)`,
		// which is called with (i, matches[i]) for i = len(matches)-1, ..., 0 in
		// this order (library contract). Start and step hold for the index
		// itself only (offset 0).
		var yloop *ssa.Function
		if par, ok := ctr.v.(*ssa.Parameter); ok && !isPhi {
			if yc, ok := yieldLoopOfG4(par.Parent()); ok && len(yc.y.Params) == 2 && par == yc.y.Params[0] {
				if x, ok := slicesBackwardArgG4(yc); ok && isParam(peelG4(rvalG4{x, nil}), matches) && yc.mc.Parent() == fn {
					yloop = yc.y
					okInit, okStep = off == 0, off == 0
				}
			}
		}
		c.Check("C42.group.order", key+"group index starts at len(matches)-1", okInit, p.Pos(s.call.Pos()), descG4(s.idx))
		c.Check("C42.group.order", key+"group index decreases by one per iteration (so $G10 is handled before $G1)", okStep, p.Pos(s.call.Pos()), descG4(s.idx))
		// loop guard: index >= 1 (in any spelling: i >= 1, i > 0, !(i < 1), 1 <= i,
		// n > 1 for index n-1, ...) holds at the substitution, also when the
		// substitution sits in a new helper called from the loop body
		lower := false
		var gs []string
		for _, g := range guardsG4(s.call, s.env) {
			gs = append(gs, litOf(g.Cond.v, g.Outcome).String())
			// in a range-over-func loop the index is a slice index (>= 0): i != 0 is i >= 1
			if c42LowerLit(g, ctr, off, yloop != nil && off >= 0) == 1 {
				lower = true
			}
		}
		why := ""
		if yloop != nil && lower {
			// ... and the loop goes on to the next smaller index after every
			// iteration: the body returns true unless index < 1
			lower, why = c42YieldReturnsOK(yloop, ctr, off)
		}
		c.Check("C42.group.order", key+"the loop runs exactly while the index is ≥ 1 (group 0 is the whole match, group 1 is not skipped)", lower, p.Pos(s.call.Pos()), "["+strings.Join(gs, " ∧ ")+"] "+why)
		// binding
		c.Check("C42.group.binding", key+"placeholder numeral is decimal", s.base == 10, p.Pos(s.call.Pos()), fmt.Sprintf("base %d", s.base))
		okRepl := false
		if ld, ok := s.repl.v.(*ssa.UnOp); ok && ld.Op == token.MUL {
			if ia, ok := ld.X.(*ssa.IndexAddr); ok {
				i2, off2 := c42Affine(rvalG4{ia.Index, s.repl.env})
				okRepl = isParam(peelG4(rvalG4{ia.X, s.repl.env}), matches) && sameG4(i2, ctr) && off2 == off
			}
		}
		if yloop != nil && off == 0 && s.repl.v == ssa.Value(yloop.Params[1]) {
			okRepl = true // the element slices.Backward(matches) hands out with index i is matches[i]
		}
		c.Check("C42.group.binding", key+"$G<i> is replaced by matches[i] for the same i", okRepl, p.Pos(s.call.Pos()), descG4(s.repl))
	}

	// query last: the $MTX_QUERY result flows only to the resolver's return
	// (through phis, the return of the new helper it is computed in, or a new
	// helper it is handed to): no substitution rescans it
	for _, s := range substs {
		if s.kind != "$MTX_QUERY" {
			continue
		}
		// when the result is assigned to a variable that a range-over-func loop
		// body shares (a memory cell), "last" is a statement about what can
		// still execute after the assignment (prop_gen_c42_rangefunc.go)
		last, detail := false, ""
		if handled, ok := c42QueryLastCell(fn, s.call); handled {
			last, detail = ok, "the result is assigned to a variable shared with a range-over-func loop body; after the assignment only reads that are returned may follow"
		} else {
			last = flowsOnlyToReturnG4(rvalG4{s.call, s.env})
		}
		c.Check("C42.query_last", key+"the client query is substituted last and its result is returned without rescanning", last, p.Pos(s.call.Pos()), detail)
	}
}

// c42Affine splits an integer value into base + constant (x, x+1, x-1, 1+x,
// nested), looking through conversions, named locals and new helpers.
func c42Affine(x rvalG4) (rvalG4, int64) {
	var off int64
	for n := 0; n < 16; n++ {
		x = peelG4(x)
		bo, ok := x.v.(*ssa.BinOp)
		if !ok || (bo.Op != token.ADD && bo.Op != token.SUB) {
			return x, off
		}
		if k, isK := constIntB(peelG4(rvalG4{bo.Y, x.env}).v); isK {
			if bo.Op == token.SUB {
				k = -k
			}
			off += k
			x = rvalG4{bo.X, x.env}
			continue
		}
		if k, isK := constIntB(peelG4(rvalG4{bo.X, x.env}).v); isK && bo.Op == token.ADD {
			off += k
			x = rvalG4{bo.Y, x.env}
			continue
		}
		return x, off
	}
	return x, off
}

func c42DollarFree(c *Ctx, p *Prog) {
	v := p.globalInit("internal/conf", "rePathName")
	pat, ok := "", false
	if call, isCall := v.(*ssa.Call); isCall && isCallTo(call, "regexp.MustCompile") && len(call.Call.Args) == 1 {
		pat, ok = constStringB(call.Call.Args[0])
	}
	if !ok {
		c.Undecided("UNRESOLVED ANCHOR conf.rePathName is not regexp.MustCompile(<constant>)")
		return
	}
	why := ""
	re, err := syntax.Parse(pat, syntax.Perl)
	if err != nil {
		why = err.Error()
	} else {
		var admits func(r *syntax.Regexp) bool
		admits = func(r *syntax.Regexp) bool {
			switch r.Op {
			case syntax.OpAnyChar, syntax.OpAnyCharNotNL:
				return true
			case syntax.OpLiteral:
				for _, x := range r.Rune {
					if x == '$' {
						return true
					}
				}
			case syntax.OpCharClass:
				for i := 0; i+1 < len(r.Rune); i += 2 {
					if r.Rune[i] <= '$' && '$' <= r.Rune[i+1] {
						return true
					}
				}
			}
			for _, s := range r.Sub {
				if admits(s) {
					return true
				}
			}
			return false
		}
		if admits(re) {
			why = "the pattern can consume '$'"
		}
		if len(re.Sub) == 0 || re.Sub[0].Op != syntax.OpBeginText || re.Sub[len(re.Sub)-1].Op != syntax.OpEndText {
			why += " the pattern is not anchored at both ends"
		}
	}
	c.Check("C42.dollar_free", "conf.rePathName: valid path names (hence names and capture groups) cannot contain '$'", why == "", p.Pos(v.Pos()), pat+" "+why)
}

func c42Provenance(c *Ctx, p *Prog, src, dst *ssa.Function) {
	ix := p.index()
	// call sites of the resolvers
	type want struct {
		fn   *ssa.Function
		args []string
	}
	for _, w := range []want{
		{src, []string{"$0.Conf.Source", "$0.Matches", "$0.query"}},
		{dst, []string{"$0.Conf.Dest", "$0.PathName", "$0.Matches"}},
	} {
		if w.fn == nil {
			continue
		}
		sites := ix.callers[w.fn]
		c.Floor("C42.provenance.callers:"+fnName(w.fn), len(sites), 1)
		for _, s := range sites {
			var got []string
			for _, a := range callCommon(s).Args {
				d := desc(a)
				// inside a closure the receiver is a free variable
				d = strings.Replace(d, "free:s.", "$0.", 1)
				d = strings.Replace(d, "free:h.", "$0.", 1)
				got = append(got, d)
			}
			c.Check("C42.provenance", fnName(w.fn)+" called from "+fnName(s.Parent())+" with the handler's own template, name/groups and query", sameStrings(got, w.args), p.Pos(s.Pos()), joinS(got))
		}
	}
	// field stores
	type fs struct {
		field string
		want  []string // accepted canonical values
		floor int
	}
	for _, f := range []fs{
		{"staticsources.Handler.Matches", []string{"$0.matches"}, 1},
		{"staticsources.Handler.query", []string{"$2"}, 1},
		{"forward.DestHandler.PathName", []string{"$0.PathName"}, 1},
		{"forward.DestHandler.Matches", []string{"$0.Matches"}, 1},
		{"forward.Manager.PathName", []string{"$0.name"}, 1},
		{"forward.Manager.Matches", []string{"$0.matches"}, 1},
		{"core.path.name", []string{"$2"}, 1},
		{"core.path.matches", []string{"$3"}, 1},
	} {
		sts := ix.fieldStores[f.field]
		if len(sts) < f.floor {
			c.Check("C42.provenance", "stores to "+f.field, false, "-", fmt.Sprintf("%d stores in the module (at least %d expected): the operand is never set", len(sts), f.floor))
			continue
		}
		for _, st := range sts {
			d := desc(st.Val)
			ok := contains(f.want, d)
			// receivers must be of the expected holder
			holder := ""
			if st.Parent().Signature.Recv() != nil {
				holder = typeStr(st.Parent().Signature.Recv().Type())
			}
			switch f.field {
			case "staticsources.Handler.Matches", "forward.Manager.PathName", "forward.Manager.Matches":
				ok = ok && holder == "*core.path"
			case "forward.DestHandler.PathName", "forward.DestHandler.Matches":
				ok = ok && holder == "*forward.Manager"
			case "core.path.name", "core.path.matches":
				ok = ok && fnName(st.Parent()) == "(*internal/core.pathManager).createPath"
			case "staticsources.Handler.query":
				ok = ok && fnName(st.Parent()) == "(*internal/staticsources.Handler).Start"
			}
			c.Check("C42.provenance", "store to "+f.field+" in "+fnName(st.Parent()), ok, p.Pos(st.Pos()), "value "+d)
		}
	}
	// createPath(conf, name, groups): groups are nil or FindPathConf(_, name)#1 of the same name
	cp := c.fn(p, "internal/core", "pathManager", "createPath")
	if cp != nil {
		sites := ix.callers[cp]
		c.Floor("C42.provenance.createPath", len(sites), 5)
		for _, s := range sites {
			args := callCommon(s).Args
			if len(args) != 4 {
				continue
			}
			ok := isNilConst(args[3])
			if ex, isEx := args[3].(*ssa.Extract); isEx && ex.Index == 1 {
				if call, isCall := ex.Tuple.(*ssa.Call); isCall && isCallTo(call, "conf.FindPathConf") {
					ok = desc(call.Call.Args[1]) == desc(args[2])
				}
			}
			c.Check("C42.provenance", "createPath in "+fnName(s.Parent())+": groups are nil or those FindPathConf returned for the same name", ok, p.Pos(s.Pos()), desc(args[2])+" / "+desc(args[3]))
		}
	}
	// Handler.Start(onDemand, query): the query comes from the on-demand request
	st := c.fn(p, "internal/staticsources", "Handler", "Start")
	if st != nil {
		sites := ix.callers[st]
		c.Floor("C42.provenance.Start", len(sites), 2)
		for _, s := range sites {
			args := callCommon(s).Args
			d := desc(args[len(args)-1])
			ok := d == `""` || d == "$1"
			c.Check("C42.provenance", "Handler.Start in "+fnName(s.Parent())+": query is empty or the caller's query parameter", ok, p.Pos(s.Pos()), d)
		}
	}
}
