package main

import (
	"strings"

	"golang.org/x/tools/go/ssa"
)

// C33 - MoQ reorderer delivers groups in order with bounded buffering.
// Ordering over histories is a value-level invariant and is not decided. Decided
// are the structural necessary conditions: byte accounting paired with every
// insertion/removal, both limit tests after every insertion, the guards of
// the three delivery sites, sort-before-output, removal-with-output pairing,
// the lock discipline and the writer sets of the state fields.

const (
	c33GID      = "$1.Header.GroupID"
	c33Newer    = "($0.curGroupID < $1.Header.GroupID)"
	c33Next     = "($1.Header.GroupID == ($0.curGroupID + 1))"
	c33Empty    = "(len($0.pending) == 0)"
	c33TooMany  = "($0.MaxReordered < len($0.pending))"
	c33TooBig   = "($0.MaxPendingBytes < $0.pendingBytes)"
	c33Size     = "protocols/moq/reorderer.subGroupPayloadSize"
	c33Flush    = "(*protocols/moq/reorderer.Reorderer).flushUpTo"
	c33Reord    = "protocols/moq/reorderer.Reorderer"
	c33PrevSize = c33Size + "($0.pending[$1.Header.GroupID]#0)"
)

func init() {
	register(Property{ID: "C33", Level: "other", Run: runC33,
		Technique: "static analysis: SSA path conditions and block-level pairing (typestate of the byte counter), who-may-write tables, lock-state dataflow",
		Text:      "Decides on all paths of Reorderer.Push/flushUpTo: every insertion into pending is preceded by the subtraction of a replaced entry's payload size and followed in the same block by the addition of the inserted subgroup's size; every removal from pending is paired in the same block with the subtraction of the removed entry's size and with appending that entry to the output (so nothing delivered stays pending and nothing is delivered twice); after an insertion a return without a flush carries both ¬(len(pending) > MaxReordered) and ¬(pendingBytes > MaxPendingBytes), and a flush is up to the inserted group id; insertion happens only for ids newer than the last delivered one; the immediate-delivery return carries id == cur+1 and advances cur; flushUpTo sorts the collected ids before output, selects exactly cur < id <= max, sets cur = max and then drains consecutive ids advancing cur by one per entry; pending/pendingBytes/curGroupID/initialized are touched only in Push/flushUpTo/Initialize and only with r.mu held; a push is ONE critical section: in Push and every function it statically calls, after r.mu has been released (plain Unlock, or a callee that unlocks - e.g. to log without the lock) no reorderer state is accessed again before the function returns, so a decision is never applied to a state another push may have changed in between. Not decided: the ordering/at-most-once/bounds invariants over push histories (value-level), payload size arithmetic.",
		Note:      "trusted: sync.Mutex, slices.Sort, map semantics; the limit clause relies on the (undecided) invariant that the limits held before the push"})
	addMutants(
		Mutant{"C33", "replace-leaks-bytes", "internal/protocols/moq/reorderer/reorderer.go",
			"		if prev, ok := r.pending[sg.Header.GroupID]; ok {\n			r.pendingBytes -= subGroupPayloadSize(prev)\n		}\n", "", "C33.accounting"},
		Mutant{"C33", "insert-not-accounted", "internal/protocols/moq/reorderer/reorderer.go",
			"		r.pendingBytes += subGroupPayloadSize(sg)\n", "", "C33.accounting"},
		Mutant{"C33", "flush-keeps-entry", "internal/protocols/moq/reorderer/reorderer.go",
			"		r.pendingBytes -= subGroupPayloadSize(r.pending[id])\n		delete(r.pending, id)\n", "		r.pendingBytes -= subGroupPayloadSize(r.pending[id])\n", "C33.removal"},
		Mutant{"C33", "drain-forgets-bytes", "internal/protocols/moq/reorderer/reorderer.go",
			"		r.pendingBytes -= subGroupPayloadSize(next)\n", "", "C33.accounting"},
		Mutant{"C33", "bytes-limit-dropped", "internal/protocols/moq/reorderer/reorderer.go",
			"		case r.pendingBytes > r.MaxPendingBytes:\n			r.Parent.Log(logger.Warn, \"too many reordered bytes, flushing\")\n			return r.flushUpTo(sg.Header.GroupID), nil\n", "", "C33.limits"},
		Mutant{"C33", "count-limit-on-wrong-field", "internal/protocols/moq/reorderer/reorderer.go",
			"case len(r.pending) > r.MaxReordered:", "case len(r.pending) > r.MaxPendingBytes:", "C33.limits"},
		Mutant{"C33", "flush-not-sorted", "internal/protocols/moq/reorderer/reorderer.go",
			"	slices.Sort(ids)\n", "	_ = slices.Sort[[]uint64]\n", "C33.order"},
		Mutant{"C33", "duplicate-of-current-buffered", "internal/protocols/moq/reorderer/reorderer.go",
			"case sg.Header.GroupID <= r.curGroupID:", "case sg.Header.GroupID < r.curGroupID:", "C33.guard"},
		Mutant{"C33", "immediate-delivery-any-gap", "internal/protocols/moq/reorderer/reorderer.go",
			"case sg.Header.GroupID == r.curGroupID+1 && len(r.pending) == 0:", "case len(r.pending) == 0:", "C33.guard"},
		Mutant{"C33", "flush-does-not-advance", "internal/protocols/moq/reorderer/reorderer.go",
			"	r.curGroupID = maxGroupID\n", "", "C33.order"},
		Mutant{"C33", "lock-dropped-while-logging-before-flush", "internal/protocols/moq/reorderer/reorderer.go",
			"			r.Parent.Log(logger.Warn, \"too many reordered bytes, flushing\")\n", "			r.mu.Unlock()\n			r.Parent.Log(logger.Warn, \"too many reordered bytes, flushing\")\n			r.mu.Lock()\n", "C33.atomic"},
		Mutant{"C33", "lock-dropped-while-sorting", "internal/protocols/moq/reorderer/reorderer.go",
			"	slices.Sort(ids)\n", "	r.mu.Unlock()\n	slices.Sort(ids)\n	r.mu.Lock()\n", "C33.atomic"},
		Mutant{"C33", "unlocked-push", "internal/protocols/moq/reorderer/reorderer.go",
			"	r.mu.Lock()\n	defer r.mu.Unlock()\n\n	if !r.initialized {", "	if !r.initialized {", "C33.guarded_by"},
	)
}

func runC33(c *Ctx) {
	p := c.Main()
	if p == nil {
		return
	}
	c.Explain = "C33.accounting.*: pendingBytes updates paired block-wise with every pending insertion/removal (replace case included). " +
		"C33.removal.*: every delete from pending appends the removed entry to the output in the same block. " +
		"C33.limits.*: both limit tests on every non-flushing path after an insertion; flush argument is the inserted id. " +
		"C33.guard.*: path conditions of insertion and of the two direct deliveries. C33.order.*: sort before output, selection predicate, cur updates. " +
		"C33.writers / C33.guarded_by: state fields written only in Push/flushUpTo/Initialize, accessed under Reorderer.mu (flushUpTo's entry state is summarised from its callers). " +
		"C33.atomic: no state access is reachable after a release of Reorderer.mu inside Push's static call extent (release/touch summaries over the call graph). " +
		"NOT decided: the ordering and bound invariants over arbitrary push histories (they are inductive value-level invariants), integer arithmetic."
	c.Assume = []string{"the limits held before the push (inductive invariant, not decided)", "slices.Sort sorts ascending", "sync.Mutex is a mutual exclusion lock"}

	push := c.fn(p, "internal/protocols/moq/reorderer", "Reorderer", "Push")
	flush := c.fn(p, "internal/protocols/moq/reorderer", "Reorderer", "flushUpTo")
	if push == nil || flush == nil {
		return
	}

	bytesStore := func(i ssa.Instruction) (*ssa.Store, *ssa.BinOp) {
		st, ok := i.(*ssa.Store)
		if !ok {
			return nil, nil
		}
		fa, ok := st.Addr.(*ssa.FieldAddr)
		if !ok || !fieldAddrIs(fa, c33Reord, "pendingBytes") {
			return nil, nil
		}
		bo, _ := st.Val.(*ssa.BinOp)
		return st, bo
	}

	// ---- insertions
	var inserts []*ssa.MapUpdate
	for _, fn := range p.ModFuncs() {
		eachInstr(fn, func(i ssa.Instruction) {
			mu, ok := i.(*ssa.MapUpdate)
			if !ok {
				return
			}
			if fa, ok := loadOf(mu.Map).(*ssa.FieldAddr); ok && fieldAddrIs(fa, c33Reord, "pending") {
				inserts = append(inserts, mu)
			}
		})
	}
	c.Floor("C33.accounting.insert", len(inserts), 1)
	for _, mu := range inserts {
		fn := mu.Parent()
		key := fnName(fn) + ": pending[" + desc(mu.Key) + "] = " + desc(mu.Value)
		if !c.Check("C33.writers", key+" is in Push", fn == push, p.Pos(posOf(mu, fn)), "insertions only in Push") {
			continue
		}
		c.Check("C33.accounting.insert", key+": key is the subgroup's group id", desc(mu.Key) == c33GID && desc(mu.Value) == "$1", p.Pos(posOf(mu, fn)), "")
		// same block, after the insert: pendingBytes += size(inserted)
		added := false
		b := mu.Block()
		for k := instrIndex(mu) + 1; k < len(b.Instrs); k++ {
			if st, bo := bytesStore(b.Instrs[k]); st != nil && bo != nil {
				if desc(st.Val) == "($0.pendingBytes + "+c33Size+"("+desc(mu.Value)+"))" {
					added = true
				}
			}
		}
		c.Check("C33.accounting.insert", key+": followed in its block by pendingBytes += size(inserted)", added, p.Pos(posOf(mu, fn)), "")
		// replace case: on every path to the insert on which the key was present, pendingBytes -= size(previous)
		lookupOK := "$0.pending[" + desc(mu.Key) + "]#1"
		sub := func(i ssa.Instruction) bool {
			st, _ := bytesStore(i)
			return st != nil && desc(st.Val) == "($0.pendingBytes - "+c33PrevSize+")"
		}
		muI := ssa.Instruction(mu)
		w := (&Walker{
			Visit: func(i ssa.Instruction) int {
				if sub(i) {
					return wStop
				}
				if i == muI {
					return wHit
				}
				return wContinue
			},
			Edge: func(l Lit) bool { return !(l.Atom == lookupOK && !l.Pos) }, // follow only "key present" and unrelated edges
		}).Run(entry(fn))
		hasLookup := false
		eachInstr(fn, func(i ssa.Instruction) {
			if ifi, ok := i.(*ssa.If); ok && litOf(ifi.Cond, true).Atom == lookupOK {
				hasLookup = true
			}
		})
		c.Check("C33.accounting.replace", key+": a replaced entry's size is subtracted before the insert", hasLookup && w == nil, p.Pos(posOf(mu, fn)),
			"wanted a comma-ok lookup of the same key whose present-branch subtracts "+c33PrevSize+"; "+w.String(p))
		// the subtraction happens only when the key was present
		if countTargets(fn, sub) > 0 {
			c.MustPass(p, fn, "C33.accounting.replace", "pendingBytes -= size(previous)", sub, T(lookupOK))
		}

		// ---- limits after the insertion
		flushCall := func(i ssa.Instruction) bool { return isCallTo(i, c33Flush) }
		realRet := func(i ssa.Instruction) bool {
			r, ok := i.(*ssa.Return)
			return ok && r.Block().Comment != "recover"
		}
		for _, lim := range []struct{ name, atom string }{{"count", c33TooMany}, {"bytes", c33TooBig}} {
			atom := lim.atom
			w := (&Walker{
				Visit: func(i ssa.Instruction) int {
					if flushCall(i) {
						return wStop
					}
					if realRet(i) {
						return wHit
					}
					return wContinue
				},
				Edge: func(l Lit) bool { return !(l.Atom == atom && !l.Pos) },
			}).Run(after(mu))
			c.Check("C33.limits."+lim.name, key+": a return without flush after the insert carries ¬"+atom, w == nil, p.Pos(posOf(mu, fn)), w.String(p))
		}
		// limit exceeded ⇒ flush before return
		for _, lim := range []struct{ name, atom string }{{"count", c33TooMany}, {"bytes", c33TooBig}} {
			atom := lim.atom
			found := false
			eachInstr(fn, func(i ssa.Instruction) {
				ifi, ok := i.(*ssa.If)
				if !ok || litOf(ifi.Cond, true).Atom != atom || !litOf(ifi.Cond, true).Pos {
					return
				}
				found = true
				tb := ifi.Block().Succs[0]
				w := reachAvoiding(Point{tb, 0}, realRet, flushCall)
				c.Check("C33.limits."+lim.name, fnName(fn)+": "+atom+" ⇒ flushUpTo before return", w == nil, p.Pos(posOf(ifi, fn)), w.String(p))
			})
			c.Check("C33.limits."+lim.name, fnName(fn)+": test "+atom+" exists", found, p.Pos(fn.Pos()), "")
		}
	}
	// flush calls: argument is the inserted id, result is what Push returns
	nfl := 0
	for _, fn := range p.ModFuncs() {
		for _, i := range callsIn(fn, c33Flush) {
			nfl++
			cc := callCommon(i)
			c.Check("C33.limits.flush_arg", fnName(fn)+": flushUpTo($0, "+desc(cc.Args[1])+")", fn == push && desc(cc.Args[0]) == "$0" && desc(cc.Args[1]) == c33GID && isPlainCall(i),
				p.Pos(posOf(i, fn)), "a flush below the inserted id would keep the inserted subgroup pending")
		}
	}
	c.Floor("C33.limits.flush_arg", nfl, 3)
	for _, r := range returnsOf(push) {
		if r.Block().Comment == "recover" {
			continue
		}
		d := desc(retVal(r, 0))
		ok := d == "nil" || d == c33Flush+"($0, "+c33GID+")" || d == "new([1]*protocols/moq/subgroup.SubGroup)[:]"
		c.Check("C33.guard.results", fnName(push)+": returns "+c33ResKind(d), ok, p.Pos(posOf(r, push)), "value "+d)
	}

	// ---- guards
	if len(inserts) > 0 {
		c.MustPass(p, push, "C33.guard.insert_only_newer", "insert into pending", func(i ssa.Instruction) bool {
			_, ok := i.(*ssa.MapUpdate)
			return ok && i.Parent() == push && isPendingUpdate(i)
		}, T(c33Newer))
		c.MustPass(p, push, "C33.guard.insert_only_initialized", "insert into pending", func(i ssa.Instruction) bool { return isPendingUpdate(i) }, T("$0.initialized"))
	}
	direct := func(i ssa.Instruction) bool {
		r, ok := i.(*ssa.Return)
		return ok && r.Block().Comment != "recover" && desc(retVal(r, 0)) == "new([1]*protocols/moq/subgroup.SubGroup)[:]"
	}
	if countTargets(push, direct) > 0 {
		c.MustPass(p, push, "C33.guard.direct_delivery", "return [sg]", direct, F("$0.initialized"), T(c33Next))
		c.MustPass(p, push, "C33.guard.direct_delivery", "return [sg]", direct, F("$0.initialized"), T(c33Empty))
		c.MustPass(p, push, "C33.guard.direct_delivery", "return [sg]", direct, F("$0.initialized"), T(c33Newer))
		c.MustPrecede(p, push, "C33.guard.direct_delivery", "return [sg]", "curGroupID := sg.Header.GroupID", direct, func(i ssa.Instruction) bool {
			st, ok := i.(*ssa.Store)
			return ok && desc(st.Addr) == "$0.curGroupID" && desc(st.Val) == c33GID
		})
		// the element delivered is the pushed subgroup
		okElt := 0
		eachInstr(push, func(i ssa.Instruction) {
			if st, ok := i.(*ssa.Store); ok && desc(st.Addr) == "new([1]*protocols/moq/subgroup.SubGroup)[0]" {
				if desc(st.Val) == "$1" {
					okElt++
				} else {
					okElt = -100
				}
			}
		})
		c.Check("C33.guard.direct_delivery", fnName(push)+": the directly delivered element is the pushed subgroup", okElt >= 1, p.Pos(push.Pos()), "")
		// an id that directly follows cur with nothing pending is delivered immediately: the guarded branch returns directly
		eachInstr(push, func(i ssa.Instruction) {
			ifi, ok := i.(*ssa.If)
			if !ok || litOf(ifi.Cond, true).Atom != c33Empty {
				return
			}
			w := reachAvoiding(Point{ifi.Block().Succs[0], 0}, func(i ssa.Instruction) bool {
				r, ok := i.(*ssa.Return)
				return ok && !direct(r)
			}, func(ssa.Instruction) bool { return false })
			c.Check("C33.guard.direct_delivery", fnName(push)+": id == cur+1 ∧ nothing pending ⇒ returns [sg]", w == nil, p.Pos(posOf(ifi, push)), w.String(p))
		})
	}
	// first push initialises
	c.MustPass(p, push, "C33.guard.first_push", "store initialized := true", func(i ssa.Instruction) bool {
		st, ok := i.(*ssa.Store)
		return ok && desc(st.Addr) == "$0.initialized"
	}, F("$0.initialized"))

	// ---- removals (module-wide)
	ndel := 0
	for _, fn := range p.ModFuncs() {
		for _, i := range callsIn(fn, "delete") {
			cc := callCommon(i)
			fa, ok := loadOf(cc.Args[0]).(*ssa.FieldAddr)
			if !ok || !fieldAddrIs(fa, c33Reord, "pending") {
				continue
			}
			ndel++
			k := desc(cc.Args[1])
			key := fnName(fn) + ": delete(pending, " + c33KeyKind(k) + ")"
			if !c.Check("C33.writers", key+" is in flushUpTo", fn == flush, p.Pos(posOf(i, fn)), "removals only in flushUpTo") {
				continue
			}
			b := i.Block()
			idx := instrIndex(i)
			// the removed entry: $0.pending[k] (plain lookup) or $0.pending[k]#0 (comma-ok)
			ent1, ent2 := "$0.pending["+k+"]", "$0.pending["+k+"]#0"
			subOK, outOK := false, false
			for j := 0; j < idx; j++ {
				if st, _ := bytesStore(b.Instrs[j]); st != nil {
					d := desc(st.Val)
					if d == "($0.pendingBytes - "+c33Size+"("+ent1+"))" || d == "($0.pendingBytes - "+c33Size+"("+ent2+"))" {
						subOK = true
					}
				}
				if st, ok := b.Instrs[j].(*ssa.Store); ok && desc(st.Addr) == "new([1]*protocols/moq/subgroup.SubGroup)[0]" && (desc(st.Val) == ent1 || desc(st.Val) == ent2) {
					// the one-element array is appended to the output
					for k2 := j + 1; k2 < idx; k2++ {
						if isCallTo(b.Instrs[k2], "append") && strings.Contains(desc(callCommon(b.Instrs[k2]).Args[1]), "new([1]*protocols/moq/subgroup.SubGroup)[:]") {
							outOK = true
						}
					}
				}
			}
			c.Check("C33.accounting.remove", key+": paired in its block with pendingBytes -= size(removed entry)", subOK, p.Pos(posOf(i, fn)), "")
			c.Check("C33.removal.delivered", key+": the removed entry is appended to the output in the same block", outOK, p.Pos(posOf(i, fn)), "an entry removed without being handed on is lost; one handed on without removal is delivered twice")
		}
	}
	c.Floor("C33.accounting.remove", ndel, 2)
	// every append of a pending entry to the output is paired with its delete
	nap := 0
	eachInstr(flush, func(i ssa.Instruction) {
		st, ok := i.(*ssa.Store)
		if !ok || desc(st.Addr) != "new([1]*protocols/moq/subgroup.SubGroup)[0]" {
			return
		}
		nap++
		d := desc(st.Val)
		k := strings.TrimSuffix(strings.TrimSuffix(strings.TrimPrefix(d, "$0.pending["), "#0"), "]")
		del := false
		b := st.Block()
		for j := instrIndex(st) + 1; j < len(b.Instrs); j++ {
			if isCallTo(b.Instrs[j], "delete") {
				cc := callCommon(b.Instrs[j])
				if desc(cc.Args[0]) == "$0.pending" && desc(cc.Args[1]) == k {
					del = true
				}
			}
		}
		c.Check("C33.removal.delivered", fnName(flush)+": output of pending["+c33KeyKind(k)+"] is followed in its block by its delete", strings.HasPrefix(d, "$0.pending[") && del, p.Pos(posOf(st, flush)), "handed on: "+d)
	})
	c.Floor("C33.removal.delivered", nap, 2)
	// every pendingBytes store is one of the paired updates
	nb := 0
	for _, fn := range p.ModFuncs() {
		eachInstr(fn, func(i ssa.Instruction) {
			st, bo := bytesStore(i)
			if st == nil {
				return
			}
			nb++
			ok := bo != nil && strings.HasPrefix(desc(st.Val), "($0.pendingBytes ") && strings.Contains(desc(st.Val), c33Size+"(") && (fn == push || fn == flush)
			c.Check("C33.writers", fnName(fn)+": pendingBytes := "+c33BytesKind(desc(st.Val)), ok, p.Pos(posOf(st, fn)), desc(st.Val))
		})
	}
	c.Floor("C33.writers:pendingBytes", nb, 4)

	// ---- order in flushUpTo
	sorts := callsIn(flush, "slices.Sort*")
	firstOut := func(i ssa.Instruction) bool {
		return isCallTo(i, "append") && strings.Contains(typeStr(callCommon(i).Args[0].Type()), "SubGroup")
	}
	if c.Check("C33.order.sorted", fnName(flush)+": slices.Sort on the collected ids", len(sorts) == 1, p.Pos(flush.Pos()), sprintf("%d sort call(s)", len(sorts))) {
		c.MustPrecede(p, flush, "C33.order.sorted", "append to the output", "slices.Sort(ids)", firstOut, callTo("slices.Sort*"))
		// the sorted slice is the one ranged over for output and collected from pending keys
		arg := desc(callCommon(sorts[0]).Args[0])
		c.Check("C33.order.sorted", fnName(flush)+": sorted slice collects pending keys", strings.Contains(arg, "append(") && strings.Contains(arg, "makeslice([]uint64"), p.Pos(posOf(sorts[0], flush)), arg)
		// no id is collected after the sort
		collect := func(i ssa.Instruction) bool {
			return isCallTo(i, "append") && strings.Contains(typeStr(callCommon(i).Args[0].Type()), "uint64")
		}
		w := reachAvoiding(after(sorts[0]), collect, func(ssa.Instruction) bool { return false })
		c.Check("C33.order.sorted", fnName(flush)+": no id is collected after the sort", w == nil, p.Pos(posOf(sorts[0], flush)), w.String(p))
		c.MustPass(p, flush, "C33.order.selection", "collect id", collect, T("($0.curGroupID < next(range($0.pending))#1)"))
		c.MustPass(p, flush, "C33.order.selection", "collect id", collect, F("($1 < next(range($0.pending))#1)"))
		for _, i := range callsIn(flush, "append") {
			if collect(i) {
				elt := ""
				b := i.Block()
				for j := 0; j < instrIndex(i); j++ {
					if st, ok := b.Instrs[j].(*ssa.Store); ok && desc(st.Addr) == "new([1]uint64)[0]" {
						elt = desc(st.Val)
					}
				}
				c.Check("C33.order.selection", fnName(flush)+": the collected id is the tested key", elt == "next(range($0.pending))#1", p.Pos(posOf(i, flush)), "collected "+elt)
			}
		}
	}
	// cur := max after the sorted output, then drain cur+1 ...
	curStores := fieldStores(flush, c33Reord, "curGroupID")
	var setMax, incr *ssa.Store
	for _, st := range curStores {
		switch desc(st.Val) {
		case "$1":
			setMax = st
		case "($0.curGroupID + 1)":
			incr = st
		default:
			c.Check("C33.order.cur", fnName(flush)+": unexpected store to curGroupID", false, p.Pos(posOf(st, flush)), desc(st.Val))
		}
	}
	c.Check("C33.order.cur", fnName(flush)+": curGroupID := maxGroupID", setMax != nil, p.Pos(flush.Pos()), "")
	if setMax != nil {
		c.MustPrecede(p, flush, "C33.order.cur", "return", "curGroupID := maxGroupID", anyReturn, func(i ssa.Instruction) bool { return i == ssa.Instruction(setMax) })
		// drain lookups happen after cur := max
		drainIf := func(i ssa.Instruction) bool {
			ifi, ok := i.(*ssa.If)
			return ok && litOf(ifi.Cond, true).Atom == "$0.pending[($0.curGroupID + 1)]#1"
		}
		if countTargets(flush, drainIf) > 0 {
			c.MustPrecede(p, flush, "C33.order.cur", "drain of consecutive ids", "curGroupID := maxGroupID", drainIf, func(i ssa.Instruction) bool { return i == ssa.Instruction(setMax) })
			c.MustPass(p, flush, "C33.order.drain", "return", anyReturn, F("$0.pending[($0.curGroupID + 1)]#1"))
		} else {
			c.Check("C33.order.drain", fnName(flush)+": drain loop over pending[cur+1]", false, p.Pos(flush.Pos()), "no comma-ok lookup of cur+1")
		}
	}
	if c.Check("C33.order.drain", fnName(flush)+": drain advances curGroupID by one per delivered entry", incr != nil, p.Pos(flush.Pos()), "") {
		// same block as the delete of cur+1, after it
		okB := false
		b := incr.Block()
		for j := 0; j < instrIndex(incr); j++ {
			if isCallTo(b.Instrs[j], "delete") && desc(callCommon(b.Instrs[j]).Args[1]) == "($0.curGroupID + 1)" {
				okB = true
			}
		}
		c.Check("C33.order.drain", fnName(flush)+": cur++ follows the delete of pending[cur+1] in its block", okB, p.Pos(posOf(incr, flush)), "")
		c.MustPass(p, flush, "C33.order.drain", "cur++", func(i ssa.Instruction) bool { return i == ssa.Instruction(incr) }, T("$0.pending[($0.curGroupID + 1)]#1"))
	}
	// curGroupID writers module-wide
	ncw := 0
	for _, fn := range p.ModFuncs() {
		for _, st := range fieldStores(fn, c33Reord, "curGroupID") {
			ncw++
			c.Check("C33.writers", fnName(fn)+": curGroupID := "+c33CurKind(desc(st.Val)), fn == push || fn == flush, p.Pos(posOf(st, fn)), "")
		}
		for _, st := range fieldStores(fn, c33Reord, "pending") {
			_, fresh := st.Val.(*ssa.MakeMap)
			c.Check("C33.writers", fnName(fn)+": pending map replaced", fresh && fn.Name() == "Initialize", p.Pos(posOf(st, fn)), "only Initialize may (re)create the map")
		}
	}
	c.Floor("C33.writers:curGroupID", ncw, 4)
	// Push stores cur only with the pushed id
	for _, st := range fieldStores(push, c33Reord, "curGroupID") {
		c.Check("C33.order.cur", fnName(push)+": curGroupID := "+c33CurKind(desc(st.Val)), desc(st.Val) == c33GID, p.Pos(posOf(st, push)), "")
	}

	// ---- lock discipline
	la := newLockAnalysis(p, mutexSpec{c33Reord, "mu"})
	exempt := map[string]string{"(*internal/protocols/moq/reorderer.Reorderer).Initialize|store of a fresh map": "construction before the reorderer is shared"}
	g := 0
	for _, f := range []string{"pending", "pendingBytes", "curGroupID", "initialized"} {
		g += c.guardedBy(p, "C33.guarded_by", la, c33Reord, f, exempt)
	}
	c.Floor("C33.guarded_by", g, 8)
	// one push = one critical section (the lock is not released and re-taken in the middle)
	c33AtomicRule(c, p, push)
	// flushUpTo is private to Push
	got := p.staticCallers(flush)
	okc := len(got) > 0
	for _, s := range got {
		if s != "(*internal/protocols/moq/reorderer.Reorderer).Push: call" {
			okc = false
		}
	}
	c.Check("C33.writers", fnName(flush)+": called only from Push", okc, p.Pos(flush.Pos()), "got "+joinS(got))
}

func isPendingUpdate(i ssa.Instruction) bool {
	mu, ok := i.(*ssa.MapUpdate)
	if !ok {
		return false
	}
	fa, ok := loadOf(mu.Map).(*ssa.FieldAddr)
	return ok && fieldAddrIs(fa, c33Reord, "pending")
}

func c33ResKind(d string) string {
	switch {
	case d == "nil":
		return "nothing"
	case strings.HasPrefix(d, c33Flush):
		return "flushUpTo(id)"
	case d == "new([1]*protocols/moq/subgroup.SubGroup)[:]":
		return "[sg]"
	}
	return "other value"
}

func c33KeyKind(k string) string {
	switch {
	case k == "($0.curGroupID + 1)":
		return "cur+1"
	case strings.Contains(k, "makeslice([]uint64"):
		return "sorted id"
	}
	return k
}

func c33BytesKind(d string) string {
	switch {
	case strings.HasPrefix(d, "($0.pendingBytes + "):
		return "pendingBytes + size(..)"
	case strings.HasPrefix(d, "($0.pendingBytes - "):
		return "pendingBytes - size(..)"
	}
	return "other value"
}

func c33CurKind(d string) string {
	switch d {
	case c33GID:
		return "sg.Header.GroupID"
	case "$1":
		return "maxGroupID"
	case "($0.curGroupID + 1)":
		return "cur+1"
	}
	return "other value"
}
