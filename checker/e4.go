package main

// E4 - exactly-once / pairing typestate on the SSA CFG.

import (
	"fmt"

	"golang.org/x/tools/go/ssa"
)

// exactlyOnce explores every path from the entry of fn and counts the
// instructions classified as events (capped at 2). It returns the first
// normal return reached with zero events and the first reached with two or
// more. Paths ending in panic are ignored. Loops are handled by the bounded
// counter: a (block, count) state is visited once.
func exactlyOnce(fn *ssa.Function, isEvent func(ssa.Instruction) bool) (zero, multi *Witness) {
	type st struct {
		b   *ssa.BasicBlock
		cnt int
	}
	type item struct {
		st     st
		parent int
	}
	var items []item
	seen := map[st]bool{}
	push := func(b *ssa.BasicBlock, cnt, parent int) {
		s := st{b, cnt}
		if seen[s] {
			return
		}
		seen[s] = true
		items = append(items, item{s, parent})
	}
	mk := func(idx int, hit ssa.Instruction) *Witness {
		w := &Witness{Hit: hit}
		for i := idx; i >= 0; i = items[i].parent {
			w.Blocks = append([]*ssa.BasicBlock{items[i].st.b}, w.Blocks...)
		}
		return w
	}
	push(fn.Blocks[0], 0, -1)
	for qi := 0; qi < len(items); qi++ {
		it := items[qi]
		cnt := it.st.cnt
		b := it.st.b
		if b.Comment == "recover" {
			continue
		}
		ended := false
		for _, ins := range b.Instrs {
			if isEvent(ins) && cnt < 2 {
				cnt++
			}
			switch ins.(type) {
			case *ssa.Return:
				if cnt == 0 && zero == nil {
					zero = mk(qi, ins)
				}
				if cnt >= 2 && multi == nil {
					multi = mk(qi, ins)
				}
				ended = true
			case *ssa.Panic:
				ended = true
			}
		}
		if ended {
			continue
		}
		for _, s := range b.Succs {
			push(s, cnt, qi)
		}
	}
	return zero, multi
}

// ExactlyOnce records the two obligations "at least once" and "at most once".
func (c *Ctx) ExactlyOnce(p *Prog, fn *ssa.Function, rule, what string, isEvent func(ssa.Instruction) bool) {
	if fn == nil {
		return
	}
	n := countTargets(fn, isEvent)
	if n == 0 {
		c.Undecided(fmt.Sprintf("UNRESOLVED ANCHOR no %s event found in %s (rule %s)", what, fnName(fn), rule))
		return
	}
	zero, multi := exactlyOnce(fn, isEvent)
	c.Check(rule+".at_least_once", fnName(fn)+": every return is preceded by "+what, zero == nil, p.Pos(posOf(hitOf(zero), fn)), zero.String(p))
	c.Check(rule+".at_most_once", fnName(fn)+": no path performs "+what+" twice", multi == nil, p.Pos(posOf(hitOf(multi), fn)), multi.String(p))
}

func hitOf(w *Witness) ssa.Instruction {
	if w == nil {
		return nil
	}
	return w.Hit
}
