package main

// C14 (round 3) - a resolution is not remembered beyond the configuration set it
// was computed from.
//
// conf.FindPathConf is a pure function of (configuration set, name); the rules of
// prop_c14.go decide that function. The server's effective resolution is the same
// function only as long as every consumer calls it on the CURRENT set. A
// component that keeps a result (the *conf.Path, its capture groups, or a value
// read from them) in storage that outlives the call - a struct field, a map, a
// package variable - answers later lookups from that storage, and the answer is
// right only until the set changes: a configuration ADDED later (an exact name, or
// an expression that sorts earlier) takes precedence in FindPathConf but not in
// the remembered result.
//
//	no_stale_resolution  for every call of conf.FindPathConf in the module, the
//	                     results #0/#1 and what is derived from them (through
//	                     locals, new helpers, returns to static callers, closures)
//	                     are not written to non-local memory - except
//	                       * the fields of a live path (core.path.conf/confName/
//	                         matches), which pathManager.doReloadConf re-resolves
//	                         on every reload (C15), and
//	                       * a container that every function replacing the
//	                         configuration set (the struct field the first argument
//	                         was loaded from) empties on all its paths
//	                         (clear(container) or a store to the container).
//
// Seeded change C14_r3: pathManager.findPathConf memoised FindPathConf results in
// pm.pathConfCache; doReloadConf dropped entries whose configuration was removed
// or edited but kept the others when a configuration was added.

import (
	"fmt"
	"sort"
	"strings"

	"golang.org/x/tools/go/ssa"
)

type retainR3c14 struct {
	at        ssa.Instruction
	container string // "pkg.Type.field", "global pkg.name", or "" when not identifiable
	what      string
}

// containerOfAddrR3c14 names the storage an address belongs to: the innermost
// struct field selected on a non-local base, or a global. local reports whether
// the base is a local allocation.
func containerOfAddrR3c14(addr ssa.Value) (name string, local bool) {
	v := addr
	last := ""
	for {
		switch x := v.(type) {
		case *ssa.FieldAddr:
			if s, f, ok := fieldOfAddrR3c13(x); ok {
				last = s + "." + f
			} else {
				last = "field " + fieldAddrName(x)
			}
			v = x.X
		case *ssa.IndexAddr:
			v = x.X
		case *ssa.UnOp: // load of a pointer / map / slice held elsewhere
			return containerOfAddrR3c14(x.X)
		case *ssa.ChangeType:
			v = x.X
		case *ssa.Convert:
			v = x.X
		case *ssa.Alloc:
			if last != "" && x.Heap {
				// a field of an object allocated here: still local to this activation
			}
			return last, true
		case *ssa.Global:
			return "global " + shortPkg(x.Pkg.Pkg) + "." + x.Name(), false
		case *ssa.MakeMap, *ssa.MakeSlice:
			return last, true
		default:
			return last, false
		}
	}
}

// taintResolutionR3c14 follows the values in roots forward and reports where
// they are written to memory that outlives the activation.
func taintResolutionR3c14(p *Prog, roots []ssa.Value) []retainR3c14 {
	type item struct {
		v ssa.Value
		d int
	}
	seen := map[ssa.Value]bool{}
	var work []item
	add := func(v ssa.Value, d int) {
		if v != nil && !seen[v] && d <= 4 {
			seen[v] = true
			work = append(work, item{v, d})
		}
	}
	for _, r := range roots {
		add(r, 0)
	}
	var out []retainR3c14
	sites := map[*ssa.Function][]ssa.Instruction{}
	callSites := func(f *ssa.Function) []ssa.Instruction {
		if s, ok := sites[f]; ok {
			return s
		}
		var s []ssa.Instruction
		for _, g := range p.ModFuncs() {
			for _, b := range g.Blocks {
				for _, ins := range b.Instrs {
					if staticCallee(ins) == f {
						s = append(s, ins)
					}
				}
			}
		}
		sites[f] = s
		return s
	}
	for len(work) > 0 {
		it := work[len(work)-1]
		work = work[:len(work)-1]
		v, d := it.v, it.d
		if v.Referrers() == nil {
			continue
		}
		for _, r := range *v.Referrers() {
			switch x := r.(type) {
			case *ssa.Phi, *ssa.ChangeType, *ssa.Convert, *ssa.MakeInterface, *ssa.ChangeInterface, *ssa.TypeAssert, *ssa.Extract:
				add(r.(ssa.Value), d)
			case *ssa.Slice:
				if x.X == v {
					add(x, d)
				}
			case *ssa.FieldAddr:
				if x.X == v {
					add(x, d)
				}
			case *ssa.Field:
				if x.X == v {
					add(x, d)
				}
			case *ssa.IndexAddr:
				if x.X == v {
					add(x, d)
				}
			case *ssa.Index:
				if x.X == v {
					add(x, d)
				}
			case *ssa.Lookup:
				if x.X == v {
					add(x, d)
				}
			case *ssa.UnOp:
				if x.X == v {
					add(x, d)
				}
			case *ssa.Store:
				if x.Val != v {
					continue
				}
				name, local := containerOfAddrR3c14(x.Addr)
				if local {
					// the local variable / fresh object now holds it
					base := x.Addr
					for {
						if fa, ok := base.(*ssa.FieldAddr); ok {
							base = fa.X
						} else if ia, ok := base.(*ssa.IndexAddr); ok {
							base = ia.X
						} else {
							break
						}
					}
					add(base, d)
					continue
				}
				out = append(out, retainR3c14{x, name, desc(x.Val)})
			case *ssa.MapUpdate:
				if x.Value != v && x.Key != v {
					continue
				}
				m := stripConv(x.Map)
				if mm, ok := m.(*ssa.MakeMap); ok {
					add(mm, d)
					continue
				}
				name, local := containerOfAddrR3c14(m)
				if local {
					add(m, d)
					continue
				}
				out = append(out, retainR3c14{x, name, desc(x.Value)})
			case *ssa.MakeClosure:
				fn := x.Fn.(*ssa.Function)
				for k, b := range x.Bindings {
					if b == v && k < len(fn.FreeVars) {
						add(fn.FreeVars[k], d+1)
					}
				}
			case *ssa.Return:
				f := x.Parent()
				if f.Parent() != nil {
					continue // closure results: not followed
				}
				for k, res := range x.Results {
					if res != v {
						continue
					}
					for _, site := range callSites(f) {
						cv, ok := site.(ssa.Value)
						if !ok {
							continue
						}
						if len(x.Results) == 1 {
							add(cv, d+1)
						} else if ex := extractOf(cv, k); ex != nil {
							add(ex, d+1)
						}
					}
				}
			case *ssa.Call, *ssa.Go, *ssa.Defer:
				cc := callCommon(r)
				if b, ok := cc.Value.(*ssa.Builtin); ok {
					if b.Name() == "append" {
						if cv, ok := r.(ssa.Value); ok {
							add(cv, d)
						}
					}
					continue
				}
				// library containers that keep what they are given
				switch calleeName(cc) {
				case "(*sync.Map).Store", "(*sync.Map).LoadOrStore", "(*sync.Map).Swap", "(*sync.Map).CompareAndSwap", "(*sync/atomic.Value).Store", "(*sync/atomic.Value).Swap":
					if len(cc.Args) > 1 && cc.Args[0] != v {
						name, local := containerOfAddrR3c14(cc.Args[0])
						if !local {
							out = append(out, retainR3c14{r, name, desc(v)})
						}
					}
					continue
				}
				if h := newHelperCallee(r); h != nil {
					for k, a := range cc.Args {
						if a == v && k < len(h.Params) {
							add(h.Params[k], d+1)
						}
					}
				}
			}
		}
	}
	return out
}

// resetsContainerR3c14: the instruction empties / replaces the named container.
func resetsContainerR3c14(i ssa.Instruction, container string) bool {
	switch x := i.(type) {
	case *ssa.Store:
		name, local := containerOfAddrR3c14(x.Addr)
		if local || name != container {
			return false
		}
		// the container itself is assigned (not one of its elements)
		switch a := x.Addr.(type) {
		case *ssa.FieldAddr, *ssa.Global:
			_ = a
			return true
		}
	case *ssa.Call:
		if b, ok := x.Call.Value.(*ssa.Builtin); ok && b.Name() == "clear" && len(x.Call.Args) == 1 {
			name, local := containerOfAddrR3c14(x.Call.Args[0])
			return !local && name == container
		}
		if calleeName(&x.Call) == "(*sync.Map).Clear" && len(x.Call.Args) == 1 {
			name, local := containerOfAddrR3c14(x.Call.Args[0])
			return !local && name == container
		}
	}
	return false
}

func c14NoStaleResolution(c *Ctx, p *Prog) {
	exempt := map[string]string{
		"core.path.conf":     "the configuration a live path runs with; re-resolved for every live path by pathManager.doReloadConf (C15)",
		"core.path.confName": "as core.path.conf",
		"core.path.matches":  "as core.path.conf",
	}
	type site struct {
		call *ssa.Call
		fn   *ssa.Function
	}
	var sitesL []site
	for _, g := range p.ModFuncs() {
		for _, b := range g.Blocks {
			for _, ins := range b.Instrs {
				if cl, ok := ins.(*ssa.Call); ok && isCallTo(cl, "conf.FindPathConf") {
					sitesL = append(sitesL, site{cl, g})
				}
			}
		}
	}
	// 10 call sites on the confirmed tree; the four request handlers of the path manager may
	// legitimately share one helper, hence the lower floor
	c.Floor("C14.no_stale_resolution", len(sitesL), 6)
	perFn := map[string]int{}
	for _, s := range sitesL {
		perFn[fnName(s.fn)]++
		key := fmt.Sprintf("%s: result of conf.FindPathConf(%s, %s)", fnName(s.fn), desc(s.call.Call.Args[0]), desc(s.call.Call.Args[1]))
		if perFn[fnName(s.fn)] > 1 {
			key += fmt.Sprintf(" [%d]", perFn[fnName(s.fn)])
		}
		var roots []ssa.Value
		for _, k := range []int{0, 1} {
			if ex := extractOf(s.call, k); ex != nil {
				roots = append(roots, ex)
			}
		}
		rets := taintResolutionR3c14(p, roots)
		// the configuration set the result was computed from
		srcStruct, srcField, srcOK := "", "", false
		if u, ok := stripConv(s.call.Call.Args[0]).(*ssa.UnOp); ok {
			srcStruct, srcField, srcOK = fieldOfAddrR3c13(u.X)
		}
		var bad []string
		badPos := s.call.Pos()
		var kept []string
		doneC := map[string]bool{}
		for _, r := range rets {
			if _, ok := exempt[r.container]; ok {
				continue
			}
			if doneC[r.container] {
				continue
			}
			doneC[r.container] = true
			where := p.Pos(posOf(r.at, r.at.Parent()))
			if r.container == "" {
				bad = append(bad, "the result ("+r.what+") is written to non-local memory at "+where+" that cannot be identified")
				badPos = posOf(r.at, r.at.Parent())
				continue
			}
			if !srcOK {
				bad = append(bad, "the result ("+r.what+") is kept in "+r.container+" at "+where+" but the configuration set it was computed from ("+desc(s.call.Call.Args[0])+") is not a struct field whose replacement could be tracked")
				badPos = posOf(r.at, r.at.Parent())
				continue
			}
			// every function that replaces the configuration set empties the container
			var replacers []*ssa.Function
			for _, g := range p.ModFuncs() {
				found := false
				for _, b := range g.Blocks {
					for _, ins := range b.Instrs {
						st, ok := ins.(*ssa.Store)
						if !ok {
							continue
						}
						if ss, ff, ok := fieldOfAddrR3c13(st.Addr); ok && ss == srcStruct && ff == srcField {
							if _, local := containerOfAddrR3c14(st.Addr); !local {
								found = true
							}
						}
					}
				}
				if found {
					replacers = append(replacers, g)
				}
			}
			okAll := true
			for _, g := range replacers {
				cont := r.container
				w := reachAvoiding(entry(g), anyReturn, func(i ssa.Instruction) bool { return resetsContainerR3c14(i, cont) })
				if w != nil {
					okAll = false
					bad = append(bad, "the result ("+r.what+") is kept in "+r.container+" (at "+where+"), and "+fnName(g)+" replaces "+srcStruct+"."+srcField+" without emptying it: a configuration added by that reload takes precedence in FindPathConf but not for the names already remembered ("+w.String(p)+")")
					badPos = posOf(r.at, r.at.Parent())
				}
			}
			if okAll {
				kept = append(kept, r.container+" (emptied by every function that replaces "+srcStruct+"."+srcField+")")
			}
		}
		sort.Strings(kept)
		c.Check("C14.no_stale_resolution", key+" is not remembered beyond the configuration set it was computed from", len(bad) == 0, p.Pos(badPos), strings.Join(append(bad, kept...), "; "))
	}
}
