package main

import (
	"fmt"
	"go/constant"
	"go/token"
	"go/types"
	"strings"

	"golang.org/x/tools/go/ssa"
)

// C38 - the configuration watcher never loses the final file content.
// Timing is not decided. Decided: structural necessary conditions on the
// event loop of ConfWatcher.run and on the consumer in Core.run.

func init() {
	register(Property{ID: "C38", Level: "other", Run: runC38,
		Technique: "static analysis: typestate walk over the SSA control-flow graph of the watcher's event loop (event received -> notified | classified irrelevant | dropped), select-shape rules, def-use on the consumer in Core.run",
		Text:      "Decides structural necessary conditions, not timing: in ConfWatcher.run, on every path from the receive on inner.Events back to the loop's select that does not offer a send on w.signal, (no_time_drop) no edge of a clock comparison is taken unless a timer is armed on that path - an event discarded because 'too soon after the last notification' with nothing scheduled to fire later loses the final content; (relevant_notifies) the path carries a classification of the event as irrelevant: watched file currently unresolvable, or symlink target unchanged AND (event path differs from the resolved watched path OR the operation is neither Write nor Create) - so symlink swaps, writes and (re-)creations all notify; the resolved watched path is re-evaluated per event; (notify_blocking) the notification is a blocking select {send signal | receive terminate} - it is never skipped because the consumer is busy; (watch_channel) Watch() returns the channel run sends on; (core.*) Core.run receives from that channel, then calls conf.Load(p.confPath) and hands the result to reloadConf on every non-error path before selecting again; the watcher is created for p.confPath. Not decided: fsnotify delivery, the debounce interval arithmetic, writers that keep writing for longer than additionalWait.",
		Note:      "trusted: fsnotify delivers an event for every change of the directory; go/ssa CFG; the irrelevance literals are recognised by operands (resolved watched path, event path, event.Op & fsnotify.{Write,Create})"})
	addMutants(
		Mutant{"C38", "create-events-ignored", "internal/confwatcher/confwatcher.go",
			"((event.Op&fsnotify.Write) == fsnotify.Write ||\n\t\t\t\t\t\t(event.Op&fsnotify.Create) == fsnotify.Create))", "(event.Op&fsnotify.Write) == fsnotify.Write)", "C38.relevant_notifies.create"},
		Mutant{"C38", "write-events-ignored", "internal/confwatcher/confwatcher.go",
			"((event.Op&fsnotify.Write) == fsnotify.Write ||\n\t\t\t\t\t\t(event.Op&fsnotify.Create) == fsnotify.Create))", "(event.Op&fsnotify.Create) == fsnotify.Create)", "C38.relevant_notifies.write"},
		Mutant{"C38", "symlink-swap-ignored", "internal/confwatcher/confwatcher.go",
			"currentWatchedPath != previousWatchedPath ||\n", "currentWatchedPath != previousWatchedPath &&\n", "C38.relevant_notifies.swap"},
		Mutant{"C38", "event-compared-with-unresolved-path", "internal/confwatcher/confwatcher.go",
			"(eventPath == currentWatchedPath &&", "(eventPath == w.absolutePath &&", "C38.relevant_notifies"},
		Mutant{"C38", "write-and-create-required", "internal/confwatcher/confwatcher.go",
			"fsnotify.Write ||\n", "fsnotify.Write &&\n", "C38.relevant_notifies"},
		// Has(Write|Create) is true only for an event that is both
		Mutant{"C38", "write-and-create-required-has", "internal/confwatcher/confwatcher.go",
			"((event.Op&fsnotify.Write) == fsnotify.Write ||\n\t\t\t\t\t\t(event.Op&fsnotify.Create) == fsnotify.Create))", "event.Has(fsnotify.Write|fsnotify.Create))", "C38.relevant_notifies"},
		Mutant{"C38", "notification-not-blocking", "internal/confwatcher/confwatcher.go",
			"\t\tcase w.signal <- struct{}{}:\n\t\t\treturn true\n", "\t\tcase w.signal <- struct{}{}:\n\t\t\treturn true\n\t\tdefault:\n\t\t\treturn true\n", "C38.notify_blocking"},
		// the original defect: a change close to the previous notification is dropped
		Mutant{"C38", "postponed-change-dropped", "internal/confwatcher/confwatcher.go",
			"\t\t\t\t\tif postponeTimer == nil {\n\t\t\t\t\t\tpostponeTimer = time.NewTimer(remaining)\n\t\t\t\t\t\tpostponeTimerC = postponeTimer.C\n\t\t\t\t\t}\n\t\t\t\t\tcontinue", "\t\t\t\t\tcontinue", "C38.no_time_drop"},
		// the timer fires but nobody is told
		Mutant{"C38", "timer-case-does-not-notify", "internal/confwatcher/confwatcher.go",
			"\t\t\tpostponeTimer = nil\n\t\t\tpostponeTimerC = nil\n\n\t\t\tif !notify() {\n\t\t\t\tbreak outer\n\t\t\t}\n", "\t\t\tpostponeTimer = nil\n\t\t\tpostponeTimerC = nil\n", "C38.timer_notifies"},
		Mutant{"C38", "watch-returns-other-channel", "internal/confwatcher/confwatcher.go",
			"return w.signal", "return w.done", "C38.watch_channel"},
		Mutant{"C38", "core-reloads-conditionally", "internal/core/core.go",
			"\n\t\t\terr = p.reloadConf(newConf)\n", "\n\t\t\tif len(newConf.Paths) != len(p.conf.Load().Paths) {\n\t\t\t\terr = p.reloadConf(newConf)\n\t\t\t}\n", "C38.core.reload"},
		Mutant{"C38", "core-watches-other-file", "internal/core/core.go",
			"cf := &confwatcher.ConfWatcher{FilePath: p.confPath}", "cf := &confwatcher.ConfWatcher{FilePath: filepath.Base(p.confPath)}", "C38.core.same_file"},
	)
}

func isTimeAtom(a string) bool {
	for _, s := range []string{"time.Since(", "time.Now(", "time.Until(", "(time.Time).", "(time.Duration)."} {
		if strings.Contains(a, s) {
			return true
		}
	}
	return false
}

func runC38(c *Ctx) {
	p := c.Main()
	if p == nil {
		return
	}
	c.Explain = "E4 on (*ConfWatcher).run: region = blocks dominated by the body of the select case receiving from w.inner.Events; target = the loop's select; barrier = a select offering a send on w.signal (or a send on it). " +
		"no_time_drop: for every branch in the region whose condition mentions the clock, an edge of it that can reach the target without barrier and without an irrelevance literal must be preceded/followed by a timer-arming call ((*time.Timer).Reset, time.NewTimer, time.After, time.AfterFunc). " +
		"relevant_notifies.{swap,write,create}: the target is unreachable without barrier when the walk refuses the edges T(resolved path == \"\"), T(resolved == previous) resp. T(resolved == \"\"), F(event path == resolved), 'operation does not include Write' resp. Create - in any equivalent spelling: F((Op&k)==k), F(event.Has(k)), F(event.Op.Has(k)), T((Op&M)==0) with k in M, either operand order (prop_gen_c38.go) - (and the edges already reported by no_time_drop). " +
		"current_reevaluated: filepath.EvalSymlinks(w.absolutePath) is called inside the region and absolutePath is stored only by Initialize. notify_blocking, watch_channel, core.{source,reload,same_file}: shape rules. " +
		"NOT decided: any timing (debounce interval, additionalWait), fsnotify's own delivery guarantees, conf.Load."
	c.Assume = []string{
		"fsnotify reports every create/write/rename in the parent directory as an event on inner.Events",
		"a writer finishes within additionalWait after its last event or produces a further event",
	}

	run := c.fn(p, "internal/confwatcher", "ConfWatcher", "run")
	if run != nil {
		c38Run(c, p, run)
	}

	// ---- Watch returns the channel run sends on
	if w := c.fn(p, "internal/confwatcher", "ConfWatcher", "Watch"); w != nil {
		ds := retDescs(w, 0)
		c.Check("C38.watch_channel", "(*confwatcher.ConfWatcher).Watch: returns w.signal", len(ds) == 1 && ds[0] == "$0.signal", p.Pos(w.Pos()), "returns "+joinS(ds))
	}
	// signal / absolutePath are assigned only by Initialize
	for _, fld := range []string{"signal", "absolutePath"} {
		n := 0
		for _, fn := range p.ModFuncs() {
			for _, st := range fieldStores(fn, "confwatcher.ConfWatcher", fld) {
				n++
				c.Check("C38.single_writer", "store to ConfWatcher."+fld+" in "+shortFn(fn), shortFn(fn) == "(*confwatcher.ConfWatcher).Initialize", p.Pos(st.Pos()),
					"the channel/path the loop works on must not be replaced after the loop started")
			}
		}
		c.Floor("C38.single_writer:"+fld, n, 1)
	}

	c38Core(c, p)
}

func c38Run(c *Ctx, p *Prog, run *ssa.Function) {
	fname := shortFn(run)
	evs := selectsWithState(run, types.RecvOnly, func(d string) bool { return d == "$0.inner.Events" })
	if len(evs) != 1 {
		c.Undecided(fmt.Sprintf("UNRESOLVED ANCHOR C38: want one select receiving from w.inner.Events in %s, got %d", fname, len(evs)))
		return
	}
	sel, idx := evs[0].Sel, evs[0].Idx
	caseB := selectCase(sel, idx)
	if caseB == nil {
		c.Undecided("UNRESOLVED ANCHOR C38: body of the inner.Events case")
		return
	}
	evD := "\x00no-event"
	if ex := extractOf(sel, selectRecvSlot(sel, idx)); ex != nil {
		evD = desc(ex)
	}
	inRegion := func(b *ssa.BasicBlock) bool { return caseB.Dominates(b) }
	isHead := func(i ssa.Instruction) bool { return i == ssa.Instruction(sel) }
	isSignal := func(d string) bool { return d == "$0.signal" || d == "free:w.signal" }
	offersSignal := func(i ssa.Instruction) bool {
		switch x := i.(type) {
		case *ssa.Send:
			return isSignal(desc(x.Chan))
		case *ssa.Select:
			for _, st := range x.States {
				if st.Dir == types.SendOnly && isSignal(desc(st.Chan)) {
					return true
				}
			}
		}
		return false
	}
	// a local helper closure of run that offers the signal on every path to
	// its returns (the `notify := func() bool {...}` idiom) counts as offering
	notifiers := map[*ssa.Function]bool{}
	for _, a := range run.AnonFuncs {
		if countTargets(a, offersSignal) > 0 && reachAvoiding(entry(a), anyReturn, offersSignal) == nil {
			notifiers[a] = true
		}
	}
	sendsSignal := func(i ssa.Instruction) bool {
		if offersSignal(i) {
			return true
		}
		if cc := callCommon(i); cc != nil {
			if f := calledClosure(cc); f != nil && notifiers[f] {
				return true
			}
		}
		return false
	}
	arms := func(i ssa.Instruction) bool {
		return isCallTo(i, "(*time.Timer).Reset", "time.NewTimer", "time.After", "time.AfterFunc")
	}
	// `if timer == nil { timer = time.NewTimer(d) }`: on the edge where the
	// timer variable is non-nil a timer is already pending, which is as good
	// as arming one. Collected from the comparisons of a *time.Timer value
	// with nil.
	timerPending := map[string]bool{}
	eachInstr(run, func(i ssa.Instruction) {
		ifi, ok := i.(*ssa.If)
		if !ok {
			return
		}
		cond := ifi.Cond
		if u, ok := cond.(*ssa.UnOp); ok && u.Op == token.NOT {
			cond = u.X
		}
		bo, ok := cond.(*ssa.BinOp)
		if !ok || (bo.Op != token.EQL && bo.Op != token.NEQ) {
			return
		}
		for _, pair := range [][2]ssa.Value{{bo.X, bo.Y}, {bo.Y, bo.X}} {
			if isNilConst(pair[1]) && typeStr(pair[0].Type()) == "*time.Timer" {
				timerPending[litOf(ifi.Cond, true).Atom] = true
			}
		}
	})
	pendingEdge := func(l Lit) bool { return !l.Pos && timerPending[l.Atom] }

	// ---- notification shape
	nNotify := 0
	shapeFns := append([]*ssa.Function{run}, run.AnonFuncs...)
	for _, sf := range shapeFns {
		eachInstr(sf, func(i ssa.Instruction) {
			if !offersSignal(i) {
				return
			}
			nNotify++
			s, isSel := i.(*ssa.Select)
			ok := true
			why := ""
			if !isSel {
				ok, why = false, "a bare send on w.signal cannot be interrupted by Close()"
			} else {
				if !s.Blocking {
					ok, why = false, "select has a default case: the notification is skipped when the consumer is busy"
				}
				for _, st := range s.States {
					if st.Dir == types.SendOnly && isSignal(desc(st.Chan)) {
						continue
					}
					if !(st.Dir == types.RecvOnly && (desc(st.Chan) == "$0.terminate" || desc(st.Chan) == "free:w.terminate")) {
						ok, why = false, "unexpected alternative "+desc(st.Chan)+" competes with the notification"
					}
				}
			}
			c.Check("C38.notify_blocking", fname+": the notification is a blocking select {w.signal <- | <-w.terminate}", ok, p.Pos(posOf(i, run)), why)
			if sf == run {
				c.Check("C38.notify_blocking", fname+": the notification is sent from the inner.Events case", inRegion(i.Block()), p.Pos(posOf(i, run)), "")
			} else {
				// helper closure: it must be called from the inner.Events case
				called := false
				eachInstr(run, func(j ssa.Instruction) {
					if cc := callCommon(j); cc != nil && calledClosure(cc) == sf && inRegion(j.Block()) {
						called = true
					}
				})
				c.Check("C38.notify_blocking", fname+": the notifying helper is called from the inner.Events case", called, p.Pos(posOf(i, run)), "")
			}
		})
	}
	c.Floor("C38.notify_blocking", nNotify, 1)
	// a pending timer must lead to a notification: the loop's select receives
	// from a timer channel and that case reaches the select again only
	// through a notification
	if len(timerPending) > 0 {
		okT := false
		for k, st := range sel.States {
			if st.Dir != types.RecvOnly || typeStr(st.Chan.Type()) != "<-chan time.Time" {
				continue
			}
			if cb := selectCase(sel, k); cb != nil {
				if walkTo(Point{cb, 0}, isHead, sendsSignal, nil) == nil {
					okT = true
				}
			}
		}
		c.Check("C38.timer_notifies", fname+": the postponed notification fires: the loop's select has a timer case that notifies before returning to the select", okT, p.Pos(run.Pos()), "")
	}

	// ---- the resolved watched path is re-evaluated for each event
	var cur ssa.Value
	for _, b := range run.Blocks {
		if !inRegion(b) {
			continue
		}
		for _, i := range b.Instrs {
			cl, ok := i.(*ssa.Call)
			if ok && calleeName(&cl.Call) == "path/filepath.EvalSymlinks" && desc(cl.Call.Args[0]) == "$0.absolutePath" {
				if ex := extractOf(cl, 0); ex != nil && cur == nil {
					cur = ex
				}
			}
		}
	}
	c.Check("C38.current_reevaluated", fname+": filepath.EvalSymlinks(w.absolutePath) is evaluated after each event", cur != nil, p.Pos(run.Pos()),
		"symlink swaps and re-creations are recognised by resolving the watched path at event time")
	if cur == nil {
		return
	}
	curD := desc(cur)

	// ---- classify the branches of the region
	opVal := func(name string) int64 {
		pk := p.ByPath["github.com/fsnotify/fsnotify"]
		if pk == nil || pk.Types == nil {
			return -1
		}
		k, ok := pk.Types.Scope().Lookup(name).(*types.Const)
		if !ok {
			return -1
		}
		n, _ := constant.Int64Val(k.Val())
		return n
	}
	wr, cr := opVal("Write"), opVal("Create")
	if wr <= 0 || cr <= 0 {
		c.Undecided("UNRESOLVED ANCHOR C38: fsnotify.Write / fsnotify.Create constants")
		return
	}
	removedAtom := "(" + curD + ` == "")`
	// "the operation does not include k" in any equivalent spelling (prop_gen_c38.go)
	opAbsent := func(l Lit, k int64) bool { return c38OpAbsent(l, evD, k) }
	var noSwapAtom, matchAtom string
	var timeIfs []*ssa.If
	present := map[string]bool{}
	for _, b := range run.Blocks {
		ifi := ifOf(b)
		if ifi == nil || !inRegion(b) {
			continue
		}
		l := litOf(ifi.Cond, true)
		present[l.Atom] = true
		if timerPending[l.Atom] {
			continue // `timer == nil` is not a clock comparison
		}
		if isTimeAtom(l.Atom) {
			timeIfs = append(timeIfs, ifi)
			continue
		}
		cond := ifi.Cond
		if u, ok := cond.(*ssa.UnOp); ok && u.Op == token.NOT {
			cond = u.X
		}
		bo, ok := cond.(*ssa.BinOp)
		if !ok || (bo.Op != token.EQL && bo.Op != token.NEQ) {
			continue
		}
		var other ssa.Value
		switch {
		case bo.X == cur:
			other = bo.Y
		case bo.Y == cur:
			other = bo.X
		default:
			continue
		}
		if _, isPhi := other.(*ssa.Phi); isPhi {
			noSwapAtom = l.Atom
		} else if d := desc(other); strings.Contains(d, evD+".Name") && strings.HasPrefix(d, "path/filepath.EvalSymlinks(") {
			matchAtom = l.Atom
		}
	}
	c.Count("clock-dependent branches in the events case", len(timeIfs))

	irrelevant := func(l Lit) bool {
		if opAbsent(l, wr) || opAbsent(l, cr) {
			return true
		}
		if l.Pos {
			return l.Atom == removedAtom
		}
		return matchAtom != "" && l.Atom == matchAtom
	}
	// which operations the events case tests at all (also inside new helpers: the
	// walk enters them)
	opTested := map[int64]bool{}
	walkTo(Point{caseB, 0}, func(ssa.Instruction) bool { return false }, isHead, func(l Lit) bool {
		for _, k := range []int64{wr, cr} {
			if c38OpMentioned(l, evD, k) {
				opTested[k] = true
			}
		}
		return true
	})
	barrierNT := func(i ssa.Instruction) bool { return sendsSignal(i) || arms(i) }

	// ---- no_time_drop
	type edgeKey struct {
		atom string
		pos  bool
	}
	drops := map[edgeKey]bool{}
	var dropW *Witness
	dropAtom := ""
	for _, ifi := range timeIfs {
		ii := ifi
		// phase A: the test is reachable for a relevant, not yet notified event
		a := walkTo(Point{caseB, 0}, func(i ssa.Instruction) bool { return i == ssa.Instruction(ii) }, barrierNT, func(l Lit) bool { return !irrelevant(l) })
		if a == nil {
			continue
		}
		// an edge "drops" when the loop's select is reachable from it without
		// notification, timer or irrelevance literal. The drop is attributed to
		// the clock only when the other outcome of the same test does not drop
		// (otherwise the loss does not depend on the clock and is left to the
		// relevant_notifies rules).
		var ws [2]*Witness
		for k, s := range ifi.Block().Succs {
			if len(s.Instrs) > 0 && k < 2 {
				ws[k] = walkTo(Point{s, 0}, isHead, barrierNT, func(l Lit) bool { return !irrelevant(l) && !pendingEdge(l) })
			}
		}
		for k := 0; k < 2; k++ {
			if ws[k] != nil && ws[1-k] == nil {
				l := litOf(ifi.Cond, k == 0)
				drops[edgeKey{l.Atom, l.Pos}] = true
				if dropW == nil {
					dropW, dropAtom = ws[k], l.String()
				}
			}
		}
	}
	detail := fmt.Sprintf("%d clock-dependent branch(es) in the events case, none discards an event", len(timeIfs))
	pos := p.Pos(run.Pos())
	if dropW != nil {
		detail = "under " + dropAtom + " the loop returns to its select without offering w.signal and without arming a timer: an event that arrives within that window after a notification is lost and nothing fires later (final content never loaded): " + dropW.String(p)
		pos = p.Pos(posOf(dropW.Hit, run))
		for _, ifi := range timeIfs {
			if l := litOf(ifi.Cond, true); drops[edgeKey{l.Atom, true}] || drops[edgeKey{l.Atom, false}] {
				pos = p.Pos(posOf(ifi, run))
			}
		}
	}
	c.Check("C38.no_time_drop", fname+": no fsnotify event is discarded on a clock comparison unless a timer is armed", dropW == nil, pos, detail)

	// ---- relevant_notifies
	type rn struct {
		sub, what string
		refuse    func(Lit) bool
		anchor    bool
	}
	rules := []rn{
		{"swap", "a change of the resolved watched path (symlink swap, re-creation elsewhere) notifies",
			func(l Lit) bool {
				return l.Pos && (l.Atom == removedAtom || (noSwapAtom != "" && l.Atom == noSwapAtom))
			}, noSwapAtom != ""},
		{"write", "a Write event on the resolved watched path notifies",
			func(l Lit) bool {
				return (l.Pos && l.Atom == removedAtom) || (!l.Pos && matchAtom != "" && l.Atom == matchAtom) || opAbsent(l, wr)
			}, matchAtom != "" && opTested[wr]},
		{"create", "a Create event on the resolved watched path notifies",
			func(l Lit) bool {
				return (l.Pos && l.Atom == removedAtom) || (!l.Pos && matchAtom != "" && l.Atom == matchAtom) || opAbsent(l, cr)
			}, matchAtom != "" && opTested[cr]},
	}
	for _, r := range rules {
		rr := r
		w := walkTo(Point{caseB, 0}, isHead, barrierNT, func(l Lit) bool {
			if drops[edgeKey{l.Atom, l.Pos}] {
				return false // reported by no_time_drop
			}
			if pendingEdge(l) {
				return false // a timer is already pending: it will notify
			}
			return !rr.refuse(l)
		})
		d := ""
		ps := p.Pos(run.Pos())
		if w != nil {
			d = "the loop returns to its select without offering w.signal (or arming a timer): " + w.String(p)
			ps = p.Pos(posOf(w.Hit, run))
		}
		if !r.anchor {
			d = "the test this clause relies on is absent from the events case; " + d
		}
		c.Check("C38.relevant_notifies."+r.sub, fname+": "+r.what, w == nil && r.anchor, ps, d)
	}
}

func c38Core(c *Ctx, p *Prog) {
	run := c.fn(p, "internal/core", "Core", "run")
	if run == nil {
		return
	}
	fname := shortFn(run)
	// the select state fed by the watcher: channel = result of a closure that returns Watch()
	var sel *ssa.Select
	idx := -1
	var src *ssa.Function
	eachInstr(run, func(i ssa.Instruction) {
		s, ok := i.(*ssa.Select)
		if !ok {
			return
		}
		for k, st := range s.States {
			if st.Dir != types.RecvOnly {
				continue
			}
			cl, ok := st.Chan.(*ssa.Call)
			if !ok {
				continue
			}
			f := cl.Call.StaticCallee()
			if f == nil || f.Parent() != run {
				continue
			}
			for _, d := range retDescs(f, 0) {
				if strings.HasPrefix(d, "(*confwatcher.ConfWatcher).Watch(") {
					sel, idx, src = s, k, f
				}
			}
		}
	})
	if sel == nil {
		c.Undecided("UNRESOLVED ANCHOR C38: select case of Core.run receiving from confWatcher.Watch()")
		return
	}
	c.Analysed(fnName(src))
	const wnil = "(free:p.confWatcher == nil)"
	c.MustPass(p, src, "C38.core.source", "return of a channel other than Watch()", func(i ssa.Instruction) bool {
		r, ok := i.(*ssa.Return)
		return ok && retVal(r, 0) != nil && !strings.HasPrefix(desc(retVal(r, 0)), "(*confwatcher.ConfWatcher).Watch(free:p.confWatcher)")
	}, T(wnil))
	caseB := selectCase(sel, idx)
	if caseB == nil {
		c.Undecided("UNRESOLVED ANCHOR C38: body of the confChanged case in Core.run")
		return
	}
	reloads := func(i ssa.Instruction) bool {
		cl, ok := i.(*ssa.Call)
		if !ok || calleeName(&cl.Call) != "(*core.Core).reloadConf" || len(cl.Call.Args) != 2 {
			return false
		}
		ex, ok := cl.Call.Args[1].(*ssa.Extract)
		if !ok || ex.Index != 0 {
			return false
		}
		ld, ok := ex.Tuple.(*ssa.Call)
		return ok && calleeName(&ld.Call) == "conf.Load" && desc(ld.Call.Args[0]) == "$0.confPath" && caseB.Dominates(ld.Block())
	}
	w := walkTo(Point{caseB, 0}, func(i ssa.Instruction) bool { return i == ssa.Instruction(sel) }, reloads, nil)
	d := ""
	ps := p.Pos(run.Pos())
	if w != nil {
		d = "Core.run selects again without reloadConf(conf.Load(p.confPath)): " + w.String(p)
		ps = p.Pos(posOf(w.Hit, run))
	}
	c.Check("C38.core.reload", fname+": after a watcher notification the file is loaded and handed to reloadConf before the next select", w == nil, ps, d)

	n := 0
	for _, fn := range funcsOfPkg(p, "internal/core") {
		for _, st := range fieldStores(fn, "confwatcher.ConfWatcher", "FilePath") {
			n++
			c.Check("C38.core.same_file", shortFn(fn)+": the watcher is created for p.confPath (the file conf.Load reads)", desc(st.Val) == "$0.confPath", p.Pos(st.Pos()), "FilePath = "+desc(st.Val))
		}
	}
	c.Floor("C38.core.same_file", n, 1)
}
