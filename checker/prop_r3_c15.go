package main

// C15 (round 3) - the predicate that decides "the capture groups of a live path
// changed" must be an exact equality on the groups.
//
// pathManager.doReloadConf keeps a live path (hot reload or untouched) only when
// captureGroupsEqual(pa.matches, newMatches) holds. The groups of a match list m
// are G(m) = m[1:] when len(m) > 1 and nothing otherwise (nil for a static
// configuration, the whole match only for an expression without groups) - the
// same reading path.go uses when it exports G1.. to hooks. The predicate is
// decided by a small abstract interpretation of the function (and of the new
// helpers / module functions it calls): every entry→return path is enumerated,
// the bounds on len($0) / len($1) implied by the branches are tracked, and the
// value returned on the path must be correct for every input that takes it:
//
//	true   only if both sides are known to have no groups, or the groups were compared equal
//	false  only if exactly one side is known to have groups, or the groups were compared different
//	slices.Equal(a, b) only if a and b render G($0) and G($1)
//	       (m[1:], or an empty slice on a path where len(m) <= 1)
//
// Seeded change C15_r3 returned true as soon as EITHER side had no groups.

import (
	"fmt"
	"go/token"
	"go/types"
	"strings"

	"golang.org/x/tools/go/ssa"
)

type gvKindR3c15 int

const (
	gvUnknown gvKindR3c15 = iota
	gvWhole               // the match list $k itself
	gvGroups              // $k[1:]
	gvEmpty               // nil / empty slice
	gvBool                // constant
	gvEq                  // the boolean G($0) == G($1)
	gvNeq                 // its negation
	gvLen                 // len($k)
	gvInt                 // integer constant
)

type gvalR3c15 struct {
	kind gvKindR3c15
	k    int
	b    bool
	n    int64
}

// gstateR3c15: what a path knows about the inputs. hi < 0 means unbounded.
type gstateR3c15 struct {
	lo, hi [2]int64
	eq     int // 0 unknown, 1 groups known equal, 2 groups known different
}

func (s gstateR3c15) noGroups(k int) bool  { return s.hi[k] >= 0 && s.hi[k] <= 1 }
func (s gstateR3c15) hasGroups(k int) bool { return s.lo[k] >= 2 }
func (s gstateR3c15) feasible() bool {
	for k := 0; k < 2; k++ {
		if s.hi[k] >= 0 && s.lo[k] > s.hi[k] {
			return false
		}
	}
	return true
}
func (s gstateR3c15) String() string {
	var parts []string
	for k := 0; k < 2; k++ {
		hi := "∞"
		if s.hi[k] >= 0 {
			hi = fmt.Sprint(s.hi[k])
		}
		parts = append(parts, fmt.Sprintf("len($%d)∈[%d,%s]", k, s.lo[k], hi))
	}
	switch s.eq {
	case 1:
		parts = append(parts, "groups compared equal")
	case 2:
		parts = append(parts, "groups compared different")
	}
	return strings.Join(parts, " ")
}

type goutR3c15 struct {
	st   gstateR3c15
	ret  gvalR3c15
	lits []string
	pos  token.Pos
	note string
}

type gevalR3c15 struct {
	paths int
	cap   int
	over  bool
}

// restrict applies "len($k) OP n is `outcome`" to the state.
func restrictLenR3c15(s gstateR3c15, k int, op token.Token, n int64, outcome bool) gstateR3c15 {
	if !outcome {
		switch op {
		case token.LSS:
			op = token.GEQ
		case token.LEQ:
			op = token.GTR
		case token.GTR:
			op = token.LEQ
		case token.GEQ:
			op = token.LSS
		case token.EQL:
			op = token.NEQ
		case token.NEQ:
			op = token.EQL
		}
	}
	setHi := func(v int64) {
		if v < 0 {
			v = 0
			s.lo[k] = 1 // infeasible marker: lo > hi
		}
		if s.hi[k] < 0 || v < s.hi[k] {
			s.hi[k] = v
		}
	}
	setLo := func(v int64) {
		if v > s.lo[k] {
			s.lo[k] = v
		}
	}
	switch op {
	case token.LSS:
		setHi(n - 1)
	case token.LEQ:
		setHi(n)
	case token.GTR:
		setLo(n + 1)
	case token.GEQ:
		setLo(n)
	case token.EQL:
		setLo(n)
		setHi(n)
	case token.NEQ:
		if s.lo[k] == n {
			s.lo[k] = n + 1
		}
		if s.hi[k] == n {
			s.hi[k] = n - 1
			if n == 0 {
				s.hi[k], s.lo[k] = 0, 1
			}
		}
	}
	return s
}

func flipOpR3c15(op token.Token) token.Token {
	switch op {
	case token.LSS:
		return token.GTR
	case token.GTR:
		return token.LSS
	case token.LEQ:
		return token.GEQ
	case token.GEQ:
		return token.LEQ
	}
	return op
}

// run evaluates fn on abstract arguments; every entry→return path yields one outcome.
func (e *gevalR3c15) run(fn *ssa.Function, args []gvalR3c15, st gstateR3c15, depth int) []goutR3c15 {
	var outs []goutR3c15
	env := map[ssa.Value]gvalR3c15{}
	onPath := map[*ssa.BasicBlock]bool{}
	var lits []string

	var eval func(v ssa.Value, st gstateR3c15) gvalR3c15
	eval = func(v ssa.Value, st gstateR3c15) gvalR3c15 {
		if g, ok := env[v]; ok {
			return g
		}
		switch x := v.(type) {
		case *ssa.Parameter:
			if i := paramIndex(x); i >= 0 && i < len(args) {
				return args[i]
			}
		case *ssa.Const:
			if x.IsNil() || x.Value == nil {
				return gvalR3c15{kind: gvEmpty}
			}
			if b, ok := constBool(x); ok {
				return gvalR3c15{kind: gvBool, b: b}
			}
			if n, ok := smallConst(x); ok {
				return gvalR3c15{kind: gvInt, n: n}
			}
		case *ssa.ChangeType:
			return eval(x.X, st)
		case *ssa.Convert:
			return eval(x.X, st)
		case *ssa.MakeSlice:
			if n, ok := smallConst(x.Len); ok && n == 0 {
				return gvalR3c15{kind: gvEmpty}
			}
		case *ssa.Slice:
			// []string{}: a slice of a fresh zero-length array
			if a, ok := x.X.(*ssa.Alloc); ok {
				if pt, ok := a.Type().Underlying().(*types.Pointer); ok {
					if at, ok := pt.Elem().Underlying().(*types.Array); ok && at.Len() == 0 {
						return gvalR3c15{kind: gvEmpty}
					}
				}
			}
			base := eval(x.X, st)
			if x.High != nil || x.Max != nil {
				return gvalR3c15{}
			}
			lowN := int64(0)
			if x.Low != nil {
				n, ok := smallConst(x.Low)
				if !ok {
					return gvalR3c15{}
				}
				lowN = n
			}
			switch {
			case lowN == 0:
				return base
			case lowN == 1 && base.kind == gvWhole:
				return gvalR3c15{kind: gvGroups, k: base.k}
			case base.kind == gvEmpty:
				return base
			}
		case *ssa.UnOp:
			if x.Op == token.NOT {
				g := eval(x.X, st)
				switch g.kind {
				case gvBool:
					return gvalR3c15{kind: gvBool, b: !g.b}
				case gvEq:
					return gvalR3c15{kind: gvNeq}
				case gvNeq:
					return gvalR3c15{kind: gvEq}
				}
				return gvalR3c15{}
			}
			if x.Op == token.MUL {
				if a, ok := x.X.(*ssa.Alloc); ok {
					if sv := singleStore(a); sv != nil {
						return eval(sv, st)
					}
				}
			}
		case *ssa.BinOp:
			// a comparison of a length whose outcome the path already determines
			if k, op, n, ok := e.lenCmp(x, eval, st); ok {
				t := restrictLenR3c15(st, k, op, n, true).feasible()
				f := restrictLenR3c15(st, k, op, n, false).feasible()
				if t != f {
					return gvalR3c15{kind: gvBool, b: t}
				}
			}
		}
		return gvalR3c15{}
	}

	renders := func(g gvalR3c15, k int, st gstateR3c15) bool {
		return (g.kind == gvGroups && g.k == k) || (g.kind == gvEmpty && st.noGroups(k))
	}

	var walk func(b *ssa.BasicBlock, from int, st gstateR3c15)
	branch := func(b *ssa.BasicBlock, ifi *ssa.If, st gstateR3c15) {
		follow := func(k int, st gstateR3c15, lit string) {
			if !st.feasible() {
				return
			}
			s := b.Succs[k]
			// bind the phis of the successor for this edge
			saved := map[ssa.Value]gvalR3c15{}
			had := map[ssa.Value]bool{}
			for pi, p := range s.Preds {
				if p != b {
					continue
				}
				next := map[ssa.Value]gvalR3c15{}
				for _, ins := range s.Instrs {
					ph, ok := ins.(*ssa.Phi)
					if !ok {
						break
					}
					saved[ph], had[ph] = env[ph], false
					if _, ok := env[ph]; ok {
						had[ph] = true
					}
					next[ph] = eval(ph.Edges[pi], st) // parallel assignment
				}
				for ph, g := range next {
					env[ph] = g
				}
				break
			}
			if lit != "" {
				lits = append(lits, lit)
			}
			walk(s, 0, st)
			if lit != "" {
				lits = lits[:len(lits)-1]
			}
			for ph, g := range saved {
				if had[ph] {
					env[ph] = g
				} else {
					delete(env, ph)
				}
			}
		}
		if ifi == nil {
			for k := range b.Succs {
				follow(k, st, "")
			}
			return
		}
		cond := ifi.Cond
		neg := false
		for {
			u, ok := cond.(*ssa.UnOp)
			if !ok || u.Op != token.NOT {
				break
			}
			cond, neg = u.X, !neg
		}
		litT, litF := litOf(ifi.Cond, true).String(), litOf(ifi.Cond, false).String()
		g := eval(cond, st)
		if neg {
			switch g.kind {
			case gvBool:
				g.b = !g.b
			case gvEq:
				g.kind = gvNeq
			case gvNeq:
				g.kind = gvEq
			}
		}
		switch g.kind {
		case gvBool:
			if g.b {
				follow(0, st, "")
			} else {
				follow(1, st, "")
			}
			return
		case gvEq, gvNeq:
			for k := 0; k < 2; k++ {
				s2 := st
				want := 1 // groups equal
				if (g.kind == gvEq) != (k == 0) {
					want = 2
				}
				if s2.eq != 0 && s2.eq != want {
					continue
				}
				s2.eq = want
				follow(k, s2, []string{litT, litF}[k])
			}
			return
		}
		if bo, ok := cond.(*ssa.BinOp); ok {
			if k, op, n, ok := e.lenCmp(bo, eval, st); ok {
				follow(0, restrictLenR3c15(st, k, op, n, !neg), litT)
				follow(1, restrictLenR3c15(st, k, op, n, neg), litF)
				return
			}
			// m == nil / m != nil
			if bo.Op == token.EQL || bo.Op == token.NEQ {
				for _, pr := range [][2]ssa.Value{{bo.X, bo.Y}, {bo.Y, bo.X}} {
					a, z := eval(pr[0], st), pr[1]
					if a.kind == gvWhole && isNilConst(z) {
						isNilOn := 0
						if (bo.Op == token.NEQ) != neg {
							isNilOn = 1
						}
						for k := 0; k < 2; k++ {
							s2 := st
							if k == isNilOn {
								s2 = restrictLenR3c15(s2, a.k, token.EQL, 0, true)
							}
							follow(k, s2, []string{litT, litF}[k])
						}
						return
					}
				}
			}
		}
		follow(0, st, litT)
		follow(1, st, litF)
	}

	walk = func(b *ssa.BasicBlock, from int, st gstateR3c15) {
		if e.over {
			return
		}
		if from == 0 {
			if onPath[b] {
				outs = append(outs, goutR3c15{st: st, lits: append([]string(nil), lits...), pos: fn.Pos(), note: "loop: the comparison is not of a shape this rule can decide"})
				return
			}
			onPath[b] = true
			defer delete(onPath, b)
		}
		for i := from; i < len(b.Instrs); i++ {
			switch x := b.Instrs[i].(type) {
			case *ssa.Call:
				cc := &x.Call
				name := calleeName(cc)
				delete(env, x) // the value computed on a previously explored path does not carry over
				switch {
				case name == "len" && len(cc.Args) == 1:
					if a := eval(cc.Args[0], st); a.kind == gvWhole {
						env[x] = gvalR3c15{kind: gvLen, k: a.k}
					} else if a.kind == gvEmpty {
						env[x] = gvalR3c15{kind: gvInt, n: 0}
					}
				case strings.HasPrefix(name, "slices.Equal[") && len(cc.Args) == 2:
					a, c := eval(cc.Args[0], st), eval(cc.Args[1], st)
					if (renders(a, 0, st) && renders(c, 1, st)) || (renders(a, 1, st) && renders(c, 0, st)) {
						env[x] = gvalR3c15{kind: gvEq}
					}
				default:
					h := cc.StaticCallee()
					if h != nil && h.Blocks != nil && inModule(h) && depth < 3 && !cc.IsInvoke() {
						var hargs []gvalR3c15
						for _, a := range cc.Args {
							hargs = append(hargs, eval(a, st))
						}
						sub := e.run(h, hargs, st, depth+1)
						for _, o := range sub {
							if o.note != "" {
								outs = append(outs, o)
								continue
							}
							old, had := env[x]
							env[x] = o.ret
							lits = append(lits, o.lits...)
							walk(b, i+1, o.st)
							lits = lits[:len(lits)-len(o.lits)]
							if had {
								env[x] = old
							} else {
								delete(env, x)
							}
						}
						return
					}
				}
			case *ssa.Return:
				e.paths++
				if e.paths > e.cap {
					e.over = true
					return
				}
				var rv gvalR3c15
				if len(x.Results) > 0 {
					rv = eval(retVal(x, 0), st)
				}
				outs = append(outs, goutR3c15{st: st, ret: rv, lits: append([]string(nil), lits...), pos: posOf(x, fn)})
				return
			case *ssa.If:
				branch(b, x, st)
				return
			case *ssa.Jump:
				branch(b, nil, st)
				return
			case *ssa.Panic:
				return
			}
		}
	}
	walk(fn.Blocks[0], 0, st)
	return outs
}

// lenCmp recognises `len($k) OP n` (either operand order).
func (e *gevalR3c15) lenCmp(bo *ssa.BinOp, eval func(ssa.Value, gstateR3c15) gvalR3c15, st gstateR3c15) (k int, op token.Token, n int64, ok bool) {
	switch bo.Op {
	case token.LSS, token.LEQ, token.GTR, token.GEQ, token.EQL, token.NEQ:
	default:
		return 0, 0, 0, false
	}
	a, b := eval(bo.X, st), eval(bo.Y, st)
	if a.kind == gvLen && b.kind == gvInt {
		return a.k, bo.Op, b.n, true
	}
	if b.kind == gvLen && a.kind == gvInt {
		return b.k, flipOpR3c15(bo.Op), a.n, true
	}
	return 0, 0, 0, false
}

// c15GroupsEqual: rule C15.groups_equal on core.captureGroupsEqual and on its
// use in pathManager.doReloadConf (fd0 = description of the FindPathConf call).
func c15GroupsEqual(c *Ctx, p *Prog, rc *ssa.Function, fd0 string) {
	ge := c.fn(p, "internal/core", "", "captureGroupsEqual")
	if ge == nil {
		return
	}
	key := fnName(ge) + ": "
	if len(ge.Params) != 2 {
		c.Check("C15.groups_equal", key+"takes the old and the new match list", false, p.Pos(ge.Pos()), "")
		return
	}
	ev := &gevalR3c15{cap: 512}
	outs := ev.run(ge, []gvalR3c15{{kind: gvWhole, k: 0}, {kind: gvWhole, k: 1}}, gstateR3c15{hi: [2]int64{-1, -1}}, 0)
	if ev.over {
		c.Undecided("C15.groups_equal: path cap exceeded in " + fnName(ge))
		return
	}
	var badTrue, badFalse, badOther []string
	var posTrue, posFalse, posOther token.Pos
	nCompared := 0
	for _, o := range outs {
		where := "returns at " + p.Pos(o.pos) + " under [" + strings.Join(o.lits, " ∧ ") + "] knowing " + o.st.String()
		switch {
		case o.note != "":
			badOther, posOther = append(badOther, o.note+" ("+where+")"), o.pos
		case o.ret.kind == gvEq:
			nCompared++
		case o.ret.kind == gvBool && o.ret.b:
			if o.st.eq == 1 {
				nCompared++
			}
			if o.st.eq == 1 || (o.st.noGroups(0) && o.st.noGroups(1)) {
				continue
			}
			badTrue, posTrue = append(badTrue, "true "+where+": an input where one side has groups and the other has none, or where the groups differ, takes this path"), o.pos
		case o.ret.kind == gvBool && !o.ret.b:
			if o.st.eq == 2 || (o.st.noGroups(0) && o.st.hasGroups(1)) || (o.st.hasGroups(0) && o.st.noGroups(1)) {
				continue
			}
			badFalse, posFalse = append(badFalse, "false "+where+": an input with equal groups takes this path (the path would be recreated on every reload)"), o.pos
		default:
			badOther, posOther = append(badOther, "the value "+where+" is not slices.Equal over the groups ($k[1:], or empty where len($k) <= 1) of the two arguments"), o.pos
		}
	}
	c.Count("groups_equal_paths", len(outs))
	first := func(s []string) string {
		if len(s) == 0 {
			return ""
		}
		return s[0]
	}
	posOr := func(ps token.Pos) string {
		if ps.IsValid() {
			return p.Pos(ps)
		}
		return p.Pos(ge.Pos())
	}
	c.Check("C15.groups_equal", key+"answers true only when both match lists have no capture groups (len <= 1) or their groups were compared equal", len(badTrue) == 0 && len(outs) > 0, posOr(posTrue),
		first(badTrue)+" - a live path would be hot-reloaded into a configuration that yields other groups and keep the old G1.. (hooks, source URLs)")
	c.Check("C15.groups_equal", key+"answers false only when exactly one side has capture groups or the groups were compared different", len(badFalse) == 0 && len(outs) > 0, posOr(posFalse), first(badFalse))
	c.Check("C15.groups_equal", key+"every other answer is slices.Equal over the groups of the first and of the second argument", len(badOther) == 0 && len(outs) > 0, posOr(posOther), first(badOther))
	c.Check("C15.groups_equal", key+"the groups are compared when both sides have some", nCompared > 0, p.Pos(ge.Pos()), fmt.Sprintf("%d paths, none returns the comparison of the groups", len(outs)))

	// ---- the use in doReloadConf
	if rc == nil {
		return
	}
	cl := uniqueCall(rc, "core.captureGroupsEqual")
	rk := fnName(rc) + ": "
	if cl == nil {
		c.Check("C15.groups_equal.use", rk+"compares the groups of each live path with the newly resolved ones through captureGroupsEqual (exactly one call)", false, p.Pos(rc.Pos()), fmt.Sprintf("%d calls", len(callsIn(rc, "core.captureGroupsEqual"))))
		return
	}
	args := callCommon(cl).Args
	want := map[string]bool{"next(range($0.paths))#2.matches": true, fd0 + "#1": true}
	okArgs := len(args) == 2 && want[desc(args[0])] && want[desc(args[1])] && desc(args[0]) != desc(args[1])
	c.Check("C15.groups_equal.use", rk+"captureGroupsEqual is given the groups the live path runs with (pa.matches) and the ones FindPathConf selected for its name", okArgs, p.Pos(cl.Pos()), desc(cl.(ssa.Value)))
	atom := desc(cl.(ssa.Value))
	isClose := callTo("(*core.pathManager).doClosePath")
	isGoReload := func(i ssa.Instruction) bool {
		g, ok := i.(*ssa.Go)
		return ok && calleeName(&g.Call) == "(*core.path).reloadConf"
	}
	if countTargets(rc, isGoReload) > 0 {
		c.MustPass(p, rc, "C15.groups_equal.use", "go pa.reloadConf(newPathConf)", isGoReload, T(atom))
	}
	if succOnLit(rc, atom, false) == nil {
		c.Check("C15.groups_equal.use", rk+"a live path whose capture groups changed is closed before the next path is examined", false, p.Pos(cl.Pos()), "the result of captureGroupsEqual is not branched on")
		return
	}
	w := (&Walker{Visit: func(i ssa.Instruction) int {
		if isClose(i) {
			return wStop
		}
		if n, ok := i.(*ssa.Next); ok && strings.Contains(desc(n), "$0.paths") {
			return wHit
		}
		if _, ok := i.(*ssa.Return); ok {
			return wHit
		}
		return wContinue
	}}).Run(Point{succOnLit(rc, atom, false), 0})
	c.Check("C15.groups_equal.use", rk+"a live path whose capture groups changed is closed before the next path is examined", w == nil, p.Pos(cl.Pos()), w.String(p))
}
