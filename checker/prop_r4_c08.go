package main

// C08 (round 4) - validation is idempotent over what it fills in.
//
// What the Control API returns is the VALIDATED configuration (Conf.Validate and
// the validate methods it reaches run on every load and on every edit, and they
// write into the configuration: defaults, migrations of deprecated parameters,
// derived values). Writing that document back decodes it and validates it
// again. So for every value a validation function stores into a json-visible
// field, the same function - run again on the state it produced - must not
// reject that value; otherwise read -> write-back is refused (and, because list
// elements are shared between a configuration and its clones, so is every later
// edit of a configuration that contains the element).
//
//	validate_idempotent  for every function f reachable from (*Conf).Validate in
//	    package conf with a pointer receiver and an error result, and every
//	    store  recv.F = k  of a constant into a json-visible field in f (new
//	    helpers inlined). What is known about the input whenever the store runs:
//	    D = the branch literals that dominate the store, and, for every
//	    expression A the function compares with constants (`switch t.Codec`),
//	    the constants A can equal on a path to the store (one scenario per
//	    combination). A second run of f is then examined per scenario: (1) a test
//	    of recv.F against a constant (==, <, len, truth value) is reachable from
//	    the entry with every test of F evaluated for F = k, D and the scenario
//	    respected, other tests free, F not stored again on the way; (2) from the
//	    branch that test takes for F = k, following ONLY tests whose outcome is
//	    known (F = k, D, scenario), no error return is reachable. An error return
//	    reached that way is decided by the value validation itself stored.
//
// Decided only for constant stores and for tests of the field against
// constants in the same function (helpers inlined); values computed at run time,
// and rejections that also depend on tests the rule cannot evaluate, are not
// decided (the walk of step 2 stops there: no alarm).
//
// Seeded change C08_r4: AlwaysAvailableTrack.validate filled SampleRate = 48000 /
// ChannelCount = 2 for Opus below the test that rejects a non-zero sampleRate /
// channelCount for that codec.

import (
	"fmt"
	"go/constant"
	"go/token"
	"go/types"
	"sort"
	"strconv"
	"strings"

	"golang.org/x/tools/go/ssa"
)

func init() {
	addMutants(
		Mutant{"C08", "opus-track-filled-with-rejected-sample-rate", "internal/conf/always_available_track.go",
			"			return fmt.Errorf(\"channelCount must not be specified for codec '%s'\", t.Codec)\n		}\n",
			"			return fmt.Errorf(\"channelCount must not be specified for codec '%s'\", t.Codec)\n		}\n		if t.Codec == CodecOpus {\n			t.SampleRate = 48000\n		}\n", "C08.validate_idempotent"},
		Mutant{"C08", "g711-track-normalised-below-its-own-minimum", "internal/conf/always_available_track.go",
			"	case CodecG711, CodecLPCM:\n		if t.SampleRate == 0 {\n",
			"	case CodecG711, CodecLPCM:\n		if t.Codec == CodecG711 && t.MULaw && t.SampleRate == 8000 {\n			t.SampleRate = 0 // 8 kHz is the mu-law default\n			return nil\n		}\n		if t.SampleRate == 0 {\n", "C08.validate_idempotent"},
	)
}

// constOfAtomR4c08 parses the rendering of a constant operand in an atom.
func constOfAtomR4c08(s string) (constant.Value, bool) {
	if s == "nil" {
		return nil, false
	}
	if s == "true" || s == "false" {
		return constant.MakeBool(s == "true"), true
	}
	if strings.HasPrefix(s, `"`) {
		if u, err := strconv.Unquote(s); err == nil {
			return constant.MakeString(u), true
		}
		return nil, false
	}
	if v := constant.MakeFromLiteral(s, token.INT, 0); v.Kind() == constant.Int {
		return v, true
	}
	if v := constant.MakeFromLiteral(s, token.FLOAT, 0); v.Kind() == constant.Float {
		return v, true
	}
	if i := strings.Index(s, "/"); i > 0 { // exact rationals: 1/2
		a := constant.MakeFromLiteral(s[:i], token.INT, 0)
		b := constant.MakeFromLiteral(s[i+1:], token.INT, 0)
		if a.Kind() == constant.Int && b.Kind() == constant.Int && constant.Sign(b) != 0 {
			return constant.BinaryOp(constant.ToFloat(a), token.QUO, constant.ToFloat(b)), true
		}
	}
	return nil, false
}

// splitAtomR4c08: "(L op R)" with op in {==, <}.
func splitAtomR4c08(atom string) (l, op, r string, ok bool) {
	if !strings.HasPrefix(atom, "(") || !strings.HasSuffix(atom, ")") {
		return
	}
	in := atom[1 : len(atom)-1]
	depth := 0
	inStr := false
	for i := 0; i < len(in); i++ {
		ch := in[i]
		switch {
		case inStr:
			if ch == '\\' {
				i++
			} else if ch == '"' {
				inStr = false
			}
		case ch == '"':
			inStr = true
		case ch == '(' || ch == '[':
			depth++
		case ch == ')' || ch == ']':
			depth--
		case depth == 0 && ch == ' ':
			for _, o := range []string{"==", "<"} {
				if strings.HasPrefix(in[i+1:], o+" ") {
					return in[:i], o, in[i+len(o)+2:], true
				}
			}
		}
	}
	return
}

func compatKindsR4c08(a, b constant.Value) (constant.Value, constant.Value, bool) {
	if a == nil || b == nil {
		return a, b, false
	}
	num := func(v constant.Value) bool { return v.Kind() == constant.Int || v.Kind() == constant.Float }
	if num(a) && num(b) {
		return constant.ToFloat(a), constant.ToFloat(b), true
	}
	return a, b, a.Kind() == b.Kind() && (a.Kind() == constant.String || a.Kind() == constant.Bool)
}

// evalWithFieldR4c08 evaluates an atom under "the value described by fld is k".
func evalWithFieldR4c08(atom, fld string, k constant.Value) (val, known bool) {
	if atom == fld && k.Kind() == constant.Bool {
		return constant.BoolVal(k), true
	}
	l, op, r, ok := splitAtomR4c08(atom)
	if !ok {
		return false, false
	}
	subst := func(s string) (constant.Value, bool) {
		switch {
		case s == fld:
			return k, true
		case s == "len("+fld+")" && k.Kind() == constant.String:
			return constant.MakeInt64(int64(len(constant.StringVal(k)))), true
		}
		return nil, false
	}
	lv, lf := subst(l)
	rv, rf := subst(r)
	if lf == rf {
		return false, false // the field is on neither side (or on both)
	}
	if !lf {
		if lv, ok = constOfAtomR4c08(l); !ok {
			return false, false
		}
	}
	if !rf {
		if rv, ok = constOfAtomR4c08(r); !ok {
			return false, false
		}
	}
	a, b, ok := compatKindsR4c08(lv, rv)
	if !ok {
		return false, false
	}
	t := token.EQL
	if op == "<" {
		if a.Kind() == constant.Bool {
			return false, false
		}
		t = token.LSS
	}
	return constant.Compare(a, t, b), true
}

// jsonVisibleAddrR4c08: addr is recv.F1.F2... through json-visible struct fields only.
func jsonVisibleAddrR4c08(addr ssa.Value) bool {
	n := 0
	for {
		switch x := addr.(type) {
		case *ssa.FieldAddr:
			pt, ok := x.X.Type().Underlying().(*types.Pointer)
			if !ok {
				return false
			}
			st, ok := pt.Elem().Underlying().(*types.Struct)
			if !ok {
				return false
			}
			if _, _, hidden := jsonTag(st.Tag(x.Field)); hidden || !st.Field(x.Field).Exported() {
				return false
			}
			n++
			addr = x.X
		case *ssa.Parameter, *ssa.UnOp, *ssa.Call, *ssa.Phi:
			return n > 0
		default:
			return n > 0
		}
	}
}

func c08ValidateIdempotentR4(c *Ctx, p *Prog) {
	const rule = "C08.validate_idempotent"
	val := c.fn(p, "internal/conf", "Conf", "Validate")
	if val == nil {
		return
	}
	confPkg := pkgPath("internal/conf")
	var fns []*ssa.Function
	for _, f := range staticReach([]*ssa.Function{val}) {
		if funcPkgPath(f) != confPkg || f.Parent() != nil || isNewHelper(f) || f.Signature.Recv() == nil {
			continue
		}
		if _, ok := f.Signature.Recv().Type().(*types.Pointer); !ok {
			continue
		}
		res := f.Signature.Results()
		if res.Len() == 0 || typeStr(res.At(res.Len()-1).Type()) != "error" {
			continue
		}
		fns = append(fns, f)
	}
	sort.Slice(fns, func(i, j int) bool { return fnName(fns[i]) < fnName(fns[j]) })
	c.Floor(rule+".functions", len(fns), 3)
	nStores := 0
	for _, f := range fns {
		errIdx := f.Signature.Results().Len() - 1
		isErrRet := retNotNil(errIdx)
		type cst struct {
			st  *ssa.Store
			fld string
			k   constant.Value
		}
		var stores []cst
		stored := map[string]bool{}
		eachInstr(f, func(i ssa.Instruction) {
			st, ok := i.(*ssa.Store)
			if !ok {
				return
			}
			if _, isFA := st.Addr.(*ssa.FieldAddr); !isFA {
				return
			}
			d := desc(st.Addr)
			if !strings.HasPrefix(d, "$0.") {
				return
			}
			stored[d] = true
			k, isC := stripConv(st.Val).(*ssa.Const)
			if !isC || k.Value == nil || !jsonVisibleAddrR4c08(st.Addr) {
				return
			}
			switch k.Value.Kind() {
			case constant.Int, constant.Float, constant.String, constant.Bool:
				stores = append(stores, cst{st, d, k.Value})
			}
		})
		if len(stores) == 0 {
			continue
		}
		c.Analysed(fnName(f))
		done := map[string]bool{}
		for _, s := range stores {
			key := fmt.Sprintf("%s: the value %s it stores into %s is accepted when the function validates its own result again", fnName(f), s.k.ExactString(), strings.TrimPrefix(s.fld, "$0."))
			if done[key] {
				continue
			}
			done[key] = true
			nStores++
			target := func(i ssa.Instruction) bool { return i == ssa.Instruction(s.st) }
			unstable := func(atom string) bool {
				// atoms over fields the function itself rewrites say nothing about the second run
				for sd := range stored {
					if strings.Contains(atom, sd) {
						return true
					}
				}
				return false
			}
			// D: literals on one path to the store that every path to the store carries
			w0 := reachWithout(entry(f), target, nil)
			if w0 == nil {
				continue // unreachable store
			}
			dom := map[string]bool{} // atom -> polarity
			for _, l := range w0.Lits {
				if _, seen := dom[l.Atom]; seen || unstable(l.Atom) {
					continue
				}
				if reachWithout(entry(f), target, []LitPat{{l.Atom, l.Pos}}) == nil {
					dom[l.Atom] = l.Pos
				}
			}
			// discriminants: expressions A the function compares with constants (switch t.Codec ...).
			// possible[A] = the constants A may equal (or "none of them") on a path to the store.
			type discr struct {
				a      string
				consts []constant.Value
			}
			eqOf := func(atom string) (string, constant.Value, bool) {
				x, op, y, ok := splitAtomR4c08(atom)
				if !ok || op != "==" {
					return "", nil, false
				}
				if cv, isC := constOfAtomR4c08(y); isC {
					if _, alsoC := constOfAtomR4c08(x); !alsoC {
						return x, cv, true
					}
				} else if cv, isC := constOfAtomR4c08(x); isC {
					return y, cv, true
				}
				return "", nil, false
			}
			same := func(x, y constant.Value) bool {
				u, v, ok := compatKindsR4c08(x, y)
				return ok && constant.Compare(u, token.EQL, v)
			}
			dix := map[string]*discr{}
			var dorder []string
			eachInstr(f, func(i ssa.Instruction) {
				ifi, ok := i.(*ssa.If)
				if !ok {
					return
				}
				atom := litOf(ifi.Cond, true).Atom
				a, cv, ok := eqOf(atom)
				if !ok || unstable(atom) || a == s.fld || a == "len("+s.fld+")" {
					return
				}
				d := dix[a]
				if d == nil {
					d = &discr{a: a}
					dix[a] = d
					dorder = append(dorder, a)
				}
				for _, o := range d.consts {
					if same(o, cv) {
						return
					}
				}
				d.consts = append(d.consts, cv)
			})
			sort.Strings(dorder)
			// scenario: discriminant -> index into consts, or -1 for "none of them"
			type scen map[string]int
			scenarios := []scen{{}}
			for _, a := range dorder {
				d := dix[a]
				var poss []int
				for ci := -1; ci < len(d.consts); ci++ {
					cc := ci
					w := (&Walker{
						Visit: func(i ssa.Instruction) int {
							if target(i) {
								return wHit
							}
							return wContinue
						},
						Edge: func(l Lit) bool {
							if x, cv, ok := eqOf(l.Atom); ok && x == d.a {
								return l.Pos == (cc >= 0 && same(cv, d.consts[cc]))
							}
							return true
						},
					}).Run(entry(f))
					if w != nil {
						poss = append(poss, ci)
					}
				}
				if len(poss) == len(d.consts)+1 || len(poss) == 0 {
					continue // the store does not depend on this discriminant
				}
				if len(scenarios)*len(poss) > 64 {
					continue // left free (over-approximation)
				}
				var next []scen
				for _, sc := range scenarios {
					for _, ci := range poss {
						n := scen{}
						for k2, v2 := range sc {
							n[k2] = v2
						}
						n[a] = ci
						next = append(next, n)
					}
				}
				scenarios = next
			}
			fld, k := s.fld, s.k
			overwritten := func(i ssa.Instruction) bool {
				st, ok := i.(*ssa.Store)
				return ok && desc(st.Addr) == fld
			}
			// the tests of the stored field
			var tests []*ssa.If
			eachInstr(f, func(i ssa.Instruction) {
				if ifi, ok := i.(*ssa.If); ok {
					if _, known := evalWithFieldR4c08(litOf(ifi.Cond, true).Atom, fld, k); known {
						tests = append(tests, ifi)
					}
				}
			})
			var w *Witness
			scenText := ""
			for _, sc := range scenarios {
				sc := sc
				// decided: the outcome of a test in the second run, when it is known
				decided := func(l Lit) (follow, known bool) {
					if v, ok := evalWithFieldR4c08(l.Atom, fld, k); ok {
						return v == l.Pos, true
					}
					if pol, ok := dom[l.Atom]; ok {
						return pol == l.Pos, true
					}
					if x, cv, ok := eqOf(l.Atom); ok {
						if ci, has := sc[x]; has {
							return l.Pos == (ci >= 0 && same(cv, dix[x].consts[ci])), true
						}
					}
					return true, false
				}
				for _, t := range tests {
					tt := t
					// phase 1: the second run reaches the test (other tests free; D, the scenario and F = k respected)
					w1 := (&Walker{
						Visit: func(i ssa.Instruction) int {
							if overwritten(i) {
								return wStop // the second run overwrites the value: nothing is known any more
							}
							if i == ssa.Instruction(tt) {
								return wHit
							}
							return wContinue
						},
						Edge: func(l Lit) bool { follow, _ := decided(l); return follow },
					}).Run(entry(f))
					if w1 == nil {
						continue
					}
					// phase 2: from the branch F = k takes, following only tests whose outcome is
					// known, an error return is reached: the error is decided by the stored value
					lt := litOf(tt.Cond, true)
					v, _ := evalWithFieldR4c08(lt.Atom, fld, k)
					condTrue := v == lt.Pos
					succ := tt.Block().Succs[0]
					if !condTrue {
						succ = tt.Block().Succs[1]
					}
					w2 := (&Walker{
						Visit: func(i ssa.Instruction) int {
							if overwritten(i) {
								return wStop
							}
							if isErrRet(i) {
								return wHit
							}
							return wContinue
						},
						Edge: func(l Lit) bool { follow, known := decided(l); return known && follow },
					}).Run(Point{succ, 0})
					if w2 != nil {
						w = w2
						w.Lits = append(append(append([]Lit{}, w1.Lits...), litOf(tt.Cond, condTrue)), w2.Lits...)
						w.Blocks = append(append([]*ssa.BasicBlock{}, w1.Blocks...), w2.Blocks...)
						break
					}
				}
				if w != nil {
					var parts []string
					for x, ci := range sc {
						if ci < 0 {
							parts = append(parts, x+" = none of the tested constants")
						} else {
							parts = append(parts, x+" = "+dix[x].consts[ci].ExactString())
						}
					}
					sort.Strings(parts)
					scenText = strings.Join(parts, ", ")
					break
				}
			}
			var known []string
			for a, pol := range dom {
				known = append(known, Lit{a, pol}.String())
			}
			sort.Strings(known)
			pos := posOf(s.st, f)
			c.Check(rule, key, w == nil, p.Pos(pos),
				fmt.Sprintf("the API returns the validated value; decoding it and validating again (write-back, or any later edit of a configuration sharing the element) runs this function with %s = %s, %s and [%s]: %s", strings.TrimPrefix(fld, "$0."), k.ExactString(), scenText, strings.Join(known, " ∧ "), w.String(p)))
		}
	}
	c.Count("validate_constant_stores", nStores)
}
