package main

// C11 (round 3) - a Clone method is deepClone of the WHOLE receiver and nothing
// else. The type-graph walk proves that deepClone copies every reachable kind
// deeply; that only carries over to Conf.Clone / Path.Clone when (a) no field of
// the receiver copy is masked before it is handed to deepClone and (b) no field
// of the result is (re)assigned afterwards from anything but a deepClone of the
// receiver's own field, and (c) the method performs no other memory write or
// call through which storage of the original could be attached to the result.
//
// Seeded change C11_r3: Conf.Clone detached conf.Paths before deepClone and set
// cloned.Paths = maps.Clone(paths) - a shallow copy whose *Path entries are the
// objects of the running configuration.

import (
	"fmt"
	"sort"
	"strings"

	"golang.org/x/tools/go/ssa"
)

// allocRootR3c11 follows FieldAddr / IndexAddr chains down to their base; steps
// is the number of selections, field the outermost struct field selected on the base.
func allocRootR3c11(addr ssa.Value) (base ssa.Value, field string, steps int) {
	v := addr
	for {
		switch x := v.(type) {
		case *ssa.FieldAddr:
			field = fieldAddrName(x)
			v = x.X
			steps++
		case *ssa.IndexAddr:
			v = x.X
			steps++
		default:
			return v, field, steps
		}
	}
}

func c11CloneOnlyDeepClone(c *Ctx, p *Prog, recv string, fn *ssa.Function) {
	key := "conf." + recv + ".Clone: "
	if len(fn.Params) == 0 {
		c.Check("C11.clone_method.whole", key+"has a receiver", false, p.Pos(fn.Pos()), "")
		return
	}
	recvParam := fn.Params[0]
	// the spill slot of the (by value) receiver
	isRecvSpill := func(a *ssa.Alloc) bool {
		for _, r := range *a.Referrers() {
			if st, ok := r.(*ssa.Store); ok && st.Addr == ssa.Value(a) && st.Val == ssa.Value(recvParam) {
				return true
			}
		}
		return false
	}
	allowedCall := map[string]bool{
		"reflect.ValueOf": true, "conf.deepClone": true, "(reflect.Value).Interface": true,
		"(reflect.Value).Elem": true, "reflect.Indirect": true, "(reflect.Value).Addr": true,
	}
	masked := map[string]bool{}     // receiver fields overwritten before cloning
	assigned := map[string]string{} // result fields assigned after cloning → description of the value
	var bad []string
	badPos := fn.Pos()
	eachInstr(fn, func(i ssa.Instruction) {
		switch x := i.(type) {
		case *ssa.Store:
			base, field, steps := allocRootR3c11(x.Addr)
			a, isAlloc := base.(*ssa.Alloc)
			switch {
			case isAlloc && steps == 0:
				// whole-variable initialisation (receiver spill, `cloned := …`, `*dst = …`)
			case isAlloc && isRecvSpill(a):
				masked[field] = true
				if x.Pos().IsValid() {
					badPos = x.Pos()
				}
			case isAlloc:
				assigned[field] = desc(x.Val)
				if x.Pos().IsValid() {
					badPos = x.Pos()
				}
			default:
				bad = append(bad, "store through "+desc(x.Addr)+" at "+p.Pos(x.Pos())+" (memory that is not a local of Clone)")
			}
		case *ssa.MapUpdate:
			bad = append(bad, "map update "+desc(x.Map)+"[…] = "+desc(x.Value)+" at "+p.Pos(x.Pos())+": entries are attached to the result outside deepClone")
		case *ssa.Call, *ssa.Go, *ssa.Defer:
			cc := callCommon(i)
			name := calleeName(cc)
			if b, ok := cc.Value.(*ssa.Builtin); ok && (b.Name() == "len" || b.Name() == "cap") {
				return
			}
			if _, isCall := i.(*ssa.Call); isCall && newHelperCallee(i) != nil {
				return // a new helper: its body is examined in place (eachInstr), the call itself adds nothing
			}
			if !allowedCall[name] {
				bad = append(bad, "call of "+name+" at "+p.Pos(i.Pos())+": only reflect.ValueOf → deepClone → Interface may produce the result")
			}
		case *ssa.Send:
			bad = append(bad, "send at "+p.Pos(x.Pos()))
		}
	})
	deepOf := func(f string) string {
		return "(reflect.Value).Interface(conf.deepClone(reflect.ValueOf($0." + f + "))).("
	}
	var fields []string
	for f := range masked {
		fields = append(fields, f)
	}
	for f := range assigned {
		if !masked[f] {
			fields = append(fields, f)
		}
	}
	sort.Strings(fields)
	for _, f := range fields {
		got, isAssigned := assigned[f]
		switch {
		case masked[f] && !isAssigned:
			bad = append(bad, fmt.Sprintf("receiver field %s is overwritten before deepClone and never restored in the result: the clone loses it", f))
		case !strings.HasPrefix(got, deepOf(f)):
			bad = append(bad, fmt.Sprintf("result field %s is assigned %s instead of a deepClone of the receiver's %s: whatever that value references (map entries, list items, optional values) is shared with the original", f, got, f))
		}
	}
	c.Check("C11.clone_method.whole", key+"the result is deepClone of the unmodified receiver - no field is masked before or assigned after it, no other write or call", len(bad) == 0, p.Pos(badPos), strings.Join(bad, "; "))
}
