package main

import (
	"go/token"

	"golang.org/x/tools/go/ssa"
)

// C37: the write sequence of the structured arm is read THROUGH new helpers.
//
// The C37 rules decide the record from the ordered list of writes into the
// destination's scratch buffer on every path of the structured arm. Which
// function a write statement sits in is irrelevant to the bytes that reach the
// sink: a call to a new helper (inline.go: a function that is not in the
// baseline tree and is only ever called statically) stands for the statements
// of its body with its parameters replaced by the arguments of that call. So
//
//   - c37EventAlts replaces, in a path, every call to a new helper by each
//     acyclic entry-to-return path of the helper (cross product, capped), and
//     classifies the helper's instructions while the helper is bound to that
//     call (descBind): `buf` inside writeStructured(&d.buf, t, level, ...) is
//     described as "$0.buf" of the log method, `t` as "$1" ... A helper that
//     cannot be unfolded into finitely many straight paths (loop, panic exit,
//     defer) is NOT entered: if it can reach the buffer (it is handed the
//     buffer or the destination itself) its call is an unclassified write, as
//     before - a hand-rolled encoder loop is not taken for a JSON encoder.
//   - c37Res resolves an operand to the value it denotes: through loads,
//     conversions, a bound helper parameter (-> the call's argument) and the
//     result of a new helper with a single return (-> the returned value, the
//     helper being bound to that call). "is the record's time / level /
//     format / args" is then desc(operand) == "$1".."$4", the parameters of the
//     log method itself, wherever the operand is spelled.
//
// Both directions of "extract / inline a helper" give the same event list, so
// every downstream rule (skeleton evaluation, newline placement, timestamp,
// level, message, siblings) is unchanged.

// c37Res: see above. May (re)bind helpers in descBind; callers snapshot it.
func c37Res(v ssa.Value) ssa.Value {
	for n := 0; n < 16; n++ {
		v = deref(v)
		switch x := v.(type) {
		case *ssa.Parameter:
			call := descBind[x.Parent()]
			k := paramIndex(x)
			if call == nil || k < 0 || k >= len(call.Call.Args) {
				return v
			}
			v = call.Call.Args[k]
		case *ssa.Call:
			h := newHelperCallee(x)
			if h == nil || h.Signature.Results().Len() != 1 {
				return v
			}
			r := c37SingleReturn(h)
			if r == nil {
				return v
			}
			descBind[h] = x
			v = retVal(r, 0)
		case *ssa.Extract:
			cl, ok := x.Tuple.(*ssa.Call)
			if !ok {
				return v
			}
			h := newHelperCallee(cl)
			if h == nil {
				return v
			}
			r := c37SingleReturn(h)
			if r == nil || x.Index >= len(r.Results) {
				return v
			}
			descBind[h] = cl
			v = retVal(r, x.Index)
		default:
			return v
		}
	}
	return v
}

func c37SingleReturn(h *ssa.Function) *ssa.Return {
	var ret *ssa.Return
	for _, b := range h.Blocks {
		for _, i := range b.Instrs {
			if r, ok := i.(*ssa.Return); ok {
				if ret != nil {
					return nil
				}
				ret = r
			}
		}
	}
	return ret
}

// c37Bound runs f with a private copy of descBind (f may bind helpers).
func c37Bound(f func()) {
	saved := descBind
	descBind = map[*ssa.Function]*ssa.Call{}
	for k, v := range saved {
		descBind[k] = v
	}
	defer func() { descBind = saved }()
	f()
}

// c37HelperPaths: the acyclic instruction sequences from the entry of a new
// helper to its returns. ok=false: a loop, an exit that is not a return, a
// defer, or more than cap paths.
func c37HelperPaths(h *ssa.Function, cap int) (paths [][]ssa.Instruction, ok bool) {
	if len(h.Blocks) == 0 {
		return nil, false
	}
	ok = true
	var cur []ssa.Instruction
	on := map[*ssa.BasicBlock]bool{}
	var rec func(b *ssa.BasicBlock)
	rec = func(b *ssa.BasicBlock) {
		if !ok {
			return
		}
		if on[b] {
			ok = false
			return
		}
		for _, i := range b.Instrs {
			switch i.(type) {
			case *ssa.Defer, *ssa.RunDefers, *ssa.Go, *ssa.Panic:
				ok = false
				return
			}
		}
		n := len(cur)
		cur = append(cur, b.Instrs...)
		if len(b.Succs) == 0 {
			if _, isRet := b.Instrs[len(b.Instrs)-1].(*ssa.Return); !isRet || len(paths) >= cap {
				ok = false
			} else {
				paths = append(paths, append([]ssa.Instruction(nil), cur...))
			}
		} else {
			on[b] = true
			succs := b.Succs
			if only := c37NeverNilBranch(b); only != nil {
				succs = []*ssa.BasicBlock{only}
			}
			for _, s := range succs {
				rec(s)
			}
			on[b] = false
		}
		cur = cur[:n]
	}
	rec(h.Blocks[0])
	return paths, ok && len(paths) > 0
}

// c37NeverNilBranch: the block ends in a test `x == nil` / `x != nil` where x
// is, for the call the helper is bound to, the address of a field or of a local
// (`&d.buf` handed to the helper as `buf`). Such an address is never nil - the
// field address of a nil receiver panics before the call - so only one
// successor is feasible; it is returned (nil: not such a test). Without this
// a defensive `if buf == nil { return }` in a helper would count as a path
// that writes no record.
func c37NeverNilBranch(b *ssa.BasicBlock) *ssa.BasicBlock {
	ifi, ok := b.Instrs[len(b.Instrs)-1].(*ssa.If)
	if !ok || len(b.Succs) != 2 {
		return nil
	}
	bo, ok := ifi.Cond.(*ssa.BinOp)
	if !ok || (bo.Op != token.EQL && bo.Op != token.NEQ) {
		return nil
	}
	x := bo.X
	if isNilConst(x) {
		x = bo.Y
	} else if !isNilConst(bo.Y) {
		return nil
	}
	addr := false
	c37Bound(func() {
		switch c37Res(x).(type) {
		case *ssa.FieldAddr, *ssa.Alloc:
			addr = true
		}
	})
	if !addr {
		return nil
	}
	if bo.Op == token.NEQ {
		return b.Succs[0]
	}
	return b.Succs[1]
}

// c37EventAlts turns one instruction path into the alternative event lists it
// stands for once the new helpers it calls are unfolded. ok=false: more than
// cap alternatives.
func (c *Ctx) c37EventAlts(path []ssa.Instruction, cap, depth int) (alts [][]c37ev, ok bool) {
	alts = [][]c37ev{nil}
	for _, i := range path {
		if h := newHelperCallee(i); h != nil && depth < 4 {
			call := i.(*ssa.Call)
			var hp [][]ssa.Instruction
			hok := false
			c37Bound(func() {
				descBind[h] = call
				hp, hok = c37HelperPaths(h, cap)
			})
			if hok {
				var sub [][]c37ev
				subOK := true
				c37Bound(func() {
					descBind[h] = call
					for _, p := range hp {
						s, sok := c.c37EventAlts(p, cap, depth+1)
						if !sok {
							subOK = false
							return
						}
						sub = append(sub, s...)
					}
				})
				if !subOK || len(alts)*len(sub) > cap {
					return nil, false
				}
				var next [][]c37ev
				for _, a := range alts {
					for _, s := range sub {
						next = append(next, append(append([]c37ev(nil), a...), s...))
					}
				}
				alts = next
				continue
			}
		}
		var ev c37ev
		isEv := false
		c37Bound(func() { ev, isEv = c.c37Event(i) })
		if isEv {
			for k := range alts {
				alts[k] = append(append([]c37ev(nil), alts[k]...), ev)
			}
		}
	}
	return alts, true
}
